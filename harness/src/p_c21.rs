//! C21: one create (create transaction, CREATE / CREATE2 from a factory contract) executed on the
//! real `Evm`, over every database layer that can hold the target's storage.
//! EOFCREATE is not driven (building a valid EOF container + Osaka setup is not cheap); the
//! model covers make_eofcreate_frame's decision part, which has the same order of checks.
use crate::util::*;
use revm::db::{CacheDB, EmptyDB, State as BlockState, WrapDatabaseRef};
use revm::primitives::{
    AccountInfo, Address, Bytecode, Bytes, ExecutionResult, HaltReason, Output, ResultAndState, SpecId, TxKind, B256,
    KECCAK_EMPTY, U256,
};
use revm::{Database, DatabaseCommit, DatabaseRef, Evm};
use std::collections::BTreeMap;
use std::convert::Infallible;

#[derive(Clone, Debug, Default)]
struct MapDb { acc: BTreeMap<Address, AccountInfo>, stor: BTreeMap<(Address, U256), U256>, code: BTreeMap<B256, Bytecode> }
impl DatabaseRef for MapDb {
    type Error = Infallible;
    fn basic_ref(&self, a: Address) -> Result<Option<AccountInfo>, Infallible> { Ok(self.acc.get(&a).cloned()) }
    fn code_by_hash_ref(&self, h: B256) -> Result<Bytecode, Infallible> { Ok(self.code.get(&h).cloned().unwrap_or_default()) }
    fn has_storage_ref(&self, a: Address) -> Result<bool, Infallible> { Ok(self.stor.iter().any(|((x, _), v)| *x == a && !v.is_zero())) }
    fn storage_ref(&self, a: Address, k: U256) -> Result<U256, Infallible> { Ok(self.stor.get(&(a, k)).copied().unwrap_or_default()) }
    fn block_hash_ref(&self, _n: u64) -> Result<B256, Infallible> { Ok(B256::ZERO) }
}
impl Database for MapDb {
    type Error = Infallible;
    fn basic(&mut self, a: Address) -> Result<Option<AccountInfo>, Infallible> { self.basic_ref(a) }
    fn code_by_hash(&mut self, h: B256) -> Result<Bytecode, Infallible> { self.code_by_hash_ref(h) }
    fn has_storage(&mut self, a: Address) -> Result<bool, Infallible> { self.has_storage_ref(a) }
    fn storage(&mut self, a: Address, k: U256) -> Result<U256, Infallible> { self.storage_ref(a, k) }
    fn block_hash(&mut self, n: u64) -> Result<B256, Infallible> { self.block_hash_ref(n) }
}

fn zacct(n: u64, b: U256, h: B256) -> String { format!("(mkAcct {} {} {})", zu(n), zw(b), zw(U256::from_be_bytes(h.0))) }

const LAYERS: [&str; 8] = ["direct-custom-DB", "State<DB>", "CacheDB<DB>", "inserted-into-CacheDB<EmptyDB>", "WrapDatabaseRef<DB>",
    "WrapDatabaseRef<CacheDB<DB>>", "State<CacheDB-with-inserts>", "CacheDB<CacheDB-with-inserts>"];

fn run_tx<DB: Database>(db: DB, spec: SpecId, caller: Address, to: TxKind, gas_limit: u64) -> Result<ResultAndState, String> where DB::Error: std::fmt::Debug {
    let mut evm = Evm::builder().with_db(db).with_spec_id(spec).modify_tx_env(|tx| {
        tx.caller = caller; tx.transact_to = to; tx.gas_limit = gas_limit; tx.gas_price = U256::ZERO; tx.value = U256::ZERO; tx.data = Bytes::new();
    }).build();
    evm.transact().map_err(|e| format!("{:?}", e))
}

/// A committed earlier transaction (1 wei sent to the target from a third account) and then the
/// create on the same database: the layer has to keep answering has_storage for an account it has
/// written through (CacheDB AccountState::Touched, State status Changed).
fn run_after_touch<DB: Database + DatabaseCommit>(mut db: DB, spec: SpecId, funder: Address, target: Address, caller: Address, to: TxKind, gas_limit: u64) -> Result<ResultAndState, String> where DB::Error: std::fmt::Debug {
    {
        let mut evm = Evm::builder().with_db(&mut db).with_spec_id(spec).modify_tx_env(|tx| {
            tx.caller = funder; tx.transact_to = TxKind::Call(target); tx.gas_limit = 100_000; tx.gas_price = U256::ZERO; tx.value = U256::from(1); tx.data = Bytes::new();
        }).build();
        let r = evm.transact_commit().map_err(|e| format!("{:?}", e))?;
        if !r.is_success() { return Err(format!("touch transaction failed: {:?}", r)); }
    }
    run_tx(db, spec, caller, to, gas_limit)
}

pub fn run(o: &Opts) {
    let mut rng = Rng::new(o.seed ^ 0xC21);
    let mut w = CaseWriter::new(o, "C21", 200);
    let specs_all = [SpecId::FRONTIER, SpecId::HOMESTEAD, SpecId::TANGERINE, SpecId::SPURIOUS_DRAGON, SpecId::BYZANTIUM, SpecId::PETERSBURG,
        SpecId::ISTANBUL, SpecId::BERLIN, SpecId::LONDON, SpecId::MERGE, SpecId::SHANGHAI, SpecId::CANCUN, SpecId::PRAGUE];
    let rounds = if o.thorough() { 12 } else { 2 };
    for round in 0..rounds {
        for spec in specs_all {
            for kind in 0..3u64 {
                if kind == 1 && !spec.is_enabled_in(SpecId::TANGERINE) { continue; } // before EIP-150 the creator keeps no gas to report with
                if kind == 2 && !spec.is_enabled_in(SpecId::PETERSBURG) { continue; }
                for layer in 0..LAYERS.len() {
                    for tk in 0..8u64 {
                        // target pre-state: 0 empty/missing, 1 code, 2 nonce, 3 storage only, 4 storage + balance, 5 balance only, 6 storage slot holding zero only,
                        // 7 storage held for an address the database has no account info for (basic() = None, has_storage() = true)
                        let eoa = Address::from_slice(&rng.bytes(20));
                        let factory = Address::from_slice(&rng.bytes(20));
                        let creator_nonce = if kind == 0 { rng.below(300) } else { 1 + rng.below(300) };
                        let salt = rng.below(256);
                        // factory code: GAS; [PUSH1 salt;] PUSH1 0; PUSH1 0; PUSH1 0; CREATE/CREATE2; GAS; PUSH1 0x40; MSTORE; PUSH1 0; MSTORE; PUSH1 0x20; MSTORE; PUSH1 0x60; PUSH1 0; RETURN
                        let mut fc = vec![0x5a];
                        if kind == 2 { fc.extend([0x60, salt as u8]); }
                        fc.extend([0x60, 0, 0x60, 0, 0x60, 0, if kind == 2 { 0xf5 } else { 0xf0 }]);
                        fc.extend([0x5a, 0x60, 0x40, 0x52, 0x60, 0x00, 0x52, 0x60, 0x20, 0x52, 0x60, 0x60, 0x60, 0x00, 0xf3]);
                        let fcode = Bytecode::new_raw(Bytes::from(fc));
                        let creator = if kind == 0 { eoa } else { factory };
                        let target = match kind {
                            0 | 1 => creator.create(creator_nonce),
                            _ => creator.create2(U256::from(salt).to_be_bytes::<32>(), KECCAK_EMPTY),
                        };
                        let tcode = Bytecode::new_raw(Bytes::from(vec![0x00, 0x01 + (rng.below(200) as u8)]));
                        let tbal = if tk == 4 || tk == 5 || rng.chance(1, 4) { U256::from(rng.range(1, 1000)) } else { U256::ZERO };
                        let tinfo = match tk {
                            1 => Some(AccountInfo { nonce: 0, balance: tbal, code_hash: tcode.hash_slow(), code: Some(tcode.clone()) }),
                            2 => Some(AccountInfo { nonce: 1 + rng.below(5), balance: tbal, code_hash: KECCAK_EMPTY, code: None }),
                            7 => None,
                            0 => if tbal.is_zero() && rng.chance(1, 2) { None } else { Some(AccountInfo { nonce: 0, balance: tbal, code_hash: KECCAK_EMPTY, code: None }) },
                            _ => Some(AccountInfo { nonce: 0, balance: tbal, code_hash: KECCAK_EMPTY, code: None }),
                        };
                        let slots: Vec<(U256, U256)> = match tk {
                            3 | 4 | 7 => (0..rng.range(1, 3)).map(|_| (rng.u256b(), rng.u256b().max(U256::from(1)))).collect(),
                            6 => vec![(U256::from(1), U256::ZERO)],
                            _ => if tk == 1 && rng.chance(1, 2) { vec![(U256::from(2), U256::from(5))] } else { vec![] },
                        };
                        let has_storage = slots.iter().any(|(_, v)| !v.is_zero());
                        // base data held by the custom DB / inserted into the CacheDB
                        let mut m = MapDb::default();
                        m.acc.insert(eoa, AccountInfo { nonce: if kind == 0 { creator_nonce } else { rng.below(50) }, balance: U256::from(1u64) << 100, code_hash: KECCAK_EMPTY, code: None });
                        if kind != 0 { m.acc.insert(factory, AccountInfo { nonce: creator_nonce, balance: U256::from(777), code_hash: fcode.hash_slow(), code: Some(fcode.clone()) }); m.code.insert(fcode.hash_slow(), fcode.clone()); }
                        // odd rounds: on the layers that can commit, a committed transfer of 1 wei to the target comes first
                        let hist = round % 2 == 1 && matches!(layer, 1 | 2 | 3 | 6 | 7) && tk != 1;
                        let funder = Address::from_slice(&rng.bytes(20));
                        if hist {
                            let fi = AccountInfo { nonce: 0, balance: U256::from(1u64) << 90, code_hash: KECCAK_EMPTY, code: None };
                            m.acc.insert(funder, fi);
                        }
                        let mut m_without_target = m.clone();
                        if let Some(i) = &tinfo { m.acc.insert(target, i.clone()); if tk == 1 { m.code.insert(tcode.hash_slow(), tcode.clone()); m_without_target.code.insert(tcode.hash_slow(), tcode.clone()); } }
                        for (k, v) in &slots { m.stor.insert((target, *k), *v); }
                        let inserted = |under: MapDb| -> CacheDB<MapDb> {
                            // the target (info and storage) is inserted into the CacheDB itself
                            let mut c = CacheDB::new(under);
                            if let Some(i) = &tinfo { c.insert_account_info(target, i.clone()); }
                            if tinfo.is_some() || tk == 7 { for (k, v) in &slots { c.insert_account_storage(target, *k, *v).unwrap(); } }
                            c
                        };
                        let inserted_empty = || -> CacheDB<EmptyDB> {
                            let mut c = CacheDB::new(EmptyDB::default());
                            for (a, i) in &m.acc { c.insert_account_info(*a, i.clone()); }
                            for ((a, k), v) in &m.stor { c.insert_account_storage(*a, *k, *v).unwrap(); }
                            c
                        };
                        if tinfo.is_none() && !slots.is_empty() && tk != 7 { continue; }
                        // storage without account info is an inconsistent database: the caching layers (State, CacheDB over a
                        // database) remember "basic() = None" as "does not exist" and answer "no storage" from that entry without
                        // asking further, so the kind is only put to the layers that pass the question through or hold the slot themselves
                        if tk == 7 && matches!(layer, 1 | 2 | 6 | 7) { continue; }
                        let gas_limit = 200_000 + rng.below(800_000);
                        let to = if kind == 0 { TxKind::Create } else { TxKind::Call(factory) };
                        let r = catch(|| if hist { match layer {
                            1 => run_after_touch(BlockState::builder().with_database(m.clone()).build(), spec, funder, target, eoa, to, gas_limit),
                            2 => run_after_touch(CacheDB::new(m.clone()), spec, funder, target, eoa, to, gas_limit),
                            3 => { let mut c = CacheDB::new(EmptyDB::default());
                                   for (a, i) in &m.acc { c.insert_account_info(*a, i.clone()); }
                                   for ((a, k), v) in &m.stor { c.insert_account_storage(*a, *k, *v).unwrap(); }
                                   run_after_touch(c, spec, funder, target, eoa, to, gas_limit) }
                            6 => run_after_touch(BlockState::builder().with_database(inserted(m_without_target.clone())).build(), spec, funder, target, eoa, to, gas_limit),
                            _ => run_after_touch(CacheDB::new(inserted(m_without_target.clone())), spec, funder, target, eoa, to, gas_limit),
                        } } else { match layer {
                            0 => run_tx(m.clone(), spec, eoa, to, gas_limit),
                            1 => run_tx(BlockState::builder().with_database(m.clone()).build(), spec, eoa, to, gas_limit),
                            2 => run_tx(CacheDB::new(m.clone()), spec, eoa, to, gas_limit),
                            3 => run_tx(inserted_empty(), spec, eoa, to, gas_limit),
                            4 => run_tx(WrapDatabaseRef(m.clone()), spec, eoa, to, gas_limit),
                            5 => run_tx(WrapDatabaseRef(CacheDB::new(m.clone())), spec, eoa, to, gas_limit),
                            6 => run_tx(BlockState::builder().with_database(inserted(m_without_target.clone())).build(), spec, eoa, to, gas_limit),
                            _ => run_tx(CacheDB::new(inserted(m_without_target.clone())), spec, eoa, to, gas_limit),
                        } });
                        let rs = match r { Ok(Ok(rs)) => rs, other => { w.tag("harness:transact-error"); eprintln!("c21 transact error {:?}", other.map(|x| x.map(|_| ()))); continue; } };
                        // observations
                        let (mut collided, mut created_ok, mut ga, mut gb) = (false, false, 0u64, 0u64);
                        match (&rs.result, kind) {
                            (ExecutionResult::Halt { reason, gas_used }, 0) => { collided = matches!(reason, HaltReason::CreateCollision); ga = *gas_used; gb = gas_limit; }
                            (ExecutionResult::Success { output: Output::Create(_, addr), gas_used, .. }, 0) => { created_ok = *addr == Some(target); ga = *gas_used; gb = gas_limit; }
                            (ExecutionResult::Success { output: Output::Call(out), .. }, _) if out.len() == 96 => {
                                let addr = U256::from_be_slice(&out[0..32]);
                                collided = addr.is_zero();
                                created_ok = addr == U256::from_be_slice(target.as_slice());
                                ga = U256::from_be_slice(&out[32..64]).to::<u64>();
                                gb = U256::from_be_slice(&out[64..96]).to::<u64>();
                            }
                            _ => { w.tag("harness:unexpected-result"); }
                        }
                        let mut pre = tinfo.clone().unwrap_or_default();
                        if hist { pre.balance += U256::from(1); }
                        let (post, t_created, stor_same) = match rs.state.get(&target) {
                            Some(acc) => (acc.info.clone(), acc.is_created(), acc.storage.values().all(|s| !s.is_changed())),
                            None => (pre.clone(), false, true),
                        };
                        let caller_nonce_after = rs.state.get(&creator).map(|a| a.info.nonce).unwrap_or(0);
                        let env = format!("(mkEnv 1 false {} 0 false {} {} {} {})",
                            zacct(creator_nonce, if kind == 0 { U256::from(1u64) << 100 } else { U256::from(777) }, if kind == 0 { KECCAK_EMPTY } else { fcode.hash_slow() }),
                            zacct(pre.nonce, pre.balance, pre.code_hash), zb(has_storage), zb(spec.is_enabled_in(SpecId::SPURIOUS_DRAGON)), zu(gas_limit));
                        let obs = format!("(mkObs {} {} {} {} {} {} {} {})", zb(collided), zb(created_ok), zu(ga), zu(gb),
                            zacct(post.nonce, post.balance, post.code_hash), zb(t_created), zb(stor_same), zu(caller_nonce_after));
                        let case = format!("(mkCase {} {} {} {} {})", kind, zb(spec.is_enabled_in(SpecId::TANGERINE)), env, zb(has_storage), obs);
                        let kn = ["create-tx", "CREATE", "CREATE2"][kind as usize];
                        let tn = ["empty", "code", "nonce", "storage", "storage+balance", "balance", "zero-slot", "storage-without-account-info"][tk as usize];
                        let human = format!("{:?} {} layer={} target={} round={} after_touch={} collided={} gas=({},{})", spec, kn, LAYERS[layer], tn, round, hist, collided, ga, gb);
                        let t1 = format!("kind:{}", kn); let t2 = format!("layer:{}", LAYERS[layer]); let t3 = format!("target:{}", tn);
                        let t4 = if collided { "outcome:collision" } else { "outcome:created" };
                        let t5 = if hist { "history:after-committed-transfer" } else { "history:fresh-database" };
                        w.push(case, human, true, &[&t1, &t2, &t3, t4, t5]);
                    }
                }
            }
        }
    }
    w.finish("matrix {13 SpecIds} x {create transaction, CREATE and CREATE2 from a factory contract} x {8 database layers holding the target: custom DB with has_storage, State<DB>, CacheDB<DB>, inserted into CacheDB<EmptyDB>, WrapDatabaseRef<DB>, WrapDatabaseRef<CacheDB<DB>>, State over CacheDB with inserts, CacheDB over CacheDB with inserts} x {target empty/missing, code, nonce, storage only (EIP-7610), storage+balance, balance only, a slot holding zero, storage held without account info (only on the layers that pass has_storage through or hold the slot themselves)} x {fresh database, or (odd rounds, committing layers) after a committed 1-wei transfer to the target}, random addresses/nonces/salts/gas limits, executed by Evm::transact; observed: collision or created address, gas before/after the create in the creator (transaction: gas_used vs gas_limit), target account and storage afterwards, creator nonce");
}
