//! C32: blob fee functions — the real `fake_exponential`, `calc_blob_gasprice`,
//! `calc_excess_blob_gas`, `BlobExcessGasAndPrice`, `BlockEnv` accessors.
use crate::util::*;
use revm::primitives::{
    calc_blob_gasprice, calc_excess_blob_gas, fake_exponential, BlobExcessGasAndPrice, BlockEnv,
    BLOB_BASE_FEE_UPDATE_FRACTION_CANCUN, BLOB_BASE_FEE_UPDATE_FRACTION_ELECTRA, GAS_PER_BLOB, MIN_BLOB_GASPRICE,
};

fn obs128(r: Result<u128, String>) -> String { match r { Ok(v) => zu128(v), Err(_) => "(-1)".into() } }
fn obs64(r: Result<u64, String>) -> String { match r { Ok(v) => zu(v), Err(_) => "(-1)".into() } }

fn push_fake(w: &mut CaseWriter, f: u64, n: u64, d: u64, tag: &str) {
    let r = catch(|| fake_exponential(f, n, d));
    let mut tags = vec![tag.to_string()];
    match &r {
        Err(_) => tags.push("out:panic".into()),
        Ok(v) if *v == u128::MAX => tags.push("out:saturated".into()),
        Ok(v) if *v > u64::MAX as u128 => tags.push("out:above-2^64".into()),
        Ok(_) => tags.push("out:below-2^64".into()),
    }
    let t: Vec<&str> = tags.iter().map(|s| s.as_str()).collect();
    w.push(format!("(CFake {} {} {} {})", zu(f), zu(n), zu(d), obs128(r.clone())),
        format!("fake_exponential({}, {}, {}) = {:?}", f, n, d, r), f != 0 && n != 0 && d != 0, &t);
}

fn push_price(w: &mut CaseWriter, e: u64, prague: bool, tag: &str) {
    let r1 = catch(|| calc_blob_gasprice(e, prague));
    let r2 = catch(|| BlobExcessGasAndPrice::new(e, prague).blob_gasprice);
    let r3 = catch(|| { let mut b = BlockEnv::default(); b.set_blob_excess_gas_and_price(e, prague);
        assert_eq!(b.get_blob_excess_gas(), Some(e)); b.get_blob_gasprice().unwrap() });
    let mut tags = vec![tag.to_string(), if prague { "fraction:electra".into() } else { "fraction:cancun".to_string() }];
    match &r1 {
        Err(_) => tags.push("out:panic".into()),
        Ok(v) if *v == u128::MAX => tags.push("out:saturated".into()),
        Ok(v) if *v > u64::MAX as u128 => tags.push("out:above-2^64".into()),
        Ok(_) => tags.push("out:below-2^64".into()),
    }
    let t: Vec<&str> = tags.iter().map(|s| s.as_str()).collect();
    w.push(format!("(CPrice {} {} {} {} {})", zu(e), zb(prague), obs128(r1.clone()), obs128(r2), obs128(r3)),
        format!("calc_blob_gasprice({}, {}) = {:?}", e, prague, r1), e != 0, &t);
}

fn push_excess(w: &mut CaseWriter, a: u64, b: u64, t: u64, tag: &str) {
    let r1 = catch(|| calc_excess_blob_gas(a, b, t));
    let r2 = catch(|| BlobExcessGasAndPrice::from_parent_and_target(a, b, t, false).excess_blob_gas);
    let wide = a as u128 + b as u128;
    let k = if wide < t as u128 { "excess:clamped-to-0" } else if wide - t as u128 > u64::MAX as u128 { "excess:above-u64" } else { "excess:exact" };
    w.push(format!("(CExcess {} {} {} {} {})", zu(a), zu(b), zu(t), obs64(r1.clone()), obs64(r2)),
        format!("calc_excess_blob_gas({}, {}, {}) = {:?}", a, b, t, r1), a != 0 || b != 0, &[tag, k]);
}

/// smallest excess for which the price is >= bound (the price is monotone in the excess)
fn threshold(prague: bool, bound: u128) -> u64 {
    let (mut lo, mut hi) = (0u64, u64::MAX);
    while lo < hi {
        let mid = lo + (hi - lo) / 2;
        let v = catch(|| calc_blob_gasprice(mid, prague)).unwrap_or(u128::MAX);
        if v >= bound { hi = mid } else { lo = mid + 1 }
    }
    lo
}

pub fn run(o: &Opts) {
    let mut rng = Rng::new(o.seed ^ 0xC32);
    let mut w = CaseWriter::new(o, "C32", 150);
    let scale = if o.thorough() { 10 } else { 1 };
    w.note("constants", format!("MIN_BLOB_GASPRICE={} CANCUN={} ELECTRA={} GAS_PER_BLOB={}", MIN_BLOB_GASPRICE,
        BLOB_BASE_FEE_UPDATE_FRACTION_CANCUN, BLOB_BASE_FEE_UPDATE_FRACTION_ELECTRA, GAS_PER_BLOB));

    // ---- fake_exponential: pinned vectors, then generated triples
    for &(f, n, d) in &[(1u64, 0u64, 1u64), (38493, 0, 1000), (0, 1234, 2345), (1, 2, 1), (1, 4, 2), (1, 3, 1), (1, 6, 2), (1, 4, 1), (1, 8, 2),
        (10, 8, 2), (11, 8, 2), (1, 5, 1), (1, 5, 2), (2, 5, 2), (1, 50000000, 2225652), (1, 380928, 3338477), (1, 1, 0), (0, 0, 0),
        (u64::MAX, u64::MAX, u64::MAX), (u64::MAX, u64::MAX, 1), (1, u64::MAX, 1), (u64::MAX, 0, u64::MAX), (u64::MAX, 1, u64::MAX), (1, u64::MAX, u64::MAX)] {
        push_fake(&mut w, f, n, d, "fake:vector");
    }
    for _ in 0..400 * scale {
        // denominators over the whole range 1..2^64-1, numerator = ratio * denominator (+ noise)
        let d = match rng.below(6) { 0 => rng.range(1, 16), 1 => rng.range(1, 1 << 20), 2 => 1u64 << rng.below(64), 3 => u64::MAX - rng.below(4), _ => rng.u64b().max(1) };
        let ratio = match rng.below(8) { 0 => 0, 1 => rng.below(4), 2 => rng.below(40), 3 => rng.range(40, 100), 4 => rng.range(80, 200), 5 => rng.range(150, 700), 6 => rng.range(590, 610), _ => rng.below(2000) };
        let n = (d as u128 * ratio as u128 + if d > 1 { rng.below(d) as u128 } else { 0 }).min(u64::MAX as u128) as u64;
        let f = match rng.below(5) { 0 => 1, 1 => rng.range(1, 1000), 2 => u64::MAX - rng.below(3), _ => rng.u64b() };
        push_fake(&mut w, f, n, d, "fake:ratio");
    }
    for _ in 0..300 * scale {
        let (f, n, d) = (rng.u64b(), rng.u64b(), rng.u64b());
        push_fake(&mut w, f, n, d, if d == 0 { "fake:zero-denominator" } else { "fake:free" });
    }
    for _ in 0..20 { let (f, n) = (rng.u64b(), rng.u64b()); push_fake(&mut w, f, n, 0, "fake:zero-denominator"); }

    // ---- calc_blob_gasprice: geometric sweep and thresholds, both update fractions
    for prague in [false, true] {
        let mut e: u64 = 1;
        push_price(&mut w, 0, prague, "price:sweep");
        loop {
            push_price(&mut w, e, prague, "price:sweep");
            let jitter = rng.below(e / 16 + 1);
            let step = if o.thorough() { 100 } else { 16 };
            let next = e as u128 + (e / step) as u128 + 1 + jitter as u128;
            if next > u64::MAX as u128 { break; }
            e = next as u64;
        }
        let t64 = threshold(prague, 1u128 << 64);
        let t128 = threshold(prague, u128::MAX);
        w.note(if prague { "thresholds-electra" } else { "thresholds-cancun" }, format!("price>=2^64 from {}, saturates from {}", t64, t128));
        let frac = if prague { BLOB_BASE_FEE_UPDATE_FRACTION_ELECTRA } else { BLOB_BASE_FEE_UPDATE_FRACTION_CANCUN };
        for c in [190_000_000u64, 191_000_000, 192_000_000, 193_000_000, 200_000_000, 1 << 32, 1 << 40, 1 << 48, 1 << 63, u64::MAX, t64, t128,
                  frac, 2314057, 10 * 1024 * 1024, 148099578, 161087488, 3 * GAS_PER_BLOB, 6 * GAS_PER_BLOB] {
            for dl in [-2i64, -1, 0, 1, 2] { push_price(&mut w, c.saturating_add_signed(dl), prague, "price:boundary"); }
        }
        for _ in 0..60 * scale {
            // the old u128 overflow threshold (~1.9e8 for Cancun) and its neighbourhood up to saturation
            let e = match rng.below(4) { 0 => rng.range(180_000_000, 200_000_000), 1 => rng.range(100_000_000, t128.saturating_add(1_000_000)), 2 => rng.range(0, 30_000_000), _ => rng.u64b() };
            push_price(&mut w, e, prague, "price:random");
        }
        for k in 0..40u64 * scale { push_price(&mut w, k * GAS_PER_BLOB * if prague { 6 } else { 3 } * (1 + k), prague, "price:block-multiples"); }
    }

    // ---- calc_excess_blob_gas
    for &(a, b, t) in &[(0u64, 0u64, 0u64), (u64::MAX, 1, 5), (u64::MAX, u64::MAX, 0), (u64::MAX, u64::MAX, u64::MAX), (0, 0, u64::MAX), (u64::MAX, 1, 0), (u64::MAX, 1, 1), (u64::MAX, 1, 2),
        (1 << 63, 1 << 63, 0), (1 << 63, 1 << 63, 1), (0, 3 * GAS_PER_BLOB, 3 * GAS_PER_BLOB), (1, 4 * GAS_PER_BLOB, 3 * GAS_PER_BLOB), (GAS_PER_BLOB - 1, 2 * GAS_PER_BLOB, 3 * GAS_PER_BLOB)] {
        push_excess(&mut w, a, b, t, "excess:vector");
    }
    for _ in 0..400 * scale {
        let a = rng.u64b(); let b = rng.u64b();
        let wide = a as u128 + b as u128;
        let t = match rng.below(5) {
            0 => rng.u64b(),
            1 => (wide.min(u64::MAX as u128) as u64).wrapping_add(rng.below(5)).wrapping_sub(2), // around sum
            2 => (wide.saturating_sub(u64::MAX as u128).min(u64::MAX as u128) as u64).wrapping_add(rng.below(5)).wrapping_sub(2), // around sum - 2^64
            3 => GAS_PER_BLOB * rng.range(0, 12),
            _ => rng.below(1 << 24),
        };
        push_excess(&mut w, a, b, t, "excess:random");
    }
    w.finish("fake_exponential on pinned vectors, ratio-controlled triples (denominator 1..2^64-1, numerator/denominator 0..2000) and free boundary-biased u64 triples incl. zero denominators; calc_blob_gasprice / BlobExcessGasAndPrice::new / BlockEnv accessors on a geometric sweep of excess values, the 2^64 and saturation thresholds found by bisection on the real function, the old u128 overflow region (1.8e8..2e8), 2^32, 2^40, 2^63, u64::MAX, both update fractions; calc_excess_blob_gas / from_parent_and_target on boundary-biased triples with targets around the sum and around sum-2^64; non-trivial = all arguments non-zero (fake), excess non-zero (price), excess or used non-zero (excess)");
}
