//! Self-contained generator of EVM programs and transactions: a tiny assembler for EVM
//! bytecode and a call-graph generator (contracts that CALL / CALLCODE / DELEGATECALL /
//! STATICCALL / CREATE / CREATE2 each other, precompile calls, failing calls, reverting
//! children, LOGs, out-of-gas, invalid opcodes, SELFDESTRUCT, depth-limit recursion).
//! Used by several property drivers; depends only on `util::Rng` and the public revm API.
#![allow(dead_code)]
use crate::util::Rng;
use revm::db::{CacheDB, EmptyDB};
use revm::primitives::{
    AccessListItem, AccountInfo, Address, Authorization, BlobExcessGasAndPrice, BlockEnv, Bytecode, Bytes,
    RecoveredAuthority, RecoveredAuthorization, SpecId, TxEnv, TxKind, B256, U256,
};

pub mod op {
    pub const STOP: u8 = 0x00; pub const ADD: u8 = 0x01; pub const MUL: u8 = 0x02; pub const SUB: u8 = 0x03;
    pub const DIV: u8 = 0x04; pub const EXP: u8 = 0x0a; pub const LT: u8 = 0x10; pub const ISZERO: u8 = 0x15;
    pub const SHL: u8 = 0x1b; pub const KECCAK256: u8 = 0x20; pub const ADDRESS: u8 = 0x30; pub const BALANCE: u8 = 0x31;
    pub const CALLER: u8 = 0x33; pub const CALLVALUE: u8 = 0x34; pub const CALLDATALOAD: u8 = 0x35;
    pub const CALLDATASIZE: u8 = 0x36; pub const CALLDATACOPY: u8 = 0x37; pub const CODESIZE: u8 = 0x38;
    pub const CODECOPY: u8 = 0x39; pub const EXTCODESIZE: u8 = 0x3b; pub const EXTCODECOPY: u8 = 0x3c;
    pub const RETURNDATASIZE: u8 = 0x3d; pub const RETURNDATACOPY: u8 = 0x3e; pub const EXTCODEHASH: u8 = 0x3f;
    pub const SELFBALANCE: u8 = 0x47; pub const BASEFEE: u8 = 0x48; pub const BLOBHASH: u8 = 0x49;
    pub const POP: u8 = 0x50; pub const MLOAD: u8 = 0x51; pub const MSTORE: u8 = 0x52; pub const MSTORE8: u8 = 0x53;
    pub const SLOAD: u8 = 0x54; pub const SSTORE: u8 = 0x55; pub const JUMP: u8 = 0x56; pub const JUMPI: u8 = 0x57;
    pub const PC: u8 = 0x58; pub const MSIZE: u8 = 0x59; pub const GAS: u8 = 0x5a; pub const JUMPDEST: u8 = 0x5b;
    pub const TLOAD: u8 = 0x5c; pub const TSTORE: u8 = 0x5d; pub const MCOPY: u8 = 0x5e; pub const PUSH0: u8 = 0x5f;
    pub const PUSH1: u8 = 0x60; pub const PUSH2: u8 = 0x61; pub const PUSH20: u8 = 0x73; pub const PUSH32: u8 = 0x7f;
    pub const DUP1: u8 = 0x80; pub const SWAP1: u8 = 0x90; pub const LOG0: u8 = 0xa0;
    pub const CREATE: u8 = 0xf0; pub const CALL: u8 = 0xf1; pub const CALLCODE: u8 = 0xf2; pub const RETURN: u8 = 0xf3;
    pub const DELEGATECALL: u8 = 0xf4; pub const CREATE2: u8 = 0xf5; pub const STATICCALL: u8 = 0xfa;
    pub const REVERT: u8 = 0xfd; pub const INVALID: u8 = 0xfe; pub const SELFDESTRUCT: u8 = 0xff;
}
use op::*;

/// Tiny assembler: raw opcodes, minimal-width pushes (never PUSH0), labels with PUSH2 fixups.
#[derive(Default, Clone)]
pub struct Asm { pub code: Vec<u8>, labels: Vec<Option<usize>>, fixups: Vec<(usize, usize)> }
impl Asm {
    pub fn new() -> Self { Self::default() }
    pub fn op(&mut self, b: u8) -> &mut Self { self.code.push(b); self }
    pub fn ops(&mut self, bs: &[u8]) -> &mut Self { self.code.extend_from_slice(bs); self }
    pub fn push(&mut self, v: U256) -> &mut Self {
        let be: [u8; 32] = v.to_be_bytes();
        let skip = be.iter().take_while(|b| **b == 0).count().min(31);
        let n = 32 - skip;
        self.code.push(PUSH1 + (n as u8) - 1);
        self.code.extend_from_slice(&be[skip..]);
        self
    }
    pub fn push_u(&mut self, v: u64) -> &mut Self { self.push(U256::from(v)) }
    pub fn push_addr(&mut self, a: Address) -> &mut Self { self.code.push(PUSH20); self.code.extend_from_slice(a.as_slice()); self }
    pub fn push32(&mut self, w: &[u8; 32]) -> &mut Self { self.code.push(PUSH32); self.code.extend_from_slice(w); self }
    pub fn new_label(&mut self) -> usize { self.labels.push(None); self.labels.len() - 1 }
    pub fn push_label(&mut self, l: usize) -> &mut Self { self.code.push(PUSH2); self.fixups.push((self.code.len(), l)); self.code.extend_from_slice(&[0, 0]); self }
    pub fn place(&mut self, l: usize) -> &mut Self { self.labels[l] = Some(self.code.len()); self.code.push(JUMPDEST); self }
    /// store `data` at memory offset `off` (32-byte MSTOREs, last word zero padded on the right)
    pub fn mstore_bytes(&mut self, off: usize, data: &[u8]) -> &mut Self {
        for (i, ch) in data.chunks(32).enumerate() {
            let mut w = [0u8; 32];
            w[..ch.len()].copy_from_slice(ch);
            self.push32(&w).push_u((off + 32 * i) as u64).op(MSTORE);
        }
        self
    }
    pub fn finish(mut self) -> Vec<u8> {
        for (pos, l) in self.fixups.clone() {
            let t = self.labels[l].expect("label placed");
            self.code[pos] = (t >> 8) as u8;
            self.code[pos + 1] = t as u8;
        }
        self.code
    }
}

pub fn addr(n: u64) -> Address { Address::from_word(B256::from(U256::from(n))) }
pub const CALLER_ADDR: u64 = 0xCA11E4;
pub const CONTRACT_BASE: u64 = 0x1000;
pub const COINBASE: u64 = 0xC01BBA5E;

pub const SPECS: &[SpecId] = &[
    SpecId::FRONTIER, SpecId::HOMESTEAD, SpecId::TANGERINE, SpecId::SPURIOUS_DRAGON, SpecId::BYZANTIUM,
    SpecId::PETERSBURG, SpecId::ISTANBUL, SpecId::BERLIN, SpecId::LONDON, SpecId::MERGE, SpecId::SHANGHAI,
    SpecId::CANCUN, SpecId::PRAGUE,
];
pub fn pick_spec(rng: &mut Rng) -> SpecId {
    match rng.below(10) {
        0..=2 => SpecId::CANCUN,
        3 | 4 => SpecId::PRAGUE,
        5 => SpecId::SHANGHAI,
        6 => SpecId::LONDON,
        _ => *rng.pick(SPECS),
    }
}

#[derive(Clone)]
pub struct GenOpts {
    /// probability (percent) that a contract ends in SELFDESTRUCT rather than another terminal
    pub selfdestruct_pct: u64,
    /// max actions per contract body
    pub max_actions: u64,
    /// number of pre-deployed contracts
    pub max_contracts: u64,
    /// let the transaction type vary (access list / 1559 / blob / 7702)
    pub tx_types: bool,
}
impl Default for GenOpts { fn default() -> Self { GenOpts { selfdestruct_pct: 8, max_actions: 7, max_contracts: 5, tx_types: false } } }

/// A generated pre-state + transaction.
#[derive(Clone)]
pub struct World {
    pub db: CacheDB<EmptyDB>,
    pub spec: SpecId,
    pub block: BlockEnv,
    pub tx: TxEnv,
    pub contracts: Vec<Address>,
    pub descr: String,
    pub tags: Vec<String>,
}

fn enabled(spec: SpecId, since: SpecId) -> bool { spec as u8 >= since as u8 }

struct Gen<'a> { rng: &'a mut Rng, spec: SpecId, contracts: Vec<Address>, opts: GenOpts, tags: Vec<String>, budget: i64 }

impl Gen<'_> {
    fn tag(&mut self, t: &str) { if !self.tags.iter().any(|x| x == t) { self.tags.push(t.to_string()); } }

    fn small_value(&mut self) -> U256 {
        match self.rng.below(8) {
            0..=3 => U256::ZERO,
            4 | 5 => U256::from(self.rng.range(1, 50)),
            6 => U256::from(1_000_000_000_000u64), // more than any contract owns: OutOfFunds
            _ => U256::from(self.rng.range(1, 2000)),
        }
    }

    /// target of a call made by contract `level` (index in `contracts`, or contracts.len() for initcode of the last)
    fn call_target(&mut self, level: usize) -> (Address, &'static str) {
        let n = self.contracts.len();
        match self.rng.below(12) {
            0 | 1 => (addr(self.rng.range(1, 10)), "precompile"),
            2 => (addr(CALLER_ADDR), "eoa"),
            3 => (addr(0xDEAD0000 + self.rng.below(3)), "nonexistent"),
            4 if level < n => (self.contracts[self.rng.below(level as u64 + 1) as usize], "back-edge"),
            _ => if level + 1 < n { (self.contracts[self.rng.range(level as u64 + 1, n as u64 - 1) as usize], "contract") }
                 else { (addr(self.rng.range(1, 10)), "precompile") },
        }
    }

    fn gen_call(&mut self, a: &mut Asm, level: usize) {
        let (target, tkind) = self.call_target(level);
        let scheme = match self.rng.below(10) {
            0..=4 => CALL, 5 => CALLCODE, 6 | 7 => DELEGATECALL, _ => STATICCALL,
        };
        let args_len = *self.rng.pick(&[0u64, 0, 4, 32, 33, 64, 128]);
        let ret_len = *self.rng.pick(&[0u64, 0, 32, 64]);
        a.push_u(ret_len).push_u(self.rng.below(3) * 32).push_u(args_len).push_u(self.rng.below(2) * 32);
        if scheme == CALL || scheme == CALLCODE { let v = self.small_value(); if !v.is_zero() { self.tag("call:value"); } a.push(v); }
        a.push_addr(target);
        // gas: all / fixed / tiny. back-edges only with little gas so that the recursion dies out
        if tkind == "back-edge" { a.push_u(self.rng.range(0, 3000)); }
        else {
            match self.rng.below(6) {
                0 | 1 | 2 => { a.op(GAS); }
                3 => { a.push_u(self.rng.range(0, 2500)); }
                4 => { a.push_u(self.rng.range(2500, 60_000)); }
                _ => { a.push(U256::MAX >> self.rng.below(200) as usize); }
            }
        }
        a.op(scheme);
        self.tag(&format!("call:{}", match scheme { CALL => "CALL", CALLCODE => "CALLCODE", DELEGATECALL => "DELEGATECALL", _ => "STATICCALL" }));
        self.tag(&format!("target:{}", tkind));
        match self.rng.below(4) {
            0 if enabled(self.spec, SpecId::BYZANTIUM) => { a.op(POP).op(RETURNDATASIZE).op(POP); }
            1 => { // revert the caller if the call failed
                let l = a.new_label();
                a.push_label(l).op(JUMPI);
                if enabled(self.spec, SpecId::BYZANTIUM) { a.push_u(0).push_u(0).op(REVERT); } else { a.op(INVALID); }
                a.place(l);
            }
            _ => { a.op(POP); }
        }
    }

    /// init code; `level` bounds what it may call
    fn gen_initcode(&mut self, level: usize, depth: u32) -> Vec<u8> {
        let mut a = Asm::new();
        let kind = self.rng.below(12);
        match kind {
            0 => { a.push_u(0).push_u(0).op(REVERT); self.tag("init:revert"); }
            1 => { a.op(INVALID); self.tag("init:invalid"); }
            2 => { a.push_addr(addr(CALLER_ADDR)).op(SELFDESTRUCT); self.tag("init:selfdestruct"); }
            3 => { a.push_u(0xEF).push_u(0).op(MSTORE8).push_u(1).push_u(0).op(RETURN); self.tag("init:ef-code"); }
            4 => { a.push_u(0x6001).push_u(0).op(RETURN); self.tag("init:too-large"); }
            5 => { self.tag("init:empty"); }
            _ => {
                // optional body, then return runtime code
                if depth < 2 && self.rng.chance(1, 2) { self.gen_body(&mut a, level, depth + 1, 2); }
                let runtime = if self.rng.chance(1, 3) { vec![SELFDESTRUCT] /* underflows */ } else { self.gen_code(level, depth + 1, 3) };
                a.mstore_bytes(0, &runtime).push_u(runtime.len() as u64).push_u(0).op(RETURN);
                self.tag("init:returns-code");
            }
        }
        a.finish()
    }

    fn gen_create(&mut self, a: &mut Asm, level: usize, depth: u32) {
        let init = self.gen_initcode(level, depth);
        a.mstore_bytes(0, &init);
        let two = self.rng.chance(1, 3);
        if two { a.push_u(self.rng.below(3)); }
        let v = self.small_value();
        a.push_u(init.len() as u64).push_u(0).push(v).op(if two { CREATE2 } else { CREATE });
        self.tag(if two { "create:CREATE2" } else { "create:CREATE" });
        if self.rng.chance(1, 2) {
            // call the created contract (address on top of the stack; zero when the create failed)
            a.push_u(0).push_u(0).push_u(0).push_u(0).push_u(self.rng.below(2)).op(DUP1 + 5).op(GAS).op(CALL).op(POP).op(POP);
            self.tag("create:then-call");
        } else { a.op(POP); }
    }

    fn gen_log(&mut self, a: &mut Asm) {
        let n = self.rng.below(5) as u8;
        a.push(self.rng.u256b()).push_u(0).op(MSTORE);
        for _ in 0..n { a.push(U256::from(self.rng.below(1000))); }
        a.push_u(*self.rng.pick(&[0u64, 1, 31, 32, 33, 40])).push_u(self.rng.below(3)).op(LOG0 + n);
        self.tag("log");
    }

    fn gen_misc(&mut self, a: &mut Asm, level: usize) {
        match self.rng.below(14) {
            0 => { a.push(self.rng.u256b()).push(self.rng.u256b()).op(*self.rng.pick(&[ADD, MUL, SUB, DIV, EXP, LT, SHL])).op(POP); }
            1 | 2 => { a.push(U256::from(self.rng.below(3))).push_u(self.rng.below(3)).op(SSTORE); self.tag("sstore"); }
            3 => { a.push_u(self.rng.below(3)).op(SLOAD).op(POP); }
            4 => { let t = self.call_target(level).0; a.push_addr(t).op(BALANCE).op(POP); }
            5 => { let t = self.call_target(level).0; a.push_addr(t).op(*self.rng.pick(&[EXTCODESIZE, EXTCODEHASH])).op(POP); }
            6 => { let t = self.call_target(level).0; a.push_u(32).push_u(0).push_u(0).push_addr(t).op(EXTCODECOPY); }
            7 => { a.push_u(self.rng.below(3)).push_u(self.rng.below(3)).op(TSTORE); a.push_u(self.rng.below(3)).op(TLOAD).op(POP); }
            8 => { a.op(*self.rng.pick(&[SELFBALANCE, BASEFEE, PUSH0, CALLVALUE, CALLER, ADDRESS, MSIZE, PC, CALLDATASIZE])).op(POP); }
            9 => { a.push_u(self.rng.below(4)).op(BLOBHASH).op(POP); }
            10 => { a.push_u(32).push_u(0).push_u(self.rng.below(100)).op(MCOPY); }
            11 => { a.push_u(self.rng.below(64)).push_u(0).op(KECCAK256).op(POP); }
            12 => { a.push_u(32).push_u(0).push_u(0).op(CALLDATACOPY); }
            _ => { a.push_u(0).op(CALLDATALOAD).op(POP); }
        }
    }

    fn gen_body(&mut self, a: &mut Asm, level: usize, depth: u32, max_actions: u64) {
        let n = self.rng.range(0, max_actions);
        for _ in 0..n {
            self.budget -= 1;
            let heavy_ok = self.budget > 0 && depth < 3;
            match self.rng.below(10) {
                0 | 1 | 2 if heavy_ok => self.gen_call(a, level),
                3 if heavy_ok => self.gen_create(a, level, depth),
                4 | 5 => self.gen_log(a),
                _ => self.gen_misc(a, level),
            }
        }
    }

    fn gen_terminal(&mut self, a: &mut Asm, level: usize) {
        if self.rng.below(100) < self.opts.selfdestruct_pct {
            let t = match self.rng.below(4) { 0 => None, 1 => Some(addr(CALLER_ADDR)), 2 => Some(addr(0xDEAD0000)), _ => Some(self.call_target(level).0) };
            match t { Some(t) => { a.push_addr(t); } None => { a.op(ADDRESS); } }
            a.op(SELFDESTRUCT);
            self.tag("term:selfdestruct");
            return;
        }
        match self.rng.below(16) {
            0..=4 => { a.op(STOP); self.tag("term:stop"); }
            5 | 6 => { a.push_u(*self.rng.pick(&[0u64, 1, 32, 64])).push_u(0).op(RETURN); self.tag("term:return"); }
            7 | 8 => { a.push_u(*self.rng.pick(&[0u64, 4, 32])).push_u(0).op(REVERT); self.tag("term:revert"); }
            9 => { a.op(INVALID); self.tag("term:invalid"); }
            10 => { a.op(0x0c); self.tag("term:undefined-opcode"); }
            11 => { a.push_u(3).op(JUMP); self.tag("term:bad-jump"); }
            12 => { a.op(POP); self.tag("term:stack-underflow"); }
            13 => { for i in 0..40u64 { a.push_u(1).push_u(100 + i).op(SSTORE); } self.tag("term:gas-burn"); }
            14 => { a.push_u(1).push(U256::from(1u64) << self.rng.range(20, 70) as usize).op(MSTORE); self.tag("term:memory-oog"); }
            _ => { self.tag("term:fall-off-end"); }
        }
    }

    fn gen_code(&mut self, level: usize, depth: u32, max_actions: u64) -> Vec<u8> {
        let mut a = Asm::new();
        self.gen_body(&mut a, level, depth, max_actions);
        self.gen_terminal(&mut a, level);
        a.finish()
    }
}

/// code of a contract that calls itself with all remaining gas until the depth limit stops it
pub fn recursion_code(scheme: u8) -> Vec<u8> {
    let mut a = Asm::new();
    a.push_u(0).push_u(0).push_u(0).push_u(0);
    if scheme == CALL || scheme == CALLCODE { a.push_u(0); }
    // gas - 100: before EIP-150 asking for more than is left is an out-of-gas error
    a.op(ADDRESS).push_u(100).op(GAS).op(SUB).op(scheme).op(POP).op(STOP);
    a.finish()
}
/// init code that creates a copy of itself until the depth limit stops it
pub fn create_recursion_code() -> Vec<u8> {
    let mut a = Asm::new();
    a.op(CODESIZE).push_u(0).push_u(0).op(CODECOPY).op(CODESIZE).push_u(0).push_u(0).op(CREATE).op(POP).op(STOP);
    a.finish()
}

fn base_block(spec: SpecId) -> BlockEnv {
    let mut b = BlockEnv::default();
    b.number = U256::from(100);
    b.coinbase = addr(COINBASE);
    b.timestamp = U256::from(1_700_000_000u64);
    b.gas_limit = U256::MAX;
    b.basefee = U256::ZERO;
    b.prevrandao = Some(B256::from(U256::from(0x1234)));
    b.blob_excess_gas_and_price = Some(BlobExcessGasAndPrice::new(0, enabled(spec, SpecId::PRAGUE)));
    b
}

pub fn account(balance: U256, nonce: u64, code: &[u8]) -> AccountInfo {
    if code.is_empty() { AccountInfo { balance, nonce, ..Default::default() } }
    else { let bc = Bytecode::new_raw(Bytes::from(code.to_vec())); AccountInfo::new(balance, nonce, bc.hash_slow(), bc) }
}

/// World with explicit contracts: `codes[i]` is deployed at `addr(CONTRACT_BASE + i)` with `balances[i]`.
pub fn world_from(spec: SpecId, codes: &[Vec<u8>], balances: &[U256], tx: TxEnv, descr: String) -> World {
    let mut db = CacheDB::new(EmptyDB::default());
    let mut contracts = vec![];
    for (i, c) in codes.iter().enumerate() {
        let a = addr(CONTRACT_BASE + i as u64);
        db.insert_account_info(a, account(balances[i], 1, c));
        contracts.push(a);
    }
    db.insert_account_info(addr(CALLER_ADDR), account(U256::MAX >> 2, tx.nonce.unwrap_or(0), &[]));
    World { db, spec, block: base_block(spec), tx, contracts, descr, tags: vec![] }
}

pub fn base_tx(to: TxKind, gas_limit: u64, value: U256, data: Vec<u8>) -> TxEnv {
    let mut tx = TxEnv::default();
    tx.caller = addr(CALLER_ADDR);
    tx.gas_limit = gas_limit;
    tx.gas_price = U256::from(1);
    tx.transact_to = to;
    tx.value = value;
    tx.data = Bytes::from(data);
    tx.nonce = Some(7);
    tx.chain_id = None;
    tx
}

/// Random call graph. All randomness comes from `rng`.
pub fn gen_world(rng: &mut Rng, opts: &GenOpts) -> World {
    let spec = pick_spec(rng);
    let n = rng.range(1, opts.max_contracts) as usize;
    let contracts: Vec<Address> = (0..n).map(|i| addr(CONTRACT_BASE + i as u64)).collect();
    let mut g = Gen { rng, spec, contracts: contracts.clone(), opts: opts.clone(), tags: vec![], budget: 14 };
    let mut codes = vec![];
    let mut balances = vec![];
    for i in 0..n {
        let ma = g.opts.max_actions;
        codes.push(g.gen_code(i, 0, ma));
        balances.push(match g.rng.below(4) { 0 => U256::ZERO, 1 => U256::from(g.rng.range(1, 100)), _ => U256::from(g.rng.range(100, 100_000)) });
    }
    // the transaction
    let gas_limit = match g.rng.below(8) {
        0 => g.rng.range(21_000, 60_000),
        1 => g.rng.range(60_000, 200_000),
        7 => g.rng.range(53_000, 120_000),
        _ => g.rng.range(200_000, 3_000_000),
    };
    let value = g.small_value();
    let data = g.rng.bytes(*g.rng.clone().pick(&[0usize, 0, 4, 32, 36, 100]));
    let create_tx = g.rng.chance(1, 6);
    let to = if create_tx { TxKind::Create } else {
        match g.rng.below(12) {
            0 => TxKind::Call(addr(g.rng.range(1, 10))),
            1 => TxKind::Call(addr(0xDEAD0000)),
            _ => TxKind::Call(contracts[0]),
        }
    };
    let data = if create_tx { g.tag("tx:create"); g.gen_initcode(0, 0) } else { data };
    let mut tx = base_tx(to, gas_limit, value, data);
    let mut txkind = "legacy";
    if opts.tx_types {
        match g.rng.below(6) {
            1 if enabled(spec, SpecId::BERLIN) => {
                txkind = "eip2930";
                let k = g.rng.range(1, 3);
                for _ in 0..k {
                    let a = if g.rng.chance(2, 3) { *g.rng.pick(&contracts) } else { addr(g.rng.range(1, 12)) };
                    let keys = (0..g.rng.below(4)).map(|_| B256::from(U256::from(g.rng.below(4)))).collect();
                    tx.access_list.push(AccessListItem { address: a, storage_keys: keys });
                }
            }
            2 if enabled(spec, SpecId::LONDON) => {
                txkind = "eip1559";
                tx.gas_price = U256::from(g.rng.range(10, 100));
                tx.gas_priority_fee = Some(U256::from(g.rng.range(0, 10)));
            }
            3 if enabled(spec, SpecId::CANCUN) && !create_tx => {
                txkind = "eip4844";
                tx.gas_price = U256::from(g.rng.range(10, 100));
                tx.gas_priority_fee = Some(U256::from(g.rng.range(0, 10)));
                tx.max_fee_per_blob_gas = Some(U256::from(g.rng.range(1, 1000)));
                for i in 0..g.rng.range(1, 3) { let mut h = [0u8; 32]; h[0] = 1; h[31] = i as u8; tx.blob_hashes.push(B256::from(h)); }
            }
            4 if enabled(spec, SpecId::PRAGUE) && !create_tx => {
                txkind = "eip7702";
                tx.gas_price = U256::from(g.rng.range(10, 100));
                tx.gas_priority_fee = Some(U256::from(g.rng.range(0, 10)));
                let mut auths = vec![];
                for i in 0..g.rng.range(1, 2) {
                    let authority = addr(0xA0700 + i);
                    let delegate = *g.rng.pick(&contracts);
                    let valid = g.rng.chance(3, 4);
                    auths.push(RecoveredAuthorization::new_unchecked(
                        Authorization { chain_id: U256::from(if g.rng.chance(1, 5) { 5 } else { 1 }), address: delegate, nonce: if g.rng.chance(1, 5) { 3 } else { 0 } },
                        if valid { RecoveredAuthority::Valid(authority) } else { RecoveredAuthority::Invalid },
                    ));
                    if valid && g.rng.chance(1, 2) { tx.transact_to = TxKind::Call(authority); }
                }
                tx.authorization_list = Some(auths.into());
            }
            _ => {}
        }
    }
    g.tag(&format!("tx:{}", txkind));
    g.tag(&format!("spec:{:?}", spec));
    let tags = g.tags.clone();
    let descr = format!("spec={:?} tx={} gas_limit={} value={} to={:?} codes=[{}]", spec, txkind, gas_limit, value, tx.transact_to,
        codes.iter().map(|c| hex(c)).collect::<Vec<_>>().join(","));
    let mut w = world_from(spec, &codes, &balances, tx, descr);
    w.tags = tags;
    w
}

/// Worlds that drive the call depth to the limit (1025 nested frames).
pub fn deep_world(rng: &mut Rng, which: u64) -> World {
    let spec = match rng.below(4) { 0 => SpecId::FRONTIER, 1 => SpecId::HOMESTEAD, 2 => SpecId::CANCUN, _ => pick_spec(rng) };
    let post_tangerine = enabled(spec, SpecId::TANGERINE);
    let (codes, to, data, gas, tag): (Vec<Vec<u8>>, TxKind, Vec<u8>, u64, &str) = match which % 3 {
        0 => (vec![recursion_code(CALL)], TxKind::Call(addr(CONTRACT_BASE)), vec![], if post_tangerine { 60_000_000_000 } else { 3_000_000 }, "deep:CALL"),
        1 => (vec![recursion_code(if enabled(spec, SpecId::HOMESTEAD) { DELEGATECALL } else { CALLCODE })], TxKind::Call(addr(CONTRACT_BASE)), vec![],
              if post_tangerine { 60_000_000_000 } else { 3_000_000 }, "deep:DELEGATECALL"),
        _ => (vec![], TxKind::Create, create_recursion_code(), if post_tangerine { 3_000_000_000_000 } else { 40_000_000 }, "deep:CREATE"),
    };
    let tx = base_tx(to, gas, U256::ZERO, data);
    let balances = vec![U256::from(5); codes.len()];
    let mut w = world_from(spec, &codes, &balances, tx, format!("spec={:?} {} gas_limit={}", spec, tag, gas));
    w.tags = vec![tag.to_string(), format!("spec:{:?}", spec)];
    w
}

/// Create transactions whose data starts with the EOF magic (EOF create under OSAKA).
pub fn eof_world(which: u64) -> World {
    // init container: PUSH1 0 PUSH1 0 RETURNCONTRACT 0, one sub-container (runtime: INVALID)
    let valid = unhex("ef00010100040200010006030001001404000000008000026000" /* header, types, PUSH1 0 */);
    let mut valid = valid;
    valid.extend_from_slice(&unhex("6000ee00"));
    valid.extend_from_slice(&unhex("ef000101000402000100010400000000800000fe"));
    // outer init container: EOFCREATE of sub-container 0 (the init container above), then RETURNCONTRACT 1
    let runtime = unhex("ef000101000402000100010400000000800000fe");
    let mut nested = unhex("ef00010100040200010011030002");
    nested.extend_from_slice(&[(valid.len() >> 8) as u8, valid.len() as u8, (runtime.len() >> 8) as u8, runtime.len() as u8]);
    nested.extend_from_slice(&unhex("04000000" /* data size 0, terminator */));
    nested.extend_from_slice(&unhex("00800004"));
    nested.extend_from_slice(&unhex("6000600060006000ec005060006000ee01"));
    nested.extend_from_slice(&valid);
    nested.extend_from_slice(&runtime);
    let (spec, data, tag): (SpecId, Vec<u8>, &str) = match which % 5 {
        4 => (SpecId::OSAKA, nested, "eof:nested-EOFCREATE"),
        0 => (SpecId::OSAKA, unhex("ef00deadbeef"), "eof:malformed-initcode"),
        1 => (SpecId::OSAKA, valid, "eof:valid-initcode"),
        2 => { let mut v = valid; v.extend_from_slice(&[1, 2, 3, 4]); (SpecId::OSAKA, v, "eof:valid-initcode+calldata") }
        _ => (SpecId::PRAGUE, valid, "eof:initcode-before-osaka"),
    };
    let tx = base_tx(TxKind::Create, 500_000, U256::ZERO, data.clone());
    let mut w = world_from(spec, &[], &[], tx, format!("spec={:?} {} create tx data={}", spec, tag, hex(&data)));
    w.tags = vec![tag.to_string(), format!("spec:{:?}", spec)];
    w
}
pub fn unhex(s: &str) -> Vec<u8> { (0..s.len() / 2).map(|i| u8::from_str_radix(&s[2 * i..2 * i + 2], 16).unwrap()).collect() }

pub fn hex(b: &[u8]) -> String { b.iter().map(|x| format!("{:02x}", x)).collect() }
