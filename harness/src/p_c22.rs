//! C22: reconfiguration sequences on two real `Evm`s (rewards on / off), then one fee-paying
//! transaction on each; handler observed after every step, both `ResultAndState`s recorded.
use crate::util::*;
use revm::db::{CacheDB, EmptyDB};
use revm::handler::register::{EvmHandler, HandleRegisters};
use revm::primitives::{
    spec_to_generic, AccountInfo, Address, Bytecode, Bytes, EVMError, ExecutionResult, Output,
    ResultAndState, SpecId, TxKind, U256,
};
use revm::{ContextWithHandlerCfg, DatabaseRef, Evm, Handler};
use std::cell::Cell;
use std::rc::Rc;

type DB = CacheDB<EmptyDB>;
type E = Evm<'static, (), DB>;

const OPT: bool = cfg!(feature = "optimism");
/// built with revm/optional_beneficiary_reward: CfgEnv::disable_beneficiary_reward exists
const OBR: bool = cfg!(feature = "optional_beneficiary_reward");

fn reg_noop(_h: &mut EvmHandler<'_, (), DB>) {}
/// touches other post-execution handles, not the reward handle
fn reg_end(h: &mut EvmHandler<'_, (), DB>) {
    h.post_execution.end = Box::new(|_c, r| r);
    h.post_execution.clear = Box::new(revm::handler::mainnet::clear::<(), DB>);
}
/// a register that switches the reward off
fn reg_set_none(h: &mut EvmHandler<'_, (), DB>) {
    h.post_execution.reward_beneficiary = None;
}

#[derive(Clone, Copy, Debug, PartialEq)]
enum Reg { PlainNoop, PlainEnd, BoxNoop, BoxCounter, SetNonePlain, SetNoneBox, OpReg(bool) }
impl Reg {
    fn coq(&self) -> String {
        match self {
            Reg::PlainNoop | Reg::PlainEnd => "(mkReg Plain KeepsReward)".into(),
            Reg::BoxNoop | Reg::BoxCounter => "(mkReg Boxed KeepsReward)".into(),
            Reg::SetNonePlain => "(mkReg Plain (SetsReward None))".into(),
            Reg::SetNoneBox => "(mkReg Boxed (SetsReward None))".into(),
            Reg::OpReg(b) => format!("(optimism_register {})", zb(*b)),
        }
    }
    fn make(&self, counter: &Rc<Cell<u64>>) -> HandleRegisters<'static, (), DB> {
        match self {
            Reg::PlainNoop => HandleRegisters::Plain(reg_noop),
            Reg::PlainEnd => HandleRegisters::Plain(reg_end),
            Reg::SetNonePlain => HandleRegisters::Plain(reg_set_none),
            Reg::BoxNoop => HandleRegisters::Box(Box::new(|_h: &mut EvmHandler<'_, (), DB>| {})),
            Reg::BoxCounter => {
                let c = counter.clone();
                HandleRegisters::Box(Box::new(move |h: &mut EvmHandler<'_, (), DB>| {
                    c.set(c.get() + 1);
                    h.post_execution.end = Box::new(|_c, r| r);
                }))
            }
            Reg::SetNoneBox => HandleRegisters::Box(Box::new(|h: &mut EvmHandler<'_, (), DB>| {
                h.post_execution.reward_beneficiary = None;
            })),
            #[cfg(feature = "optimism")]
            Reg::OpReg(b) => HandleRegisters::Box(revm::optimism::optimism_handle_register::<DB, ()>(*b)),
            #[cfg(not(feature = "optimism"))]
            Reg::OpReg(_) => HandleRegisters::Plain(reg_noop),
        }
    }
}

#[derive(Clone, Copy, Debug)]
enum Route { Handler, Evm, Builder }
impl Route { fn coq(&self) -> &'static str { match self { Route::Handler => "ViaHandler", Route::Evm => "ViaEvm", Route::Builder => "ViaBuilder" } } }

#[derive(Clone, Debug)]
enum Op {
    ModifySpec(Route, SpecId),
    Append(Route, Reg),
    Pop,
    CreateGeneric(SpecId, bool),   // bool: install through builder.with_handler instead of assignment
    ModifyBuild,
    Install { optimism: bool, spec: SpecId },
    ResetHandler(u8),
    WithHandlerCfg,
}

fn sid(s: SpecId) -> String { format!("{}", s as u8) }

fn make_handler(optimism: bool, spec: SpecId, reward: bool) -> EvmHandler<'static, (), DB> {
    #[cfg(feature = "optimism")]
    { if optimism { return Handler::optimism_with_spec(spec, reward); } }
    let _ = optimism;
    Handler::mainnet_with_spec(spec, reward)
}

impl Op {
    /// the Coq term; `reward` is the flag of the Evm it is applied to; (spec, opt) = handler cfg before the op
    fn coq(&self, fe: &str, reward: bool, cfg_before: (SpecId, bool)) -> String {
        match self {
            Op::ModifySpec(r, s) => format!("ModifySpecId {} {}", r.coq(), sid(*s)),
            Op::Append(r, g) => format!("Append {} {}", r.coq(), g.coq()),
            Op::Pop => "Pop".into(),
            Op::CreateGeneric(s, _) => format!("CreateGeneric {}", sid(*s)),
            Op::ModifyBuild => "ModifyBuild".into(),
            Op::Install { optimism, spec } => format!("Install ({} {} {} {})", if *optimism { "optimism_with_spec" } else { "mainnet_with_spec" }, fe, sid(*spec), zb(reward)),
            Op::ResetHandler(_) => "Reset ResetHandler".into(),
            Op::WithHandlerCfg => format!("Reset (WithHandlerCfg {} {})", sid(cfg_before.0), zb(cfg_before.1)),
        }
    }
    fn tag(&self) -> &'static str {
        match self {
            Op::ModifySpec(Route::Handler, _) => "op:handler.modify_spec_id",
            Op::ModifySpec(Route::Evm, _) => "op:evm.modify_spec_id",
            Op::ModifySpec(Route::Builder, _) => "op:builder.with_spec_id",
            Op::Append(Route::Builder, _) => "op:builder.append_handler_register(_box)",
            Op::Append(_, _) => "op:handler.append_handler_register(_plain/_box)",
            Op::Pop => "op:pop_handle_register",
            Op::CreateGeneric(..) => "op:create_handle_generic",
            Op::ModifyBuild => "op:modify().build()",
            Op::Install { .. } => "op:builder.with_handler",
            Op::ResetHandler(_) => "op:reset_handler*",
            Op::WithHandlerCfg => "op:into_context_with_handler_cfg->with_context_with_handler_cfg",
        }
    }
}

fn is_opt(h: &EvmHandler<'static, (), DB>) -> bool { h.cfg.is_optimism() }

fn apply(mut evm: E, op: &Op, reward: bool, counter: &Rc<Cell<u64>>) -> E {
    match op {
        Op::ModifySpec(Route::Handler, s) => { evm.handler.modify_spec_id(*s); evm }
        Op::ModifySpec(Route::Evm, s) => { evm.modify_spec_id(*s); evm }
        Op::ModifySpec(Route::Builder, s) => evm.modify().with_spec_id(*s).build(),
        Op::Append(Route::Builder, g) => match g.make(counter) {
            HandleRegisters::Plain(f) => evm.modify().append_handler_register(f).build(),
            HandleRegisters::Box(f) => evm.modify().append_handler_register_box(f).build(),
        },
        Op::Append(Route::Evm, g) => { evm.handler.append_handler_register(g.make(counter)); evm }
        Op::Append(Route::Handler, g) => {
            match g.make(counter) {
                HandleRegisters::Plain(f) => evm.handler.append_handler_register_plain(f),
                HandleRegisters::Box(f) => evm.handler.append_handler_register_box(f),
            }
            evm
        }
        Op::Pop => { let _ = evm.handler.pop_handle_register(); evm }
        Op::CreateGeneric(s, via_builder) => {
            let h = spec_to_generic!(*s, evm.handler.create_handle_generic::<SPEC>());
            if *via_builder { evm.modify().with_handler(h).build() } else { evm.handler = h; evm }
        }
        Op::ModifyBuild => evm.modify().build(),
        Op::Install { optimism, spec } => evm.modify().with_handler(make_handler(*optimism, *spec, reward)).build(),
        Op::ResetHandler(k) => match k % 3 {
            0 => evm.modify().reset_handler().build(),
            1 => { let db = evm.context.evm.db.clone(); evm.modify().reset_handler_with_db(db).build() }
            _ => evm.modify().reset_handler_with_external_context(()).build(),
        },
        Op::WithHandlerCfg => {
            let ContextWithHandlerCfg { context, cfg } = evm.into_context_with_handler_cfg();
            Evm::builder().with_context_with_handler_cfg(ContextWithHandlerCfg { context, cfg }).build()
        }
    }
}

fn observe(evm: &E) -> String {
    format!("({},{},{},{})", zb(evm.handler.post_execution.reward_beneficiary.is_some()), sid(evm.handler.cfg.spec_id),
        evm.handler.registers.len(), zb(is_opt(&evm.handler)))
}

fn aw(a: Address) -> U256 { U256::from_be_slice(a.as_slice()) }
fn fnv(s: &str) -> u64 { let mut h = 0xcbf29ce484222325u64; for b in s.bytes() { h ^= b as u64; h = h.wrapping_mul(0x100000001b3); } h >> 1 }

pub fn enc_result<DBE: std::fmt::Debug>(r: &Result<ResultAndState, EVMError<DBE>>) -> Vec<String> {
    let mut v: Vec<String> = vec![];
    match r {
        Ok(rs) => match &rs.result {
            ExecutionResult::Success { reason, gas_used, gas_refunded, logs, output } => {
                v.extend([zu(0), zu(*gas_used), zu(*gas_refunded), zu(fnv(&format!("{:?}", reason))), zu(logs.len() as u64)]);
                for l in logs {
                    v.push(zw(aw(l.address)));
                    v.push(zu(l.data.topics().len() as u64));
                    for t in l.data.topics() { v.push(zw(U256::from_be_bytes(t.0))); }
                    v.push(zu(l.data.data.len() as u64));
                    for b in l.data.data.iter() { v.push(zu(*b as u64)); }
                }
                match output {
                    Output::Call(b) => { v.push(zu(0)); v.push(zu(b.len() as u64)); for x in b.iter() { v.push(zu(*x as u64)); } }
                    Output::Create(b, a) => { v.push(zu(1)); v.push(match a { Some(a) => zw(aw(*a)), None => "(-1)".into() }); v.push(zu(b.len() as u64)); for x in b.iter() { v.push(zu(*x as u64)); } }
                }
            }
            ExecutionResult::Revert { gas_used, output } => {
                v.extend([zu(1), zu(*gas_used), zu(0), zu(output.len() as u64)]);
                for x in output.iter() { v.push(zu(*x as u64)); }
            }
            ExecutionResult::Halt { reason, gas_used } => v.extend([zu(2), zu(*gas_used), zu(0), zu(fnv(&format!("{:?}", reason)))]),
        },
        Err(e) => v.extend([zu(3), zu(0), zu(0), zu(fnv(&format!("{:?}", e)))]),
    }
    v
}

pub fn enc_state<DBE>(r: &Result<ResultAndState, EVMError<DBE>>) -> Vec<String> {
    let mut out = vec![];
    if let Ok(rs) = r {
        let mut accts: Vec<_> = rs.state.iter().collect();
        accts.sort_by_key(|(a, _)| **a);
        for (a, acc) in accts {
            let bits = acc.status.bits();
            let mut rest = vec![zu(acc.info.nonce), zw(U256::from_be_bytes(acc.info.code_hash.0)), zu((bits & !4u8) as u64)];
            let mut st: Vec<_> = acc.storage.iter().collect();
            st.sort_by_key(|(k, _)| **k);
            for (k, s) in st { rest.extend([zw(*k), zw(s.original_value), zw(s.present_value), zu(s.is_cold as u64)]); }
            out.push(format!("mkEntry {} {} {} {}", zw(aw(*a)), zw(acc.info.balance), zb(bits & 4 != 0), zlist(rest)));
        }
    }
    out
}

fn canon_of(s: SpecId) -> SpecId { spec_to_generic!(s, <SPEC as revm::primitives::Spec>::SPEC_ID) }

const CALLER: Address = Address::new([0x11; 20]);
const COINBASE: Address = Address::new([0xC0; 20]);

pub fn run(o: &Opts) {
    let mut rng = Rng::new(o.seed ^ 0xC22);
    let mut w = CaseWriter::new(o, "C22", 250);
    let n = match (o.thorough(), OPT) { (true, _) => 12_000, (false, false) => 1_500, (false, true) => 1_000 };
    let specs: Vec<SpecId> = (0..=255u8).filter_map(SpecId::try_from_u8).collect();
    // the canonical-spec table is printed once per case, with the rows of the specs the case uses;
    // terms refer to it through the placeholder until the case is complete
    let fe = "@FE@".to_string();
    w.note("features", format!("optimism={} optional_beneficiary_reward={}", OPT, OBR));

    // target contracts
    let code_store_log = Bytes::from_static(&[0x60, 0x01, 0x60, 0x00, 0x55, 0x60, 0x00, 0x60, 0x00, 0xa0, 0x00]);
    let code_revert = Bytes::from_static(&[0x60, 0x00, 0x60, 0x00, 0xfd]);
    let code_invalid = Bytes::from_static(&[0xfe]);
    let code_clear = Bytes::from_static(&[0x60, 0x00, 0x60, 0x01, 0x55, 0x00]);
    let t_eoa = Address::new([0xEE; 20]);
    let t_store = Address::new([0xA1; 20]);
    let t_revert = Address::new([0xA2; 20]);
    let t_invalid = Address::new([0xA3; 20]);
    let t_clear = Address::new([0xA4; 20]);

    for _i in 0..n {
        // stream (only in the optional_beneficiary_reward build): the "off" Evm is configured through
        // CfgEnv::disable_beneficiary_reward = true on a handler built with rewards on
        let cfg_flag = OBR && rng.chance(1, 3);
        let reward_regs = rng.chance(1, 5);
        let with_resets = rng.chance(1, 6);
        let optimism0 = OPT && rng.chance(3, 4);
        let spec0 = *rng.pick(&specs);
        // ---- database
        let mut db = DB::new(EmptyDB::default());
        db.insert_account_info(CALLER, AccountInfo { balance: U256::from(10u64).pow(U256::from(24u64)), nonce: rng.below(3), ..Default::default() });
        for (a, c) in [(t_store, &code_store_log), (t_revert, &code_revert), (t_invalid, &code_invalid), (t_clear, &code_clear)] {
            db.insert_account_info(a, AccountInfo { balance: U256::from(rng.below(1000)), nonce: 1, code: Some(Bytecode::new_raw(c.clone())), ..Default::default() });
        }
        db.insert_account_storage(t_clear, U256::from(1u64), U256::from(7u64)).unwrap();
        // coinbase choice
        let coinbase = match rng.below(8) {
            0 => CALLER_ALT(OPT),
            1 => t_eoa,
            2 => t_store,
            _ => COINBASE,
        };
        if rng.chance(1, 2) { db.insert_account_info(COINBASE, AccountInfo { balance: if rng.chance(1, 4) { U256::MAX - U256::from(rng.below(100_000)) } else { U256::from(rng.next()) }, ..Default::default() }); }
        #[cfg(feature = "optimism")]
        {
            use revm::optimism::{BASE_FEE_RECIPIENT, L1_BLOCK_CONTRACT, L1_FEE_RECIPIENT, OPERATOR_FEE_RECIPIENT};
            db.insert_account_info(L1_BLOCK_CONTRACT, AccountInfo { nonce: 1, ..Default::default() });
            db.insert_account_storage(L1_BLOCK_CONTRACT, U256::from(1u64), U256::from(rng.range(1, 5000))).unwrap();
            db.insert_account_storage(L1_BLOCK_CONTRACT, U256::from(5u64), U256::from(rng.range(0, 3000))).unwrap();
            db.insert_account_storage(L1_BLOCK_CONTRACT, U256::from(6u64), U256::from(rng.range(0, 2_000_000))).unwrap();
            db.insert_account_storage(L1_BLOCK_CONTRACT, U256::from(7u64), U256::from(rng.range(0, 5000))).unwrap();
            // scalars: base fee scalar at bytes 16..20, blob base fee scalar at 20..24
            let mut sc = [0u8; 32];
            sc[16..20].copy_from_slice(&(rng.below(5000) as u32).to_be_bytes());
            sc[20..24].copy_from_slice(&(rng.below(5000) as u32).to_be_bytes());
            db.insert_account_storage(L1_BLOCK_CONTRACT, U256::from(3u64), U256::from_be_bytes(sc)).unwrap();
            let mut opf = [0u8; 32];
            opf[20..24].copy_from_slice(&(rng.below(3_000_000) as u32).to_be_bytes());
            opf[24..32].copy_from_slice(&rng.below(100_000).to_be_bytes());
            db.insert_account_storage(L1_BLOCK_CONTRACT, U256::from(8u64), U256::from_be_bytes(opf)).unwrap();
            for v in [L1_FEE_RECIPIENT, BASE_FEE_RECIPIENT, OPERATOR_FEE_RECIPIENT] {
                if rng.chance(1, 2) { db.insert_account_info(v, AccountInfo { balance: U256::from(rng.below(1_000_000)), ..Default::default() }); }
            }
        }
        // ---- two Evms
        let counter = Rc::new(Cell::new(0u64));
        let mut evms: Vec<E> = [true, false].iter().map(|r| Evm::builder().with_db(db.clone()).with_handler(make_handler(optimism0, spec0, *r || cfg_flag)).build()).collect();
        // ---- operations
        let len = rng.below(9) as usize;
        let mut ops: Vec<Op> = vec![];
        let mut ops_coq: [Vec<String>; 2] = [vec![], vec![]];
        let mut obs: [Vec<String>; 2] = [vec![], vec![]];
        let mut panicked = false;
        for _ in 0..len {
            let nregs = evms[0].handler.registers.len();
            let spec = |rng: &mut Rng| *rng.pick(&specs);
            let route = |rng: &mut Rng| *rng.pick(&[Route::Handler, Route::Evm, Route::Builder]);
            let reg = |rng: &mut Rng| {
                if reward_regs && rng.chance(1, 3) { if OPT && rng.chance(1, 2) { Reg::OpReg(rng.chance(1, 2)) } else { *rng.pick(&[Reg::SetNonePlain, Reg::SetNoneBox]) } }
                else { *rng.pick(&[Reg::PlainNoop, Reg::PlainEnd, Reg::BoxNoop, Reg::BoxCounter]) }
            };
            let op = match rng.below(14) {
                0 | 1 | 2 => Op::ModifySpec(route(&mut rng), if rng.chance(1, 6) { evms[0].handler.cfg.spec_id } else { spec(&mut rng) }),
                3 | 4 | 5 => Op::Append(route(&mut rng), reg(&mut rng)),
                6 | 7 => if nregs > 0 || rng.chance(1, 4) { Op::Pop } else { Op::Append(route(&mut rng), reg(&mut rng)) },
                8 => Op::CreateGeneric(spec(&mut rng), rng.chance(1, 2)),
                9 | 10 => Op::ModifyBuild,
                11 => Op::Install { optimism: OPT && rng.chance(1, 2), spec: spec(&mut rng) },
                12 => if with_resets { if rng.chance(1, 3) { Op::WithHandlerCfg } else { Op::ResetHandler(rng.below(3) as u8) } } else { Op::ModifySpec(route(&mut rng), spec(&mut rng)) },
                _ => Op::Append(route(&mut rng), reg(&mut rng)),
            };
            for (k, reward) in [true, cfg_flag].iter().enumerate() {
                let evm = evms.remove(k);
                let cfg_before = (evm.handler.cfg.spec_id, is_opt(&evm.handler));
                ops_coq[k].push(op.coq(&fe, *reward, cfg_before));
                // a panic inside a reconfiguration loses the Evm: rebuild a default one and record it
                let r = catch(|| apply(evm, &op, *reward, &counter));
                let evm = match r { Ok(e) => e, Err(_) => { panicked = true; Evm::builder().with_db(db.clone()).build() } };
                obs[k].push(observe(&evm));
                evms.insert(k, evm);
            }
            ops.push(op);
        }
        // ---- the transaction
        let fspec = evms[1].handler.cfg.spec_id;
        let basefee = if rng.chance(1, 8) { 0 } else { rng.range(1, 1_000_000_000) };
        let tip = if rng.chance(1, 8) { 0 } else { rng.range(1, 1_000_000_000) };
        let (target, ttag) = match rng.below(6) { 0 | 1 => (t_eoa, "tx:transfer"), 2 => (t_store, "tx:sstore+log"), 3 => (t_revert, "tx:revert"), 4 => (t_invalid, "tx:halt"), _ => (t_clear, "tx:sstore-clear(refund)") };
        let target = if !OPT && rng.chance(1, 12) { coinbase } else { target };
        let value = if rng.chance(1, 2) { U256::ZERO } else { U256::from(rng.below(1_000_000)) };
        let lack = rng.chance(1, 25);
        let deposit = OPT && rng.chance(1, 8);
        let prio = rng.chance(1, 3);
        let mut results = vec![];
        let mut egp = U256::ZERO;
        let mut pre_addrs: Vec<Address> = vec![CALLER, coinbase, target];
        #[cfg(feature = "optimism")]
        pre_addrs.extend([revm::optimism::L1_FEE_RECIPIENT, revm::optimism::BASE_FEE_RECIPIENT, revm::optimism::OPERATOR_FEE_RECIPIENT]);
        let elen = rng.range(1, 200) as usize;
        let envelope = Bytes::from(rng.bytes(elen));
        for evm in evms.iter_mut() {
            let env = &mut evm.context.evm.env;
            env.block.coinbase = coinbase;
            env.block.basefee = U256::from(basefee);
            env.tx.caller = CALLER;
            env.tx.transact_to = TxKind::Call(target);
            env.tx.value = if lack { U256::from(10u64).pow(U256::from(30u64)) } else { value };
            env.tx.gas_limit = 200_000;
            env.tx.gas_price = U256::from(basefee) + U256::from(tip);
            env.tx.gas_priority_fee = if prio && fspec.is_enabled_in(SpecId::LONDON) { Some(U256::from(tip / 2)) } else { None };
            env.tx.nonce = None;
            #[cfg(feature = "optional_beneficiary_reward")]
            { env.cfg.disable_beneficiary_reward = false; }
            #[cfg(feature = "optimism")]
            {
                env.tx.optimism.enveloped_tx = Some(envelope.clone());
                if deposit { env.tx.optimism.source_hash = Some(revm::primitives::B256::repeat_byte(7)); env.tx.optimism.mint = Some(5); }
            }
            egp = env.effective_gas_price();
            #[cfg(feature = "optional_beneficiary_reward")]
            { if cfg_flag && results.len() == 1 { evm.context.evm.env.cfg.disable_beneficiary_reward = true; } }
            results.push(match catch(|| evm.transact()) { Ok(r) => r, Err(m) => Err(EVMError::Custom(format!("panic: {}", m))) });
        }
        let _ = &envelope;
        for r in results.iter() { if let Ok(rs) = r { for a in rs.state.keys() { if !pre_addrs.contains(a) { pre_addrs.push(*a); } } } }
        let pre = zlist(pre_addrs.iter().map(|a| format!("({},{})", zw(aw(*a)), zw(db.basic_ref(*a).unwrap().map(|i| i.balance).unwrap_or_default()))));
        let gas_used = match &results[0] { Ok(rs) => rs.result.gas_used(), Err(_) => 0 };
        // Optimism amounts (C33's subject): read through the public L1BlockInfo API for the final spec
        #[allow(unused_mut)]
        let (mut l1_cost, mut op_fee) = (U256::ZERO, U256::ZERO);
        #[cfg(feature = "optimism")]
        {
            let mut d = db.clone();
            if let Ok(mut info) = revm::optimism::L1BlockInfo::try_fetch(&mut d, fspec) {
                if let Ok((c, f)) = catch(|| (info.calculate_tx_l1_cost(&envelope, fspec), info.operator_fee_charge(U256::from(gas_used), fspec))) { l1_cost = c; op_fee = f; }
            }
        }
        let _ = gas_used;
        let penv = format!("(mkPenv {} {} {} {} {} {} {} {} false)", zw(aw(CALLER)), zw(aw(coinbase)), zw(egp), zu(basefee), zb(fspec.is_enabled_in(SpecId::LONDON)), zb(deposit), zw(l1_cost), zw(op_fee));
        let txo = format!("(mkTx {} {} {} {} {} {} {} {})", penv, zw(aw(target)), zw(if lack { U256::from(10u64).pow(U256::from(30u64)) } else { value }), pre,
            zlist(enc_result(&results[0])), zlist(enc_result(&results[1])), zlist(enc_state(&results[0])), zlist(enc_state(&results[1])));
        let mut used: Vec<SpecId> = vec![spec0];
        for op in ops.iter() { match op { Op::ModifySpec(_, s) | Op::CreateGeneric(s, _) | Op::Install { spec: s, .. } => if !used.contains(s) { used.push(*s); }, _ => {} } }
        for e in evms.iter() { let s = e.handler.cfg.spec_id; if !used.contains(&s) { used.push(s); } }
        let fe_term = format!("(feat {} {})", zb(OPT), zlist(used.iter().map(|s| format!("({},{})", sid(*s), sid(canon_of(*s))))));
        let case = format!("(let fe_ := {} in mkCase {} {} {} {} {} {} {} {} {})", fe_term, fe, zb(optimism0), sid(spec0), zb(cfg_flag), zlist(ops_coq[0].clone()), zlist(ops_coq[1].clone()), zlist(obs[0].clone()), zlist(obs[1].clone()), txo);
        let human = format!("optimism={} spec0={:?} ops={:?} coinbase={} target={} basefee={} tip={} value={} deposit={} prio={} final_spec={:?} final_reward=[{},{}] result_on={:?}",
            optimism0, spec0, ops, coinbase, target, basefee, tip, value, deposit, prio, fspec,
            evms[0].handler.post_execution.reward_beneficiary.is_some(), evms[1].handler.post_execution.reward_beneficiary.is_some(),
            results[0].as_ref().map(|r| format!("{:?} used {}", std::mem::discriminant(&r.result), r.result.gas_used())).map_err(|e| format!("{:?}", e)));
        let mut tags: Vec<&str> = vec![ttag];
        for op in ops.iter() { tags.push(op.tag()); }
        tags.push(if optimism0 { "init:optimism_with_spec" } else { "init:mainnet_with_spec" });
        if reward_regs { tags.push("stream:reward-assigning-registers"); }
        if cfg_flag { tags.push("stream:off-through-CfgEnv::disable_beneficiary_reward"); }
        if with_resets { tags.push("stream:with-resets"); }
        if panicked { tags.push("reconfiguration-panicked"); }
        if coinbase == CALLER { tags.push("coinbase=caller"); }
        if coinbase == target { tags.push("coinbase=target"); }
        if deposit { tags.push("tx:deposit"); }
        match &results[1] { Ok(rs) => tags.push(match rs.result { ExecutionResult::Success { .. } => "result:success", ExecutionResult::Revert { .. } => "result:revert", ExecutionResult::Halt { .. } => "result:halt" }), Err(_) => tags.push("result:error") }
        if fspec.is_enabled_in(SpecId::LONDON) { tags.push("final-spec:london+"); } else { tags.push("final-spec:pre-london"); }
        if !evms[1].handler.post_execution.reward_beneficiary.is_some() { tags.push("final:off-evm-still-off"); }
        let case = case.replace("@FE@", "fe_");
        w.push(case, human, !ops.is_empty() && results[1].is_ok(), &tags);
    }
    w.finish("two real Evms from Handler::{mainnet,optimism}_with_spec(spec, reward) for reward = true / false, taken through the same random list (0..8) of \
reconfigurations {handler/evm/builder modify_spec_id, append_handler_register(_plain/_box) with registers that leave the reward handle alone (1/5 of cases also registers that assign it), \
pop_handle_register, create_handle_generic, modify().build(), builder.with_handler, and in 1/6 of cases documented resets}; handler observed after every step; then one fee-paying call \
(transfer / sstore+log / revert / halt / refund) with random base fee and tip on each; non-trivial = at least one reconfiguration and an executed transaction");
}

#[allow(non_snake_case)]
fn CALLER_ALT(opt: bool) -> Address { if opt { COINBASE } else { CALLER } }
