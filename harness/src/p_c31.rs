//! C31: one `Evm` reused for a sequence of calls (transact / transact_commit /
//! preverify_transaction / transact_preverified) and spec changes, next to a freshly built `Evm`
//! per call over a clone of the database of the moment.
use crate::util::*;
use revm::db::{CacheDB, EmptyDB};
use revm::precompile::{PrecompileSpecId, Precompiles};
use revm::primitives::{
    spec_to_generic, AccessListItem, AccountInfo, Address, Bytecode, Bytes, EVMError, ExecutionResult, HandlerCfg,
    InvalidTransaction, ResultAndState, SpecId, TxKind, B256, U256,
};
use revm::Evm;
use std::convert::Infallible;

type DB = CacheDB<EmptyDB>;
type E = Evm<'static, (), DB>;

fn aw(a: Address) -> U256 { U256::from_be_slice(a.as_slice()) }
fn fnv(s: &str) -> u64 { let mut h = 0xcbf29ce484222325u64; for b in s.bytes() { h ^= b as u64; h = h.wrapping_mul(0x100000001b3); } h >> 1 }
fn sid(s: SpecId) -> String { format!("{}", s as u8) }

fn state_string(rs: &ResultAndState) -> String {
    let mut accts: Vec<_> = rs.state.iter().collect();
    accts.sort_by_key(|(a, _)| **a);
    let mut s = String::new();
    for (a, acc) in accts {
        let mut st: Vec<_> = acc.storage.iter().collect();
        st.sort_by_key(|(k, _)| **k);
        s += &format!("{a}:{}:{}:{}:{}:{:?};", acc.info.balance, acc.info.nonce, acc.info.code_hash, acc.status.bits(),
            st.iter().map(|(k, v)| (**k, v.original_value, v.present_value, v.is_cold)).collect::<Vec<_>>());
    }
    s
}
fn db_string(db: &DB) -> String {
    let mut accts: Vec<_> = db.accounts.iter().collect();
    accts.sort_by_key(|(a, _)| **a);
    let mut s = String::new();
    for (a, acc) in accts {
        let mut st: Vec<_> = acc.storage.iter().collect();
        st.sort();
        s += &format!("{a}:{}:{}:{}:{:?}:{:?};", acc.info.balance, acc.info.nonce, acc.info.code_hash, acc.account_state, st);
    }
    let mut cs: Vec<_> = db.contracts.iter().map(|(h, c)| (*h, c.original_bytes())).collect();
    cs.sort();
    let mut bh: Vec<_> = db.block_hashes.iter().collect();
    bh.sort();
    s += &format!("|{:?}|{:?}|{}", cs, bh, db.logs.len());
    s
}

/// [kind, gas used, refunded, digest of the rest of the result, digest of the returned state]
fn enc_rs(r: &Result<ResultAndState, EVMError<Infallible>>) -> Vec<String> {
    match r {
        Ok(rs) => { let mut v = enc_res(&Ok(rs.result.clone())); v[4] = zu(fnv(&state_string(rs))); v }
        Err(e) => enc_res(&Err(e.clone())),
    }
}
fn enc_res(r: &Result<ExecutionResult, EVMError<Infallible>>) -> Vec<String> {
    match r {
        Ok(res) => {
            let (k, refunded) = match res { ExecutionResult::Success { gas_refunded, .. } => (0, *gas_refunded), ExecutionResult::Revert { .. } => (1, 0), ExecutionResult::Halt { .. } => (2, 0) };
            vec![zu(k), zu(res.gas_used()), zu(refunded), zu(fnv(&format!("{:?}", res))), zu(0)]
        }
        Err(e) => vec![zu(3), zu(0), zu(0), zu(fnv(&format!("{:?}", e))), zu(0)],
    }
}
fn enc_unit(r: &Result<(), EVMError<Infallible>>) -> Vec<String> {
    match r { Ok(()) => vec![zu(4), zu(0), zu(0), zu(0), zu(0)], Err(e) => vec![zu(3), zu(0), zu(0), zu(fnv(&format!("{:?}", e))), zu(0)] }
}

fn stage(err: Option<&EVMError<Infallible>>) -> u64 {
    use InvalidTransaction as T;
    match err {
        None => 3,
        Some(EVMError::Transaction(t)) => match t {
            T::CallGasCostMoreThanGasLimit | T::GasFloorMoreThanGasLimit => 1,
            T::NonceTooHigh { .. } | T::NonceTooLow { .. } | T::LackOfFundForMaxFee { .. } | T::RejectCallerWithCode
            | T::OverflowPaymentInTransaction | T::NonceOverflowInTransaction => 2,
            _ => 0,
        },
        Some(EVMError::Header(_)) => 0,
        Some(_) => 3,
    }
}

fn inspect(evm: &E) -> (String, bool) {
    let js = &evm.context.evm.journaled_state;
    let mut warm: Vec<U256> = js.warm_preloaded_addresses.iter().map(|a| aw(*a)).collect();
    warm.sort();
    let mut pcs: Vec<U256> = evm.context.evm.precompiles.addresses().map(|a| aw(*a)).collect();
    pcs.sort();
    let journal_ok = js.journal.len() == 1 && js.journal[0].is_empty();
    let tlen = js.transient_storage.len();
    let clean = js.state.is_empty() && tlen == 0 && js.logs.is_empty() && js.depth == 0 && journal_ok && evm.context.evm.error.is_ok() && warm.is_empty();
    (format!("(mkIobs {} {} {} {} {} {} {} {} {})", js.state.len(), tlen, js.logs.len(), js.depth, zb(journal_ok), zb(evm.context.evm.error.is_ok()),
        zlist(warm.iter().map(|x| zw(*x))), sid(js.spec), zlist(pcs.iter().map(|x| zw(*x)))), clean)
}

const A: Address = Address::new([0x11; 20]);       // rich sender
const B: Address = Address::new([0x12; 20]);       // poor sender
const CODE_SENDER: Address = Address::new([0x13; 20]); // sender with code (EIP-3607)
const X: Address = Address::new([0x77; 20]);       // address probed for warmth
const C_TSTORE: Address = Address::new([0xA1; 20]);
const C_WARM: Address = Address::new([0xA2; 20]);
const C_LOG: Address = Address::new([0xA3; 20]);
const C_REVERT: Address = Address::new([0xA4; 20]);
const C_INVALID: Address = Address::new([0xA5; 20]);
const C_LOOP: Address = Address::new([0xA6; 20]);
const C_SELFDESTRUCT: Address = Address::new([0xA7; 20]);
const C_NESTED: Address = Address::new([0xA8; 20]);
const C_SSTORE: Address = Address::new([0xA9; 20]);

fn base_db(rng: &mut Rng) -> DB {
    let mut db = DB::new(EmptyDB::default());
    let rich = U256::from(10u64).pow(U256::from(24u64));
    db.insert_account_info(A, AccountInfo { balance: rich, nonce: rng.below(3), ..Default::default() });
    db.insert_account_info(B, AccountInfo { balance: U256::from(rng.below(100_000)), nonce: 0, ..Default::default() });
    db.insert_account_info(CODE_SENDER, AccountInfo { balance: rich, nonce: 1, code: Some(Bytecode::new_raw(Bytes::from_static(&[0x00]))), ..Default::default() });
    let mut warm = vec![0x73u8]; warm.extend_from_slice(X.as_slice()); warm.extend_from_slice(&[0x31, 0x50, 0x60, 0x05, 0x54, 0x50, 0x00]);
    let mut sd = vec![0x73u8]; sd.extend_from_slice(X.as_slice()); sd.push(0xff);
    // nested: CALL C_TSTORE with all gas, then CALL C_REVERT, then LOG0, SSTORE(2, 9)
    let mut nested = vec![];
    for tgt in [C_TSTORE, C_REVERT] {
        nested.extend_from_slice(&[0x60, 0x00, 0x60, 0x00, 0x60, 0x00, 0x60, 0x00, 0x60, 0x00, 0x73]);
        nested.extend_from_slice(tgt.as_slice());
        nested.extend_from_slice(&[0x5a, 0xf1, 0x50]);
    }
    nested.extend_from_slice(&[0x60, 0x00, 0x60, 0x00, 0xa0, 0x60, 0x09, 0x60, 0x02, 0x55, 0x00]);
    let codes: Vec<(Address, Vec<u8>)> = vec![
        // v = TLOAD(0); SSTORE(1, v); TSTORE(0, 0x42); SSTORE(3, TLOAD(0))
        (C_TSTORE, vec![0x60, 0x00, 0x5c, 0x60, 0x01, 0x55, 0x60, 0x42, 0x60, 0x00, 0x5d, 0x60, 0x00, 0x5c, 0x60, 0x03, 0x55, 0x00]),
        (C_WARM, warm),
        // LOG1(topic 7, data mem[0..4]), LOG0
        (C_LOG, vec![0x60, 0x07, 0x60, 0x04, 0x60, 0x00, 0xa1, 0x60, 0x00, 0x60, 0x00, 0xa0, 0x00]),
        // SSTORE(1,1); LOG0; REVERT(0,2)
        (C_REVERT, vec![0x60, 0x01, 0x60, 0x01, 0x55, 0x60, 0x00, 0x60, 0x00, 0xa0, 0x60, 0x02, 0x60, 0x00, 0xfd]),
        // SSTORE(1,1); LOG0; INVALID
        (C_INVALID, vec![0x60, 0x01, 0x60, 0x01, 0x55, 0x60, 0x00, 0x60, 0x00, 0xa0, 0xfe]),
        (C_LOOP, vec![0x5b, 0x60, 0x00, 0x56]),
        (C_SELFDESTRUCT, sd),
        (C_NESTED, nested),
        // SSTORE(0, 0) on a slot that holds 7 (refund), SSTORE(4, 1)
        (C_SSTORE, vec![0x60, 0x00, 0x60, 0x00, 0x55, 0x60, 0x01, 0x60, 0x04, 0x55, 0x00]),
    ];
    for (a, c) in codes {
        db.insert_account_info(a, AccountInfo { balance: U256::from(rng.below(5000)), nonce: 1, code: Some(Bytecode::new_raw(Bytes::from(c))), ..Default::default() });
    }
    db.insert_account_storage(C_SSTORE, U256::ZERO, U256::from(7u64)).unwrap();
    db.insert_account_storage(C_WARM, U256::from(5u64), U256::from(3u64)).unwrap();
    db
}

#[derive(Debug, Clone, Copy)]
enum Entry { Transact, TransactCommit, Preverify, TransactPreverified }

pub fn run(o: &Opts) {
    let mut rng = Rng::new(o.seed ^ 0xC31);
    let mut w = CaseWriter::new(o, "C31", 150);
    let n = if o.thorough() { 6_000 } else { 900 };
    let specs: Vec<SpecId> = (0..=255u8).filter_map(SpecId::try_from_u8).collect();
    // per case only the rows of the specs it uses are printed (keeps the case files small)
    let canon_of = |s: SpecId| -> SpecId { spec_to_generic!(s, <SPEC as revm::primitives::Spec>::SPEC_ID) };
    let canon_rows = |used: &Vec<SpecId>| zlist(used.iter().map(|s| format!("({},{})", sid(*s), sid(canon_of(*s)))));
    let pcs_rows = |used: &Vec<SpecId>| {
        let mut cs: Vec<SpecId> = used.iter().map(|s| canon_of(*s)).collect();
        cs.sort(); cs.dedup();
        zlist(cs.iter().map(|s| {
            let mut v: Vec<U256> = Precompiles::new(PrecompileSpecId::from_spec_id(*s)).addresses().map(|a| aw(*a)).collect();
            v.sort();
            format!("({},{})", sid(*s), zlist(v.iter().map(|x| zw(*x))))
        }))
    };
    let recent: Vec<SpecId> = specs.iter().copied().filter(|s| s.is_enabled_in(SpecId::BERLIN)).collect();
    let targets = [C_TSTORE, C_WARM, C_LOG, C_REVERT, C_INVALID, C_LOOP, C_SELFDESTRUCT, C_NESTED, C_SSTORE];
    let coinbases = [Address::new([0xC0; 20]), X, C_WARM, A];

    for _i in 0..n {
        let spec0 = if rng.chance(2, 3) { *rng.pick(&recent) } else { *rng.pick(&specs) };
        let mut evm: E = if rng.chance(1, 2) { Evm::builder().with_db(base_db(&mut rng)).with_spec_id(spec0).build() }
                         else { Evm::builder().with_db(base_db(&mut rng)).with_handler_cfg(HandlerCfg::new(spec0)).build() };
        let spec_start = evm.handler.cfg.spec_id;   // Handler::new canonicalises (ARROW_GLACIER -> LONDON), with_spec_id does not
        let len = rng.range(2, 9) as usize;
        let mut steps: Vec<String> = vec![];
        let mut human: Vec<String> = vec![];
        let mut tags: Vec<String> = vec![];
        let mut leak = false;
        let mut mismatch = false;
        let mut used: Vec<SpecId> = vec![spec_start];
        for _ in 0..len {
            if rng.chance(1, 6) {
                let s = if rng.chance(2, 3) { *rng.pick(&recent) } else { *rng.pick(&specs) };
                evm.modify_spec_id(s);
                if !used.contains(&s) { used.push(s); }
                let (io, _) = inspect(&evm);
                steps.push(format!("(mkStep 4 {} 3 [] [] 0 0 {})", sid(s), io));
                human.push(format!("modify_spec_id({:?})", s));
                tags.push("step:modify_spec_id".into());
                continue;
            }
            let spec = evm.handler.cfg.spec_id;
            // ---- environment of this call
            let kind;
            {
                let env = &mut evm.context.evm.env;
                env.block.coinbase = *rng.pick(&coinbases);
                env.block.basefee = U256::from(if rng.chance(1, 4) { 0 } else { rng.range(1, 1000) });
                env.block.number = U256::from(rng.range(1, 1000));
                env.tx.caller = A;
                env.tx.gas_limit = *rng.pick(&[100_000u64, 300_000, 60_000]);
                env.tx.gas_price = env.block.basefee + U256::from(rng.range(0, 50));
                env.tx.gas_priority_fee = None;
                env.tx.value = if rng.chance(1, 3) { U256::from(rng.below(1000)) } else { U256::ZERO };
                env.tx.nonce = None;
                env.tx.chain_id = None;
                env.tx.access_list = vec![];
                let dlen = rng.below(40) as usize;
                env.tx.data = Bytes::from(rng.bytes(dlen));
                env.tx.transact_to = TxKind::Call(*rng.pick(&targets));
                kind = match rng.below(20) {
                    0 => { env.tx.nonce = Some(rng.range(5, 9)); "tx:bad-nonce" }
                    1 => { env.tx.caller = B; env.tx.value = U256::from(10u64).pow(U256::from(20u64)); "tx:lack-of-funds" }
                    2 => { env.tx.gas_limit = rng.range(0, 20_999); "tx:gas-below-intrinsic" }
                    3 => { env.tx.gas_price = U256::ZERO; env.block.basefee = U256::from(7u64); "tx:price-below-basefee" }
                    4 => { env.tx.chain_id = Some(77); "tx:bad-chain-id" }
                    5 => { env.tx.caller = CODE_SENDER; "tx:sender-with-code" }
                    6 | 7 => {
                        env.tx.access_list = vec![AccessListItem { address: X, storage_keys: vec![B256::with_last_byte(5)] },
                                              AccessListItem { address: C_WARM, storage_keys: vec![B256::with_last_byte(5), B256::with_last_byte(1)] }];
                        env.tx.transact_to = TxKind::Call(C_WARM);
                        "tx:access-list"
                    }
                    8 => { env.tx.transact_to = TxKind::Call(Address::with_last_byte(*rng.pick(&[1u8, 2, 3, 4, 5, 6, 9, 10, 11]))); "tx:to-precompile" }
                    9 => {
                        // initcode: SSTORE(0,1); return 1 byte of runtime (STOP)
                        env.tx.transact_to = TxKind::Create;
                        env.tx.data = Bytes::from_static(&[0x60, 0x01, 0x60, 0x00, 0x55, 0x60, 0x01, 0x60, 0x00, 0xf3]);
                        "tx:create"
                    }
                    10 => { env.tx.transact_to = TxKind::Call(Address::new([0xEE; 20])); "tx:transfer-to-eoa" }
                    11 => { env.tx.transact_to = TxKind::Call(C_TSTORE); "tx:tstore" }
                    12 => { env.tx.transact_to = TxKind::Call(C_WARM); "tx:warm-probe" }
                    _ => "tx:call-contract",
                };
            }
            let entry = *rng.pick(&[Entry::Transact, Entry::Transact, Entry::TransactCommit, Entry::TransactCommit, Entry::Preverify, Entry::TransactPreverified]);
            // ---- fresh instance over the database as it is now
            let db_now = evm.context.evm.db.clone();
            let env_now = evm.context.evm.env.clone();
            let mut fresh: E = match rng.below(3) {
                0 => Evm::builder().with_db(db_now).with_env(env_now).with_spec_id(spec).build(),
                1 => Evm::builder().with_db(db_now).with_handler_cfg(HandlerCfg::new(spec)).with_env(env_now).build(),
                _ => Evm::builder().with_db(db_now).with_spec_id(spec).with_env(env_now).build(),
            };
            let call = |e: &mut E| -> (Vec<String>, u64) {
                match entry {
                    Entry::Transact => { let r = catch(|| e.transact()).unwrap_or_else(|m| Err(EVMError::Custom(format!("panic: {}", m)))); (enc_rs(&r), stage(r.as_ref().err())) }
                    Entry::TransactPreverified => { let r = catch(|| e.transact_preverified()).unwrap_or_else(|m| Err(EVMError::Custom(format!("panic: {}", m)))); (enc_rs(&r), stage(r.as_ref().err())) }
                    Entry::TransactCommit => { let r = catch(|| e.transact_commit()).unwrap_or_else(|m| Err(EVMError::Custom(format!("panic: {}", m)))); (enc_res(&r), stage(r.as_ref().err())) }
                    Entry::Preverify => { let r = catch(|| e.preverify_transaction()).unwrap_or_else(|m| Err(EVMError::Custom(format!("panic: {}", m)))); (enc_unit(&r), stage(r.as_ref().err())) }
                }
            };
            let (out_r, st_r) = call(&mut evm);
            let (out_f, _) = call(&mut fresh);
            let (dbs_r, dbs_f) = (db_string(&evm.context.evm.db), db_string(&fresh.context.evm.db));
            let (io, clean) = inspect(&evm);
            if !clean { leak = true; }
            if out_r != out_f || dbs_r != dbs_f { mismatch = true; }
            let k = match entry { Entry::Transact => 0, Entry::TransactCommit => 1, Entry::Preverify => 2, Entry::TransactPreverified => 3 };
            steps.push(format!("(mkStep {} {} {} {} {} {} {} {})", k, sid(spec), st_r, zlist(out_r.clone()), zlist(out_f.clone()), zu(fnv(&dbs_r)), zu(fnv(&dbs_f)), io));
            human.push(format!("{:?}[{} spec={:?} -> kind {} gas {} stage {}{}]", entry, kind, spec, out_r[0], out_r[1], st_r,
                if out_r != out_f { format!(" FRESH-DIFFERS {:?} vs {:?}", out_r, out_f) } else if dbs_r != dbs_f { format!(" DB-DIFFERS reused={} fresh={}", dbs_r, dbs_f) } else { String::new() }));
            tags.push(format!("entry:{:?}", entry));
            tags.push(kind.into());
            tags.push(format!("outcome:{}", match out_r[0].as_str() { "0" => "success", "1" => "revert", "2" => "halt", "3" => "error", _ => "preverify-ok" }));
            if st_r != 3 { tags.push(format!("validation-stops-at-stage:{}", st_r)); }
        }
        if leak { tags.push("LEAK-OBSERVED".into()); }
        if mismatch { tags.push("REUSE-DIFFERS-FROM-FRESH".into()); }
        let case = format!("(mkCase {} {} {} {})", sid(spec_start), canon_rows(&used), pcs_rows(&used), zlist(steps));
        let tagrefs: Vec<&str> = tags.iter().map(|s| s.as_str()).collect();
        w.push(case, format!("spec0={:?} {}", spec0, human.join(" ; ")), true, &tagrefs);
    }
    w.finish("sequences of 2..9 steps on ONE Evm<(), CacheDB<EmptyDB>>: calls through transact / transact_commit / preverify_transaction / transact_preverified with \
valid, invalid (nonce, funds, intrinsic gas, base fee, chain id, sender with code), reverting, halting, looping, TSTORE/TLOAD, warm-probe (BALANCE+SLOAD of an address that was coinbase / access-listed before), \
access-list, precompile, LOG, SELFDESTRUCT, nested-call and create transactions, changing coinbase/base fee, interleaved with modify_spec_id; each call repeated on a freshly built Evm over a clone of the database; \
outcome (result + returned state) and database compared per step, public fields of the reused instance inspected after every step; every case has at least two steps");
}
