//! C29: a recording Inspector attached through `inspector_handle_register` to a real `Evm`;
//! the case is the sequence of callbacks of one transaction.
use crate::progs::{self, GenOpts, World};
use crate::util::*;
use revm::db::{CacheDB, EmptyDB};
use revm::interpreter::{
    CallInputs, CallOutcome, CreateInputs, CreateOutcome, EOFCreateInputs, Gas, InstructionResult, Interpreter, InterpreterResult,
};
use revm::primitives::{Address, Bytes, ExecutionResult, Log, U256};
use revm::{inspector_handle_register, Evm, EvmContext, Inspector};
use std::hash::{Hash, Hasher};

fn h64<T: std::fmt::Debug>(x: &T) -> u64 {
    let mut h = std::collections::hash_map::DefaultHasher::new();
    format!("{:?}", x).hash(&mut h);
    h.finish() >> 1
}

#[derive(Clone, Debug)]
pub enum Tok {
    Open { k: u8, id: u64, insp: bool, depth: u64 },
    Close { k: u8, id: u64, ok: bool },
    Init,
    Step { opc: u8, depth: u64 },
    StepEnd { res: u8 },
    Log(u64),
    Sd,
}
fn kind(k: u8) -> &'static str { match k { 0 => "KCall", 1 => "KCreate", _ => "KEof" } }
impl Tok {
    pub fn coq(&self) -> String {
        match self {
            Tok::Open { k, id, insp, depth } => format!("EOpen {} {} {} {}", kind(*k), id, zb(*insp), depth),
            Tok::Close { k, id, ok } => format!("EClose {} {} {}", kind(*k), id, zb(*ok)),
            Tok::Init => "EInit".into(),
            Tok::Step { opc, depth } => format!("EStep {} {}", opc, depth),
            Tok::StepEnd { res } => format!("EStepEnd {}", res),
            Tok::Log(h) => format!("ELog {}", h),
            Tok::Sd => "ESd".into(),
        }
    }
    fn short(&self) -> String {
        match self {
            Tok::Open { k, id, insp, .. } => format!("{}{}({:x})", ["call", "create", "eofcreate"][*k as usize], if *insp { "!" } else { "" }, id & 0xffff),
            Tok::Close { k, id, ok } => format!("{}_end{}({:x})", ["call", "create", "eofcreate"][*k as usize], if *ok { "" } else { "~" }, id & 0xffff),
            Tok::Init => "init".into(),
            Tok::Step { opc, .. } => format!("s{:02x}", opc),
            Tok::StepEnd { res } => format!("e{}", res),
            Tok::Log(_) => "log".into(),
            Tok::Sd => "sd".into(),
        }
    }
}

/// Records every hook. With `override_pct > 0` it also supplies outcomes from `call` / `create`
/// for some calls and changes the inputs of some others (the *_end hook must then see the
/// changed inputs).
pub struct Recorder { pub toks: Vec<Tok>, rng: Rng, override_pct: u64, pub n_override: u64, pub n_mutated: u64 }
impl Recorder {
    /// 101 = answer every call/create below the transaction level, none at the transaction level
    fn pct(&self, depth: u64) -> u64 { if self.override_pct == 101 { if depth >= 1 { 100 } else { 0 } } else { self.override_pct } }
    pub fn new(seed: u64, override_pct: u64) -> Self { Recorder { toks: vec![], rng: Rng::new(seed), override_pct, n_override: 0, n_mutated: 0 } }
    fn result(&mut self, gas_limit: u64) -> InterpreterResult {
        let r = *self.rng.pick(&[InstructionResult::Stop, InstructionResult::Return, InstructionResult::Revert, InstructionResult::OutOfGas,
            InstructionResult::CallTooDeep, InstructionResult::PrecompileError, InstructionResult::Return, InstructionResult::OutOfFunds]);
        let mut gas = Gas::new(gas_limit);
        let _ = gas.record_cost(self.rng.below(gas_limit.min(5000) + 1));
        let out = if self.rng.chance(1, 2) { Bytes::new() } else { Bytes::from(self.rng.bytes(self.rng.clone().below(70) as usize)) };
        InterpreterResult { result: r, output: out, gas }
    }
}
impl<DB: revm::Database> Inspector<DB> for Recorder {
    fn initialize_interp(&mut self, _i: &mut Interpreter, _c: &mut EvmContext<DB>) { self.toks.push(Tok::Init); }
    fn step(&mut self, i: &mut Interpreter, c: &mut EvmContext<DB>) {
        self.toks.push(Tok::Step { opc: i.current_opcode(), depth: c.journaled_state.depth() });
    }
    fn step_end(&mut self, i: &mut Interpreter, _c: &mut EvmContext<DB>) {
        let res = match i.instruction_result {
            InstructionResult::Continue => 0,
            InstructionResult::CallOrCreate => 1,
            InstructionResult::SelfDestruct => 3,
            _ => 2,
        };
        self.toks.push(Tok::StepEnd { res });
    }
    fn log(&mut self, _i: &mut Interpreter, _c: &mut EvmContext<DB>, log: &Log) { self.toks.push(Tok::Log(h64(log))); }
    fn call(&mut self, c: &mut EvmContext<DB>, inputs: &mut CallInputs) -> Option<CallOutcome> {
        let depth = c.journaled_state.depth();
        let roll = self.rng.below(100);
        if roll < self.pct(depth) {
            self.n_override += 1;
            let r = self.result(inputs.gas_limit);
            self.toks.push(Tok::Open { k: 0, id: h64(inputs), insp: true, depth });
            return Some(CallOutcome::new(r, inputs.return_memory_offset.clone()));
        }
        if self.override_pct > 0 && self.override_pct <= 100 && roll < self.override_pct + 10 {
            // change the inputs: the handler must hand the changed inputs to call_end
            self.n_mutated += 1;
            inputs.gas_limit -= inputs.gas_limit.min(self.rng.below(3));
            if self.rng.chance(1, 2) { inputs.input = Bytes::from(vec![0xAB; 5]); }
        }
        self.toks.push(Tok::Open { k: 0, id: h64(inputs), insp: false, depth });
        None
    }
    fn call_end(&mut self, _c: &mut EvmContext<DB>, inputs: &CallInputs, outcome: CallOutcome) -> CallOutcome {
        self.toks.push(Tok::Close { k: 0, id: h64(inputs), ok: outcome.result.result.is_ok() });
        outcome
    }
    fn create(&mut self, c: &mut EvmContext<DB>, inputs: &mut CreateInputs) -> Option<CreateOutcome> {
        let depth = c.journaled_state.depth();
        let roll = self.rng.below(100);
        if roll < self.pct(depth) {
            self.n_override += 1;
            let r = self.result(inputs.gas_limit);
            let a = if r.result.is_ok() { Some(progs::addr(0xC0DE)) } else { None };
            self.toks.push(Tok::Open { k: 1, id: h64(inputs), insp: true, depth });
            return Some(CreateOutcome::new(r, a));
        }
        if self.override_pct > 0 && self.override_pct <= 100 && roll < self.override_pct + 10 {
            self.n_mutated += 1;
            inputs.gas_limit -= inputs.gas_limit.min(self.rng.below(3));
        }
        self.toks.push(Tok::Open { k: 1, id: h64(inputs), insp: false, depth });
        None
    }
    fn create_end(&mut self, _c: &mut EvmContext<DB>, inputs: &CreateInputs, outcome: CreateOutcome) -> CreateOutcome {
        self.toks.push(Tok::Close { k: 1, id: h64(inputs), ok: outcome.result.result.is_ok() });
        outcome
    }
    fn eofcreate(&mut self, c: &mut EvmContext<DB>, inputs: &mut EOFCreateInputs) -> Option<CreateOutcome> {
        let depth = c.journaled_state.depth();
        if self.rng.below(100) < self.pct(depth) {
            self.n_override += 1;
            let r = self.result(inputs.gas_limit);
            let a = if r.result.is_ok() { Some(progs::addr(0xC0DE)) } else { None };
            self.toks.push(Tok::Open { k: 2, id: h64(inputs), insp: true, depth });
            return Some(CreateOutcome::new(r, a));
        }
        self.toks.push(Tok::Open { k: 2, id: h64(inputs), insp: false, depth });
        None
    }
    fn eofcreate_end(&mut self, _c: &mut EvmContext<DB>, inputs: &EOFCreateInputs, outcome: CreateOutcome) -> CreateOutcome {
        self.toks.push(Tok::Close { k: 2, id: h64(inputs), ok: outcome.result.result.is_ok() });
        outcome
    }
    fn selfdestruct(&mut self, _contract: Address, _target: Address, _value: U256) { self.toks.push(Tok::Sd); }
}

pub struct Observed { pub toks: Vec<Tok>, pub logs: Vec<u64>, pub panicked: bool, pub status: String, pub n_override: u64, pub n_mutated: u64 }

/// Run `w.tx` on a fresh Evm over a clone of `w.db` with the recorder attached.
pub fn observe(w: &World, seed: u64, override_pct: u64) -> Observed { observe_nth(w, seed, override_pct, 1) }

/// Same, but the transaction is run `rounds` times on one Evm (nothing is committed in between; the
/// input stacks of the handler live across transactions) and only the last run is reported.
pub fn observe_nth(w: &World, seed: u64, override_pct: u64, rounds: u32) -> Observed {
    let db: CacheDB<EmptyDB> = w.db.clone();
    let rec = Recorder::new(seed, override_pct);
    let (tx, block, spec) = (w.tx.clone(), w.block.clone(), w.spec);
    let r = catch(move || {
        let mut evm = Evm::builder()
            .with_db(db)
            .with_external_context(rec)
            .with_spec_id(spec)
            .modify_tx_env(|t| *t = tx)
            .modify_block_env(|b| *b = block)
            .append_handler_register(inspector_handle_register)
            .build();
        let mut res = evm.transact();
        for _ in 1..rounds { evm.context.external.toks.clear(); res = evm.transact(); }
        let rec = evm.into_context().external;
        (res.map(|x| x.result).map_err(|e| format!("{:?}", e)), rec)
    });
    match r {
        Ok((res, rec)) => {
            let (logs, status) = match &res {
                Ok(ExecutionResult::Success { logs, reason, .. }) => (logs.iter().map(|l| h64(l)).collect(), format!("success:{:?}", reason)),
                Ok(ExecutionResult::Revert { .. }) => (vec![], "revert".to_string()),
                Ok(ExecutionResult::Halt { reason, .. }) => (vec![], format!("halt:{:?}", reason).split('(').next().unwrap().to_string()),
                Err(e) => (vec![], format!("invalid-tx:{}", e.chars().take(40).collect::<String>())),
            };
            Observed { toks: rec.toks, logs, panicked: false, status, n_override: rec.n_override, n_mutated: rec.n_mutated }
        }
        Err(m) => Observed { toks: vec![], logs: vec![], panicked: true, status: format!("panic:{}", m), n_override: 0, n_mutated: 0 },
    }
}

pub fn run(o: &Opts) {
    let mut rng = Rng::new(o.seed ^ 0xC29);
    let mut w = CaseWriter::new(o, "C29", 60);
    let n = if o.thorough() { 6000 } else { 600 };
    let n_deep = if o.thorough() { 9 } else { 3 };
    let opts = GenOpts::default();
    let mut deep_done = 0;
    for i in 0..n {
        // depth-limit cases are large: spread them over different shards
        let deep = i % 233 == 100 && deep_done < n_deep;
        if deep { deep_done += 1; }
        // EOF creates (create transactions with EOF init code, nested EOFCREATE): every shape is run with an
        // observing inspector, with one that answers every create/eofcreate itself, and with a 35% one
        let eof = i % 30 == 7;
        let eofk = (i / 30) as u64;
        let world = if deep { progs::deep_world(&mut rng, i as u64) } else if eof { progs::eof_world(eofk / 4) } else { progs::gen_world(&mut rng, &opts) };
        let override_pct = if deep { 0 } else if eof { [0u64, 100, 35, 101][(eofk % 4) as usize] } else { match i % 4 { 0 | 1 => 0, 2 => 12, _ => 35 } };
        let iseed = rng.next();
        // perturbation hook for teeth tests: VH_C29_PERTURB=drop-close|swap-id
        let rounds = if !deep && i % 7 == 3 { 2 + (i % 2) as u32 } else { 1 };
        let mut ob = observe_nth(&world, iseed, override_pct, rounds);
        if let Ok(p) = std::env::var("VH_C29_PERTURB") {
            if p == "drop-step-end" { if let Some(j) = ob.toks.iter().rposition(|t| matches!(t, Tok::StepEnd { .. })) { if i % 5 == 0 { ob.toks.remove(j); } } }
            if p == "swap-id" { if i % 5 == 0 { if let Some(Tok::Close { id, .. }) = ob.toks.last_mut() { *id ^= 1; } } }
        }
        let invalid = ob.status.starts_with("invalid-tx");
        let ntok = ob.toks.len();
        let case = format!("(mkCase {} {} {})", zlist(ob.toks.iter().map(|t| t.coq())), zlist(ob.logs.iter().map(|x| zu(*x))), zb(ob.panicked));
        let max_depth = ob.toks.iter().filter_map(|t| if let Tok::Step { depth, .. } = t { Some(*depth) } else { None }).max().unwrap_or(0);
        let n_frames = ob.toks.iter().filter(|t| matches!(t, Tok::Init)).count();
        let n_noframe = ob.toks.windows(2).filter(|p| matches!(p[0], Tok::Open { .. }) && matches!(p[1], Tok::Close { .. })).count();
        let shown: Vec<String> = ob.toks.iter().take(60).map(|t| t.short()).collect();
        let human = format!("{} override_pct={} inspector_seed={} rounds={} status={} tokens={} trace={}{}", world.descr, override_pct, iseed, rounds, ob.status, ntok,
            shown.join(" "), if ntok > 60 { " ..." } else { "" });
        let mut tags: Vec<String> = world.tags.clone();
        tags.push(format!("status:{}", ob.status.split(':').take(2).collect::<Vec<_>>().join(":")));
        tags.push(format!("inspector:{}", if override_pct == 0 { "observing" } else { "overriding" }));
        if rounds > 1 { tags.push("nth-transaction-on-same-evm".into()); }
        if ob.n_override > 0 { tags.push("has-inspector-outcome".into()); }
        if ob.n_mutated > 0 { tags.push("has-changed-inputs".into()); }
        if n_noframe > 0 { tags.push("has-call-without-frame".into()); }
        if n_frames > 1 { tags.push("has-nested-frame".into()); }
        if !ob.logs.is_empty() { tags.push("has-final-logs".into()); }
        if ob.toks.iter().any(|t| matches!(t, Tok::Sd)) { tags.push("has-selfdestruct-notification".into()); }
        tags.push(format!("max-depth:{}", match max_depth { 0 => "0", 1 => "1", 2 => "2", 3..=5 => "3-5", 6..=100 => "6-100", 101..=1023 => "101-1023", _ => ">=1024" }));
        if invalid { tags.push("invalid-tx(no hooks)".into()); }
        let tr: Vec<&str> = tags.iter().map(|s| s.as_str()).collect();
        // an invalid transaction fires no hook at all: the empty trace is not a transaction trace; skip it
        if invalid && ntok == 0 { w.tag("skipped:invalid-tx"); continue; }
        w.push(case, human, n_frames > 1 || n_noframe > 0, &tr);
    }
    w.finish("one real transaction per case on Evm<Recorder, CacheDB<EmptyDB>> with inspector_handle_register: generated call graphs (1-5 contracts; CALL/CALLCODE/DELEGATECALL/STATICCALL/CREATE/CREATE2 with random gas and value, precompile / EOA / nonexistent targets, failing creates, LOG0-4, reverts, invalid opcodes, out-of-gas, SELFDESTRUCT; 13 SpecIds), half of them with an inspector that supplies outcomes for 12%/35% of the calls and creates and changes the inputs of others, plus call / delegatecall / create recursions to the depth limit; non-trivial = more than one frame or a call resolved without a frame; distinct = distinct recorded traces");
}
