//! C11: histories on the real `SharedMemory` (public API), the real
//! `interpreter::resize_memory` with a real `Gas`, and the return-data window written by the
//! real `Interpreter::insert_call_outcome`.
use crate::util::*;
use revm::interpreter::interpreter::resize_memory;
use revm::interpreter::{CallOutcome, Contract, Gas, InstructionResult, Interpreter, InterpreterResult, SharedMemory};
use revm::primitives::{Bytes, B256, U256};

#[derive(Clone, Debug)]
enum Op {
    New, Free, Resize(usize), Set(usize, Vec<u8>), SetByte(usize, u8), SetWord(usize, Vec<u8>), SetU256(usize, U256),
    SetData(usize, usize, usize, Vec<u8>), Copy(usize, usize, usize), Outcome(usize, usize, Vec<u8>, bool), ResizeMem(u64, usize),
}
impl Op {
    fn coq(&self) -> String {
        match self {
            Op::New => "KOp MNew".into(),
            Op::Free => "KOp MFree".into(),
            Op::Resize(n) => format!("KOp (MResize {})", n),
            Op::Set(o, v) => format!("KOp (MSet {} {})", o, zbytes(v)),
            Op::SetByte(o, b) => format!("KOp (MSetByte {} {})", o, b),
            Op::SetWord(o, v) => format!("KOp (MSetWord {} {})", o, zbytes(v)),
            Op::SetU256(o, v) => format!("KOp (MSetU256 {} {})", o, zw(*v)),
            Op::SetData(a, b, c, d) => format!("KOp (MSetData {} {} {} {})", a, b, c, zbytes(d)),
            Op::Copy(d, s, l) => format!("KOp (MCopy {} {} {})", d, s, l),
            Op::Outcome(o, l, r, _) => format!("KOp (MOutcome {} {} {})", o, l, zbytes(r)),
            Op::ResizeMem(g, n) => format!("KResizeMem {} {}", zu(*g), n),
        }
    }
    fn tag(&self) -> &'static str {
        match self {
            Op::New => "op:new_context", Op::Free => "op:free_context", Op::Resize(_) => "op:resize", Op::Set(..) => "op:set",
            Op::SetByte(..) => "op:set_byte", Op::SetWord(..) => "op:set_word", Op::SetU256(..) => "op:set_u256", Op::SetData(..) => "op:set_data",
            Op::Copy(..) => "op:copy", Op::Outcome(..) => "op:insert_call_outcome", Op::ResizeMem(..) => "op:resize_memory",
        }
    }
    fn focus(&self) -> usize {
        match self { Op::Set(o, _) | Op::SetByte(o, _) | Op::SetWord(o, _) | Op::SetU256(o, _) | Op::Outcome(o, _, _, _) => *o, Op::SetData(a, ..) => *a, Op::Copy(d, ..) => *d, _ => 0 }
    }
}

fn dig(bs: &[u8], mut acc: u64) -> u64 { for b in bs { acc = acc.wrapping_mul(1000003).wrapping_add(*b as u64 + 1); } acc }
fn window(f: &[u8], p: i128) -> &[u8] {
    let p = p.min(f.len() as i128 - 64).max(0) as usize;
    &f[p.min(f.len())..(p + 64).min(f.len())]
}
fn mem_digest(f: &[u8], p: usize) -> u64 {
    if f.len() <= 2048 { dig(f, 7) } else { dig(window(f, p as i128), dig(window(f, f.len() as i128 - 64), dig(window(f, 0), 7))) }
}

fn apply(mem: &mut SharedMemory, op: &Op) -> Result<(u8, u64), String> {
    catch(|| match op {
        Op::New => { mem.new_context(); (0, 0) }
        Op::Free => { mem.free_context(); (0, 0) }
        Op::Resize(n) => { mem.resize(*n); (0, 0) }
        Op::Set(o, v) => { mem.set(*o, v); (0, 0) }
        Op::SetByte(o, b) => { mem.set_byte(*o, *b); (0, 0) }
        Op::SetWord(o, v) => { mem.set_word(*o, &B256::from_slice(v)); (0, 0) }
        Op::SetU256(o, v) => { mem.set_u256(*o, *v); (0, 0) }
        Op::SetData(a, b, c, d) => { mem.set_data(*a, *b, *c, d); (0, 0) }
        Op::Copy(d, s, l) => { mem.copy(*d, *s, *l); (0, 0) }
        Op::Outcome(o, l, r, ok) => {
            let mut interp = Interpreter::new(Contract::default(), 1_000_000, false);
            let res = InterpreterResult { result: if *ok { InstructionResult::Return } else { InstructionResult::Revert }, output: Bytes::from(r.clone()), gas: Gas::new(0) };
            interp.insert_call_outcome(mem, CallOutcome::new(res, *o..*o + *l));
            (0, 0)
        }
        Op::ResizeMem(g, n) => { let mut gas = Gas::new(*g); let ok = resize_memory(mem, &mut gas, *n); (if ok { 0 } else { 2 }, gas.remaining()) }
    })
}

fn size_pick(rng: &mut Rng, big: bool) -> usize {
    match rng.below(10) {
        0 => 0,
        1 | 2 => *rng.pick(&[1usize, 31, 32, 33, 63, 64, 65, 95, 96, 97]),
        3 | 4 | 5 => rng.below(200) as usize,
        6 | 7 => rng.below(1200) as usize,
        8 => if big { rng.below(1 << 16) as usize } else { rng.below(2048) as usize },
        _ => 32 * rng.below(40) as usize,
    }
}

pub fn run(o: &Opts) {
    let mut rng = Rng::new(o.seed ^ 0xC11);
    let mut w = CaseWriter::new(o, "C11", 60);
    let n = if o.thorough() { 6_000 } else { 700 };
    for ci in 0..n {
        let big = ci % 10 == 0;
        let deep = ci % 7 == 0;
        let nops = rng.range(3, if deep { 120 } else { 40 }) as usize;
        let mut mem = SharedMemory::new();
        let mut depth = 0usize;
        let mut ops: Vec<Op> = vec![];
        let mut obs: Vec<String> = vec![];
        let mut tags: Vec<&'static str> = vec![];
        let mut maxdepth = 0;
        for _ in 0..nops {
            let len = mem.len();
            let oob = !o.release && rng.chance(1, 60); // out-of-bounds: debug_unreachable! (debug builds only)
            let fit = |rng: &mut Rng, sz: usize| -> usize { if oob { len.saturating_sub(sz) + 1 + rng.below(3) as usize } else if len >= sz { rng.range(0, (len - sz) as u64) as usize } else { 0 } };
            let op = match rng.below(24) {
                0 | 1 | 2 => if depth < 40 { depth += 1; Op::New } else { depth -= 1; Op::Free },
                3 | 4 => if depth > 0 || rng.chance(1, 10) { depth = depth.saturating_sub(1); Op::Free } else { depth += 1; Op::New },
                5 | 6 => Op::Resize(if rng.chance(1, 4) { size_pick(&mut rng, big) } else { len + size_pick(&mut rng, big) % 700 }),
                7 | 8 | 9 | 10 => { let g = match rng.below(4) { 0 => rng.below(40), 1 => rng.below(3000), _ => 10_000_000 + rng.below(1000) };
                    let grow = match rng.below(6) { 0 => 1, 1 => 32, 2 => 33, 3 => rng.range(1, 100) as usize, 4 => rng.range(1, 3000) as usize, _ => if big { rng.range(1, 1 << 16) as usize } else { rng.range(1, 600) as usize } };
                    Op::ResizeMem(g, if rng.chance(1, 40) { *rng.pick(&[usize::MAX - 31, 1usize << 32, (1usize << 37) + 5, usize::MAX - 32]) } else { len + grow }) }
                11 | 12 => { let l = size_pick(&mut rng, false).min(if oob { 300 } else { len }).min(300); let v = rng.bytes(l); Op::Set(fit(&mut rng, l), v) }
                13 => Op::SetByte(fit(&mut rng, 1).min(if len == 0 && !oob { 0 } else { usize::MAX }), rng.next() as u8),
                14 => { let v = rng.bytes(32); Op::SetWord(fit(&mut rng, 32), v) }
                15 => Op::SetU256(fit(&mut rng, 32), rng.u256b()),
                16 | 17 | 18 => { let l = size_pick(&mut rng, false).min(if oob { 500 } else { len }).min(500); let dl = size_pick(&mut rng, false).min(300); let d = rng.bytes(dl);
                    let doff = match rng.below(4) { 0 => 0, 1 => dl + rng.below(3) as usize, 2 => rng.below(dl as u64 + 1) as usize, _ => dl.saturating_sub(rng.below(40) as usize) };
                    Op::SetData(fit(&mut rng, l), doff, l, d) }
                19 | 20 => { let l = size_pick(&mut rng, false).min(len).min(600); let s = if len >= l { rng.range(0, (len - l) as u64) as usize } else { 0 }; Op::Copy(fit(&mut rng, l), s, l) }
                _ => { let rl = size_pick(&mut rng, false).min(300); let ol = size_pick(&mut rng, false).min(300); let t = rl.min(ol); let r = rng.bytes(rl);
                    // the window [off, off + out_len) is in bounds the way CALL resizes memory for it; the copied part is min(out_len, |ret|)
                    let off = if oob { len.saturating_sub(t) + 1 } else if len >= ol { rng.range(0, (len - ol) as u64) as usize } else if len >= t { rng.range(0, (len - t) as u64) as usize } else { 0 };
                    let ol = if len >= t || oob { ol } else { 0 };
                    Op::Outcome(off, ol, r, rng.chance(1, 2)) }
            };
            // ops that need a non-empty range on an empty memory would be out of bounds: skip unless intended
            let needs = match &op { Op::SetByte(..) => 1, Op::SetWord(..) | Op::SetU256(..) => 32, _ => 0 };
            if !oob && len < needs { continue; }
            maxdepth = maxdepth.max(depth);
            let r = apply(&mut mem, &op);
            tags.push(op.tag());
            let focus = op.focus();
            ops.push(op);
            match r {
                Ok((flag, gas)) => { if flag == 2 { tags.push("resize_memory:out-of-gas"); } obs.push(format!("({},{},{},{})", flag, mem.len(), zu(mem_digest(mem.context_memory(), focus)), zu(gas))); }
                Err(_) => { obs.push(format!("(1,{},{},0)", mem.len(), zu(mem_digest(mem.context_memory(), focus)))); tags.push("out-of-bounds-panic"); break; }
            }
        }
        if maxdepth >= 10 { tags.push("depth>=10"); }
        if big { tags.push("stream:large"); }
        let case = format!("(mkCase {} {})", zlist(ops.iter().map(|x| format!("({})", x.coq()))), zlist(obs));
        let human = format!("memory ops={}", ops.iter().map(|x| { let s = format!("{:?}", x); if s.len() > 100 { format!("{}..", &s[..100]) } else { s } }).collect::<Vec<_>>().join(","));
        tags.sort(); tags.dedup();
        w.push(case, human, ops.len() >= 3, &tags);
    }
    w.finish("histories of 3..120 operations on the real revm_interpreter::SharedMemory (new_context/free_context nested up to depth 40, resize, set, set_byte, set_word, set_u256, set_data, copy), the real interpreter::resize_memory with a real Gas (gas from tight to ample, growth from 1 byte to 2^16, a few sizes near usize::MAX), and Interpreter::insert_call_outcome with return data shorter/longer than the window; after every operation: panic flag, context length, digest of the context memory (all bytes up to 2048, else three 64-byte windows), gas remaining; non-trivial = at least 3 operations");
}
