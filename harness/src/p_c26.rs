//! C26: EOF codec and validation. Three streams of byte strings (random, mutated valid
//! containers incl. the shipped tests/eof_suite vectors, structurally generated containers) go
//! through Eof::decode / encode_slow / decode_dangling / validate_raw_eof(_inner) (twice), and
//! accepted containers are executed on a real Evm under OSAKA with a step monitor.
use crate::util::*;
use revm::db::{CacheDB, EmptyDB};
use revm::interpreter::analysis::{validate_raw_eof, validate_raw_eof_inner, CodeType, EofError};
use revm::interpreter::{opcode, InstructionResult, Interpreter, OPCODE_INFO_JUMPTABLE};
use revm::primitives::{
    address, AccountInfo, Address, Bytecode, Bytes, Eof, ExecutionResult, Output, SpecId, TxKind, U256,
};
use revm::{inspector_handle_register, Database, Evm, EvmContext, Inspector};
use std::collections::HashMap;
use std::sync::Arc;

// ------------------------------------------------------------------ independent encoder
#[derive(Clone, Debug)]
struct Sec { inputs: u8, outputs: u8, max_stack: u16, code: Vec<u8> }
#[derive(Clone, Debug)]
struct Cont { secs: Vec<Sec>, subs: Vec<Vec<u8>>, data: Vec<u8>, data_size: u16 }

fn be16(v: &mut Vec<u8>, x: usize) { v.push((x >> 8) as u8); v.push(x as u8); }
fn encode(c: &Cont) -> Vec<u8> {
    let mut v = vec![0xef, 0x00, 0x01, 0x01];
    be16(&mut v, c.secs.len() * 4);
    v.push(0x02);
    be16(&mut v, c.secs.len());
    for s in &c.secs { be16(&mut v, s.code.len()); }
    if !c.subs.is_empty() {
        v.push(0x03);
        be16(&mut v, c.subs.len());
        for s in &c.subs { be16(&mut v, s.len()); }
    }
    v.push(0x04);
    be16(&mut v, c.data_size as usize);
    v.push(0x00);
    for s in &c.secs { v.push(s.inputs); v.push(s.outputs); be16(&mut v, s.max_stack as usize); }
    for s in &c.secs { v.extend_from_slice(&s.code); }
    for s in &c.subs { v.extend_from_slice(s); }
    v.extend_from_slice(&c.data);
    v
}

// ------------------------------------------------------------------ code generator
/// Emits EOF code while tracking the (single-valued) operand stack height.
#[derive(Clone)]
struct Emit { code: Vec<u8>, h: i32, max: i32 }
impl Emit {
    fn new(h: i32) -> Self { Emit { code: vec![], h, max: h } }
    fn op(&mut self, bytes: &[u8], pops: i32, pushes: i32) {
        debug_assert!(self.h >= pops);
        self.code.extend_from_slice(bytes);
        self.h += pushes - pops;
        if self.h > self.max { self.max = self.h; }
    }
    fn push_small(&mut self, rng: &mut Rng) {
        match rng.below(6) {
            0 => self.op(&[opcode::PUSH0], 0, 1),
            1 | 2 | 3 => { let b = rng.below(70) as u8; self.op(&[opcode::PUSH1, b], 0, 1) }
            4 => { let b = rng.bytes(2); self.op(&[opcode::PUSH2, 0, b[1]], 0, 1) }
            _ => { let n = rng.range(1, 32) as usize; let mut v = vec![opcode::PUSH0 + n as u8]; v.extend(rng.bytes(n)); self.op(&v, 0, 1) }
        }
    }
    fn ensure(&mut self, rng: &mut Rng, need: i32) { while self.h < need { self.push_small(rng); } }
    fn settle(&mut self, target: i32) {
        while self.h > target { self.op(&[opcode::POP], 1, 0); }
        while self.h < target { self.op(&[opcode::PUSH0], 0, 1); }
    }
    fn append(&mut self, o: &Emit) {
        self.code.extend_from_slice(&o.code);
        if o.max > self.max { self.max = o.max; }
        self.h = o.h;
    }
}

#[derive(Clone, Copy, PartialEq, Debug)]
enum Kind { Init, Runtime }

struct Ctx<'a> {
    kind: Kind,
    /// (inputs, outputs, max_stack) of the sections generated so far (index -> Some)
    types: &'a [Option<(u8, u8, u16)>],
    k: usize,
    sub_kinds: &'a [Kind],
    data_size: usize,
}

fn simple_ops() -> Vec<(u8, i32, i32)> {
    let mut v = vec![];
    for op in 0..=255u8 {
        if let Some(i) = &OPCODE_INFO_JUMPTABLE[op as usize] {
            if i.is_disabled_in_eof() || i.is_terminating() || i.immediate_size() != 0 { continue; }
            // keep out opcodes whose arguments are better chosen deliberately
            if matches!(op, opcode::EXTCALL | opcode::EXTDELEGATECALL | opcode::EXTSTATICCALL) { continue; }
            v.push((op, i.inputs() as i32, i.outputs() as i32));
        }
    }
    v
}

fn rj(v: &mut Vec<u8>, off: i32) { let x = off as i16 as u16; v.push((x >> 8) as u8); v.push(x as u8); }

/// A block that leaves the stack height where it found it.
fn gen_block(rng: &mut Rng, cx: &Ctx, h0: i32, depth: u32, simple: &[(u8, i32, i32)]) -> Emit {
    let mut e = Emit::new(h0);
    let n = rng.below(5);
    for _ in 0..n {
        if e.h > 24 { e.settle(h0.max(2)); }
        match rng.below(22) {
            0 | 1 | 2 => e.push_small(rng),
            3 | 4 | 5 | 6 => {
                let (op, i, o) = *rng.pick(simple);
                e.ensure(rng, i);
                e.op(&[op], i, o);
            }
            7 => { let n = rng.below(4) as u8; e.ensure(rng, n as i32 + 1); e.op(&[opcode::DUPN, n], 0, 1); }
            8 => { let n = rng.below(4) as u8; e.ensure(rng, n as i32 + 2); e.op(&[opcode::SWAPN, n], 0, 0); }
            9 => { let a = rng.below(3) as u8; let b = rng.below(3) as u8; e.ensure(rng, a as i32 + b as i32 + 3); e.op(&[opcode::EXCHANGE, (a << 4) | b], 0, 0); }
            10 => if cx.data_size >= 32 {
                let i = if rng.chance(1, 3) { cx.data_size - 32 } else { rng.below((cx.data_size - 31) as u64) as usize };
                e.op(&[opcode::DATALOADN, (i >> 8) as u8, i as u8], 0, 1);
            } else { e.op(&[opcode::DATASIZE], 0, 1); },
            11 => { e.push_small(rng); e.op(&[opcode::DATALOAD], 1, 1); }
            12 if depth < 3 => {
                // PUSH c; RJUMPI over a neutral block
                e.push_small(rng);
                let b = gen_block(rng, cx, e.h - 1, depth + 1, simple);
                let mut v = vec![opcode::RJUMPI]; rj(&mut v, b.code.len() as i32);
                e.op(&v, 1, 0);
                e.append(&b);
            }
            13 if depth < 3 => {
                // diamond: PUSH c; RJUMPI +3; RJUMP over; block
                e.push_small(rng);
                let b = gen_block(rng, cx, e.h - 1, depth + 1, simple);
                if b.code.is_empty() { e.op(&[opcode::POP], 1, 0); continue; }
                let mut v = vec![opcode::RJUMPI]; rj(&mut v, 3);
                e.op(&v, 1, 0);
                let mut v = vec![opcode::RJUMP]; rj(&mut v, b.code.len() as i32);
                e.op(&v, 0, 0);
                e.append(&b);
            }
            14 if depth < 3 => {
                // RJUMPV over a sequence of neutral blocks
                let m = rng.range(1, 4) as usize; // number of table entries
                e.push_small(rng);
                let blocks: Vec<Emit> = (0..m).map(|_| gen_block(rng, cx, e.h - 1, depth + 1, simple)).collect();
                let mut starts = vec![0i32];
                for b in &blocks { starts.push(starts.last().unwrap() + b.code.len() as i32); }
                let mut v = vec![opcode::RJUMPV, (m - 1) as u8];
                for _ in 0..m { rj(&mut v, *rng.pick(&starts)); }
                e.op(&v, 1, 0);
                for b in &blocks { e.append(b); }
            }
            15 if depth < 3 => {
                // loop: block; PUSH c; RJUMPI back to the start of block
                let b = gen_block(rng, cx, e.h, depth + 1, simple);
                e.append(&b);
                let c = if rng.chance(3, 4) { 0u8 } else { 1 };
                e.op(&[opcode::PUSH1, c], 0, 1);
                let back = -(b.code.len() as i32 + 2 + 3);
                let mut v = vec![opcode::RJUMPI]; rj(&mut v, back);
                e.op(&v, 1, 0);
            }
            16 | 17 => {
                // CALLF to a returning section with a larger index
                let cands: Vec<usize> = (cx.k + 1..cx.types.len()).filter(|j| cx.types[*j].map_or(false, |t| t.1 != 0x80)).collect();
                if !cands.is_empty() {
                    let j = if rng.chance(1, 2) { cands[0] } else { *rng.pick(&cands) };
                    callf(&mut e, rng, cx, j);
                }
            }
            18 => {
                let cands: Vec<usize> = (0..cx.sub_kinds.len()).filter(|i| cx.sub_kinds[*i] == Kind::Init).collect();
                if !cands.is_empty() { let i = *rng.pick(&cands); eofcreate(&mut e, rng, i); }
            }
            19 => {
                // external call with small arguments
                let op = *rng.pick(&[opcode::EXTCALL, opcode::EXTDELEGATECALL, opcode::EXTSTATICCALL]);
                let n = if op == opcode::EXTCALL { 4 } else { 3 };
                for _ in 0..n { e.op(&[opcode::PUSH1, rng.below(40) as u8], 0, 1); }
                e.op(&[op], n, 1);
            }
            _ => { e.push_small(rng); e.op(&[opcode::POP], 1, 0); }
        }
    }
    e.settle(h0);
    e
}

fn callf(e: &mut Emit, rng: &mut Rng, cx: &Ctx, j: usize) {
    let (i, o, _) = cx.types[j].unwrap();
    e.ensure(rng, i as i32);
    e.op(&[opcode::CALLF, (j >> 8) as u8, j as u8], i as i32, o as i32);
}
fn eofcreate(e: &mut Emit, _rng: &mut Rng, idx: usize) {
    // value, salt, input offset, input size
    e.op(&[opcode::PUSH1, 0], 0, 1);
    e.op(&[opcode::PUSH1, 0], 0, 1);
    e.op(&[opcode::PUSH1, idx as u8], 0, 1);
    e.op(&[opcode::PUSH0], 0, 1);
    e.op(&[opcode::EOFCREATE, idx as u8], 4, 1);
}
/// `PUSH1 c; RJUMPI +len; <terminating seq>`: the terminating sequence is reachable, what follows too.
fn guarded_exit(e: &mut Emit, rng: &mut Rng, term: &Emit) {
    let c = if rng.chance(2, 3) { 1u8 } else { 0 };
    e.op(&[opcode::PUSH1, c], 0, 1);
    let mut v = vec![opcode::RJUMPI]; rj(&mut v, term.code.len() as i32);
    e.op(&v, 1, 0);
    let h = e.h;
    e.append(term);
    e.h = h;
}

/// Generates section `k`; sections with larger index are already generated (their max_stack is known).
fn gen_section(rng: &mut Rng, cx: &Ctx, inputs: u8, outputs: u8, simple: &[(u8, i32, i32)]) -> Sec {
    let mut e = Emit::new(inputs as i32);
    let n = cx.types.len();
    let k = cx.k;
    let b = gen_block(rng, cx, e.h, 0, simple); e.append(&b);
    // reach the next section
    let mut tail_jumpf: Option<usize> = None;
    if k + 1 < n {
        let (ti, to, _) = cx.types[k + 1].unwrap();
        if to != 0x80 { callf(&mut e, rng, cx, k + 1); }
        else if rng.chance(1, 2) {
            let mut t = Emit::new(e.h); t.ensure(rng, ti as i32);
            t.op(&[opcode::JUMPF, ((k + 1) >> 8) as u8, (k + 1) as u8], 0, 0);
            guarded_exit(&mut e, rng, &t);
        } else { tail_jumpf = Some(k + 1); }
    }
    // touch every sub-container from section 0
    if k == 0 {
        for (i, sk) in cx.sub_kinds.iter().enumerate() {
            match sk {
                Kind::Init => eofcreate(&mut e, rng, i),
                Kind::Runtime => {
                    let mut t = Emit::new(e.h);
                    t.op(&[opcode::PUSH1, rng.below(3) as u8 * 16], 0, 1); // aux size
                    t.op(&[opcode::PUSH0], 0, 1);
                    // stack: size, offset -> RETURNCONTRACT pops offset then size
                    t.op(&[opcode::RETURNCONTRACT, i as u8], 2, 0);
                    guarded_exit(&mut e, rng, &t);
                }
            }
            let b = gen_block(rng, cx, e.h, 1, simple); e.append(&b);
        }
    }
    let b = gen_block(rng, cx, e.h, 0, simple); e.append(&b);
    if e.h > 40 { e.settle(4); }
    // terminator
    let returning = outputs != 0x80;
    if let Some(j) = tail_jumpf {
        let (ti, _, _) = cx.types[j].unwrap();
        if returning {
            // a returning section needs a RETF (or JUMPF to a returning section) somewhere
            let mut t = Emit::new(e.h); t.settle(outputs as i32); t.op(&[opcode::RETF], 0, 0);
            guarded_exit(&mut e, rng, &t);
        }
        e.ensure(rng, ti as i32);
        e.op(&[opcode::JUMPF, (j >> 8) as u8, j as u8], 0, 0);
    } else if returning {
        // RETF, or JUMPF to a later returning section with outputs <= ours
        let cands: Vec<usize> = (k + 1..n).filter(|j| cx.types[*j].map_or(false, |t| t.1 != 0x80 && t.1 <= outputs)).collect();
        if !cands.is_empty() && rng.chance(1, 3) {
            let j = *rng.pick(&cands);
            let (ti, to, _) = cx.types[j].unwrap();
            e.settle(outputs as i32 + ti as i32 - to as i32);
            e.op(&[opcode::JUMPF, (j >> 8) as u8, j as u8], 0, 0);
        } else {
            e.settle(outputs as i32);
            e.op(&[opcode::RETF], 0, 0);
        }
    } else {
        let runtime_subs: Vec<usize> = (0..cx.sub_kinds.len()).filter(|i| cx.sub_kinds[*i] == Kind::Runtime).collect();
        match (cx.kind, rng.below(8)) {
            (Kind::Runtime, 0 | 1 | 2) => e.op(&[opcode::STOP], 0, 0),
            (Kind::Runtime, 3 | 4) => { e.op(&[opcode::PUSH1, rng.below(64) as u8], 0, 1); e.op(&[opcode::PUSH1, rng.below(64) as u8], 0, 1); e.op(&[opcode::RETURN], 2, 0) }
            (Kind::Init, 0..=4) if !runtime_subs.is_empty() => {
                let i = *rng.pick(&runtime_subs);
                e.op(&[opcode::PUSH1, rng.below(3) as u8 * 20], 0, 1);
                e.op(&[opcode::PUSH0], 0, 1);
                e.op(&[opcode::RETURNCONTRACT, i as u8], 2, 0);
            }
            (_, 5) => { e.op(&[opcode::PUSH0], 0, 1); e.op(&[opcode::PUSH0], 0, 1); e.op(&[opcode::REVERT], 2, 0) }
            (_, 6) => {
                let cands: Vec<usize> = (k + 1..n).filter(|j| cx.types[*j].map_or(false, |t| t.1 == 0x80)).collect();
                if cands.is_empty() { e.op(&[opcode::INVALID], 0, 0) } else {
                    let j = *rng.pick(&cands);
                    e.ensure(rng, cx.types[j].unwrap().0 as i32);
                    e.op(&[opcode::JUMPF, (j >> 8) as u8, j as u8], 0, 0);
                }
            }
            _ => e.op(&[opcode::INVALID], 0, 0),
        }
    }
    Sec { inputs, outputs, max_stack: e.max.min(1023) as u16, code: e.code }
}

fn gen_container(rng: &mut Rng, kind: Kind, depth: u32, simple: &[(u8, i32, i32)]) -> Cont {
    let nsub = if depth >= 2 { 0 } else { *rng.pick(&[0u64, 0, 0, 1, 1, 2, 3]) as usize };
    let mut sub_kinds = vec![];
    let mut subs = vec![];
    for _ in 0..nsub {
        let sk = if kind == Kind::Init && rng.chance(2, 3) { Kind::Runtime } else { Kind::Init };
        let mut c = gen_container(rng, sk, depth + 1, simple);
        if sk == Kind::Runtime && rng.chance(1, 4) {
            // truncated data: declared size larger than what is present (filled in by RETURNCONTRACT aux data)
            c.data_size = c.data.len() as u16 + rng.range(1, 40) as u16;
        }
        sub_kinds.push(sk);
        subs.push(encode(&c));
    }
    let dlen = match rng.below(6) { 0 | 1 => 0, 2 => 32, 3 => rng.below(32), 4 => rng.range(33, 80), _ => rng.below(200) } as usize;
    let data = rng.bytes(dlen);
    let nsec = match rng.below(10) { 0..=3 => 1, 4..=6 => 2, 7 | 8 => rng.range(3, 5), _ => rng.range(5, 9) } as usize;
    let mut types: Vec<Option<(u8, u8, u16)>> = vec![None; nsec];
    let mut secs: Vec<Option<Sec>> = vec![None; nsec];
    // choose signatures first (needed for CALLF/JUMPF stack effects)
    let mut sigs = vec![(0u8, 0x80u8)];
    for _ in 1..nsec {
        let i = rng.below(4) as u8;
        let o = if rng.chance(1, 3) { 0x80 } else { rng.below(4) as u8 };
        sigs.push((i, o));
    }
    for k in (0..nsec).rev() {
        // placeholders for later sections are complete; this one gets its max_stack afterwards
        let cx = Ctx { kind, types: &types.clone(), k, sub_kinds: &sub_kinds, data_size: dlen };
        let s = gen_section(rng, &cx, sigs[k].0, sigs[k].1, simple);
        types[k] = Some((s.inputs, s.outputs, s.max_stack));
        secs[k] = Some(s);
    }
    Cont { secs: secs.into_iter().map(|x| x.unwrap()).collect(), subs, data, data_size: dlen as u16 }
}

// ------------------------------------------------------------------ shipped vectors
struct Vector { code: Vec<u8>, initcode: bool, expect: Option<bool> }
fn unhex(s: &[u8]) -> Option<Vec<u8>> {
    if s.len() % 2 != 0 { return None; }
    let d = |c: u8| match c { b'0'..=b'9' => Some(c - b'0'), b'a'..=b'f' => Some(c - b'a' + 10), b'A'..=b'F' => Some(c - b'A' + 10), _ => None };
    let mut v = Vec::with_capacity(s.len() / 2);
    for p in s.chunks(2) { v.push(d(p[0])? * 16 + d(p[1])?); }
    Some(v)
}
fn find(h: &[u8], n: &[u8], from: usize) -> Option<usize> {
    if from >= h.len() { return None; }
    h[from..].windows(n.len()).position(|w| w == n).map(|p| p + from)
}
/// Tiny scanner: every `"code": "0x…"` string of the file; for eof_tests vectors also the
/// `containerKind` and the expected `result` that follow it. Files that are empty or have no such
/// field contribute nothing (the emptied vector file is skipped this way).
fn scan_file(text: &[u8], out: &mut Vec<Vector>) {
    let key = b"\"code\"";
    let mut pos = 0;
    while let Some(p) = find(text, key, pos) {
        pos = p + key.len();
        let Some(q) = find(text, b"\"0x", pos) else { break };
        if text[pos..q].iter().any(|c| !matches!(c, b' ' | b':' | b'\n' | b'\t' | b'\r')) { continue; }
        let Some(end) = find(text, b"\"", q + 3) else { break };
        let Some(code) = unhex(&text[q + 3..end]) else { continue };
        let next = find(text, key, end).unwrap_or(text.len());
        let seg = &text[end..next.min(end + 600)];
        let initcode = find(seg, b"INITCODE", 0).is_some();
        let expect = find(seg, b"\"result\"", 0).and_then(|r| {
            let s = &seg[r..(r + 24).min(seg.len())];
            if find(s, b"true", 0).is_some() { Some(true) } else if find(s, b"false", 0).is_some() { Some(false) } else { None }
        });
        if code.len() >= 2 && code[0] == 0xef && code[1] == 0 { out.push(Vector { code, initcode, expect }); }
        pos = end;
    }
}
fn walk(dir: &std::path::Path, files: &mut Vec<std::path::PathBuf>) {
    let Ok(rd) = std::fs::read_dir(dir) else { return };
    let mut es: Vec<_> = rd.flatten().map(|e| e.path()).collect();
    es.sort();
    for p in es { if p.is_dir() { walk(&p, files); } else if p.extension().map_or(false, |e| e == "json") { files.push(p); } }
}
fn load_vectors() -> (Vec<Vector>, usize, usize) {
    let mut files = vec![];
    walk(std::path::Path::new("/repo/tests/eof_suite"), &mut files);
    let mut out = vec![];
    let mut skipped = 0;
    for f in &files {
        match std::fs::read(f) {
            Ok(t) if !t.is_empty() => scan_file(&t, &mut out),
            _ => skipped += 1,
        }
    }
    // dedupe, keep order
    let mut seen = std::collections::HashSet::new();
    out.retain(|v| seen.insert((v.code.clone(), v.initcode)));
    (out, files.len(), skipped)
}

// ------------------------------------------------------------------ mutation
fn mutate(rng: &mut Rng, b: &[u8]) -> Vec<u8> {
    let mut v = b.to_vec();
    let n = 1 + rng.below(3);
    for _ in 0..n {
        let l = v.len();
        match rng.below(12) {
            0 | 1 if l > 0 => { let i = rng.below(l as u64) as usize; v[i] ^= 1 << rng.below(8); }
            2 if l > 0 => { let i = rng.below(l as u64) as usize; v[i] = *rng.pick(&[0u8, 1, 2, 3, 4, 0x7f, 0x80, 0x81, 0xff, 0xe0, 0xe2, 0xe3, 0xe5, 0xec, 0xee]); }
            3 => { let i = rng.below(l as u64 + 1) as usize; v.insert(i, rng.next() as u8); }
            4 if l > 0 => { let i = rng.below(l as u64) as usize; v.remove(i); }
            5 if l > 0 => { let i = rng.below(l as u64 + 1) as usize; v.truncate(i); }
            6 => { let k = rng.range(1, 40) as usize; v.extend(rng.bytes(k)); }
            7 if l > 0 => { v.truncate(l - 1); }
            8 => v.push(rng.next() as u8),
            // header-field edits: the first ~24 bytes hold kinds and sizes
            9 if l > 4 => { let i = rng.range(3, (l as u64 - 1).min(24)) as usize; v[i] = v[i].wrapping_add(*rng.pick(&[1u8, 0xff, 2, 4, 0xfc])); }
            10 if l > 6 => { let i = rng.range(3, (l as u64 - 2).min(24)) as usize; let x = *rng.pick(&[0u16, 1, 4, 0x0400, 0x0401, 0x0100, 0x0101, 0xffff, 0xfffc]); v[i] = (x >> 8) as u8; v[i + 1] = x as u8; }
            _ if l > 0 => { let i = rng.below(l as u64) as usize; let j = rng.below(l as u64) as usize; v.swap(i, j); }
            _ => {}
        }
    }
    v
}

// ------------------------------------------------------------------ execution monitor
/// Instruction starts of an EOF code section, computed independently of the validator.
fn starts(code: &[u8]) -> Vec<bool> {
    let mut s = vec![false; code.len()];
    let mut i = 0;
    while i < code.len() {
        s[i] = true;
        let op = code[i];
        let mut imm = OPCODE_INFO_JUMPTABLE[op as usize].map_or(0, |x| x.immediate_size() as usize);
        if op == opcode::RJUMPV { imm = 1 + 2 * (code.get(i + 1).copied().unwrap_or(0) as usize + 1); }
        i += 1 + imm;
    }
    s
}
#[derive(Default)]
struct Monitor { steps: u64, bad: Vec<String>, cache: HashMap<(usize, usize), Vec<bool>>, eof_steps: u64, max_depth: usize }
impl<DB: Database> Inspector<DB> for Monitor {
    fn step(&mut self, interp: &mut Interpreter, _cx: &mut EvmContext<DB>) {
        self.steps += 1;
        if self.steps > 30_000 { interp.instruction_result = InstructionResult::OutOfGas; return; }
        if !interp.is_eof { return; }
        self.eof_steps += 1;
        let Some(eof) = interp.eof().cloned() else { self.bad.push("is_eof without container".into()); return };
        let idx = interp.function_stack.current_code_idx;
        self.max_depth = self.max_depth.max(interp.function_stack.return_stack.len());
        let Some(code) = eof.body.code_section.get(idx) else { self.bad.push(format!("section index {} out of {}", idx, eof.body.code_section.len())); return };
        if eof.body.types_section.len() != eof.body.code_section.len() { self.bad.push("types/code count differ".into()); }
        if interp.bytecode.as_ref() != code.as_ref() { self.bad.push(format!("bytecode is not section {}", idx)); return; }
        let pc = interp.program_counter();
        if pc >= code.len() { self.bad.push(format!("pc {} outside section {} of length {}", pc, idx, code.len())); return; }
        let key = (code.as_ptr() as usize, code.len());
        let st = self.cache.entry(key).or_insert_with(|| starts(code));
        if !st[pc] { self.bad.push(format!("pc {} in section {} is inside an immediate", pc, idx)); }
        if interp.stack.len() > 1024 { self.bad.push("stack above 1024".into()); }
        for f in &interp.function_stack.return_stack {
            match eof.body.code_section.get(f.idx) { Some(c) if f.pc < c.len() => {}, _ => self.bad.push(format!("return frame ({}, {}) outside code", f.idx, f.pc)) }
        }
    }
}

const CALLER: Address = address!("1000000000000000000000000000000000000001");
const TARGET: Address = address!("2000000000000000000000000000000000000002");

struct ExecObs { code: u64, tags: Vec<String>, detail: String }
fn describe(r: &ExecutionResult) -> String {
    match r {
        ExecutionResult::Success { reason, .. } => format!("exec:success-{:?}", reason),
        ExecutionResult::Revert { .. } => "exec:revert".into(),
        ExecutionResult::Halt { reason, .. } => format!("exec:halt-{:?}", reason),
    }
}
fn base_db() -> CacheDB<EmptyDB> {
    let mut db = CacheDB::new(EmptyDB::default());
    db.insert_account_info(CALLER, AccountInfo { balance: U256::from(10u64).pow(U256::from(30u64)), nonce: 0, ..Default::default() });
    db
}
fn run_tx(db: &mut CacheDB<EmptyDB>, to: TxKind, data: Vec<u8>, nonce: u64, mon: &mut Monitor) -> Result<ExecutionResult, String> {
    let mut evm = Evm::builder()
        .with_db(&mut *db)
        .with_external_context(&mut *mon)
        .with_spec_id(SpecId::OSAKA)
        .modify_tx_env(|tx| {
            tx.caller = CALLER;
            tx.transact_to = to;
            tx.data = data.into();
            tx.gas_limit = 3_000_000;
            tx.gas_price = U256::ZERO;
            tx.value = U256::ZERO;
            tx.nonce = Some(nonce);
        })
        .append_handler_register(inspector_handle_register)
        .build();
    evm.transact_commit().map_err(|e| format!("{:?}", e))
}
/// Executes an accepted container: initcode kind as a creation transaction (followed by a call
/// of what it deployed), runtime kind as the code of an account that is called.
fn execute(raw: &[u8], initcode: bool, calldata: &[u8]) -> ExecObs {
    let mut mon = Monitor::default();
    let mut tags = vec![];
    let r = catch(|| {
        let mut db = base_db();
        let mut tags = vec![];
        if initcode {
            let mut data = raw.to_vec();
            data.extend_from_slice(calldata);
            match run_tx(&mut db, TxKind::Create, data, 0, &mut mon) {
                Ok(r) => {
                    tags.push(describe(&r));
                    if let ExecutionResult::Success { output: Output::Create(_, Some(a)), .. } = r {
                        tags.push("exec:deployed".into());
                        match run_tx(&mut db, TxKind::Call(a), calldata.to_vec(), 1, &mut mon) {
                            Ok(r2) => tags.push(format!("{}-2nd", describe(&r2))),
                            Err(e) => tags.push(format!("exec:err-2nd {}", e)),
                        }
                    }
                }
                Err(e) => tags.push(format!("exec:err {}", e)),
            }
        } else {
            let eof = Eof::decode(Bytes::copy_from_slice(raw)).unwrap();
            db.insert_account_info(TARGET, AccountInfo { code: Some(Bytecode::Eof(Arc::new(eof))), nonce: 1, ..Default::default() });
            match run_tx(&mut db, TxKind::Call(TARGET), calldata.to_vec(), 0, &mut mon) {
                Ok(r) => tags.push(describe(&r)),
                Err(e) => tags.push(format!("exec:err {}", e)),
            }
        }
        tags
    });
    match r {
        Err(p) => ExecObs { code: 2, tags: vec!["exec:PANIC".into()], detail: format!("panic: {}", p) },
        Ok(t) => {
            tags.extend(t);
            if mon.eof_steps > 0 { tags.push("exec:ran-eof-steps".into()); }
            if mon.max_depth > 0 { tags.push("exec:used-callf".into()); }
            if !mon.bad.is_empty() { ExecObs { code: 3, tags, detail: mon.bad[0].clone() } } else { ExecObs { code: 1, tags, detail: String::new() } }
        }
    }
}

// ------------------------------------------------------------------ observation
/// byte string as the Coq term `(B len 0xHEX)` (see Corr/C26.v)
fn zbytes(b: &[u8]) -> String {
    let one = |b: &[u8]| {
        if b.is_empty() { return "(B 0 0)".to_string(); }
        let hex: String = b.iter().map(|x| format!("{:02x}", x)).collect();
        format!("(B {} 0x{})", b.len(), hex)
    };
    if b.len() <= 512 { one(b) } else { format!("(BB {})", zlist(b.chunks(512).map(|c| one(c)))) }
}
fn hdr(h: &revm::primitives::eof::EofHeader) -> String {
    format!("(mkHeader {} {} {} {} {} {})", h.types_size, zlist(h.code_sizes.iter().map(|x| x.to_string())),
        zlist(h.container_sizes.iter().map(|x| x.to_string())), h.data_size, h.sum_code_sizes, h.sum_container_sizes)
}
fn body(b: &revm::primitives::eof::EofBody) -> String {
    format!("(mkBody {} {} {} {} {})",
        zlist(b.types_section.iter().map(|t| format!("mkTypes {} {} {}", t.inputs, t.outputs, t.max_stack_size))),
        zlist(b.code_section.iter().map(|c| zbytes(c))), zlist(b.container_section.iter().map(|c| zbytes(c))),
        zbytes(&b.data_section), zb(b.is_data_filled))
}
fn vcode(r: &Result<Result<Eof, EofError>, String>) -> i64 {
    match r {
        Err(_) => -1,
        Ok(Ok(_)) => 0,
        Ok(Err(EofError::Decode(d))) => 100 + *d as u8 as i64,
        Ok(Err(EofError::Validation(v))) => 200 + *v as u8 as i64,
    }
}
fn validate(raw: &Bytes, kind: u8) -> Result<Result<Eof, EofError>, String> {
    let raw = raw.clone();
    catch(move || match kind {
        0 => validate_raw_eof(raw),
        1 => validate_raw_eof_inner(raw, Some(CodeType::ReturnOrStop)),
        _ => validate_raw_eof_inner(raw, None),
    })
}

struct Stats { accepted: u64, executed: u64 }

fn observe(w: &mut CaseWriter, st: &mut Stats, rng: &mut Rng, bytes: Vec<u8>, kind: u8, stream: &str, extra: &[String], run_exec: bool) {
    let raw = Bytes::from(bytes.clone());
    let mut tags: Vec<String> = vec![format!("stream:{}", stream)];
    tags.extend(extra.iter().cloned());
    // decode + re-encode
    let dec = catch(|| Eof::decode(raw.clone()));
    let (dec_s, re_s, decoded) = match &dec {
        Err(_) => ("ODPanic".to_string(), "ReNone".to_string(), None),
        Ok(Err(e)) => { tags.push(format!("decode:{:?}", e)); (format!("(ODErr {})", *e as u8), "ReNone".to_string(), None) }
        Ok(Ok(e)) => {
            tags.push("decode:ok".into());
            if !e.body.is_data_filled { tags.push("decode:ok-truncated-data".into()); }
            if !e.body.container_section.is_empty() { tags.push("decode:ok-with-subcontainers".into()); }
            let re = catch(|| e.encode_slow());
            let re_s = match re { Err(_) => "RePanic".to_string(), Ok(b) => if b.as_ref() == bytes.as_slice() { "ReSame".into() } else { format!("(ReOther {})", zbytes(&b)) } };
            (format!("(ODOk {} {} {})", hdr(&e.header), body(&e.body), zb(e.raw.as_ref() == bytes.as_slice())), re_s, Some(e.clone()))
        }
    };
    // decode_dangling
    let dd = catch(|| Eof::decode_dangling(raw.clone()));
    let dd_s = match &dd {
        Err(_) => "DDPanic".to_string(),
        Ok(Err(e)) => { tags.push(format!("dangling:{:?}", e)); format!("(DDErr {})", *e as u8) }
        Ok(Ok((e, d))) => {
            let n = e.raw.len();
            tags.push(if d.is_empty() { "dangling:ok-empty".into() } else { "dangling:ok-nonempty".into() });
            let f1 = n <= bytes.len() && e.raw.as_ref() == &bytes[..n];
            let f2 = n <= bytes.len() && d.as_ref() == &bytes[n..];
            let f3 = n <= bytes.len() && matches!(catch(|| Eof::decode(Bytes::copy_from_slice(&bytes[..n]))), Ok(Ok(e2)) if e2.header == e.header && e2.body == e.body);
            format!("(DDOk {} {} {} {} {} {} {})", hdr(&e.header), n, d.len(), zb(f1), zb(f2), zb(f3), zb(e.body.is_data_filled))
        }
    };
    // validation, twice, the second time on a fresh copy of the bytes
    let v1 = validate(&raw, kind);
    let v2 = validate(&Bytes::copy_from_slice(&bytes), kind);
    let (c1, c2) = (vcode(&v1), vcode(&v2));
    match &v1 { Ok(Ok(_)) => tags.push("validate:accepted".into()), Ok(Err(EofError::Validation(v))) => tags.push(format!("validate:{:?}", v)), Ok(Err(EofError::Decode(_))) => tags.push("validate:decode-error".into()), Err(_) => tags.push("validate:PANIC".into()) }
    // the returned container must be the decoded one
    if let (Ok(Ok(ev)), Some(e)) = (&v1, &decoded) { if ev != e { tags.push("validate:returned-container-differs".into()); } }
    // execution of accepted containers
    let mut exec = 0u64;
    let mut detail = String::new();
    if c1 == 0 {
        st.accepted += 1;
        if run_exec && kind != 2 {
            let cd = match rng.below(3) { 0 => vec![], 1 => rng.bytes(32), _ => { let n = rng.below(80) as usize; rng.bytes(n) } };
            let x = execute(&bytes, kind == 0, &cd);
            exec = x.code; detail = x.detail; tags.extend(x.tags);
            st.executed += 1;
        }
    }
    let case = format!("(mkCase {} {} {} {} {} {} {} {})", zbytes(&bytes), kind, dec_s, re_s, dd_s, zi(c1), zi(c2), exec);
    let hex: String = bytes.iter().map(|b| format!("{:02x}", b)).collect();
    let human = format!("stream={} kind={} v1={} v2={} exec={} {} bytes=0x{}", stream, kind, c1, c2, exec, detail, if hex.len() > 4000 { &hex[..4000] } else { &hex });
    let nontrivial = decoded.is_some() || c1 >= 200;
    let tr: Vec<&str> = tags.iter().map(|s| s.as_str()).collect();
    w.push(case, human, nontrivial, &tr);
}

/// Reflector: the opcode table and the constants the validator reads, printed from the compiled code.
pub fn reflect(out: &std::path::Path) {
    let mut s = String::from("(* generated by `vh reflect` from revm_interpreter::OPCODE_INFO_JUMPTABLE and opcode constants; do not edit *)\nFrom Coq Require Import ZArith List Bool.\nImport ListNotations.\nLocal Open Scope Z_scope.\n(* per opcode byte: None = undefined; Some (inputs, outputs, immediate_size, disabled_in_eof, terminating) *)\nDefinition eof_op_table : list (option (Z * Z * Z * bool * bool)) := [\n");
    for op in 0..256usize {
        let e = match &OPCODE_INFO_JUMPTABLE[op] {
            None => "None".to_string(),
            Some(i) => format!("Some ({}, {}, {}, {}, {})", i.inputs(), i.outputs(), i.immediate_size(), zb(i.is_disabled_in_eof()), zb(i.is_terminating())),
        };
        s.push_str(&format!("  {}{} (* 0x{:02x} *)\n", e, if op < 255 { ";" } else { "" }, op));
    }
    s.push_str("].\n");
    for (n, v) in [("OP_STOP", opcode::STOP), ("OP_RETURN", opcode::RETURN), ("OP_RJUMP", opcode::RJUMP), ("OP_RJUMPI", opcode::RJUMPI), ("OP_RJUMPV", opcode::RJUMPV),
        ("OP_CALLF", opcode::CALLF), ("OP_RETF", opcode::RETF), ("OP_JUMPF", opcode::JUMPF), ("OP_DUPN", opcode::DUPN), ("OP_SWAPN", opcode::SWAPN),
        ("OP_EXCHANGE", opcode::EXCHANGE), ("OP_EOFCREATE", opcode::EOFCREATE), ("OP_RETURNCONTRACT", opcode::RETURNCONTRACT), ("OP_DATALOADN", opcode::DATALOADN)] {
        s.push_str(&format!("Definition {} : Z := {}.\n", n, v));
    }
    s.push_str(&format!("Definition STACK_LIMIT : Z := {}.\nDefinition MAX_INITCODE_SIZE : Z := {}.\n", revm::interpreter::STACK_LIMIT, revm::primitives::MAX_INITCODE_SIZE));
    std::fs::write(out.join("EofOps.v"), s).unwrap();
}

pub fn run(o: &Opts) {
    let mut rng = Rng::new(o.seed ^ 0xC26);
    let mut w = CaseWriter::new(o, "C26", 60);
    let simple = simple_ops();
    let (vectors, nfiles, skipped) = load_vectors();
    w.note("suite_files", format!("{} json files under /repo/tests/eof_suite, {} empty/unreadable skipped, {} distinct EOF code vectors", nfiles, skipped, vectors.len()));
    let scale = if o.thorough() { 10 } else { 1 };
    let mut st = Stats { accepted: 0, executed: 0 };
    const MAXLEN: usize = 1500; // cases are evaluated inside Coq: keep byte lists moderate

    // stream 1: random bytes (plain, and behind a valid-looking prefix)
    for i in 0..150 * scale {
        let n = match rng.below(6) { 0 => rng.below(4), 1 => rng.range(12, 24), 2 => rng.range(0, 64), _ => rng.below(200) } as usize;
        let mut b = rng.bytes(n);
        if i % 2 == 1 {
            let pre: &[u8] = *rng.pick(&[&[0xefu8, 0x00][..], &[0xef, 0x00, 0x01], &[0xef, 0x00, 0x01, 0x01, 0x00, 0x04], &[0xef, 0x00, 0x01, 0x01, 0x00, 0x04, 0x02, 0x00, 0x01], &[0xef, 0x00, 0x01, 0x01, 0x00, 0x04, 0x02, 0x00, 0x01, 0x00, 0x01, 0x04]]);
            let mut v = pre.to_vec(); v.extend(b); b = v;
            // small sizes so that the body checks are reached
            if rng.chance(1, 2) { for x in b.iter_mut().skip(pre.len()).take(12) { if rng.chance(2, 3) { *x &= 0x07; } } }
        }
        let kind = rng.below(3) as u8;
        observe(&mut w, &mut st, &mut rng, b, kind, "random", &[], true);
    }

    // stream 2: structurally generated containers
    let mut pool: Vec<(Vec<u8>, u8)> = vec![];
    for _ in 0..330 * scale {
        let kind = if rng.chance(3, 5) { Kind::Init } else { Kind::Runtime };
        let mut c = gen_container(&mut rng, kind, 0, &simple);
        let mut extra = vec![format!("gen:sections-{}", c.secs.len().min(5)), format!("gen:subs-{}", c.subs.len())];
        // top-level data variants: truncated (declared more than present), extended
        match rng.below(12) {
            0 => { c.data_size = c.data_size.saturating_add(rng.range(1, 50) as u16); extra.push("gen:top-data-truncated".into()); }
            1 => { let n = rng.range(1, 8) as usize; c.data.extend(rng.bytes(n)); extra.push("gen:top-data-dangling".into()); }
            _ => {}
        }
        let b = encode(&c);
        if b.len() > MAXLEN { w.tag("gen:skipped-too-long"); continue; }
        let k = if kind == Kind::Init { 0 } else { 1 };
        let k = if rng.chance(1, 10) { 2 } else { k };
        pool.push((b.clone(), k));
        observe(&mut w, &mut st, &mut rng, b, k, "generated", &extra, true);
    }

    // stream 3a: shipped vectors as they are
    let mut order: Vec<usize> = (0..vectors.len()).collect();
    for i in (1..order.len()).rev() { let j = rng.below(i as u64 + 1) as usize; order.swap(i, j); }
    let mut taken = 0;
    for &i in &order {
        if taken >= 260 * scale { break; }
        let v = &vectors[i];
        if v.code.len() > MAXLEN && !(o.thorough() && v.code.len() < 20_000 && rng.chance(1, 10)) { continue; }
        taken += 1;
        let kind = if v.initcode { 0 } else { 1 };
        let mut extra = vec![];
        // information only: the shipped expectation vs. the verdict (not part of the property)
        if let Some(exp) = v.expect {
            let got = vcode(&validate(&Bytes::copy_from_slice(&v.code), kind)) == 0;
            extra.push(if got == exp { "suite:verdict-as-expected".to_string() } else { "suite:verdict-differs-from-vector".to_string() });
        }
        pool.push((v.code.clone(), kind));
        observe(&mut w, &mut st, &mut rng, v.code.clone(), kind, "suite", &extra, true);
    }

    // stream 3b: mutations of valid containers (generated + shipped); appended dangling bytes
    for i in 0..420 * scale {
        let (b, k) = rng.pick(&pool).clone();
        if i % 7 == 0 {
            let mut v = b.clone(); let n = rng.range(1, 40) as usize; v.extend(rng.bytes(n));
            observe(&mut w, &mut st, &mut rng, v, k, "extended", &[], true);
        } else {
            let v = mutate(&mut rng, &b);
            if v.len() > MAXLEN { continue; }
            let k = if rng.chance(1, 8) { rng.below(3) as u8 } else { k };
            observe(&mut w, &mut st, &mut rng, v, k, "mutated", &[], true);
        }
    }

    // boundary sizes (a few large inputs): 1024/1025 code sections, 256/257 containers, 0xffff-byte section
    let mut big: Vec<Vec<u8>> = vec![];
    for n in [1024usize, 1025] {
        let c = Cont { secs: (0..n).map(|_| Sec { inputs: 0, outputs: 0x80, max_stack: 0, code: vec![0xfe] }).collect(), subs: vec![], data: vec![], data_size: 0 };
        big.push(encode(&c));
    }
    let stop = encode(&Cont { secs: vec![Sec { inputs: 0, outputs: 0x80, max_stack: 0, code: vec![0x00] }], subs: vec![], data: vec![], data_size: 0 });
    for n in [256usize, 257] {
        let c = Cont { secs: vec![Sec { inputs: 0, outputs: 0x80, max_stack: 0, code: vec![0xfe] }], subs: (0..n).map(|_| stop.clone()).collect(), data: vec![], data_size: 0 };
        big.push(encode(&c));
    }
    if o.thorough() {
        let mut code = vec![0x5b; 0xfffe]; code.push(0x00);
        big.push(encode(&Cont { secs: vec![Sec { inputs: 0, outputs: 0x80, max_stack: 0, code }], subs: vec![], data: vec![], data_size: 0 }));
    }
    for b in big { observe(&mut w, &mut st, &mut rng, b, 1, "boundary", &[], false); }

    w.note("accepted", format!("{} containers accepted by validation, {} of them executed on an Evm under OSAKA with the step monitor", st.accepted, st.executed));
    w.finish("byte strings from three streams (random bytes; structurally generated EOF containers with 1..8 code sections, nested sub-containers, truncated data; shipped tests/eof_suite vectors and byte-level mutations of valid containers) run through Eof::decode, encode_slow, decode_dangling, validate_raw_eof(_inner) twice, and, when accepted, executed as creation transaction / called account on an OSAKA Evm with a per-step monitor; non-trivial = decodes as a container or reaches a validation (not decode) error; distinct = distinct (bytes, kind, observations)");
}
