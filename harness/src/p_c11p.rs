//! C11, second stream (driver `c11p`): real programs on a real `Evm`. An Inspector attached through
//! `inspector_handle_register` observes every instruction that touches memory (operands read off
//! the real stack at `step`; gas, `shared_memory.len()`, a digest of `context_memory()` and the
//! pushed value at `step_end`) and every frame switch (`call` / `initialize_interp` / `call_end`).
//! The case is that event list; Coq replays it on Model/MemoryOps.v and on the per-frame oracle.
use crate::progs::{self, op::*, Asm};
use crate::util::*;
use revm::db::{CacheDB, EmptyDB};
use revm::interpreter::{CallInputs, CallOutcome, InstructionResult, Interpreter};
use revm::primitives::{AccessListItem, Address, Log, SpecId, TxKind, U256};
use revm::{inspector_handle_register, Evm, EvmContext, Inspector};

const LOG4: u8 = 0xa4;

fn dig(bs: &[u8], mut acc: u64) -> u64 { for b in bs { acc = acc.wrapping_mul(1000003).wrapping_add(*b as u64 + 1); } acc }
fn window(f: &[u8], p: i128) -> &[u8] {
    let p = p.min(f.len() as i128 - 64).max(0) as usize;
    &f[p.min(f.len())..(p + 64).min(f.len())]
}
fn mem_digest(f: &[u8], p: i128) -> u64 {
    if f.len() <= 2048 { dig(f, 7) } else { dig(window(f, p), dig(window(f, f.len() as i128 - 64), dig(window(f, 0), 7))) }
}
fn zq(v: U256) -> String { if v < U256::from(1u64 << 62) { format!("{}", v) } else { zw(v) } }
fn clamp(v: U256) -> i128 { if v < U256::from(1u128 << 100) { v.as_limbs()[0] as i128 + ((v.as_limbs()[1] as i128) << 64) } else { 1i128 << 100 } }

/// An instruction as the interpreter saw it: opcode + operands on the stack at `step`.
#[derive(Clone, Debug)]
struct Seen { opc: u8, a: Vec<U256> }
impl Seen {
    fn coq(&self) -> String {
        let a = &self.a;
        match self.opc {
            MLOAD => format!("PMload {}", zq(a[0])),
            MSTORE => format!("PMstore {} {}", zq(a[0]), zq(a[1])),
            MSTORE8 => format!("PMstore8 {} {}", zq(a[0]), zq(a[1])),
            MSIZE => "PMsize".into(),
            MCOPY => format!("PMcopy {} {} {}", zq(a[0]), zq(a[1]), zq(a[2])),
            CALLDATACOPY => format!("PCalldatacopy {} {} {}", zq(a[0]), zq(a[1]), zq(a[2])),
            CODECOPY => format!("PCodecopy {} {} {}", zq(a[0]), zq(a[1]), zq(a[2])),
            RETURNDATACOPY => format!("PReturndatacopy {} {} {}", zq(a[0]), zq(a[1]), zq(a[2])),
            KECCAK256 => format!("PKeccak {} {}", zq(a[0]), zq(a[1])),
            LOG0..=LOG4 => format!("PLog {} {} {}", self.opc - LOG0, zq(a[0]), zq(a[1])),
            RETURN => format!("PReturn {} {}", zq(a[0]), zq(a[1])),
            REVERT => format!("PRevert {} {}", zq(a[0]), zq(a[1])),
            STOP => "PStop".into(),
            // gas, to, value, in_off, in_len, out_off, out_len
            CALL => format!("PCall {} {} {} {} {}", zq(a[0]), zq(a[3]), zq(a[4]), zq(a[5]), zq(a[6])),
            _ => unreachable!(),
        }
    }
    fn name(&self) -> &'static str {
        match self.opc {
            MLOAD => "MLOAD", MSTORE => "MSTORE", MSTORE8 => "MSTORE8", MSIZE => "MSIZE", MCOPY => "MCOPY", CALLDATACOPY => "CALLDATACOPY",
            CODECOPY => "CODECOPY", RETURNDATACOPY => "RETURNDATACOPY", KECCAK256 => "KECCAK256", LOG0..=LOG4 => "LOG", RETURN => "RETURN",
            REVERT => "REVERT", STOP => "STOP", CALL => "CALL", _ => "?",
        }
    }
    /// the offset whose surroundings are digested when the memory is large (Corr.C11.pfocus)
    fn focus(&self) -> i128 {
        match self.opc { MSIZE | STOP => 0, CALL => clamp(self.a[5]), _ => clamp(self.a[0]) }
    }
}
fn n_operands(opc: u8) -> Option<usize> {
    Some(match opc {
        MLOAD => 1, MSTORE | MSTORE8 | KECCAK256 | RETURN | REVERT => 2, MSIZE | STOP => 0,
        MCOPY | CALLDATACOPY | CODECOPY | RETURNDATACOPY => 3, LOG0..=LOG4 => 2, CALL => 7, _ => return None,
    })
}

#[derive(Clone, Debug)]
enum Ev {
    Op { probe: bool, gas_before: u64, seen: Seen, obs: Vec<String>, res: u8, grew: bool },
    Enter { code: Vec<u8>, input_dig: u64, input_len: usize },
    Direct { class: u8, out: Vec<u8> },
    Exit { endflag: u8, class: u8, out_dig: u64, out_len: usize },
}
impl Ev {
    fn coq(&self) -> String {
        match self {
            Ev::Op { probe, gas_before, seen, obs, .. } => format!("TOp {} {} ({}) {}", zb(*probe), zu(*gas_before), seen.coq(), zlist(obs.iter().cloned())),
            Ev::Enter { code, input_dig, input_len } => format!("TEnter {} [{}; {}]", zbytes(code), zu(*input_dig), input_len),
            Ev::Direct { class, out } => format!("TDirect {} {} [0]", class, zbytes(out)),
            Ev::Exit { endflag, class, out_dig, out_len } => format!("TExit {} [{}; {}; {}; 0]", endflag, class, zu(*out_dig), out_len),
        }
    }
}

struct FrameRec { had_frame: bool, fin: bool }
struct Pending { seen: Seen, gas_before: u64, len_before: usize, dig_before: Option<u64>, probe: bool }
#[derive(Default)]
struct Rec { evs: Vec<Ev>, frames: Vec<FrameRec>, cur: Option<Pending>, probe: bool, max_depth: usize, perturb: u32, last_win: Option<(usize, usize, usize, bool)> }

impl<DB: revm::Database> Inspector<DB> for Rec {
    fn initialize_interp(&mut self, i: &mut Interpreter, _c: &mut EvmContext<DB>) {
        if let Some(f) = self.frames.last_mut() { f.had_frame = true; }
        self.max_depth = self.max_depth.max(self.frames.len());
        self.probe = true;
        if self.frames.len() > 1 {
            let input = &i.contract.input;
            self.evs.push(Ev::Enter { code: i.contract.bytecode.original_byte_slice().to_vec(), input_dig: dig(input, 7), input_len: input.len() });
        }
    }
    fn step(&mut self, i: &mut Interpreter, _c: &mut EvmContext<DB>) {
        let opc = i.current_opcode();
        self.cur = None;
        let Some(n) = n_operands(opc) else { return };
        if i.stack.len() < n { return; }
        let seen = Seen { opc, a: (0..n).map(|k| i.stack.peek(k).unwrap()).collect() };
        let probe = self.probe;
        let dig_before = if probe {
            let mut mem = i.shared_memory.context_memory().to_vec();
            // teeth (VH_C11P_PERTURB=window): what the parent would see if the whole window [out_off, out_off + out_len) were
            // rewritten (zero padded) instead of only min(out_len, |ret|) bytes
            if let (1, Some((start, len, retlen, written))) = (self.perturb, self.last_win.take()) {
                if written && len > retlen && start + len <= mem.len() { for b in &mut mem[start + retlen..start + len] { *b = 0; } }
            }
            Some(mem_digest(&mem, seen.focus()))
        } else { None };
        self.cur = Some(Pending { seen, gas_before: i.gas.remaining(), len_before: i.shared_memory.len(), dig_before, probe });
    }
    fn step_end(&mut self, i: &mut Interpreter, _c: &mut EvmContext<DB>) {
        let Some(p) = self.cur.take() else { return };
        self.probe = false;
        let res = i.instruction_result as u8;
        let len_after = i.shared_memory.len();
        let dig_after = if p.seen.opc == MSIZE { "(-1)".to_string() } else { zu(mem_digest(i.shared_memory.context_memory(), p.seen.focus())) };
        let val = if res == 0 && (p.seen.opc == MLOAD || p.seen.opc == MSIZE) { i.stack.peek(0).unwrap_or(U256::ZERO) } else { U256::ZERO };
        let aux = 0u64;
        let mut len_after_rep = len_after;
        // teeth (VH_C11P_PERTURB=msize): pretend the memory grew by one more word on some MSTOREs
        if self.perturb == 2 && p.seen.opc == MSTORE && len_after % 64 == 32 { len_after_rep += 32; }
        let obs = vec![format!("{}", p.len_before), p.dig_before.map(zu).unwrap_or("(-1)".into()), zu(i.gas.remaining()), format!("{}", res),
            format!("{}", len_after_rep), dig_after, zq(val), zu(aux)];
        if res != 0 && res != InstructionResult::CallOrCreate as u8 { if let Some(f) = self.frames.last_mut() { f.fin = true; } }
        self.evs.push(Ev::Op { probe: p.probe, gas_before: p.gas_before, seen: p.seen, obs, res, grew: len_after > p.len_before });
    }
    // inspector_handle_register wraps LOGn around the step/step_end wrapper: the hook fires after step_end of the LOG
    fn log(&mut self, _i: &mut Interpreter, _c: &mut EvmContext<DB>, log: &Log) {
        if let Some(Ev::Op { seen, obs, .. }) = self.evs.last_mut() { if (LOG0..=LOG4).contains(&seen.opc) { obs[7] = zu(dig(&log.data.data, 7)); } }
    }
    fn call(&mut self, _c: &mut EvmContext<DB>, _inputs: &mut CallInputs) -> Option<CallOutcome> {
        self.frames.push(FrameRec { had_frame: false, fin: false });
        None
    }
    fn call_end(&mut self, _c: &mut EvmContext<DB>, _inputs: &CallInputs, outcome: CallOutcome) -> CallOutcome {
        let f = self.frames.pop().unwrap_or(FrameRec { had_frame: false, fin: false });
        let class = outcome.result.result as u8;
        let out = outcome.result.output.to_vec();
        self.probe = true;
        self.last_win = Some((outcome.memory_offset.start, outcome.memory_offset.len(), out.len(), outcome.result.result.is_ok() || outcome.result.result.is_revert()));
        if f.had_frame { self.evs.push(Ev::Exit { endflag: if f.fin { 0 } else { 1 }, class, out_dig: dig(&out, 7), out_len: out.len() }); }
        else { self.evs.push(Ev::Direct { class, out }); }
        outcome
    }
}

// ------------------------------------------------------------------ program generator
fn u(x: u64) -> U256 { U256::from(x) }
fn huge(rng: &mut Rng) -> U256 {
    let one = U256::from(1u64);
    match rng.below(9) {
        0 => u(1 << 32), 1 => u((1 << 32) + 1), 2 => u(u64::MAX), 3 => one << 64, 4 => u(u64::MAX - 31), 5 => u(u64::MAX - 32),
        6 => one << 255, 7 => U256::MAX, _ => u(1 << 40) + u(rng.below(100)),
    }
}
/// offset around word boundaries / the current size `est`; `wild` allows a few KB and huge values
fn pick_off(rng: &mut Rng, est: u64, wild: bool) -> U256 {
    match rng.below(if wild { 24 } else { 20 }) {
        0..=5 => u(*rng.pick(&[0u64, 1, 31, 32, 33, 63, 64, 65, 95, 96, 97])),
        6..=10 => u((est + rng.below(67)).saturating_sub(33)),
        11..=15 => u(rng.below(2 * est + 100)),
        16..=18 => u(32 * rng.below(est / 32 + 4)),
        19 => u(rng.below(700)),
        20 | 21 => u(rng.range(1000, 6000)),
        22 => u(rng.range(6000, 40_000)),
        _ => huge(rng),
    }
}
fn pick_len(rng: &mut Rng, wild: bool) -> U256 {
    match rng.below(if wild { 23 } else { 20 }) {
        0 | 1 => u(0),
        2..=8 => u(*rng.pick(&[1u64, 31, 32, 33, 63, 64, 65, 96, 97])),
        9..=15 => u(rng.below(200)),
        16..=19 => u(rng.below(600)),
        20 => u(rng.range(1000, 5000)),
        21 => u(rng.range(5000, 30_000)),
        _ => huge(rng),
    }
}
fn ceil32(x: u64) -> u64 { (x + 31) / 32 * 32 }
fn grow(est: &mut u64, off: U256, len: U256) {
    if len.is_zero() { return; }
    if off < u(1 << 20) && len < u(1 << 20) { *est = (*est).max(ceil32(off.as_limbs()[0] + len.as_limbs()[0])); }
}

#[derive(Clone, Copy, PartialEq, Debug)]
enum Target { Contract(usize), Identity, Sha256, Nonexistent, Eoa }
const NONEXISTENT: u64 = 0xDEAD0000;

struct Gen<'a> { rng: &'a mut Rng, n: usize, tags: Vec<String>, wild_pct: u64 }
impl Gen<'_> {
    fn tag(&mut self, t: &str) { if !self.tags.iter().any(|x| x == t) { self.tags.push(t.into()); } }
    fn mem_op(&mut self, a: &mut Asm, est: &mut u64) {
        let wild = self.rng.below(100) < self.wild_pct;
        let rng = &mut *self.rng;
        match rng.below(20) {
            0..=3 => { let off = pick_off(rng, *est, wild); a.push(rng.u256b()).push(off).op(MSTORE); grow(est, off, u(32)); }
            4 | 5 => { let off = pick_off(rng, *est, wild); a.push(rng.u256b()).push(off).op(MSTORE8); grow(est, off, u(1)); }
            6..=8 => { let off = pick_off(rng, *est, wild); a.push(off).op(MLOAD).op(POP); grow(est, off, u(32)); }
            9..=11 => { let (d, s, l) = (pick_off(rng, *est, wild), pick_off(rng, *est, wild), pick_len(rng, wild)); a.push(l).push(s).push(d).op(MCOPY); grow(est, d.max(s), l); }
            12 | 13 => { let (m, l) = (pick_off(rng, *est, wild), pick_len(rng, wild));
                let d = match rng.below(5) { 0 => u(0), 1 => u(rng.below(120)), 2 => huge(rng), _ => u(rng.below(40)) };
                a.push(l).push(d).push(m).op(CALLDATACOPY); grow(est, m, l); }
            14 | 15 => { let (m, l) = (pick_off(rng, *est, wild), pick_len(rng, wild));
                let d = match rng.below(5) { 0 => u(0), 1 => u(rng.below(600)), 2 => huge(rng), _ => u(rng.below(60)) };
                a.push(l).push(d).push(m).op(CODECOPY); grow(est, m, l); }
            16 => { // RETURNDATACOPY: the return data is empty unless a call came before: only (offset 0, length 0) succeeds then
                let m = pick_off(rng, *est, false);
                let (d, l) = if rng.chance(9, 10) { (u(0), u(0)) } else { (u(rng.below(3)), u(rng.below(3))) };
                a.push(l).push(d).push(m).op(RETURNDATACOPY); }
            17 => { let (o, l) = (pick_off(rng, *est, wild), pick_len(rng, wild)); a.push(l).push(o).op(KECCAK256).op(POP); grow(est, o, l); }
            18 => { let n = rng.below(5) as u8; let (o, l) = (pick_off(rng, *est, wild), pick_len(rng, wild));
                for t in 0..n { a.push_u(100 + t as u64); } a.push(l).push(o).op(LOG0 + n); grow(est, o, l); }
            _ => { a.op(MSIZE).op(POP); }
        }
    }
    fn call(&mut self, a: &mut Asm, est: &mut u64, level: usize, retdata_hint: &mut bool) {
        let rng = &mut *self.rng;
        let target = match rng.below(10) {
            0 | 1 => Target::Identity, 2 => Target::Sha256, 3 => Target::Nonexistent, 4 => Target::Eoa,
            _ => if level + 1 < self.n { Target::Contract(rng.range(level as u64 + 1, self.n as u64 - 1) as usize) } else { Target::Identity },
        };
        let wild = rng.chance(1, 40);
        let (io, il) = (pick_off(rng, *est, wild), pick_len(rng, wild));
        let (oo, ol) = (pick_off(rng, *est, wild), pick_len(rng, wild));
        let addr = match target { Target::Contract(j) => progs::addr(progs::CONTRACT_BASE + j as u64), Target::Identity => progs::addr(4), Target::Sha256 => progs::addr(2),
            Target::Nonexistent => progs::addr(NONEXISTENT), Target::Eoa => progs::addr(progs::CALLER_ADDR) };
        a.push(ol).push(oo).push(il).push(io).push_u(0).push_addr(addr);
        match rng.below(8) {
            0 => { a.push_u(rng.below(60)); }
            1 => { a.push_u(rng.range(60, 700)); }
            2 => { a.push_u(rng.range(700, 20_000)); }
            3 => { a.push(U256::MAX >> rng.below(200) as usize); }
            _ => { a.op(GAS); }
        }
        a.op(CALL).op(POP).op(MSIZE).op(POP);
        grow(est, io, il); grow(est, oo, ol);
        *retdata_hint = true;
        let t = format!("call:{}", match target { Target::Contract(_) => "contract", Target::Identity => "identity", Target::Sha256 => "sha256", Target::Nonexistent => "nonexistent", Target::Eoa => "eoa" });
        self.tag(&t);
    }
    /// RETURNDATACOPY after a call: around the size of what children return
    fn retcopy(&mut self, a: &mut Asm, est: &mut u64) {
        let rng = &mut *self.rng;
        let m = pick_off(rng, *est, false);
        match rng.below(10) {
            // the whole return data / its tail: always inside
            0..=4 => { a.op(RETURNDATASIZE).push_u(0).push(m).op(RETURNDATACOPY); }
            5 => { a.push_u(0).op(RETURNDATASIZE).push(m).op(RETURNDATACOPY); }
            6 | 7 => { a.push_u(*rng.pick(&[0u64, 1, 4, 31, 32])).push_u(0).push(m).op(RETURNDATACOPY); }
            8 => { a.push_u(rng.below(40)).push_u(rng.below(40)).push(m).op(RETURNDATACOPY); }
            _ => { a.push_u(*rng.pick(&[1u64, 32, 33])).push(huge(rng)).push(m).op(RETURNDATACOPY); }
        }
        a.op(MSIZE).op(POP);
        let _ = est;
    }
    fn code(&mut self, level: usize, nested: bool) -> Vec<u8> {
        let mut a = Asm::new();
        let mut est = 0u64;
        let mut ret_hint = false;
        if level > 0 { a.op(MSIZE).op(POP); } // the child reports the size it starts with
        let nops = if level == 0 { self.rng.range(4, 26) } else { self.rng.range(0, 10) };
        for _ in 0..nops {
            let r = self.rng.below(100);
            if nested && r < (if level == 0 { 28 } else { 12 }) && level < 3 { self.call(&mut a, &mut est, level, &mut ret_hint); }
            else if ret_hint && r < 40 { self.retcopy(&mut a, &mut est); }
            else { self.mem_op(&mut a, &mut est); if self.rng.chance(1, 2) { a.op(MSIZE).op(POP); } }
        }
        // terminal
        let rng = &mut *self.rng;
        if level == 0 {
            match rng.below(8) { 0 => { a.op(STOP); } 1 => { a.push(pick_len(rng, false)).push(pick_off(rng, est, false)).op(RETURN); } _ => { a.op(MSIZE).push_u(0).op(RETURN); } }
        } else {
            match rng.below(12) {
                0 => { a.op(STOP); }
                1 => {} // falls off the end: implicit STOP
                2 => { a.op(INVALID); }
                3 => { a.op(MSIZE).push_u(0).op(RETURN); }
                4 | 5 | 6 => { let wl = rng.chance(1, 12); a.push(pick_len(rng, wl)).push(pick_off(rng, est, false)).op(REVERT); }
                _ => { let wl = rng.chance(1, 12); a.push(pick_len(rng, wl)).push(pick_off(rng, est, false)).op(RETURN); }
            }
        }
        a.finish()
    }
}

struct Run { evs: Vec<Ev>, status: String, max_depth: usize }
fn execute(codes: &[Vec<u8>], spec: SpecId, gas_limit: u64, data: Vec<u8>, perturb: u32) -> Run {
    let balances = vec![U256::from(1000u64); codes.len()];
    let mut tx = progs::base_tx(TxKind::Call(progs::addr(progs::CONTRACT_BASE)), gas_limit, U256::ZERO, data);
    // every address a program may call is warm: the CALL's account-access charge is the constant 100
    let mut warm: Vec<Address> = (0..codes.len()).map(|i| progs::addr(progs::CONTRACT_BASE + i as u64)).collect();
    warm.push(progs::addr(NONEXISTENT));
    warm.push(progs::addr(progs::CALLER_ADDR));
    for a in warm { tx.access_list.push(AccessListItem { address: a, storage_keys: vec![] }); }
    let w = progs::world_from(spec, codes, &balances, tx, String::new());
    let db: CacheDB<EmptyDB> = w.db.clone();
    let (tx, block) = (w.tx.clone(), w.block.clone());
    let r = catch(move || {
        let mut evm = Evm::builder().with_db(db).with_external_context(Rec { perturb, ..Default::default() }).with_spec_id(spec)
            .modify_tx_env(|t| *t = tx).modify_block_env(|b| *b = block).append_handler_register(inspector_handle_register).build();
        let res = evm.transact();
        let rec = evm.into_context().external;
        (res.map(|x| format!("{:?}", x.result).split(|c| c == ' ' || c == '{').next().unwrap().to_string()).unwrap_or_else(|e| format!("invalid-tx:{:?}", e).chars().take(40).collect()), rec)
    });
    match r {
        Ok((status, rec)) => Run { evs: rec.evs, status, max_depth: rec.max_depth },
        Err(m) => Run { evs: vec![], status: format!("panic:{}", m), max_depth: 0 },
    }
}

pub fn run(o: &Opts) {
    let mut rng = Rng::new(o.seed ^ 0xC11B);
    let mut w = CaseWriter::new(o, "C11", 40);
    let n = if o.thorough() { 5_000 } else { 520 };
    let perturb = match std::env::var("VH_C11P_PERTURB").as_deref() { Ok("window") => 1, Ok("msize") => 2, _ => 0 };
    for ci in 0..n {
        let nested = ci % 2 == 1;
        let spec = if rng.chance(3, 5) { SpecId::CANCUN } else { SpecId::PRAGUE };
        let ncontracts = if nested { rng.range(2, 4) as usize } else { 1 };
        let mut g = Gen { rng: &mut rng, n: ncontracts, tags: vec![], wild_pct: if nested { 6 } else { 14 } };
        let mut codes = vec![];
        for lvl in 0..ncontracts { g.wild_pct = if lvl == 0 { if nested { 3 } else { 14 } } else { 20 }; codes.push(g.code(lvl, nested)); }
        let mut tags = g.tags.clone();
        let data = rng.bytes(*rng.clone().pick(&[0usize, 4, 32, 33, 100]));
        let intrinsic = 21_000 + 2400 * (ncontracts as u64 + 2) + 16 * data.len() as u64;
        let gas_limit = match rng.below(8) { 0 => intrinsic + rng.below(400), 1 => intrinsic + rng.range(400, 4000), 2 => intrinsic + rng.range(4000, 40_000), _ => rng.range(300_000, 3_000_000) };
        let run = execute(&codes, spec, gas_limit, data.clone(), perturb);
        if run.evs.is_empty() { w.tag(&format!("skipped:{}", run.status.split(':').next().unwrap())); continue; }
        // statistics
        let mut n_ops = 0; let mut n_grow = 0; let mut n_fail = 0; let mut n_frames = 0; let mut n_direct = 0; let mut n_exit_err = 0;
        for e in &run.evs {
            match e {
                Ev::Op { seen, res, grew, .. } => { n_ops += 1; if *grew { n_grow += 1; } tags.push(format!("op:{}", seen.name()));
                    if *res >= 0x50 { n_fail += 1; tags.push(format!("fail:{}:{}", seen.name(), match *res { 0x50 => "OutOfGas", 0x51 => "MemoryOOG", 0x54 => "InvalidOperandOOG", 93 => "OutOfOffset", _ => "other" })); } }
                Ev::Enter { .. } => n_frames += 1,
                Ev::Direct { class, .. } => { n_direct += 1; if *class >= 0x50 { tags.push("direct:error".into()); } }
                Ev::Exit { class, endflag, out_len, .. } => { if *class >= 0x50 { n_exit_err += 1; } if *endflag == 1 { tags.push("frame:halt-on-unobserved-instruction".into()); }
                    if *class == 0x10 { tags.push("frame:revert".into()); } if *out_len > 0 && (*class == 2 || *class == 0x10) { tags.push("frame:returns-data".into()); } }
            }
        }
        if n_grow > 0 { tags.push("has-expansion".into()); }
        if n_fail > 0 { tags.push("has-failing-memory-instruction".into()); }
        if n_frames > 0 { tags.push("has-child-frame".into()); }
        if n_direct > 0 { tags.push("has-call-without-frame".into()); }
        if n_exit_err > 0 { tags.push("has-failing-frame".into()); }
        tags.push(format!("stream:{}", if nested { "nested" } else { "single-frame" }));
        tags.push(format!("depth:{}", run.max_depth));
        tags.push(format!("spec:{:?}", spec));
        tags.push(format!("status:{}", run.status));
        tags.sort(); tags.dedup();
        let case = format!("(PCase {} {} {})", zbytes(&data), zbytes(&codes[0]), zlist(run.evs.iter().map(|e| format!("({})", e.coq()))));
        let human = format!("spec={:?} gas_limit={} calldata={} codes=[{}] status={} events={}", spec, gas_limit, progs::hex(&data),
            codes.iter().map(|c| progs::hex(c)).collect::<Vec<_>>().join(","), run.status, run.evs.len());
        let tr: Vec<&str> = tags.iter().map(|s| s.as_str()).collect();
        w.push(case, human, n_ops >= 3 && n_grow > 0, &tr);
    }
    w.finish("one real transaction per case on Evm<Inspector, CacheDB<EmptyDB>> (CANCUN / PRAGUE) with inspector_handle_register; generated programs of MSTORE / MSTORE8 / MLOAD / MSIZE / MCOPY / CALLDATACOPY / CODECOPY / RETURNDATACOPY / KECCAK256 / LOG0-4 / RETURN / REVERT with offsets and lengths around word boundaries and the current size, a few KB, and huge values (2^32, 2^64-1, 2^64, 2^255, 2^256-1), MSIZE probes, gas limits from just above the intrinsic gas to ample; every second case nests frames: the parent CALLs (value 0, warm targets) children (depth up to 3) that start with an MSIZE probe, expand their own memory, RETURN / REVERT / STOP / INVALID / run out of gas, the identity and sha256 precompiles, accounts without code; in/out windows shorter, equal and longer than the returned data; the parent probes MSIZE after every call and returns its whole memory; every observed instruction: operands from the real stack, gas before/after, shared_memory.len() before/after, digest of context_memory() (all bytes up to 2048, else three 64-byte windows), value pushed by MLOAD / MSIZE, digest of LOG data; non-trivial = at least 3 observed instructions one of which expanded memory");
}
