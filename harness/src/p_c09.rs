//! C09: gas used, refund and fee settlement of real executions through `Evm::transact`.
//! The frame result handed to `last_frame_return`, the EIP-7702 refund handed to `refund` and the
//! meter handed to `reimburse_caller` are recorded by wrapping those handles (public handler API).
use crate::p_c02::{access_list, addr, block_coq, cfg_coq, spec_of, tx_coq, Db, CALLER, COINBASE, TARGET};
use crate::util::*;
use revm::db::EmptyDB;
use revm::handler::register::EvmHandler;
use revm::primitives::{
    AccountInfo, Address, Authorization, AuthorizationList, BlobExcessGasAndPrice, BlockEnv, Bytecode, Bytes, CfgEnv, Env,
    ExecutionResult, RecoveredAuthority, RecoveredAuthorization, TxEnv, TxKind, B256, KECCAK_EMPTY, U256,
};
use revm::Evm;
use std::cell::RefCell;
use std::sync::Arc;

#[derive(Default, Clone, Debug)]
struct Rec {
    frame: Option<(u8, u64, i64)>,      // class, remaining, refunded of the first frame's result
    after_last_frame: Option<(u64, u64, i64)>, // limit, remaining, refunded
    auth_refund: Option<i64>,
    after_refund: Option<(u64, u64, i64)>,
    final_gas: Option<(u64, u64, i64)>, // meter handed to reimburse_caller
}
thread_local! { static REC: RefCell<Rec> = RefCell::new(Rec::default()); }

fn recorder(h: &mut EvmHandler<'_, (), Db>) {
    let old = h.execution.last_frame_return.clone();
    h.execution.last_frame_return = Arc::new(move |ctx, res| {
        let r = res.interpreter_result().result;
        let class = if r.is_ok() { 0 } else if r.is_revert() { 1 } else { 2 };
        let g = *res.gas();
        REC.with(|x| x.borrow_mut().frame = Some((class, g.remaining(), g.refunded())));
        let out = old(ctx, res);
        let g = *res.gas();
        REC.with(|x| x.borrow_mut().after_last_frame = Some((g.limit(), g.remaining(), g.refunded())));
        out
    });
    let old_refund = Arc::new(std::mem::replace(&mut h.post_execution.refund, Box::new(|_, _, _| {})));
    h.post_execution.refund = Box::new(move |ctx, gas, r| {
        REC.with(|x| x.borrow_mut().auth_refund = Some(r));
        old_refund(ctx, gas, r);
        REC.with(|x| x.borrow_mut().after_refund = Some((gas.limit(), gas.remaining(), gas.refunded())));
    });
    let old_reimburse = Arc::new(std::mem::replace(&mut h.post_execution.reimburse_caller, Box::new(|_, _| Ok(()))));
    h.post_execution.reimburse_caller = Box::new(move |ctx, gas| {
        REC.with(|x| x.borrow_mut().final_gas = Some((gas.limit(), gas.remaining(), gas.refunded())));
        old_reimburse(ctx, gas)
    });
}

/// programs of the target contract. Storage slots 0..8 hold 1 so that SSTORE(i, 0) earns a refund.
fn clear_slots(n: u8) -> Vec<u8> { let mut c = vec![]; for i in 0..n { c.extend_from_slice(&[0x60, 0x00, 0x60, i, 0x55]); } c }
fn program(rng: &mut Rng) -> (Vec<u8>, &'static str) {
    match rng.below(12) {
        0 => (vec![0x00], "prog:stop"),
        1 => { let mut c = clear_slots(rng.range(1, 8) as u8); c.push(0x00); (c, "prog:clear-stop") }
        2 => { let mut c = clear_slots(rng.range(1, 8) as u8); c.extend_from_slice(&[0x60, 0x00, 0x60, 0x00, 0xfd]); (c, "prog:clear-revert") }
        3 => { let mut c = clear_slots(rng.range(1, 8) as u8); c.push(0xfe); (c, "prog:clear-invalid") }
        4 => (vec![0x5b, 0x60, 0x00, 0x56], "prog:loop-out-of-gas"),
        5 => (vec![0x60, 0x01, 0x60, 0x20, 0x55, 0x60, 0x02, 0x60, 0x21, 0x55, 0x00], "prog:set-slots"),
        6 => { let mut c = vec![0x60, 0x01, 0x60, 0x20, 0x55]; c.extend(clear_slots(rng.range(1, 4) as u8)); c.extend_from_slice(&[0x60, 0x00, 0x60, 0x20, 0x55, 0x00]); (c, "prog:set-clear-mixed") }
        7 => (vec![0x60, 0x00, 0x60, 0x00, 0xfd], "prog:revert"),
        8 => (vec![0xfe], "prog:invalid"),
        9 => { let mut c = clear_slots(8); c.extend(clear_slots(8)); c.push(0x00); (c, "prog:clear-twice") }
        10 => (vec![0x60, 0x00, 0x80, 0x80, 0x80, 0x80, 0x5a, 0xf1, 0x00], "prog:call-self-zero"),
        _ => (vec![], "prog:no-code"),
    }
}

fn snap(x: (u64, u64, i64)) -> String { format!("({},{},{})", zu(x.0), zu(x.1), zi(x.2)) }

pub fn run(o: &Opts) {
    let mut rng = Rng::new(o.seed ^ 0xC09);
    let mut w = CaseWriter::new(o, "C09", 300);
    let n = if o.thorough() { 30_000 } else { 3_000 };
    for _ in 0..n {
        let spec = if rng.chance(1, 2) { *rng.pick(&[9u8, 11, 12, 15, 16, 17, 18, 18, 18]) } else { rng.below(19) as u8 };
        let sid = spec_of(spec);
        let caller = addr(CALLER);
        let target = addr(TARGET);
        let mut tags: Vec<&'static str> = vec![];
        // ---- transaction
        let ty = { let mut v = vec![0u8, 0]; if spec >= 12 { v.push(2); v.push(2); } if spec >= 17 { v.push(3); } if spec >= 18 { v.push(4); v.push(4); } *rng.pick(&v) };
        let create = ty < 3 && rng.chance(1, 8);
        let (code, ptag) = program(&mut rng);
        tags.push(ptag);
        let data: Vec<u8> = if create {
            // initcode: optionally clear nothing; returns 1 byte of code or reverts / halts
            match rng.below(4) { 0 => vec![0x60, 0x00, 0x60, 0x00, 0xf3], 1 => vec![0x60, 0x01, 0x60, 0x00, 0x55, 0x60, 0x01, 0x60, 0x00, 0xf3], 2 => vec![0x60, 0x00, 0x60, 0x00, 0xfd], _ => vec![0xfe] }
        } else {
            match rng.below(6) { 0 | 1 => vec![], 2 => vec![0; rng.range(1, 64) as usize], 3 => (0..rng.range(1, 64)).map(|_| 0xffu8).collect(),
                4 => { tags.push("data:heavy"); (0..rng.range(500, 4000)).map(|_| if rng.chance(1, 6) { 0 } else { 0xab }).collect() }
                _ => (0..rng.range(1, 200)).map(|_| rng.next() as u8).collect() }
        };
        if create { tags.push("tx:create"); }
        let al: Vec<usize> = if spec >= 11 && ty != 0 && rng.chance(1, 3) { (0..rng.range(1, 3)).map(|_| rng.below(3) as usize).collect() } else { vec![] };
        // EIP-7702 authorizations: valid ones on existing (refund) or fresh accounts, or invalid
        let mut db = Db::new(EmptyDB::default());
        let mut auths: Vec<RecoveredAuthorization> = vec![];
        if ty == 4 {
            for i in 0..rng.range(1, 3) {
                let authority = addr(0x8000 + i);
                let kind = rng.below(4);
                let nonce = rng.below(3);
                if kind <= 1 { db.insert_account_info(authority, AccountInfo { balance: U256::from(5), nonce, code_hash: KECCAK_EMPTY, code: None }); }
                let a = Authorization { chain_id: U256::from(if rng.chance(1, 6) { 0 } else { 1 }), address: addr(0x9000 + i), nonce: if kind == 2 { 0 } else { nonce } };
                auths.push(RecoveredAuthorization::new_unchecked(a, if kind == 3 { RecoveredAuthority::Invalid } else { RecoveredAuthority::Valid(authority) }));
            }
            tags.push("tx:7702");
        }
        let g = revm::interpreter::gas::calculate_initial_tx_gas(sid, &data, create, &access_list(&al), auths.len() as u64);
        let need = g.initial_gas.max(g.floor_gas);
        let gas_limit = match rng.below(8) {
            0 => { tags.push("gas:exactly-needed"); need }
            1 => need + rng.below(3000),
            2 => need + rng.range(20_000, 60_000),
            3 => { tags.push("gas:intrinsic-only"); g.initial_gas.max(need) }
            _ => need + rng.range(60_000, 400_000),
        };
        // ---- prices
        let mut block = BlockEnv::default();
        block.coinbase = addr(COINBASE);
        block.basefee = match rng.below(5) { 0 => U256::ZERO, 1 => U256::from(rng.range(1, 100)), 2 => U256::from(rng.range(1_000_000_000, 50_000_000_000)), 3 => U256::from(rng.next() >> 8), _ => U256::from(7) };
        block.gas_limit = U256::from(gas_limit) + U256::from(rng.below(10_000_000));
        let blob_price: u128 = match rng.below(4) { 0 => 1, 1 => rng.range(2, 1000) as u128, 2 => rng.next() as u128, _ => 1 };
        block.blob_excess_gas_and_price = Some(BlobExcessGasAndPrice { excess_blob_gas: rng.below(1 << 24), blob_gasprice: blob_price });
        let bf = block.basefee;
        let (gas_price, prio) = if ty >= 2 {
            let max_fee = bf + match rng.below(4) { 0 => U256::ZERO, 1 => U256::from(1), 2 => U256::from(rng.range(0, 1_000_000_000)), _ => U256::from(rng.next() >> 16) };
            let prio = match rng.below(5) { 0 => U256::ZERO, 1 => max_fee, 2 => max_fee - bf, 3 => (max_fee - bf) / U256::from(2), _ => U256::from(rng.below(10)).min(max_fee) };
            (max_fee, Some(prio))
        } else {
            let p = if spec >= 12 { bf + match rng.below(3) { 0 => U256::ZERO, 1 => U256::from(rng.below(100)), _ => U256::from(rng.next() >> 16) } }
                    else { match rng.below(4) { 0 => U256::ZERO, 1 => U256::from(rng.below(100)), 2 => U256::from(rng.next() >> 8), _ => U256::from(1_000_000_000u64) } };
            (p, None)
        };
        let blobs: usize = if ty == 3 { rng.range(1, 6) as usize } else { 0 };
        let mfb = if ty == 3 { Some(U256::from(blob_price) + match rng.below(3) { 0 => U256::ZERO, 1 => U256::from(1), _ => U256::from(rng.next()) }) } else { None };
        if ty == 3 { tags.push("tx:blob"); }
        let value = if create || rng.chance(2, 3) { U256::ZERO } else { U256::from(rng.below(1_000_000)) };
        let mut tx = TxEnv::default();
        tx.caller = caller; tx.gas_limit = gas_limit; tx.gas_price = gas_price; tx.gas_priority_fee = prio;
        tx.transact_to = if create { TxKind::Create } else { TxKind::Call(target) };
        tx.value = value; tx.data = Bytes::from(data.clone()); tx.chain_id = Some(1);
        tx.access_list = access_list(&al);
        tx.blob_hashes = (0..blobs).map(|i| { let mut h = [0x22u8; 32]; h[0] = 1; h[31] = i as u8; B256::from(h) }).collect();
        tx.max_fee_per_blob_gas = mfb;
        if ty == 4 { tx.authorization_list = Some(AuthorizationList::Recovered(auths.clone())); }
        // ---- pre-state
        let max_cost = U256::from(gas_limit) * gas_price + value + mfb.unwrap_or_default() * U256::from(131072u64 * blobs as u64);
        let b0 = max_cost + match rng.below(4) { 0 => { tags.push("bal:exactly-max-cost"); U256::ZERO } 1 => U256::from(rng.below(1000)), 2 => U256::from(rng.next()), _ => U256::from(10u64).pow(U256::from(24)) };
        let nonce = rng.below(50);
        tx.nonce = Some(nonce);
        db.insert_account_info(caller, AccountInfo { balance: b0, nonce, code_hash: KECCAK_EMPTY, code: None });
        let c0 = match rng.below(4) { 0 => U256::ZERO, 1 => U256::from(rng.next()), 2 => { tags.push("coinbase:near-max"); U256::MAX - U256::from(rng.below(1_000_000)) } _ => U256::from(1) };
        if !c0.is_zero() { db.insert_account_info(addr(COINBASE), AccountInfo { balance: c0, nonce: 0, code_hash: KECCAK_EMPTY, code: None }); }
        if !code.is_empty() { db.insert_account_info(target, AccountInfo::from_bytecode(Bytecode::new_legacy(Bytes::from(code.clone())))); }
        for i in 0..8u64 { db.insert_account_storage(target, U256::from(i), U256::from(1)).unwrap(); }
        let mut cfg = CfgEnv::default();
        cfg.chain_id = 1;
        let env = Env { cfg: cfg.clone(), block: block.clone(), tx: tx.clone() };
        REC.with(|x| *x.borrow_mut() = Rec::default());
        let r = catch(|| {
            let mut evm = Evm::builder().with_db(db).with_spec_id(sid).with_env(Box::new(env)).append_handler_register(recorder).build();
            evm.transact()
        });
        let rec = REC.with(|x| x.borrow().clone());
        // ---- observation
        let (obs, cls_tag, human_res) = match &r {
            Ok(Ok(rs)) => {
                let (cls, used, refunded) = match &rs.result {
                    ExecutionResult::Success { gas_used, gas_refunded, .. } => (0u8, *gas_used, Some(*gas_refunded)),
                    ExecutionResult::Revert { gas_used, .. } => (1, *gas_used, None),
                    ExecutionResult::Halt { gas_used, .. } => (2, *gas_used, None),
                };
                let b3 = rs.state.get(&caller).map(|a| a.info.balance).unwrap_or(b0);
                let c1 = rs.state.get(&addr(COINBASE)).map(|a| a.info.balance).unwrap_or(c0);
                let (fc, frem, fref) = rec.frame.unwrap_or((9, 0, 0));
                // value reaches the target only when the first frame succeeds
                let delta_neg = if fc == 0 { value } else { U256::ZERO };
                let o = format!("(mkObs {} {} {} {} {} {} {} {} {} {} {} {})", cls, zu(used), zopt(refunded.map(zu)), zw(b3), zw(c1),
                    ["FOk", "FRevert", "FHalt", "FHalt"][fc.min(3) as usize], zu(frem), zi(fref), zi(rec.auth_refund.unwrap_or(0)),
                    snap(rec.after_last_frame.unwrap_or((0, 0, 0))), snap(rec.after_refund.unwrap_or((0, 0, 0))), snap(rec.final_gas.unwrap_or((0, 0, 0))));
                let o = format!("(Some ({}, {}))", o, zw(delta_neg));
                (o, ["class:success", "class:revert", "class:halt"][cls as usize], format!("{:?} used={} refunded={:?} rec={:?}", cls, used, refunded, rec))
            }
            Ok(Err(e)) => ("None".to_string(), "class:REJECTED", format!("rejected {:?}", e)),
            Err(p) => ("None".to_string(), "class:PANIC", format!("panic {}", p)),
        };
        tags.push(cls_tag);
        if rec.auth_refund.unwrap_or(0) > 0 { tags.push("auth-refund>0"); }
        if let (Some(a), Some(f)) = (rec.after_refund, rec.final_gas) { if a != f { tags.push("floor-step-applied"); } }
        if let Some((_, _, r)) = rec.final_gas { if r > 0 { tags.push("final-refund>0"); } }
        tags.push(["spec:FRONTIER..PETERSBURG", "spec:ISTANBUL..BERLIN", "spec:LONDON..SHANGHAI", "spec:CANCUN", "spec:PRAGUE"][if spec < 9 { 0 } else if spec < 12 { 1 } else if spec < 17 { 2 } else if spec == 17 { 3 } else { 4 }]);
        let case = format!("(mkCase {} (mkEnv {} {} {}) {} {} {} {} {})", spec, cfg_coq(&cfg), block_coq(&block), tx_coq(&tx), zu(g.initial_gas), zu(g.floor_gas), zw(b0), zw(c0), obs);
        let human = format!("spec={:?} ty={} create={} gas_limit={} initial={} floor={} gas_price={} prio={:?} basefee={} blobs={} blob_price={} value={} b0={} c0={} prog={} data_len={} => {}",
            sid, ty, create, gas_limit, g.initial_gas, g.floor_gas, gas_price, prio, bf, blobs, blob_price, value, b0, c0, ptag, data.len(), human_res);
        w.push(case, human, true, &tags);
    }
    w.finish("real Evm::transact (CacheDB) per case over all mainnet SpecIds: legacy/1559/blob/7702 transactions (calls to programs with SSTORE-clearing refunds, reverts, INVALID, out-of-gas loops, creates; exactly-needed gas limits; calldata-heavy inputs hitting the EIP-7623 floor; valid authorizations on existing accounts) with random gas price / base fee / priority fee / blob price, sender balance down to exactly the maximum cost, beneficiary balance up to 2^256; the frame result, the EIP-7702 refund and the meter at reimburse_caller are recorded by wrapping the public handles; distinct = distinct Coq terms");
}

#[allow(dead_code)]
fn _unused(_: Address) {}
