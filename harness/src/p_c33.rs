//! C33: Optimism fee pipeline. Real `Evm` transactions with the Optimism handler over a CacheDB
//! that holds the L1Block contract storage; regular / deposit / system transactions for every
//! Optimism spec; observed: outcome, gas used, balances of sender, recipient, coinbase and the
//! three fee vaults, sender nonce, and the frame result seen by `last_frame_return`.
#[cfg(not(feature = "optimism"))]
pub fn run(_o: &crate::util::Opts) {
    eprintln!("driver c33 needs the harness built with --features optimism (props.py: 'features': ['optimism'], 'variant': 'op')");
    std::process::exit(3);
}

#[cfg(feature = "optimism")]
pub use imp::run;

#[cfg(feature = "optimism")]
mod imp {
    use crate::util::*;
    use revm::db::{CacheDB, EmptyDB};
    use revm::handler::register::EvmHandler;
    use revm::interpreter::gas::calculate_initial_tx_gas;
    use revm::interpreter::SuccessOrHalt;
    use revm::optimism::{L1BlockInfo, BASE_FEE_RECIPIENT, L1_BLOCK_CONTRACT, L1_FEE_RECIPIENT, OPERATOR_FEE_RECIPIENT};
    use revm::primitives::{
        address, AccountInfo, Address, BlobExcessGasAndPrice, Bytecode, Bytes, EVMError, ExecutionResult, HaltReason,
        HandlerCfg, InvalidTransaction, OptimismInvalidTransaction, SpecId, TxKind, B256, U256,
    };
    use revm::{Database, DatabaseCommit, Evm};
    use std::sync::Arc;

    const SENDER: Address = address!("1000000000000000000000000000000000000001");
    const RCPT: Address = address!("2000000000000000000000000000000000000002");
    const COINBASE: Address = address!("3000000000000000000000000000000000000003");
    const WARM: Address = address!("4000000000000000000000000000000000000004");

    #[derive(Default, Clone, Debug)]
    struct Rec { seen: bool, fclass: u8, rclass: u8, rem: u64, refunded: i64 }

    /// Appended after the Optimism register: records the top-level frame result, then runs the
    /// Optimism `last_frame_return` unchanged.
    fn capture<DB: Database>(h: &mut EvmHandler<'_, Rec, DB>) {
        let old = h.execution.last_frame_return.clone();
        h.execution.last_frame_return = Arc::new(move |ctx, fr| {
            let ir = fr.interpreter_result().result;
            let g = *fr.gas();
            ctx.external.seen = true;
            ctx.external.fclass = if ir.is_ok() { 0 } else if ir.is_revert() { 1 } else { 2 };
            ctx.external.rclass = match SuccessOrHalt::from(ir) { SuccessOrHalt::Success(_) => 0, SuccessOrHalt::Revert => 1, SuccessOrHalt::Halt(_) => 2, _ => 9 };
            ctx.external.rem = g.remaining();
            ctx.external.refunded = g.refunded();
            old(ctx, fr)
        });
    }

    const SPECS: [(SpecId, u8, &str); 8] = [
        (SpecId::BEDROCK, 16, "BEDROCK"), (SpecId::REGOLITH, 17, "REGOLITH"), (SpecId::CANYON, 19, "CANYON"), (SpecId::ECOTONE, 21, "ECOTONE"),
        (SpecId::FJORD, 22, "FJORD"), (SpecId::GRANITE, 23, "GRANITE"), (SpecId::HOLOCENE, 24, "HOLOCENE"), (SpecId::ISTHMUS, 27, "ISTHMUS"),
    ];

    fn word_with(bytes: &[(usize, &[u8])], rng: &mut Rng, noise: bool) -> U256 {
        let mut w = [0u8; 32];
        if noise { for b in w.iter_mut().take(16) { *b = 0; } for i in 24..32 { w[i] = rng.next() as u8; } }
        for (off, bs) in bytes { w[*off..*off + bs.len()].copy_from_slice(bs); }
        U256::from_be_bytes(w)
    }

    fn fee_word(rng: &mut Rng) -> U256 {
        match rng.below(10) {
            0 => U256::ZERO,
            1 => U256::from(1u64),
            2 | 3 | 4 => U256::from(rng.range(1_000_000, 200_000_000_000)),
            5 | 6 => U256::from(rng.range(1, 100_000)),
            7 => U256::from(rng.next()),
            8 => U256::from(rng.next()) << 64,
            _ => rng.u256b(),
        }
    }
    fn u32b(rng: &mut Rng) -> u32 {
        match rng.below(8) { 0 => 0, 1 => 1, 2 => u32::MAX, 3 => 1_000_000, 4 => 999_999, 5 => rng.below(5000) as u32, _ => rng.next() as u32 }
    }
    fn balance_small(rng: &mut Rng) -> U256 {
        match rng.below(8) { 0 | 1 | 2 => U256::ZERO, 3 => U256::from(1u64), 4 | 5 => U256::from(rng.next()), 6 => U256::from(rng.next()) << 60, _ => U256::from(rng.below(1000)) }
    }

    /// (code, storage slots preset to non-zero, name)
    fn program(rng: &mut Rng) -> (Vec<u8>, u64, &'static str) {
        match rng.below(14) {
            0 | 1 => (vec![], 0, "eoa"),
            2 => (vec![0x00], 0, "stop"),
            3 => (vec![0x60, 0x00, 0x60, 0x00, 0xfd], 0, "revert"),
            4 => (vec![0xfe], 0, "invalid"),
            5 | 6 => { let k = rng.range(1, 3); let mut c = vec![]; for i in 0..k { c.extend_from_slice(&[0x60, 0x00, 0x60, i as u8, 0x55]); } c.push(0x00); (c, k, "sstore-clear") }
            7 => { let k = rng.range(4, 40); let mut c = vec![]; for i in 0..k { c.extend_from_slice(&[0x60, 0x00, 0x60, i as u8, 0x55]); } c.push(0x00); (c, k, "sstore-clear-many") }
            8 => { let k = rng.range(1, 4); let mut c = vec![]; for i in 0..k { c.extend_from_slice(&[0x60, 0x01, 0x60, 0x80 + i as u8, 0x55]); } c.push(0x00); (c, 0, "sstore-set") }
            9 => { let thr = rng.range(100, 60_000) as u16; (vec![0x5b, 0x61, (thr >> 8) as u8, thr as u8, 0x5a, 0x10, 0x60, 0x0c, 0x57, 0x60, 0x00, 0x56, 0x5b, 0x00], 0, "burn-until") }
            10 => (vec![0x5b, 0x60, 0x00, 0x56], 0, "oog-loop"),
            11 => (vec![0x01], 0, "stack-underflow"),
            12 => { let k = rng.range(1, 3); let mut c = vec![]; for i in 0..k { c.extend_from_slice(&[0x60, 0x00, 0x60, i as u8, 0x55]); } c.extend_from_slice(&[0x60, 0x00, 0x60, 0x00, 0xfd]); (c, k, "sstore-clear-revert") }
            _ => (vec![0x60, 0x20, 0x60, 0x00, 0xf3], 0, "return32"),
        }
    }
    fn initcode(rng: &mut Rng) -> (Vec<u8>, &'static str) {
        match rng.below(6) {
            0 => (vec![], "create-empty"),
            1 => (vec![0x60, 0x00, 0x60, 0x00, 0xf3], "create-return0"),
            2 => (vec![0x60, 0x01, 0x60, 0x00, 0xf3], "create-return1"),
            3 => (vec![0x60, 0x00, 0x60, 0x00, 0xfd], "create-revert"),
            4 => (vec![0xfe], "create-invalid"),
            _ => (vec![0x60, 0x01, 0x60, 0x02, 0x55, 0x60, 0x00, 0x60, 0x00, 0xf3], "create-sstore"),
        }
    }
    fn envelope(rng: &mut Rng) -> (Option<Vec<u8>>, &'static str) {
        let len = match rng.below(8) { 0 => 1, 1 => rng.range(2, 40) as usize, 2 | 3 => rng.range(60, 300) as usize, 4 => rng.range(300, 2000) as usize, 5 => rng.range(2000, 9000) as usize, 6 => 100, _ => rng.range(90, 130) as usize };
        match rng.below(12) {
            0 => (Some(vec![]), "env:empty"),
            1 => { let mut v = rng.bytes(len); v[0] = 0x7f; (Some(v), "env:0x7f-prefix") }
            2 => (Some(vec![0u8; len]), "env:zeros"),
            3 => { let pl = rng.range(1, 8) as usize; let pat = rng.bytes(pl); (Some((0..len).map(|i| pat[i % pat.len()]).collect()), "env:periodic") }
            4 | 5 => { let mut v = rng.bytes(len); for b in v.iter_mut() { if rng.chance(1, 2) { *b = 0; } } if v[0] == 0x7f { v[0] = 0x02; } (Some(v), "env:half-zero") }
            6 => (None, "env:none"),
            _ => { let mut v = rng.bytes(len); if v[0] == 0x7f { v[0] = 0x02; } (Some(v), "env:random") }
        }
    }

    fn err_code(e: &EVMError<std::convert::Infallible>) -> u64 {
        match e {
            EVMError::Transaction(t) => match t {
                InvalidTransaction::OptimismError(OptimismInvalidTransaction::DepositSystemTxPostRegolith) => 20,
                InvalidTransaction::PriorityFeeGreaterThanMaxFee => 21,
                InvalidTransaction::GasPriceLessThanBasefee => 22,
                InvalidTransaction::CallGasCostMoreThanGasLimit => 23,
                InvalidTransaction::GasFloorMoreThanGasLimit => 24,
                InvalidTransaction::OverflowPaymentInTransaction => 25,
                InvalidTransaction::LackOfFundForMaxFee { .. } => 26,
                _ => 90,
            },
            EVMError::Custom(_) => 27,
            EVMError::Header(_) => 91,
            _ => 92,
        }
    }

    pub fn run(o: &Opts) {
        let mut rng = Rng::new(o.seed ^ 0xC33);
        let mut w = CaseWriter::new(o, "C33", 150);
        let n = if o.thorough() { 24_000 } else { 2_400 };
        for i in 0..n {
            let (spec, spec_n, spec_name) = SPECS[(i % 8) as usize];
            let isthmus = spec_n >= 27;
            // ---------------- L1 block contract storage
            let mut db = CacheDB::new(EmptyDB::default());
            db.insert_account_info(L1_BLOCK_CONTRACT, AccountInfo { nonce: 1, ..Default::default() });
            let l1_base_fee = fee_word(&mut rng);
            let empty_scalars = rng.chance(1, 10);
            let (bs, blobs) = if empty_scalars { (0u32, 0u32) } else { (u32b(&mut rng), u32b(&mut rng)) };
            let blob_base_fee = if empty_scalars && rng.chance(3, 4) { U256::ZERO } else { fee_word(&mut rng) };
            let op_scalar = if rng.chance(1, 6) { 0 } else { u32b(&mut rng) };
            let op_const: u64 = match rng.below(6) { 0 => 0, 1 => u64::MAX, 2 => rng.next(), _ => rng.below(10_000_000) };
            let slots: [(u64, U256); 6] = [
                (1, l1_base_fee),
                (5, if rng.chance(1, 8) { rng.u256b() } else { U256::from(rng.below(5000)) }),
                (6, if rng.chance(1, 8) { rng.u256b() } else { U256::from(rng.below(2_000_000)) }),
                (3, word_with(&[(16, &bs.to_be_bytes()), (20, &blobs.to_be_bytes())], &mut rng, true)),
                (7, blob_base_fee),
                (8, { let mut w8 = [0u8; 32]; for b in w8.iter_mut().take(20) { *b = if rng.chance(1, 4) { rng.next() as u8 } else { 0 }; } w8[20..24].copy_from_slice(&op_scalar.to_be_bytes()); w8[24..32].copy_from_slice(&op_const.to_be_bytes()); U256::from_be_bytes(w8) }),
            ];
            for (s, v) in slots.iter() { db.insert_account_storage(L1_BLOCK_CONTRACT, U256::from(*s), *v).unwrap(); }

            // ---------------- transaction kind
            let kind = match rng.below(20) { 0..=10 => 0, 11..=16 => 1, 17 | 18 => 2, _ => 3 }; // regular, deposit, system deposit, regular+system flag
            let is_deposit = kind == 1 || kind == 2;
            let is_system: Option<bool> = match kind { 2 | 3 => Some(true), _ => if rng.chance(1, 2) { None } else { Some(false) } };
            let mint: Option<u128> = if is_deposit {
                match rng.below(6) { 0 => None, 1 => Some(0), 2 => Some(u128::MAX), 3 => Some(rng.next() as u128), _ => Some((rng.next() as u128) << rng.below(60)) }
            } else if rng.chance(1, 40) { Some(rng.below(1_000_000) as u128) } else { None };
            let is_call = !rng.chance(1, 6);
            let (env_bytes, env_tag) = envelope(&mut rng);
            let data: Vec<u8> = if !is_call { vec![] } else {
                let len = match rng.below(6) { 0 | 1 => 0, 2 => rng.range(1, 64) as usize, 3 => rng.range(64, 600) as usize, 4 => rng.range(600, 3000) as usize, _ => 4 };
                let mut d = rng.bytes(len); if rng.chance(1, 3) { for b in d.iter_mut() { if rng.chance(2, 3) { *b = 0; } } } d
            };
            let (code, preset, prog) = if is_call { program(&mut rng) } else { (vec![], 0, "") };
            let (init, init_name) = if is_call { (vec![], "") } else { initcode(&mut rng) };
            let tx_data: Vec<u8> = if is_call { data.clone() } else { init.clone() };
            let ifg = calculate_initial_tx_gas(spec, &tx_data, !is_call, &[], 0);
            let intrinsic = ifg.initial_gas;
            let floor = ifg.floor_gas;
            let need = intrinsic.max(floor);
            let gas_limit: u64 = match rng.below(20) {
                0 => need, 1 => need + rng.below(30), 2 => need.saturating_sub(1 + rng.below(2000)), 3 => intrinsic.max(1) - 1 + rng.below(2),
                4 | 5 | 6 => need + rng.range(100, 30_000), 7 | 8 | 9 | 10 => need + rng.range(30_000, 400_000), 11 | 12 => 1_000_000 + rng.below(2_000_000),
                13 => need + 2300 + rng.below(5000), 14 => 30_000_000, 15 => if rng.chance(1, 4) { rng.u64b().max(need) } else { need + rng.below(100_000) },
                _ => need + rng.range(20_000, 150_000),
            };
            // deposits below their intrinsic gas are the recorded finding F-C33-1: keep a handful per run
            let gas_limit = if is_deposit && gas_limit < need && !rng.chance(1, 8) { need + rng.below(50_000) } else { gas_limit };
            // the looping programs run until the gas is gone: keep their gas bounded
            let gas_limit = if (prog == "burn-until" || prog == "oog-loop") && gas_limit > need + 3_000_000 { need + 1_000_000 + rng.below(2_000_000) } else { gas_limit };
            // ---------------- prices
            let basefee: U256 = match rng.below(10) { 0 => U256::ZERO, 1 => U256::from(1u64), 2 | 3 | 4 | 5 => U256::from(rng.range(1, 300_000_000_000)), 6 => U256::from(rng.below(1000)), 7 => U256::from(rng.next()), 8 => if rng.chance(1, 3) { rng.u256b() } else { U256::from(7u64) }, _ => U256::from(rng.range(1_000_000, 50_000_000)) };
            let tip: U256 = match rng.below(8) { 0 => U256::ZERO, 1 => U256::from(1u64), 2 | 3 | 4 => U256::from(rng.range(1, 5_000_000_000)), 5 => U256::from(rng.next()), 6 => if rng.chance(1, 4) { rng.u256b() } else { U256::from(3u64) }, _ => U256::from(rng.below(100)) };
            let (gas_price, priority): (U256, Option<U256>) = if is_deposit {
                if rng.chance(4, 5) { (U256::ZERO, None) } else { (U256::from(rng.range(1, 2_000_000_000)), if rng.chance(1, 3) { Some(U256::from(rng.below(1_000_000))) } else { None }) }
            } else {
                match rng.below(12) {
                    0 | 1 | 2 => (basefee.saturating_add(tip), None),
                    3 | 4 | 5 => (basefee.saturating_add(tip).saturating_add(U256::from(rng.below(1_000_000_000))), Some(tip)),
                    6 => (basefee.saturating_add(tip), Some(tip)),
                    7 => (basefee, Some(U256::ZERO)),
                    8 => (basefee, None),
                    9 => (basefee.saturating_sub(U256::from(1 + rng.below(3))), if rng.chance(1, 2) { None } else { Some(U256::ZERO) }), // below base fee
                    10 => (tip, Some(tip.saturating_add(U256::from(rng.below(2))))), // priority >= max fee
                    _ => (basefee.saturating_add(tip), Some(tip.saturating_add(U256::from(rng.below(1_000_000))).min(basefee.saturating_add(tip)))),
                }
            };
            let value: U256 = match rng.below(8) { 0 | 1 => U256::ZERO, 2 => U256::from(1u64), 3 | 4 => U256::from(rng.next()), 5 => U256::from(rng.next()) << 40, 6 => if rng.chance(1, 4) { rng.u256b() } else { U256::from(1_000_000_000_000_000_000u64) }, _ => U256::from(rng.below(100_000)) };

            // ---------------- L1 cost and operator parameters as the handler will see them
            let mut dbq = db.clone();
            let mut info = L1BlockInfo::try_fetch(&mut dbq, spec).unwrap();
            let l1: U256 = match &env_bytes { Some(b) => info.calculate_tx_l1_cost(b, spec), None => U256::ZERO };
            let f_scalar = info.operator_fee_scalar.unwrap_or_default();
            let f_const = info.operator_fee_constant.unwrap_or_default();
            let opc = if isthmus { info.operator_fee_charge(U256::from(gas_limit), spec) } else { U256::ZERO };

            // ---------------- accounts
            let nonce0: u64 = match rng.below(8) { 0 => 0, 1 => if is_call { u64::MAX } else { u64::MAX - 1 }, 2 => if is_call { u64::MAX - 1 } else { 7 }, 3 => rng.next() >> 1, _ => rng.below(1000) };
            let needed = U256::from(gas_limit).checked_mul(gas_price).and_then(|x| x.checked_add(value)).and_then(|x| x.checked_add(l1)).and_then(|x| x.checked_add(opc));
            let bal_mode = rng.below(20);
            let b_sender: U256 = if is_deposit {
                match rng.below(6) { 0 => U256::ZERO, 1 => value, 2 => value.saturating_sub(U256::from(1u64)), 3 => U256::from(rng.next()), 4 => value.saturating_add(U256::from(gas_limit).saturating_mul(gas_price)), _ => U256::from(rng.next()) << 64 }
            } else {
                match (needed, bal_mode) {
                    (Some(nd), 0..=6) => nd,
                    (Some(nd), 7..=10) => nd.saturating_add(U256::from(rng.below(1_000_000))),
                    (Some(nd), 11 | 12) => nd.saturating_sub(U256::from(1 + rng.below(3))),
                    (Some(nd), 13..=16) => nd.saturating_add(U256::from(rng.next()) << rng.below(64) as usize),
                    (Some(nd), 17) => nd.saturating_add(U256::from(1u64) << 200),
                    (_, 18) => rng.u256b(),
                    _ => U256::MAX >> rng.below(3) as usize,
                }
            };
            let rcpt_addr = if is_call { RCPT } else { SENDER.create(nonce0) };
            let wild = rng.chance(1, 40);
            let b_rcpt = if !is_call { if rng.chance(1, 4) { U256::from(rng.below(1000)) } else { U256::ZERO } } else if wild { rng.u256b() } else { balance_small(&mut rng) };
            let b_cb = if wild && rng.chance(1, 2) { rng.u256b() } else { balance_small(&mut rng) };
            let b_l1v = if wild && rng.chance(1, 2) { rng.u256b() } else { balance_small(&mut rng) };
            let b_basev = if wild && rng.chance(1, 2) { rng.u256b() } else { balance_small(&mut rng) };
            let b_opv = if wild && rng.chance(1, 2) { rng.u256b() } else { balance_small(&mut rng) };
            db.insert_account_info(SENDER, AccountInfo { balance: b_sender, nonce: nonce0, ..Default::default() });
            if is_call {
                db.insert_account_info(RCPT, AccountInfo { balance: b_rcpt, nonce: if code.is_empty() { 0 } else { 1 }, code_hash: revm::primitives::keccak256(&code), code: Some(Bytecode::new_raw(Bytes::from(code.clone()))) });
                for s in 0..preset { db.insert_account_storage(RCPT, U256::from(s), U256::from(1 + rng.below(1000))).unwrap(); }
            } else if !b_rcpt.is_zero() {
                db.insert_account_info(rcpt_addr, AccountInfo { balance: b_rcpt, ..Default::default() });
            }
            for (a, b) in [(COINBASE, b_cb), (L1_FEE_RECIPIENT, b_l1v), (BASE_FEE_RECIPIENT, b_basev), (OPERATOR_FEE_RECIPIENT, b_opv)] {
                if !b.is_zero() { db.insert_account_info(a, AccountInfo { balance: b, ..Default::default() }); }
            }

            // ---------------- run the real Evm
            let source_hash = if is_deposit { Some(B256::from(U256::from(rng.next()))) } else { None };
            let via_cfg = rng.chance(1, 2);
            let warmup = rng.chance(1, 4);
            let warm_env: Vec<u8> = { let n = rng.range(1, 400) as usize; let mut v = rng.bytes(n); if v[0] == 0x7f { v[0] = 1; } v };
            db.insert_account_info(WARM, AccountInfo { balance: U256::MAX >> 1, ..Default::default() });
            let env_opt = env_bytes.clone();
            let txd = tx_data.clone();
            let r = catch(move || {
                let b = Evm::builder().with_db(db).with_external_context(Rec::default());
                let b = if via_cfg { b.with_handler_cfg(HandlerCfg::new_with_optimism(spec, true)) } else { b.with_spec_id(spec).optimism() };
                let mut evm = b
                    .append_handler_register(capture)
                    .modify_block_env(|blk| {
                        blk.coinbase = COINBASE;
                        blk.basefee = basefee;
                        blk.prevrandao = Some(B256::ZERO);
                        blk.blob_excess_gas_and_price = Some(BlobExcessGasAndPrice::new(0, spec_n >= 25));
                    })
                    .modify_tx_env(|tx| {
                        tx.caller = SENDER;
                        tx.gas_limit = gas_limit;
                        tx.gas_price = gas_price;
                        tx.gas_priority_fee = priority;
                        tx.transact_to = if is_call { TxKind::Call(RCPT) } else { TxKind::Create };
                        tx.value = value;
                        tx.data = Bytes::from(txd);
                        tx.nonce = None;
                        tx.chain_id = None;
                        tx.optimism.source_hash = source_hash;
                        tx.optimism.mint = mint;
                        tx.optimism.is_system_transaction = is_system;
                        tx.optimism.enveloped_tx = env_opt.map(Bytes::from);
                    })
                    .build();
                assert!(evm.handler.cfg.is_optimism && evm.handler.cfg.spec_id == spec);
                if warmup {
                    // instance reuse: an unrelated transaction with another envelope runs first on the same Evm and is
                    // not committed; a stale L1BlockInfo / tx_l1_cost cache would show up in the observed L1 fee
                    let real_tx = evm.context.evm.env.tx.clone();
                    {
                        let tx = &mut evm.context.evm.env.tx;
                        tx.caller = WARM;
                        tx.gas_limit = 60_000;
                        tx.gas_price = basefee;
                        tx.gas_priority_fee = None;
                        tx.transact_to = TxKind::Call(address!("5000000000000000000000000000000000000005"));
                        tx.value = U256::ZERO;
                        tx.data = Bytes::new();
                        tx.optimism.source_hash = None;
                        tx.optimism.mint = None;
                        tx.optimism.is_system_transaction = None;
                        tx.optimism.enveloped_tx = Some(Bytes::from(warm_env));
                    }
                    let _ = evm.transact();
                    evm.context.evm.env.tx = real_tx;
                    evm.context.external = Rec::default();
                }
                let res = evm.transact();
                let rec = evm.context.external.clone();
                let out = match res {
                    Ok(rs) => {
                        let (class, gu, gr) = match &rs.result {
                            ExecutionResult::Success { gas_used, gas_refunded, .. } => (0u64, *gas_used, *gas_refunded),
                            ExecutionResult::Revert { gas_used, .. } => (1, *gas_used, 0),
                            ExecutionResult::Halt { reason: HaltReason::FailedDeposit, gas_used } => (3, *gas_used, 0),
                            ExecutionResult::Halt { gas_used, .. } => (2, *gas_used, 0),
                        };
                        evm.context.evm.db.commit(rs.state);
                        Ok((class, gu, gr))
                    }
                    Err(e) => Err(err_code(&e)),
                };
                let db = &mut evm.context.evm.db;
                let bal = |db: &mut CacheDB<EmptyDB>, a: Address| db.basic(a).unwrap().map(|x| x.balance).unwrap_or_default();
                let fin = [bal(db, SENDER), bal(db, rcpt_addr), bal(db, COINBASE), bal(db, L1_FEE_RECIPIENT), bal(db, BASE_FEE_RECIPIENT), bal(db, OPERATOR_FEE_RECIPIENT)];
                let nonce1 = db.basic(SENDER).unwrap().map(|x| x.nonce).unwrap_or_default();
                (out, rec, fin, nonce1)
            });

            // ---------------- case record
            let tx_coq = format!(
                "(mkTx {} {} {} {} {} {} {} {} {} {} {} {} {} {} {} {})",
                spec_n, zb(is_deposit), zopt(mint.map(zu128)), zb(is_system.unwrap_or(false)), zb(env_bytes.is_some()), zb(is_call),
                zu(gas_limit), zw(gas_price), zopt(priority.map(zw)), zw(basefee), zw(value), zw(l1), zw(f_scalar), zw(f_const), zu(intrinsic), zu(floor));
            let st0 = format!("(mkSt {} {} {} {} {} {} {})", zw(b_sender), zw(b_rcpt), zw(b_cb), zw(b_l1v), zw(b_basev), zw(b_opv), zu(nonce0));
            let (f_coq, obs, outcome_tag, executed): (String, String, String, bool) = match &r {
                Ok((out, rec, fin, nonce1)) => {
                    let f = format!("(mkFres {} {} {} {})", rec.fclass, rec.rclass, zu(rec.rem), zi(rec.refunded));
                    match out {
                        Ok((class, gu, gr)) => {
                            // teeth hook (never set in a check): VERIF_C33_PERTURB=1 misreports one wei on the sender
                            let mut fin = *fin;
                            if std::env::var("VERIF_C33_PERTURB").is_ok() && i % 5 == 0 { fin[0] = fin[0].wrapping_add(U256::from(1u64)); }
                            let st1 = format!("(mkSt {} {} {} {} {} {} {})", zw(fin[0]), zw(fin[1]), zw(fin[2]), zw(fin[3]), zw(fin[4]), zw(fin[5]), zu(*nonce1));
                            (f, format!("(Executed {} {} {} {})", class, zu(*gu), zu(*gr), st1),
                             ["success", "revert", "halt", "failed-deposit"][*class as usize].to_string(), rec.seen)
                        }
                        Err(code) => (f, format!("(Invalid {})", code), format!("invalid-{}", code), false),
                    }
                }
                Err(_) => ("(mkFres 0 0 0 0)".to_string(), "Panic".to_string(), "panic".to_string(), false),
            };
            // second model (Model/L1Cost.v): slot words + byte statistics of the envelope; the Fjord size
            // estimate is read off the implementation with a probe L1BlockInfo whose fee factor is 10^12
            let slots_coq = format!("(mkSlots {} {} {} {} {} {})", zw(slots[0].1), zw(slots[1].1), zw(slots[2].1), zw(slots[3].1), zw(slots[4].1), zw(slots[5].1));
            let env_coq = match &env_bytes {
                None => "None".to_string(),
                Some(b) => {
                    let zeros = b.iter().filter(|x| **x == 0).count() as u64;
                    let mut probe = L1BlockInfo::default();
                    probe.l1_base_fee = U256::from(62_500_000_000u64);
                    probe.l1_base_fee_scalar = U256::from(1u64);
                    probe.l1_blob_base_fee = Some(U256::ZERO);
                    probe.l1_blob_base_fee_scalar = Some(U256::ZERO);
                    let est = probe.calculate_tx_l1_cost(b, SpecId::FJORD);
                    format!("(Some (mkEnv {} {} {} {}))", zb(b.is_empty() || b[0] == 0x7f), zu(zeros), zu(b.len() as u64 - zeros), zw(est))
                }
            };
            let case = format!("(mkCase {} {} {} {} {} {})", tx_coq, f_coq, st0, obs, slots_coq, env_coq);
            let kind_name = ["regular", "deposit", "system-deposit", "regular-with-system-flag"][kind as usize];
            let human = format!(
                "spec={} kind={} mint={:?} system={:?} {} call={} prog={}{} datalen={} gas_limit={} intrinsic={} floor={} gas_price={} priority={:?} basefee={} value={} l1_cost={} op_scalar={} op_const={} envelope_len={:?} l1block_slots={:?} sender_balance={} nonce={} balances(rcpt,coinbase,l1vault,basevault,opvault)=({},{},{},{},{}) via={} -> {}",
                spec_name, kind_name, mint, is_system, env_tag, is_call, prog, init_name, tx_data.len(), gas_limit, intrinsic, floor, gas_price, priority, basefee, value, l1,
                f_scalar, f_const, env_bytes.as_ref().map(|b| b.len()), slots.iter().map(|(s, v)| format!("{}:{:#x}", s, v)).collect::<Vec<_>>(), b_sender, nonce0, b_rcpt, b_cb, b_l1v, b_basev, b_opv,
                if via_cfg { if warmup { "HandlerCfg+reused" } else { "HandlerCfg" } } else if warmup { "builder.optimism()+reused" } else { "builder.optimism()" }, obs);
            let spec_tag = format!("spec:{}", spec_name);
            let kind_tag = format!("kind:{}", kind_name);
            let out_tag = format!("outcome:{}", outcome_tag);
            let prog_tag = format!("prog:{}{}", prog, init_name);
            let mut tags: Vec<&str> = vec![&spec_tag, &kind_tag, &out_tag, env_tag, &prog_tag];
            if !is_deposit && mint.is_some() { tags.push("out-of-domain:regular-with-mint"); }
            if is_deposit && !gas_price.is_zero() { tags.push("out-of-domain:deposit-with-gas-price"); }
            if isthmus && !is_deposit && executed && op_scalar != 0 { tags.push("isthmus-operator-fee-nonzero"); }
            if executed && floor > 0 { tags.push("prague-floor-present"); }
            if !l1.is_zero() && executed && !is_deposit { tags.push("l1-cost-nonzero"); }
            if warmup { tags.push("evm-reused-after-other-tx"); }
            w.push(case, human, executed, &tags);
        }
        w.finish("one real Evm transaction per case (Optimism handler via builder.optimism() or HandlerCfg{is_optimism}) for BEDROCK..ISTHMUS over a CacheDB holding the L1Block contract slots 1,3,5,6,7,8; kinds regular/deposit/system-deposit, calls into 13 programs (eoa, stop, revert, invalid, sstore clear/set, gas burning, oog, underflow) and creates; envelopes empty/0x7f/zeros/periodic/random of 1..9000 bytes or absent; boundary-biased prices, base fees, values, mints, balances (sender balance mostly exactly / just above / just below the validated maximum cost); non-trivial = the transaction reached execution (last_frame_return was called); distinct = distinct case terms");
    }
}
