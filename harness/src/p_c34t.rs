//! C34, second stream (`c34t`): whole transactions on a real `Evm` over BERLIN..PRAGUE. "Access probe"
//! contracts dense in BALANCE / EXTCODESIZE / EXTCODEHASH / EXTCODECOPY(0) / SLOAD (fixed prices: 100 warm,
//! 2600 cold account, 2100 cold slot) and zero-value, memory-free CALL / CALLCODE / DELEGATECALL / STATICCALL
//! (access charge = step gas - forwarded gas), plus SSTORE / CREATE / CREATE2 / SELFDESTRUCT as access-causing
//! operations, over a small universe of addresses and slots, with nested frames that succeed / revert / halt,
//! access lists, coinbase aliasing, EIP-7702 authorization lists (recovered and signed) and pre-delegated
//! accounts. A recording inspector logs the accesses and the gas charged by each probe step; the case is
//! judged by the accessed-set specification (coq/Spec/TxWarmSpec.v, coq/Spec/AccessTrace.v, coq/Corr/C34t.v).
use crate::progs::{self, addr, op::*, Asm, CALLER_ADDR, COINBASE, CONTRACT_BASE};
use crate::util::*;
use revm::db::{CacheDB, EmptyDB};
use revm::interpreter::{CallInputs, CallOutcome, CreateInputs, CreateOutcome, InstructionResult, Interpreter};
use revm::primitives::{
    keccak256, AccessListItem, Address, Authorization, AuthorizationList, BlockEnv, Bytecode, RecoveredAuthority, RecoveredAuthorization,
    SignedAuthorization, SpecId, TxEnv, TxKind, B256, U256,
};
use revm::{inspector_handle_register, Database, Evm, EvmContext, Inspector};
use std::collections::{BTreeMap, BTreeSet};

// ---------------------------------------------------------------------------------------------- trace
#[derive(Clone, Debug)]
pub enum Ev {
    Acct { op: u8, a: Address, gas: u64, charged: u64, res: u8 },
    Sload { a: Address, k: U256, gas: u64, charged: u64, res: u8 },
    Call { op: u8, a: Address, checked: bool, charged: u64 },
    Sd { me: Address, t: Address },
    Sstore { a: Address, k: U256, v: U256 },
    Open,
    Create { a: Address, reached: bool },
    Close { ok: bool },
}
fn za(a: Address) -> String { zw(U256::from_be_slice(a.as_slice())) }
fn sa(a: Address) -> String { format!("{:x}", U256::from_be_slice(a.as_slice())) }
impl Ev {
    fn coq(&self) -> String {
        match self {
            Ev::Acct { op, a, gas, charged, res } => format!("TAcct {} {} {} {} {}", op, za(*a), gas, charged, res),
            Ev::Sload { a, k, gas, charged, res } => format!("TSload {} {} {} {} {}", za(*a), zw(*k), gas, charged, res),
            Ev::Call { op, a, checked, charged } => format!("TCall {} {} {} {}", op, za(*a), zb(*checked), charged),
            Ev::Sd { me, t } => format!("TSelfdestruct {} {}", za(*me), za(*t)),
            Ev::Sstore { a, k, v } => format!("TSstore {} {} {}", za(*a), zw(*k), zw(*v)),
            Ev::Open => "TOpen".into(),
            Ev::Create { a, reached } => format!("TCreate {} {}", za(*a), zb(*reached)),
            Ev::Close { ok } => format!("TClose {}", zb(*ok)),
        }
    }
    fn short(&self) -> String {
        let opn = |o: u8| match o { BALANCE => "BALANCE", EXTCODESIZE => "EXTCODESIZE", EXTCODEHASH => "EXTCODEHASH", EXTCODECOPY => "EXTCODECOPY",
            CALL => "CALL", CALLCODE => "CALLCODE", DELEGATECALL => "DELEGATECALL", STATICCALL => "STATICCALL", _ => "?" };
        match self {
            Ev::Acct { op, a, gas, charged, res } => match res { 0 => format!("{}({})={}", opn(*op), sa(*a), charged), 1 => format!("{}({})=OOG@{}", opn(*op), sa(*a), gas), _ => format!("{}({})", opn(*op), sa(*a)) },
            Ev::Sload { a, k, gas, charged, res } => if *res == 0 { format!("SLOAD({},{:x})={}", sa(*a), k, charged) } else { format!("SLOAD({},{:x})=OOG@{}", sa(*a), k, gas) },
            Ev::Call { op, a, checked, charged } => if *checked { format!("{}({})={}", opn(*op), sa(*a), charged) } else { format!("{}({})", opn(*op), sa(*a)) },
            Ev::Sd { me, t } => format!("SELFDESTRUCT({}->{})", sa(*me), sa(*t)),
            Ev::Sstore { a, k, .. } => format!("SSTORE({},{:x})", sa(*a), k),
            Ev::Open => "{".into(),
            Ev::Create { a, reached } => format!("create({}{}){{", sa(*a), if *reached { "" } else { ",not-reached" }),
            Ev::Close { ok } => if *ok { "}".into() } else { "}~".into() },
        }
    }
}

enum Pend {
    Acct { op: u8, a: Address, gas: u64, fixed: bool },
    Sload { a: Address, k: U256, gas: u64 },
    Call { op: u8, a: Address, checked: bool, gas: u64 },
    Sd { me: Address, t: Address },
    Sstore { a: Address, k: U256, v: U256 },
}

/// Logs, in execution order, every access an opcode makes and what the step charged.
#[derive(Default)]
pub struct Recorder { pub ev: Vec<Ev>, pend: Option<Pend>, pend_call: Option<(u8, Address, bool, u64)>, creates: Vec<usize> }
fn word_addr(w: U256) -> Address { Address::from_word(B256::from(w)) }
impl<DB: Database> Inspector<DB> for Recorder {
    fn step(&mut self, i: &mut Interpreter, _c: &mut EvmContext<DB>) {
        self.pend = None;
        let gas = i.gas.remaining();
        let pk = |n: usize| i.stack.peek(n).ok();
        let me = i.contract.target_address;
        self.pend = match i.current_opcode() {
            o @ (BALANCE | EXTCODESIZE | EXTCODEHASH) => pk(0).map(|a| Pend::Acct { op: o, a: word_addr(a), gas, fixed: true }),
            EXTCODECOPY => match (pk(0), pk(3)) { (Some(a), Some(len)) => Some(Pend::Acct { op: EXTCODECOPY, a: word_addr(a), gas, fixed: len.is_zero() }), _ => None },
            SLOAD => pk(0).map(|k| Pend::Sload { a: me, k, gas }),
            SSTORE => match (pk(0), pk(1)) { (Some(k), Some(v)) => Some(Pend::Sstore { a: me, k, v }), _ => None },
            o @ (CALL | CALLCODE) => match (pk(1), pk(2), pk(4), pk(6)) {
                (Some(a), Some(v), Some(il), Some(ol)) => Some(Pend::Call { op: o, a: word_addr(a), checked: v.is_zero() && il.is_zero() && ol.is_zero(), gas }),
                _ => None,
            },
            o @ (DELEGATECALL | STATICCALL) => match (pk(1), pk(3), pk(5)) {
                (Some(a), Some(il), Some(ol)) => Some(Pend::Call { op: o, a: word_addr(a), checked: il.is_zero() && ol.is_zero(), gas }),
                _ => None,
            },
            SELFDESTRUCT => pk(0).map(|t| Pend::Sd { me, t: word_addr(t) }),
            _ => None,
        };
    }
    fn step_end(&mut self, i: &mut Interpreter, _c: &mut EvmContext<DB>) {
        let Some(p) = self.pend.take() else { return };
        let after = i.gas.remaining();
        let r = i.instruction_result;
        match p {
            Pend::Acct { op, a, gas, fixed } => match r {
                InstructionResult::Continue => self.ev.push(Ev::Acct { op, a, gas, charged: gas - after, res: if fixed { 0 } else { 2 } }),
                InstructionResult::OutOfGas if fixed => self.ev.push(Ev::Acct { op, a, gas, charged: 0, res: 1 }),
                _ => {}
            },
            Pend::Sload { a, k, gas } => match r {
                InstructionResult::Continue => self.ev.push(Ev::Sload { a, k, gas, charged: gas - after, res: 0 }),
                InstructionResult::OutOfGas => self.ev.push(Ev::Sload { a, k, gas, charged: 0, res: 1 }),
                _ => {}
            },
            Pend::Call { op, a, checked, gas } => if r == InstructionResult::CallOrCreate { self.pend_call = Some((op, a, checked, gas - after)); },
            Pend::Sd { me, t } => if r == InstructionResult::SelfDestruct { self.ev.push(Ev::Sd { me, t }); },
            Pend::Sstore { a, k, v } => if r == InstructionResult::Continue { self.ev.push(Ev::Sstore { a, k, v }); },
        }
    }
    fn call(&mut self, _c: &mut EvmContext<DB>, inputs: &mut CallInputs) -> Option<CallOutcome> {
        if let Some((op, a, checked, diff)) = self.pend_call.take() {
            // without value there is no stipend: inputs.gas_limit is exactly what the step handed over
            let ok = checked && diff >= inputs.gas_limit;
            self.ev.push(Ev::Call { op, a, checked: ok, charged: if ok { diff - inputs.gas_limit } else { 0 } });
        }
        self.ev.push(Ev::Open);
        None
    }
    fn call_end(&mut self, _c: &mut EvmContext<DB>, _inputs: &CallInputs, outcome: CallOutcome) -> CallOutcome {
        self.ev.push(Ev::Close { ok: outcome.result.result.is_ok() });
        outcome
    }
    fn create(&mut self, c: &mut EvmContext<DB>, inputs: &mut CreateInputs) -> Option<CreateOutcome> {
        let nonce = c.journaled_state.state.get(&inputs.caller).map(|a| a.info.nonce).unwrap_or(0);
        self.creates.push(self.ev.len());
        self.ev.push(Ev::Create { a: inputs.created_address(nonce), reached: true });
        None
    }
    fn create_end(&mut self, _c: &mut EvmContext<DB>, _inputs: &CreateInputs, outcome: CreateOutcome) -> CreateOutcome {
        // depth / balance / init-code-prefix checks come before the created address is touched
        let not_reached = matches!(outcome.result.result, InstructionResult::CallTooDeep | InstructionResult::OutOfFunds | InstructionResult::CreateInitCodeStartingEF00);
        if let Some(ix) = self.creates.pop() { if let Ev::Create { reached, .. } = &mut self.ev[ix] { *reached = !not_reached; } }
        self.ev.push(Ev::Close { ok: outcome.result.result.is_ok() });
        outcome
    }
}

// ---------------------------------------------------------------------------------------------- generator
/// EIP-2935 history contract: address this tree warms, and the address of the final EIP
const HISTORY_TREE: &str = "25a219378dad9b3503c8268c9ca836a52427a4fb";
const HISTORY_FINAL: &str = "0000f90827f1c53a10cb7a02335b175320002935";
fn haddr(s: &str) -> Address { Address::from_slice(&progs::unhex(s)) }

#[derive(Clone, Copy, PartialEq, Debug)]
enum Kind { None, Code, Deleg(Address) }

struct AuthSpec { chain: u64, target: Address, nonce: u64, authority: Option<Address>, signed: Option<SignedAuthorization> }

pub struct TxWorld {
    pub db: CacheDB<EmptyDB>, pub spec: SpecId, pub block: BlockEnv, pub tx: TxEnv,
    accts: Vec<(Address, u64, Kind)>, auths: Vec<AuthSpec>, dest: Address, is_create: bool, c2: Vec<Address>,
    pub descr: String, pub tags: BTreeSet<String>,
}

struct G<'a> {
    rng: &'a mut Rng, #[allow(dead_code)] spec: SpecId, n: usize, sender: Address,
    contracts: Vec<Address>, uni: Vec<Address>, focus: Vec<Address>,
    /// accounts that run the code of contract j when called (EIP-7702), and the contracts themselves
    runs: BTreeMap<Address, usize>,
    keys: Vec<U256>, tags: BTreeSet<String>, c2: Vec<Address>, calls_left: i64,
}

fn en(spec: SpecId, since: SpecId) -> bool { spec as u8 >= since as u8 }

impl G<'_> {
    fn tag(&mut self, t: &str) { self.tags.insert(t.to_string()); }
    fn pick_addr(&mut self) -> Address {
        if self.rng.chance(4, 5) { *self.rng.pick(&self.focus) } else { *self.rng.pick(&self.uni) }
    }
    fn pick_key(&mut self) -> U256 { *self.rng.pick(&self.keys) }
    fn push_operand(&mut self, a: &mut Asm, t: Address) {
        if self.rng.chance(1, 16) {
            // dirty upper 12 bytes: the instruction uses the low 20 bytes
            let mut w = [0xA5u8; 32];
            w[12..].copy_from_slice(t.as_slice());
            a.push32(&w);
            self.tag("operand:dirty-upper-bytes");
        } else { a.push_addr(t); }
    }
    fn probe(&mut self, a: &mut Asm) {
        let t = self.pick_addr();
        match self.rng.below(9) {
            0..=2 => { self.push_operand(a, t); a.op(BALANCE).op(POP); }
            3 | 4 => { self.push_operand(a, t); a.op(EXTCODESIZE).op(POP); }
            5 | 6 => { self.push_operand(a, t); a.op(EXTCODEHASH).op(POP); }
            7 => { a.push_u(0).push_u(0).push_u(0); self.push_operand(a, t); a.op(EXTCODECOPY); }
            _ => { a.push_u(*self.rng.pick(&[0u64, 1, 32])).push_u(0).push_u(0); self.push_operand(a, t); a.op(EXTCODECOPY); }
        }
    }
    fn sload(&mut self, a: &mut Asm) { let k = self.pick_key(); a.push(k).op(SLOAD).op(POP); }
    fn sstore(&mut self, a: &mut Asm) { let k = self.pick_key(); a.push_u(self.rng.below(3)).push(k).op(SSTORE); }
    fn light(&mut self, a: &mut Asm) {
        match self.rng.below(10) { 0..=5 => self.probe(a), 6 | 7 | 8 => self.sload(a), _ => self.sstore(a) }
    }
    /// may code running at `level` call `t` without creating a cycle?
    fn callable(&self, level: isize, t: Address) -> bool { match self.runs.get(&t) { Some(j) => (*j as isize) > level, None => true } }
    fn call(&mut self, a: &mut Asm, level: isize) {
        self.calls_left -= 1;
        let n = self.n as isize;
        let mut t = match self.rng.below(20) {
            0..=10 if level + 1 < n => self.contracts[self.rng.range((level + 1) as u64, (n - 1) as u64) as usize],
            11..=13 => { let al: Vec<Address> = self.runs.keys().cloned().filter(|x| !self.contracts.contains(x)).collect(); if al.is_empty() { self.pick_addr() } else { *self.rng.pick(&al) } }
            _ => self.pick_addr(),
        };
        if !self.callable(level, t) { t = addr(0xDEAD0000 + self.rng.below(3)); }
        let scheme = match self.rng.below(10) { 0..=3 => CALL, 4 | 5 => STATICCALL, 6 | 7 => DELEGATECALL, _ => CALLCODE };
        let mem = self.rng.chance(1, 10);
        a.push_u(if mem { 32 } else { 0 }).push_u(0).push_u(0).push_u(0);
        if scheme == CALL || scheme == CALLCODE { a.push_u(if self.rng.chance(1, 10) { self.tag("call:with-value"); 1 } else { 0 }); }
        self.push_operand(a, t);
        match self.rng.below(20) {
            0..=10 => { a.op(GAS); }
            11..=15 => { a.push_u(*self.rng.pick(&[0u64, 99, 100, 101, 2099, 2100, 2101, 2599, 2600, 2601, 2700, 2800, 5000])); self.tag("call:gas-around-access-prices"); }
            _ => { a.push_u(self.rng.range(3000, 40_000)); }
        }
        a.op(scheme);
        if self.rng.chance(1, 4) {
            let l = a.new_label();
            a.push_label(l).op(JUMPI).push_u(0).push_u(0).op(REVERT).place(l);
            self.tag("call:revert-parent-if-failed");
        } else { a.op(POP); }
    }
    fn runtime(&mut self) -> Vec<u8> {
        let mut a = Asm::new();
        for _ in 0..self.rng.below(3) { self.light(&mut a); }
        a.op(STOP);
        a.finish()
    }
    fn initcode(&mut self, level: isize) -> Vec<u8> {
        let mut a = Asm::new();
        for _ in 0..self.rng.below(3) { self.light(&mut a); }
        if self.calls_left > 0 && self.rng.chance(1, 6) { self.call(&mut a, level); }
        match self.rng.below(10) {
            0..=5 => {
                // fails when created without value, succeeds with value: same address, different fate
                let l = a.new_label();
                a.op(SELFBALANCE).push_label(l).op(JUMPI).push_u(0).push_u(0).op(REVERT).place(l);
            }
            6 => { a.push_u(0).push_u(0).op(REVERT); }
            7 => { a.op(INVALID); }
            _ => {}
        }
        for _ in 0..self.rng.below(3) { self.light(&mut a); }
        let rt = if self.rng.chance(1, 4) { vec![] } else { self.runtime() };
        a.mstore_bytes(0, &rt).push_u(rt.len() as u64).push_u(0).op(RETURN);
        a.finish()
    }
    fn create2_seq(&mut self, a: &mut Asm, level: isize, me: Address) {
        let init = self.initcode(level);
        let salt = self.rng.below(2);
        let target = me.create2(B256::from(U256::from(salt)), keccak256(&init));
        self.c2.push(target);
        self.uni.push(target);
        if self.rng.chance(2, 3) { self.focus.push(target); }
        let values: &[u64] = *self.rng.pick(&[&[0u64, 1][..], &[0, 1, 1], &[1, 1], &[0, 0], &[1], &[0, 1, 0]]);
        self.tag(&format!("create2:x{}", values.len()));
        for v in values {
            if self.rng.chance(1, 2) { a.push_addr(target).op(*self.rng.pick(&[BALANCE, EXTCODESIZE, EXTCODEHASH])).op(POP); }
            a.mstore_bytes(0, &init).push_u(salt).push_u(init.len() as u64).push_u(0).push_u(*v).op(CREATE2);
            if self.rng.chance(1, 2) { a.op(DUP1).op(EXTCODESIZE).op(POP); }
            a.op(POP);
        }
        if self.rng.chance(2, 3) { a.push_addr(target).op(*self.rng.pick(&[BALANCE, EXTCODESIZE, EXTCODEHASH])).op(POP); }
        if self.rng.chance(1, 2) { a.push_u(0).push_u(0).push_u(0).push_u(0).push_u(0).push_addr(target).op(GAS).op(CALL).op(POP); }
    }
    fn create_plain(&mut self, a: &mut Asm, level: isize) {
        let init = self.initcode(level);
        a.mstore_bytes(0, &init).push_u(init.len() as u64).push_u(0).push_u(self.rng.below(2)).op(CREATE);
        a.op(DUP1).op(BALANCE).op(POP).op(POP);
        self.tag("create:CREATE");
    }
    fn terminal(&mut self, a: &mut Asm) {
        match self.rng.below(20) {
            0..=8 => { a.op(STOP); }
            9 | 10 => { a.push_u(32).push_u(0).op(RETURN); }
            11..=14 => { a.push_u(0).push_u(0).op(REVERT); self.tag("term:revert"); }
            15 | 16 => { a.op(INVALID); self.tag("term:invalid"); }
            17 => { for i in 0..40u64 { a.push_u(1).push_u(1000 + i).op(SSTORE); } self.tag("term:gas-burn"); }
            _ => { let t = self.pick_addr(); a.push_addr(t).op(SELFDESTRUCT); self.tag("term:selfdestruct"); }
        }
    }
    fn code(&mut self, level: isize, me: Address) -> Vec<u8> {
        let mut a = Asm::new();
        let k = self.rng.range(4, 11);
        let mut created = false;
        self.calls_left = 3;
        for _ in 0..k {
            match self.rng.below(20) {
                0..=4 if self.calls_left > 0 => self.call(&mut a, level),
                5 | 6 if !created && self.calls_left > 0 => { created = true; self.calls_left -= 2; self.create2_seq(&mut a, level, me); }
                7 if !created && self.calls_left > 0 && self.rng.chance(1, 2) => { self.calls_left -= 1; self.create_plain(&mut a, level); }
                _ => self.light(&mut a),
            }
        }
        self.terminal(&mut a);
        a.finish()
    }
}

fn pick_spec(rng: &mut Rng) -> SpecId {
    match rng.below(20) {
        0 | 1 => SpecId::BERLIN, 2 | 3 => SpecId::LONDON, 4 => SpecId::MERGE, 5..=8 => SpecId::SHANGHAI, 9..=12 => SpecId::CANCUN, _ => SpecId::PRAGUE,
    }
}

pub fn gen_tx_world(rng: &mut Rng) -> TxWorld {
    let spec = pick_spec(rng);
    let prague = en(spec, SpecId::PRAGUE);
    let n = rng.range(2, 5) as usize;
    let sender = addr(CALLER_ADDR);
    let contracts: Vec<Address> = (0..n).map(|i| addr(CONTRACT_BASE + i as u64)).collect();
    let cold: Vec<Address> = (0..3).map(|i| addr(0xDEAD0000 + i)).collect();
    let precs: Vec<Address> = [1u64, 2, 9, 0xa, 0xb, 0x11, 0x12, 0].iter().map(|x| addr(*x)).collect();
    let hist = [haddr(HISTORY_TREE), haddr(HISTORY_FINAL)];
    let mut tags: BTreeSet<String> = BTreeSet::new();
    tags.insert(format!("spec:{:?}", spec));

    // pre-state accounts relevant to EIP-7702
    let mut accts: Vec<(Address, u64, Kind)> = vec![(sender, 7, Kind::None)];
    for c in &contracts { accts.push((*c, 1, Kind::Code)); }
    let mut runs: BTreeMap<Address, usize> = contracts.iter().cloned().enumerate().map(|(i, a)| (a, i)).collect();
    let predeleg = addr(0xDE1E6A7E);
    if prague && rng.chance(2, 5) {
        let j = rng.below(n as u64) as usize;
        accts.push((predeleg, 3, Kind::Deleg(contracts[j])));
        runs.insert(predeleg, j);
        tags.insert("prestate:delegated-account".into());
    }
    let old_eoa = addr(0x0E0A);
    accts.push((old_eoa, 5, Kind::None));

    // EIP-7702 authorization list
    let is7702 = prague && rng.chance(1, 2);
    let mut auths: Vec<AuthSpec> = vec![];
    if is7702 {
        let k = rng.range(1, 4);
        // nonce / code as the list is processed (sender's nonce already bumped)
        let mut st: BTreeMap<Address, (u64, Kind)> = accts.iter().map(|(a, nn, kd)| (*a, (*nn, *kd))).collect();
        st.get_mut(&sender).unwrap().0 += 1;
        for i in 0..k {
            let fresh = addr(0xA0700 + i);
            let target = match rng.below(20) {
                0..=11 => *rng.pick(&contracts), 12 | 13 => *rng.pick(&cold), 14 => addr(rng.range(1, 0x12)), 15 => Address::ZERO, 16 => hist[0], _ => addr(0x7A46E7 + rng.below(2)),
            };
            let (mut chain, mut nonce, mut authority, mut signed) = (if rng.chance(1, 4) { 0u64 } else { 1 }, 0u64, Some(fresh), None);
            let kind = rng.below(24);
            match kind {
                0..=9 => {}
                10 | 11 => {
                    // a real signature path: any (r, s, v) that recovers is a signature of its authority
                    let inner = Authorization { chain_id: U256::from(chain), address: target, nonce };
                    let s = SignedAuthorization::new_unchecked(inner, rng.below(2) as u8, U256::from(rng.next()) << 64 | U256::from(rng.next()), U256::from(rng.next() | 1));
                    authority = s.recover_authority().ok();
                    signed = Some(s);
                    tags.insert(if authority.is_some() { "auth:signed-recovers".into() } else { "auth:signed-unrecoverable".into() });
                }
                12 | 13 => { chain = 5; tags.insert("auth:wrong-chain".into()); }
                14 | 15 => { nonce = 3; tags.insert("auth:nonce-mismatch(still warm)".into()); }
                16 | 17 => { authority = Some(*rng.pick(&contracts)); tags.insert("auth:authority-has-code(still warm)".into()); }
                18 => { authority = None; tags.insert("auth:invalid-signature".into()); }
                19 => { nonce = u64::MAX; tags.insert("auth:nonce-max".into()); }
                20 => { authority = Some(sender); nonce = if rng.chance(2, 3) { 8 } else { 7 }; tags.insert("auth:sender-is-authority".into()); }
                21 => { authority = Some(old_eoa); nonce = 5; tags.insert("auth:existing-eoa".into()); }
                22 => { authority = Some(predeleg); nonce = if rng.chance(2, 3) { 3 } else { 0 }; tags.insert("auth:redelegation".into()); }
                _ => { if i > 0 { authority = auths[0].authority; nonce = rng.below(2); tags.insert("auth:same-authority-twice".into()); } }
            }
            // what the list does (only to keep the generated call graph acyclic)
            if let Some(au) = authority {
                if (chain == 0 || chain == 1) && nonce != u64::MAX {
                    let e = st.entry(au).or_insert((0, Kind::None));
                    if e.1 != Kind::Code && e.0 == nonce {
                        *e = (nonce + 1, if target.is_zero() { Kind::None } else { Kind::Deleg(target) });
                    }
                }
            }
            auths.push(AuthSpec { chain, target, nonce, authority, signed });
        }
        for (a, (_, kd)) in &st {
            if contracts.contains(a) { continue; }
            match kd { Kind::Deleg(t) => { match contracts.iter().position(|c| c == t) { Some(j) => { runs.insert(*a, j); } None => { runs.remove(a); } } } _ => { runs.remove(a); } }
        }
    }

    // coinbase: its own address, or one of the probed ones
    let coinbase = match rng.below(12) {
        0..=5 => addr(COINBASE), 6 => cold[0], 7 => *rng.pick(&contracts), 8 => addr(rng.range(1, 0x12)), 9 => sender,
        10 => hist[rng.below(2) as usize], _ => auths.first().and_then(|a| a.authority).unwrap_or(cold[1]),
    };
    if coinbase != addr(COINBASE) { tags.insert("coinbase:aliases-probed-address".into()); }

    // a creation transaction runs its init code as "level -1"; the address it creates is probed as well
    let create_tx = !is7702 && rng.chance(1, 8);
    let created = sender.create(7);
    // universe and focus
    let mut uni: Vec<Address> = vec![sender, coinbase, addr(COINBASE), predeleg, old_eoa, created];
    uni.extend(&contracts); uni.extend(&cold); uni.extend(&precs); uni.extend(&hist);
    for a in &auths { if let Some(x) = a.authority { uni.push(x); } uni.push(a.target); }
    let mut focus: Vec<Address> = vec![coinbase, cold[0], *rng.pick(&precs), *rng.pick(&hist), *rng.pick(&contracts)];
    for a in &auths { if let Some(x) = a.authority { if rng.chance(2, 3) { focus.push(x); } } if rng.chance(1, 2) { focus.push(a.target); } }
    for _ in 0..rng.range(1, 3) { let x = *rng.pick(&uni); focus.push(x); }
    if create_tx { focus.push(created); }
    let keys: Vec<U256> = vec![U256::ZERO, U256::from(1), U256::from(2), U256::from(3), U256::from(1) << 255, U256::MAX];

    let mut g = G { rng, spec, n, sender, contracts: contracts.clone(), uni, focus, runs, keys, tags, c2: vec![], calls_left: 9 };
    let mut codes: Vec<Vec<u8>> = vec![vec![]; n];
    for i in (0..n).rev() { codes[i] = g.code(i as isize, contracts[i]); }
    let init_tx = if create_tx { let mut a = Asm::new(); for _ in 0..g.rng.range(2, 6) { if g.rng.chance(1, 4) { g.call(&mut a, -1) } else { g.light(&mut a) } }
        let rt = g.runtime(); if g.rng.chance(1, 5) { a.push_u(0).push_u(0).op(REVERT); } a.mstore_bytes(0, &rt).push_u(rt.len() as u64).push_u(0).op(RETURN); a.finish() } else { vec![] };
    let aliases: Vec<Address> = g.runs.keys().cloned().filter(|x| !contracts.contains(x)).collect();
    let dest = if create_tx { created } else {
        match g.rng.below(20) {
            0..=3 if !aliases.is_empty() => *g.rng.pick(&aliases),
            4 => g.pick_addr(),
            5 if n > 1 => contracts[1],
            _ => contracts[0],
        }
    };
    // never call into the sender's own... any destination is fine: the call graph below it is acyclic
    let gas_limit = if g.rng.chance(1, 10) { g.rng.range(150_000, 400_000) } else { g.rng.range(1_500_000, 6_000_000) };
    let mut tx = progs::base_tx(if create_tx { TxKind::Create } else { TxKind::Call(dest) }, gas_limit, U256::from(g.rng.below(2)), if create_tx { init_tx.clone() } else { g.rng.bytes(4) });
    let mut txkind = if create_tx { "create" } else { "call" }.to_string();
    // access list
    if g.rng.chance(2, 3) {
        let k = g.rng.range(1, 5);
        let mut items: Vec<AccessListItem> = vec![];
        for _ in 0..k {
            let a = match g.rng.below(10) { 0..=5 => g.pick_addr(), 6 | 7 if !g.c2.is_empty() => *g.rng.pick(&g.c2), 8 if !items.is_empty() => items[0].address, _ => *g.rng.pick(&contracts) };
            let mut ks: Vec<B256> = (0..g.rng.below(4)).map(|_| B256::from(g.pick_key())).collect();
            if !ks.is_empty() && g.rng.chance(1, 4) { let x = ks[0]; ks.push(x); g.tag("access-list:repeated-key"); }
            if items.iter().any(|i| i.address == a) { g.tag("access-list:repeated-address"); }
            items.push(AccessListItem { address: a, storage_keys: ks });
        }
        tx.access_list = items;
        txkind.push_str("+access-list");
    }
    if en(spec, SpecId::LONDON) && g.rng.chance(1, 3) { tx.gas_price = U256::from(g.rng.range(10, 100)); tx.gas_priority_fee = Some(U256::from(g.rng.range(0, 10))); }
    if is7702 {
        txkind.push_str("+eip7702");
        let all_signed = auths.iter().all(|a| a.signed.is_some());
        let list: AuthorizationList = if all_signed { g.tag("auth-list:Signed"); AuthorizationList::Signed(auths.iter().map(|a| a.signed.clone().unwrap()).collect()) } else {
            AuthorizationList::Recovered(auths.iter().map(|a| match &a.signed {
                Some(s) => s.clone().into_recovered(),
                None => RecoveredAuthorization::new_unchecked(Authorization { chain_id: U256::from(a.chain), address: a.target, nonce: a.nonce },
                    match a.authority { Some(x) => RecoveredAuthority::Valid(x), None => RecoveredAuthority::Invalid }),
            }).collect())
        };
        tx.authorization_list = Some(list);
    }
    g.tag(&format!("tx:{}", txkind));
    if g.runs.contains_key(&dest) && !contracts.contains(&dest) { g.tag("tx:to-delegated-account"); }

    // database
    let mut db = CacheDB::new(EmptyDB::default());
    for (i, c) in codes.iter().enumerate() {
        let bal = if g.rng.chance(1, 5) { U256::ZERO } else { U256::from(g.rng.range(5, 1000)) };
        db.insert_account_info(contracts[i], progs::account(bal, 1, c));
    }
    db.insert_account_info(sender, progs::account(U256::MAX >> 2, 7, &[]));
    for (a, nn, kd) in &accts {
        match kd {
            Kind::Deleg(t) => { let bc = Bytecode::new_eip7702(*t); let mut info = progs::account(U256::from(9), *nn, &[]); info.code_hash = bc.hash_slow(); info.code = Some(bc); db.insert_account_info(*a, info); }
            Kind::None if *a != sender => { db.insert_account_info(*a, progs::account(U256::from(9), *nn, &[])); }
            _ => {}
        }
    }
    // storage behind some of the probed keys
    for c in &contracts { if g.rng.chance(1, 2) { let k = g.pick_key(); let _ = db.insert_account_storage(*c, k, U256::from(7)); } }
    let mut block = BlockEnv::default();
    block.number = U256::from(100);
    block.coinbase = coinbase;
    block.timestamp = U256::from(1_700_000_000u64);
    block.gas_limit = U256::MAX;
    block.basefee = U256::ZERO;
    block.prevrandao = Some(B256::from(U256::from(0x1234)));
    block.blob_excess_gas_and_price = Some(revm::primitives::BlobExcessGasAndPrice::new(0, prague));

    let descr = format!("spec={:?} tx={} to={} gas_limit={} coinbase={} access_list=[{}] auths=[{}] codes=[{}]{}",
        spec, txkind, sa(dest), gas_limit, sa(coinbase),
        tx.access_list.iter().map(|i| format!("{}:{}", sa(i.address), i.storage_keys.iter().map(|k| format!("{:x}", U256::from_be_bytes(k.0))).collect::<Vec<_>>().join("/"))).collect::<Vec<_>>().join(","),
        auths.iter().map(|a| format!("(chain {} -> {} nonce {} by {}{})", a.chain, sa(a.target), a.nonce, a.authority.map(sa).unwrap_or("invalid".into()), if a.signed.is_some() { " signed" } else { "" })).collect::<Vec<_>>().join(","),
        codes.iter().map(|c| progs::hex(c)).collect::<Vec<_>>().join(","),
        if create_tx { format!(" initcode={}", progs::hex(&init_tx)) } else { String::new() });
    let _ = g.sender;
    let tags = g.tags.clone();
    let c2 = g.c2.clone();
    TxWorld { db, spec, block, tx, accts, auths, dest, is_create: create_tx, c2, descr, tags }
}

fn coq_tx(w: &TxWorld) -> String {
    let kind = |k: &Kind| match k { Kind::None => "CNone".to_string(), Kind::Code => "CCode".to_string(), Kind::Deleg(t) => format!("(CDeleg {})", za(*t)) };
    format!("(mkTxW {} 1 {} {} {} {} {} {} {})", w.spec as u8, za(w.tx.caller), zb(w.is_create), za(w.dest), za(w.block.coinbase),
        zlist(w.tx.access_list.iter().map(|i| format!("({}, {})", za(i.address), zlist(i.storage_keys.iter().map(|k| zw(U256::from_be_bytes(k.0))))))),
        zlist(w.auths.iter().map(|a| format!("mkAuth {} {} {} {}", a.chain, za(a.target), a.nonce, zopt(a.authority.map(za))))),
        zlist(w.accts.iter().map(|(a, n, k)| format!("({}, ({}, {}))", za(*a), n, kind(k)))))
}

pub struct Observed { pub ev: Vec<Ev>, pub panicked: bool, pub status: String }

pub fn observe(w: &TxWorld) -> Observed {
    let (db, tx, block, spec) = (w.db.clone(), w.tx.clone(), w.block.clone(), w.spec);
    let r = catch(move || {
        let mut evm = Evm::builder().with_db(db).with_external_context(Recorder::default()).with_spec_id(spec)
            .modify_tx_env(|t| *t = tx).modify_block_env(|b| *b = block)
            .append_handler_register(inspector_handle_register).build();
        let res = evm.transact();
        let rec = evm.into_context().external;
        (res.map(|x| x.result).map_err(|e| format!("{:?}", e)), rec)
    });
    match r {
        Ok((res, rec)) => {
            let status = match &res {
                Ok(revm::primitives::ExecutionResult::Success { .. }) => "success".to_string(),
                Ok(revm::primitives::ExecutionResult::Revert { .. }) => "revert".to_string(),
                Ok(revm::primitives::ExecutionResult::Halt { reason, .. }) => format!("halt:{:?}", reason).split('(').next().unwrap().to_string(),
                Err(e) => format!("invalid-tx:{}", e.chars().take(60).collect::<String>()),
            };
            Observed { ev: rec.ev, panicked: false, status }
        }
        Err(m) => Observed { ev: vec![], panicked: true, status: format!("panic:{}", m) },
    }
}

pub fn run(o: &Opts) {
    let mut rng = Rng::new(o.seed ^ 0xC34_7);
    let mut w = CaseWriter::new(o, "C34t", 150);
    let n = if o.thorough() { 24_000 } else { 2400 };
    let perturb = std::env::var("VH_C34T_PERTURB").ok();
    for i in 0..n {
        let world = gen_tx_world(&mut rng);
        let mut ob = observe(&world);
        if ob.status.starts_with("invalid-tx") && ob.ev.is_empty() { w.tag(&format!("skipped:{}", ob.status.split('{').next().unwrap().trim())); continue; }
        if let Some(p) = &perturb {
            // teeth: pretend the last completed account probe was charged the other price
            if p == "charge" && i % 5 == 0 {
                if let Some(Ev::Acct { charged, .. }) = ob.ev.iter_mut().rev().find(|e| matches!(e, Ev::Acct { res: 0, .. })) { *charged = if *charged == 100 { 2600 } else { 100 }; }
            }
        }
        let mut tags: BTreeSet<String> = world.tags.clone();
        tags.insert(format!("status:{}", ob.status.split(':').take(2).collect::<Vec<_>>().join(":")));
        // distribution of what was observed
        let (mut n_probe, mut depth, mut max_depth, mut fails) = (0usize, 0i64, 0i64, 0usize);
        let mut cold_seen: BTreeMap<String, u32> = BTreeMap::new();
        let special = |a: &Address| -> Option<&'static str> {
            if *a == world.block.coinbase { Some("coinbase") } else if *a == haddr(HISTORY_TREE) { Some("history-contract") } else if *a == haddr(HISTORY_FINAL) { Some("final-eip2935-address") }
            else if world.auths.iter().any(|x| x.authority == Some(*a)) { Some("authority") } else if world.auths.iter().any(|x| x.target == *a) { Some("delegation-target") }
            else if *a == world.tx.caller { Some("sender") } else if *a == world.dest { Some("recipient") }
            else if a.as_slice()[..19].iter().all(|b| *b == 0) && a.as_slice()[19] >= 1 && a.as_slice()[19] <= 0x11 { Some("precompile-range") }
            else if world.tx.access_list.iter().any(|x| x.address == *a) { Some("access-list-address") } else { None }
        };
        for e in &ob.ev {
            match e {
                Ev::Acct { a, charged, res, .. } => {
                    if *res == 0 { n_probe += 1; let c = *charged == 2600; tags.insert(format!("probe:account:{}", if c { "cold" } else { "warm" }));
                        if let Some(s) = special(a) { tags.insert(format!("probe:{}:{}", s, if c { "cold" } else { "warm" })); }
                        if world.c2.contains(a) { tags.insert(format!("probe:CREATE2-target:{}", if c { "cold" } else { "warm" })); }
                        if c { let x = cold_seen.entry(sa(*a)).or_insert(0); *x += 1; if *x == 2 { tags.insert("account-cold-again(after a reverted frame)".into()); } } }
                    else if *res == 1 { tags.insert("probe:account:out-of-gas".into()); }
                }
                Ev::Sload { a, k, charged, res, .. } => {
                    if *res == 0 { n_probe += 1; let c = *charged == 2100; tags.insert(format!("probe:sload:{}", if c { "cold" } else { "warm" }));
                        if world.tx.access_list.iter().any(|x| x.address == *a && x.storage_keys.iter().any(|y| U256::from_be_bytes(y.0) == *k)) {
                            tags.insert(format!("probe:access-list-slot:{}", if c { "cold" } else { "warm" }));
                            if world.c2.contains(a) { tags.insert(format!("probe:access-list-slot-of-CREATE2-target:{}", if c { "cold" } else { "warm" })); }
                        }
                        if c { let x = cold_seen.entry(format!("{}/{:x}", sa(*a), k)).or_insert(0); *x += 1; if *x == 2 { tags.insert("slot-cold-again(after a reverted frame)".into()); } } }
                    else { tags.insert("probe:sload:out-of-gas".into()); }
                }
                Ev::Call { checked, charged, .. } => if *checked { n_probe += 1; tags.insert(format!("probe:call:{}", charged)); } else { tags.insert("call:unchecked".into()); },
                Ev::Sd { .. } => { tags.insert("access:selfdestruct".into()); }
                Ev::Sstore { .. } => { tags.insert("access:sstore".into()); }
                Ev::Open => { depth += 1; max_depth = max_depth.max(depth); }
                Ev::Create { reached, .. } => { depth += 1; max_depth = max_depth.max(depth); tags.insert(if *reached { "create:reached".into() } else { "create:not-reached(address not warmed)".into() }); }
                Ev::Close { ok } => { depth -= 1; if !*ok { fails += 1; if depth > 0 { tags.insert("nested-frame:failed".into()); } } else if depth > 0 { tags.insert("nested-frame:succeeded".into()); } }
            }
        }
        tags.insert(format!("max-depth:{}", match max_depth { 0 | 1 => "1", 2 => "2", 3 => "3", _ => ">=4" }));
        let case = format!("(mkCase {} {} {})", coq_tx(&world), zlist(ob.ev.iter().map(|e| e.coq())), zb(ob.panicked));
        let shown: Vec<String> = ob.ev.iter().take(80).map(|e| e.short()).collect();
        let human = format!("{} status={} events={} trace={}{}", world.descr, ob.status, ob.ev.len(), shown.join(" "), if ob.ev.len() > 80 { " ..." } else { "" });
        let tr: Vec<&str> = tags.iter().map(|s| s.as_str()).collect();
        w.push(case, human, n_probe >= 3 && (fails > 0 || max_depth > 1), &tr);
    }
    w.finish("one real transaction per case on Evm<Recorder, CacheDB<EmptyDB>> with inspector_handle_register over BERLIN, LONDON, MERGE, SHANGHAI, CANCUN, PRAGUE: 2-5 access-probe contracts (BALANCE / EXTCODESIZE / EXTCODEHASH / EXTCODECOPY / SLOAD / SSTORE, zero-value CALL / STATICCALL / DELEGATECALL / CALLCODE with all / tiny / medium gas, CREATE2 of the same init code 1-3 times with and without value, CREATE, SELFDESTRUCT, terminals STOP / RETURN / REVERT / INVALID / out-of-gas) over a universe of sender, recipient, coinbase (its own or aliasing a probed address), precompiles 1..0x11 and 0x12 / 0, the history-storage contract (tree and final EIP address), cold accounts, CREATE2 targets, authorities and delegation targets; access lists with repeated addresses and keys; EIP-7702 lists (valid, wrong chain, nonce mismatch, authority with code, invalid, nonce 2^64-1, sender as authority, re-delegation, duplicates; recovered and really signed tuples); creation transactions; the trace of accesses and charges is replayed by the accessed-set specification in Coq; non-trivial = at least 3 judged charges and a nested or failing frame");
}
