//! C12: operation histories on the real `revm_interpreter::Stack` and programs of stack
//! opcodes on a real `Interpreter` (through `Interpreter::run`).
use crate::util::*;
use revm::interpreter::opcode::{make_boxed_instruction_table, make_instruction_table, BoxedInstructionTable};
use revm::interpreter::{Contract, DummyHost, Interpreter, SharedMemory, Stack};
use revm::primitives::{Address, Bytecode, Bytes, BerlinSpec, CancunSpec, LondonSpec, PragueSpec, ShanghaiSpec, B256, U256};
use std::cell::RefCell;
use std::rc::Rc;

const LIMIT: usize = 1024;

fn ck_r() -> U256 { U256::from(1000003u64) }
fn checksum(d: &[U256]) -> U256 {
    let r = ck_r();
    let mut acc = U256::ZERO;
    for w in d { acc = acc.wrapping_mul(r).wrapping_add(*w).wrapping_add(U256::from(1u64)); }
    acc
}
/// a < 2^255, b < 2^244: a + i*b never wraps for i < 1024
fn prefill_word(i: usize, a: U256, b: U256) -> U256 { a + U256::from(i as u64) * b }
fn prefill_params(rng: &mut Rng) -> (U256, U256) { (rng.u256b() >> 1, rng.u256b() >> 12) }
fn pat_bytes(len: usize, a: u64, b: u64) -> Vec<u8> { (0..len as u64).map(|i| (((a + i * b) % 65521) % 256) as u8).collect() }

/// 64-bit digest of a list of words (mirrors `dig` in coq/Corr/C12.v): coqc needs about a
/// millisecond to parse one 256-bit literal, so observed words travel as a digest.
fn fold64(w: U256) -> u64 { let l = w.as_limbs(); l[0] ^ l[1] ^ l[2] ^ l[3] }
fn dig(ws: &[U256]) -> u64 { let mut acc = 7u64; for w in ws { acc = acc.wrapping_mul(1000003).wrapping_add(fold64(*w)); } acc }
fn tops(d: &[U256]) -> Vec<U256> { d.iter().rev().take(4).cloned().collect() }
fn probe(d: &[U256], pos: u128) -> U256 {
    if pos < d.len() as u128 { d[d.len() - 1 - pos as usize] } else { U256::ZERO }
}
fn obs_dig(ret: U256, d: &[U256], pr: &[u128]) -> u64 {
    let mut ws = vec![ret]; ws.extend(tops(d)); ws.extend(pr.iter().map(|p| probe(d, *p))); dig(&ws)
}
fn final_obs(d: &[U256]) -> (String, String) {
    (zw(checksum(d)), if d.len() <= 12 { zlist(d.iter().map(|w| zw(*w))) } else { "[]".into() })
}

#[derive(Clone, Debug)]
enum Op {
    Push(U256), Pop, Peek(u64), Set(u64, U256), Dup(u64), Swap(u64), Exchange(u64, u64),
    Slice(Vec<u8>), SlicePat(usize, u64, u64), B256(Vec<u8>), PopUnsafe, TopWrite(U256), PopTopWrite(U256),
}
impl Op {
    fn coq(&self) -> String {
        match self {
            Op::Push(v) => format!("CPush {}", zw(*v)),
            Op::Pop => "CPop".into(),
            Op::Peek(n) => format!("CPeek {}", zu(*n)),
            Op::Set(n, v) => format!("CSet {} {}", zu(*n), zw(*v)),
            Op::Dup(n) => format!("CDup {}", zu(*n)),
            Op::Swap(n) => format!("CSwap {}", zu(*n)),
            Op::Exchange(n, m) => format!("CExchange {} {}", zu(*n), zu(*m)),
            Op::Slice(b) => format!("CSlice {}", zbytes(b)),
            Op::SlicePat(l, a, b) => format!("CSlicePat {} {} {}", l, a, b),
            Op::B256(b) => format!("CB256 {}", zbytes(b)),
            Op::PopUnsafe => "CPopUnsafe".into(),
            Op::TopWrite(v) => format!("CTopWrite {}", zw(*v)),
            Op::PopTopWrite(v) => format!("CPopTopWrite {}", zw(*v)),
        }
    }
    fn tag(&self) -> &'static str {
        match self {
            Op::Push(_) => "op:push", Op::Pop => "op:pop", Op::Peek(_) => "op:peek", Op::Set(..) => "op:set",
            Op::Dup(_) => "op:dup", Op::Swap(_) => "op:swap", Op::Exchange(..) => "op:exchange",
            Op::Slice(_) | Op::SlicePat(..) => "op:push_slice", Op::B256(_) => "op:push_b256",
            Op::PopUnsafe => "op:pop_unsafe", Op::TopWrite(_) => "op:top_unsafe", Op::PopTopWrite(_) => "op:pop_top_unsafe",
        }
    }
    fn probes(&self) -> Vec<u128> {
        match self {
            Op::Peek(n) | Op::Set(n, _) | Op::Dup(n) | Op::Swap(n) => vec![*n as u128],
            Op::Exchange(n, m) => vec![*n as u128, *n as u128 + *m as u128],
            _ => vec![],
        }
    }
}

/// index argument: mostly valid for the live length, else boundary values
fn idx(rng: &mut Rng, len: usize, valid_max: u64) -> u64 {
    match rng.below(20) {
        0 => len as u64,
        1 => len as u64 + rng.below(3),
        2 => rng.u64b(),
        3 => *rng.pick(&[0u64, 1, 15, 16, 17, 255, 256, 1023, 1024, 1025]),
        _ => if valid_max == 0 { 0 } else { let cap = if rng.chance(1, 2) { 17 } else { u64::MAX }; rng.below(valid_max.min(cap)) },
    }
}

fn slice_len(rng: &mut Rng, room_words: usize) -> usize {
    match rng.below(12) {
        0 => 0,
        1 | 2 | 3 => rng.range(1, 33) as usize,
        4 | 5 => *rng.pick(&[7usize, 8, 9, 15, 16, 17, 23, 24, 25, 31, 32, 33, 39, 40, 41, 63, 64, 65, 95, 96, 97]),
        6 | 7 => { let w = rng.below(room_words as u64 + 1) as usize; (w * 32).saturating_sub(rng.below(33) as usize) }
        8 => room_words * 32 + rng.below(70) as usize,            // around the exact overflow boundary
        9 => (room_words * 32).saturating_sub(rng.below(40) as usize),
        10 => rng.below(32 * 1024 + 65) as usize,
        _ => rng.below(200) as usize,
    }
}

fn apply(st: &mut Stack, op: &Op) -> Result<(u8, U256), String> {
    use revm::interpreter::InstructionResult as IR;
    fn unit(r: Result<(), IR>) -> (u8, U256) { match r { Ok(()) => (0, U256::ZERO), Err(e) => (e as u8, U256::ZERO) } }
    fn word(r: Result<U256, IR>) -> (u8, U256) { match r { Ok(v) => (0, v), Err(e) => (e as u8, U256::ZERO) } }
    catch(|| match op {
        Op::Push(v) => unit(st.push(*v)),
        Op::Pop => word(st.pop()),
        Op::Peek(n) => word(st.peek(*n as usize)),
        Op::Set(n, v) => unit(st.set(*n as usize, *v)),
        Op::Dup(n) => unit(st.dup(*n as usize)),
        Op::Swap(n) => unit(st.swap(*n as usize)),
        Op::Exchange(n, m) => unit(st.exchange(*n as usize, *m as usize)),
        Op::Slice(b) => unit(st.push_slice(b)),
        Op::SlicePat(l, a, b) => unit(st.push_slice(&pat_bytes(*l, *a, *b))),
        Op::B256(b) => unit(st.push_b256(B256::from_slice(b))),
        // SAFETY: generated only when the length precondition holds
        Op::PopUnsafe => (0, unsafe { st.pop_unsafe() }),
        Op::TopWrite(v) => { let t = unsafe { st.top_unsafe() }; let old = *t; *t = *v; (0, old) }
        Op::PopTopWrite(v) => { let (p, t) = unsafe { st.pop_top_unsafe() }; *t = *v; (0, p) }
    })
}

fn gen_prefill(rng: &mut Rng) -> usize {
    match rng.below(10) {
        0 | 1 | 2 | 3 => rng.range(1020, 1024) as usize,
        4 | 5 | 6 => rng.range(0, 3) as usize,
        7 => *rng.pick(&[15usize, 16, 17, 18, 255, 256, 257, 1000, 1007, 1008]),
        _ => rng.below(1025) as usize,
    }
}

fn stack_case(rng: &mut Rng, o: &Opts, w: &mut CaseWriter, forced_slice: Option<usize>) {
    let pre_n = if forced_slice.is_some() { *rng.pick(&[0usize, 0, 1, 3]) } else { gen_prefill(rng) };
    let (pa, pb) = prefill_params(rng);
    let mut st = Stack::new();
    for i in 0..pre_n { st.push(prefill_word(i, pa, pb)).unwrap(); }
    // a few explicit boundary words on top of the pattern
    let mut extra = vec![];
    if forced_slice.is_none() { for _ in 0..rng.below(3) { if st.len() < LIMIT { let v = rng.u256b(); st.push(v).unwrap(); extra.push(v); } } }
    let nops = if forced_slice.is_some() { 1 } else if rng.chance(1, 12) { rng.range(100, 300) } else { rng.range(1, 40) } as usize;
    let mut ops: Vec<Op> = vec![];
    let mut obs: Vec<String> = vec![];
    let mut tags: Vec<&'static str> = vec![];
    let mut panicked = false;
    let mut fin_state: Option<Vec<U256>> = None;
    for _ in 0..nops {
        let len = st.len();
        let room = LIMIT - len;
        let op = if let Some(l) = forced_slice { Op::SlicePat(l, rng.below(65521), rng.below(65521)) } else {
            match rng.below(28) {
                0 | 1 | 2 => Op::Push(rng.u256b()),
                // keep the stack near its limit: refill after pops when it started near-full
                3 | 4 => if pre_n >= 1000 && len < 1022 { Op::Push(rng.u256b()) } else { Op::Pop },
                5 => Op::Pop,
                6 | 7 => Op::Peek(idx(rng, len, len as u64)),
                8 | 9 => Op::Set(idx(rng, len, len as u64), rng.u256b()),
                10 | 11 | 12 => Op::Dup(idx(rng, len, len as u64).wrapping_add(1).max(1)),
                13 | 14 => Op::Swap(idx(rng, len, (len as u64).saturating_sub(1)).wrapping_add(1).max(1)),
                15 | 16 | 17 => {
                    let n = idx(rng, len, (len as u64).saturating_sub(1));
                    let left = (len as u64).saturating_sub(1).saturating_sub(n);
                    let m = idx(rng, len, left).wrapping_add(1).max(1);
                    Op::Exchange(n, m)
                }
                18 | 19 | 20 => { let l = slice_len(rng, room).min(if rng.chance(1, 20) { usize::MAX } else { 300 }); if l <= 64 { Op::Slice(rng.bytes(l)) } else { Op::SlicePat(l, rng.below(65521), rng.below(65521)) } }
                21 => Op::B256(if rng.chance(1, 2) { rng.bytes(32) } else { rng.u256b().to_be_bytes::<32>().to_vec() }),
                22 => if len >= 1 { Op::PopUnsafe } else { Op::Pop },
                23 => if len >= 1 { Op::TopWrite(rng.u256b()) } else { Op::Push(rng.u256b()) },
                24 => if len >= 2 { Op::PopTopWrite(rng.u256b()) } else { Op::Push(rng.u256b()) },
                25 => if !o.release && rng.chance(1, 6) { if rng.chance(1, 2) { Op::Dup(0) } else { Op::Exchange(idx(rng, len, len as u64).min(1 << 40), 0) } } else { Op::Dup(1 + rng.below(16)) },
                26 => Op::Swap(1 + rng.below(16)),
                _ => { let l = rng.range(1, 32) as usize; Op::Slice(rng.bytes(l)) }
            }
        };
        // never run an overflowing usize addition in release (wraps, then raw-pointer UB)
        if let Op::Exchange(n, m) = &op { if o.release && (*n as u128 + *m as u128) > u64::MAX as u128 { continue; } }
        let before: Vec<U256> = st.data().clone();
        let r = apply(&mut st, &op);
        tags.push(op.tag());
        let pr = op.probes();
        ops.push(op);
        match r {
            Ok((kind, ret)) => {
                let d = st.data();
                match kind { 0 => {}, 0x5b => tags.push("err:underflow"), 0x5c => tags.push("err:overflow"), _ => tags.push("err:other") }
                if kind != 0 && *d != before { tags.push("error-changed-stack"); }
                obs.push(format!("({},{},{})", kind, d.len(), zu(obs_dig(ret, d, &pr))));
            }
            Err(_) => {
                let d = &before; // the precondition was violated: report the stack as it was
                obs.push(format!("(255,{},{})", d.len(), zu(obs_dig(U256::ZERO, d, &pr))));
                tags.push("precondition-panic");
                panicked = true;
                fin_state = Some(before.clone());
                break;
            }
        }
    }
    let fin = final_obs(&fin_state.unwrap_or_else(|| st.data().clone()));
    let _ = panicked;
    tags.push(if pre_n >= 1000 { "prefill:near-full" } else if pre_n <= 3 { "prefill:near-empty" } else { "prefill:mid" });
    let case = format!("(CStack {} {} {} {} {} {} {} {})", pre_n, zw(pa), zw(pb), zlist(extra.iter().map(|v| zw(*v))),
        zlist(ops.iter().map(|x| format!("({})", x.coq()))), zlist(obs), fin.0, fin.1);
    let human = format!("stack prefill={}*({:#x}+i*{:#x}) extra={:?} ops={}", pre_n, pa, pb, extra,
        ops.iter().map(|x| { let s = format!("{:?}", x); if s.len() > 120 { format!("{}..", &s[..120]) } else { s } }).collect::<Vec<_>>().join(","));
    tags.sort(); tags.dedup();
    w.push(case, human, ops.len() >= 2 || forced_slice.map_or(false, |l| l > 0), &tags);
}

// ---------------------------------------------------------------- opcode programs
fn run_program(spec: u8, eof: bool, gas: u64, pre: &[U256], code: &[u8]) -> (Vec<String>, Vec<U256>) {
    let contract = Contract::new(Bytes::new(), Bytecode::new_legacy(Bytes::from(code.to_vec())), None, Address::ZERO, None, Address::ZERO, U256::ZERO);
    let mut interp = Interpreter::new(contract, gas, false);
    interp.is_eof = eof; // as the unit tests of instructions/stack.rs do
    for w in pre { interp.stack.push(*w).unwrap(); }
    let log: Rc<RefCell<Vec<String>>> = Rc::new(RefCell::new(vec![]));
    let plain = match spec {
        0 => make_instruction_table::<DummyHost, BerlinSpec>(),
        1 => make_instruction_table::<DummyHost, LondonSpec>(),
        2 => make_instruction_table::<DummyHost, ShanghaiSpec>(),
        3 => make_instruction_table::<DummyHost, CancunSpec>(),
        _ => make_instruction_table::<DummyHost, PragueSpec>(),
    };
    let table: BoxedInstructionTable<'_, DummyHost> = make_boxed_instruction_table(&plain, |f| {
        let log = log.clone();
        Box::new(move |i: &mut Interpreter, h: &mut DummyHost| {
            f(i, h);
            let d = i.stack.data();
            log.borrow_mut().push(format!("({},{},{},{},{})", i.instruction_result as u8, zu(i.gas.remaining()), i.program_counter(), d.len(), zu(dig(&tops(d)))));
        })
    });
    let mut host = DummyHost::default();
    let _ = interp.run(SharedMemory::new(), &table, &mut host);
    let obs = log.borrow().clone();
    (obs, interp.stack.data().clone())
}

fn interp_case(rng: &mut Rng, w: &mut CaseWriter) {
    let spec = rng.below(5) as u8;
    let shanghai = spec >= 2;
    let eof = rng.chance(1, 2);
    let pre_n = gen_prefill(rng);
    let (pa, pb) = prefill_params(rng);
    let pre: Vec<U256> = (0..pre_n).map(|i| prefill_word(i, pa, pb)).collect();
    let nops = if rng.chance(1, 10) { rng.range(100, 300) } else { rng.range(1, 50) } as usize;
    let mut code: Vec<u8> = vec![];
    let mut len = pre_n; // simulated length, assuming success
    let mut tags: Vec<&'static str> = vec![];
    for k in 0..nops {
        let risky = rng.chance(1, 30);
        let c = rng.below(16);
        let last = k + 1 == nops;
        match c {
            0 | 1 => if len > 0 || risky { code.push(0x50); len = len.saturating_sub(1); tags.push("op:POP"); },
            2 => if (len < LIMIT || risky) && (shanghai || rng.chance(1, 8)) { code.push(0x5f); len += 1; tags.push("op:PUSH0"); },
            3 | 4 | 5 => if len < LIMIT || risky {
                let n = if rng.chance(1, 3) { *rng.pick(&[1usize, 7, 8, 9, 16, 24, 31, 32]) } else { rng.range(1, 32) as usize };
                code.push(0x5f + n as u8);
                // a truncated immediate at the very end of the code reads the zero padding
                let keep = if last && rng.chance(1, 3) { rng.below(n as u64 + 1) as usize } else { n };
                if keep < n { tags.push("truncated-push"); }
                let data = if rng.chance(1, 4) { rng.u256b().to_be_bytes::<32>()[32 - n..].to_vec() } else { rng.bytes(n) };
                code.extend_from_slice(&data[..keep]);
                len += 1; tags.push("op:PUSHn");
                if keep < n { break; }
            },
            6 | 7 | 8 => { let maxn = len.min(16); if (maxn > 0 && len < LIMIT) || risky { let n = if risky { rng.range(1, 16) } else { rng.range(1, maxn.max(1) as u64) }; code.push(0x7f + n as u8); len += 1; tags.push("op:DUPn"); } },
            9 | 10 | 11 => { let maxn = len.saturating_sub(1).min(16); if maxn > 0 || risky { let n = if risky { rng.range(1, 16) } else { rng.range(1, maxn.max(1) as u64) }; code.push(0x8f + n as u8); tags.push("op:SWAPn"); } },
            12 => if eof || rng.chance(1, 6) { let maxn = len.min(256); if (maxn > 0 && len < LIMIT) || risky { let n = if risky { rng.range(1, 256) } else { rng.range(1, maxn.max(1) as u64) }; code.push(0xe6); code.push((n - 1) as u8); len += 1; tags.push("op:DUPN"); } },
            13 => if eof || rng.chance(1, 6) { let maxn = len.saturating_sub(1).min(256); if maxn > 0 || risky { let n = if risky { rng.range(1, 256) } else { rng.range(1, maxn.max(1) as u64) }; code.push(0xe7); code.push((n - 1) as u8); tags.push("op:SWAPN"); } },
            _ => if eof || rng.chance(1, 6) {
                let imm = if risky || len < 3 { rng.below(256) as u8 } else {
                    let n = rng.range(1, (len as u64 - 2).min(16)); let m = rng.range(1, (len as u64 - 1 - n).min(16)); (((n - 1) << 4) | (m - 1)) as u8 };
                code.push(0xe8); code.push(imm); tags.push("op:EXCHANGE");
            },
        }
    }
    if rng.chance(1, 8) { code.push(*rng.pick(&[0xe6u8, 0xe7, 0xe8])); tags.push("eof-op-truncated-imm"); }
    let steps = code.len() as u64;
    let gas = match rng.below(8) { 0 => rng.below(3 * steps + 2), 1 => rng.below(12), _ => 1_000_000 + rng.below(1000) };
    let (obs, fin) = run_program(spec, eof, gas, &pre, &code);
    let (fs, fd) = final_obs(&fin);
    if let Some(l) = obs.last() {
        let k: u64 = l[1..].split(',').next().unwrap().parse().unwrap();
        tags.push(match k { 1 => "end:stop", 0x50 => "end:out-of-gas", 0x5b => "end:underflow", 0x5c => "end:overflow", 0x5a => "end:not-activated", 0x67 => "end:eof-op-in-legacy", _ => "end:other" });
    }
    tags.push(if eof { "eof" } else { "legacy" });
    tags.push(if pre_n >= 1000 { "prefill:near-full" } else if pre_n <= 3 { "prefill:near-empty" } else { "prefill:mid" });
    let case = format!("(CInterp {} {} {} {} {} {} {} {} {} {})", zb(eof), zb(shanghai), zu(gas), pre_n, zw(pa), zw(pb), zbytes(&code), zlist(obs.clone()), fs, fd);
    let human = format!("interp spec={} eof={} gas={} prefill={}*({:#x}+i*{:#x}) code=0x{}", ["BERLIN", "LONDON", "SHANGHAI", "CANCUN", "PRAGUE"][spec as usize], eof, gas, pre_n, pa, pb,
        code.iter().map(|b| format!("{:02x}", b)).collect::<String>());
    tags.sort(); tags.dedup();
    w.push(case, human, obs.len() >= 3, &tags);
}

pub fn run(o: &Opts) {
    let mut rng = Rng::new(o.seed ^ 0xC12);
    let mut w = CaseWriter::new(o, "C12", 100);
    let (n_stack, n_interp) = if o.thorough() { (12_000, 8_000) } else { (1_200, 800) };
    for _ in 0..n_stack { stack_case(&mut rng, o, &mut w, None); }
    for _ in 0..n_interp { interp_case(&mut rng, &mut w); }
    // push_slice alone over slice lengths 0 ..= 32*1024+64 on an (almost) empty stack:
    // quick: all lengths up to 200, the word boundaries around 1024 words and a stride;
    // thorough: every length up to 2100, then stride 7, plus the boundary region
    let max = 32 * 1024 + 64;
    let mut lens: Vec<usize> = vec![];
    if o.thorough() {
        lens.extend(0..=2100);
        lens.extend((2100..=max).step_by(7));
        lens.extend(32 * 1020..=max);
    } else {
        lens.extend(0..=200);
        lens.extend((200..=max).step_by(1021));
        lens.extend((32 * 1023 - 1)..=(32 * 1023 + 1));
        lens.extend((32 * 1024 - 33)..=(32 * 1024 - 31));
        lens.extend((32 * 1024 - 1)..=(32 * 1024 + 2));
        lens.push(max);
    }
    for l in lens { stack_case(&mut rng, o, &mut w, Some(l)); }
    w.finish("(a) histories of 1..300 calls (push/pop/peek/set/dup/swap/exchange/push_slice/push_b256 and the unsafe pop/top variants where their precondition holds) on the real revm_interpreter::Stack, prefilled to 1020..1024, 0..3 or a random size, arguments chosen from the live length plus boundary values, observed after every call (result, returned word, length, top 4 words, probed positions) and by a checksum/dump of the whole stack at the end; (b) programs of POP/PUSH0/PUSHn/DUPn/SWAPn/DUPN/SWAPN/EXCHANGE run by the real Interpreter::run (BERLIN..PRAGUE tables, legacy and is_eof), observed after every instruction; (c) push_slice alone for slice lengths 0..32*1024+64; non-trivial = at least 2 calls / 3 steps / a non-empty slice; distinct = distinct (input, observations)");
}
