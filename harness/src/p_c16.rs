//! C16 / C17 / C18: bundle algebra (BundleState, BundleAccount, TransitionAccount, Reverts).
//!
//! One history generator serves the three properties (`which` = 16, 17, 18 selects the
//! observations that are emitted).  Three streams:
//!   * `evm`    real `Evm` transactions on `State<CacheDB<EmptyDB>>` with `.with_bundle_update()`;
//!              the transitions are taken from a clone of the State's CacheState fed with the
//!              same EVM output, the State itself is driven through `commit` / `merge_transitions`;
//!   * `cache`  transitions produced by the real `CacheAccount` methods (all status pairs, incl.
//!              pre-EIP-161 touches), fed to `State::apply_transition` or directly to
//!              `TransitionState::add_transitions` + `BundleState::apply_transitions_and_create_reverts`;
//!   * `free`   out-of-contract transitions (arbitrary status pairs): only model = code is asked.
//! The harness keeps its own plain reference state (pre-state and the state after every
//! transaction), computed from the EVM output / the meaning of the cache operation.
use crate::util::*;
use revm::db::states::{
    plain_account::PlainStorage, AccountRevert, AccountStatus, BundleAccount, BundleState, CacheAccount,
    PlainStateReverts, StateChangeset, StorageSlot, TransitionAccount, TransitionState,
};
use revm::db::states::bundle_state::{BundleRetention, OriginalValuesKnown};
use revm::db::states::reverts::{AccountInfoRevert, Reverts};
use revm::db::{CacheDB, EmptyDB, RevertToSlot, State};
use revm::primitives::{
    keccak256, AccountInfo, Address, Bytecode, Bytes, EvmState, HashMap, SpecId, TxKind, B256, KECCAK_EMPTY, U256,
};
use revm::{DatabaseCommit, Evm};
use std::collections::BTreeMap;

// ------------------------------------------------------------------------------------ printing
fn za(a: &Address) -> String { zw(U256::from_be_slice(a.as_slice())) }
fn zh(h: &B256) -> String { zw(U256::from_be_bytes(h.0)) }
fn zcode(c: &Option<Bytecode>) -> String { zopt(c.as_ref().map(|b| zh(&b.hash_slow()))) }
fn zinfo(i: &AccountInfo) -> String { format!("({},{},{},{})", zw(i.balance), zu(i.nonce), zh(&i.code_hash), zcode(&i.code)) }
fn zoinfo(i: &Option<AccountInfo>) -> String { zopt(i.as_ref().map(zinfo)) }
fn st_code(s: AccountStatus) -> u64 {
    match s {
        AccountStatus::LoadedNotExisting => 0, AccountStatus::Loaded => 1, AccountStatus::LoadedEmptyEIP161 => 2,
        AccountStatus::InMemoryChange => 3, AccountStatus::Changed => 4, AccountStatus::Destroyed => 5,
        AccountStatus::DestroyedChanged => 6, AccountStatus::DestroyedAgain => 7,
    }
}
const ALL_ST: [AccountStatus; 8] = [AccountStatus::LoadedNotExisting, AccountStatus::Loaded, AccountStatus::LoadedEmptyEIP161,
    AccountStatus::InMemoryChange, AccountStatus::Changed, AccountStatus::Destroyed, AccountStatus::DestroyedChanged, AccountStatus::DestroyedAgain];
fn zstorage(s: &HashMap<U256, StorageSlot>) -> String {
    let m: BTreeMap<U256, StorageSlot> = s.iter().map(|(k, v)| (*k, *v)).collect();
    zlist(m.iter().map(|(k, v)| format!("({},{},{})", zw(*k), zw(v.previous_or_original_value), zw(v.present_value))))
}
fn ztrans(t: &TransitionAccount) -> String {
    format!("({},{},{},{},{},{})", zoinfo(&t.info), st_code(t.status), zoinfo(&t.previous_info), st_code(t.previous_status), zstorage(&t.storage), zb(t.storage_was_destroyed))
}
fn ztx(tx: &[(Address, TransitionAccount)]) -> String {
    zlist(tx.iter().map(|(a, t)| format!("({},{})", za(a), ztrans(t))))
}
fn ztstate(ts: &TransitionState) -> String {
    let m: BTreeMap<Address, &TransitionAccount> = ts.transitions.iter().map(|(k, v)| (*k, v)).collect();
    zlist(m.iter().map(|(a, t)| format!("({},{})", za(a), ztrans(t))))
}
fn zrevert(a: &Address, r: &AccountRevert) -> String {
    let (kind, info) = match &r.account {
        AccountInfoRevert::DoNothing => (0, None), AccountInfoRevert::DeleteIt => (1, None),
        AccountInfoRevert::RevertTo(i) => (2, Some(i.clone())),
    };
    let m: BTreeMap<U256, RevertToSlot> = r.storage.iter().map(|(k, v)| (*k, *v)).collect();
    let st = zlist(m.iter().map(|(k, v)| format!("({},{})", zw(*k), match v { RevertToSlot::Some(x) => format!("Some {}", zw(*x)), RevertToSlot::Destroyed => "None".into() })));
    format!("({},{},{},{},{},{})", za(a), kind, zoinfo(&info), st, st_code(r.previous_status), zb(r.wipe_storage))
}
fn zreverts(rs: &Reverts) -> String {
    zlist(rs.iter().map(|g| {
        let m: BTreeMap<Address, &AccountRevert> = g.iter().map(|(a, r)| (*a, r)).collect();
        assert_eq!(m.len(), g.len(), "duplicate address inside one revert group");
        zlist(m.iter().map(|(a, r)| zrevert(a, r)))
    }))
}
fn zbundle(b: &BundleState) -> String {
    let m: BTreeMap<Address, &BundleAccount> = b.state.iter().map(|(k, v)| (*k, v)).collect();
    let st = zlist(m.iter().map(|(a, x)| format!("({},{},{},{},{})", za(a), zoinfo(&x.info), zoinfo(&x.original_info), zstorage(&x.storage), st_code(x.status))));
    let c: BTreeMap<B256, &Bytecode> = b.contracts.iter().map(|(k, v)| (*k, v)).collect();
    let cs = zlist(c.iter().map(|(h, code)| format!("({},{})", zh(h), zh(&code.hash_slow()))));
    format!("({},{},{})", st, cs, zreverts(&b.reverts))
}
/// canonical (sorted by address / slot) rendering of a StateChangeset; duplicates are reported
fn zchangeset(c: &StateChangeset) -> (String, bool) {
    let mut dup = false;
    let mut acc: BTreeMap<Address, Option<AccountInfo>> = BTreeMap::new();
    for (a, i) in &c.accounts { if acc.insert(*a, i.clone()).is_some() { dup = true; } }
    let mut sto: BTreeMap<Address, (bool, BTreeMap<U256, U256>)> = BTreeMap::new();
    for s in &c.storage {
        let mut m = BTreeMap::new();
        for (k, v) in &s.storage { if m.insert(*k, *v).is_some() { dup = true; } }
        if sto.insert(s.address, (s.wipe_storage, m)).is_some() { dup = true; }
    }
    let mut con: BTreeMap<B256, B256> = BTreeMap::new();
    for (h, code) in &c.contracts { if con.insert(*h, code.hash_slow()).is_some() { dup = true; } }
    let s = format!("({},{},{})",
        zlist(acc.iter().map(|(a, i)| format!("({},{})", za(a), zoinfo(i)))),
        zlist(sto.iter().map(|(a, (w, m))| format!("({},{},{})", za(a), zb(*w), zlist(m.iter().map(|(k, v)| format!("({},{})", zw(*k), zw(*v))))))),
        zlist(con.iter().map(|(h, c)| format!("({},{})", zh(h), zh(c)))));
    (s, dup)
}
fn zplain_reverts(r: &PlainStateReverts) -> (String, bool) {
    let mut dup = false;
    let n = r.accounts.len().max(r.storage.len());
    if r.accounts.len() != r.storage.len() { dup = true; }
    let mut gs = vec![];
    for g in 0..n {
        let mut acc: BTreeMap<Address, Option<AccountInfo>> = BTreeMap::new();
        if let Some(v) = r.accounts.get(g) { for (a, i) in v { if acc.insert(*a, i.clone()).is_some() { dup = true; } } }
        let mut sto: BTreeMap<Address, (bool, BTreeMap<U256, RevertToSlot>)> = BTreeMap::new();
        if let Some(v) = r.storage.get(g) {
            for s in v {
                let mut m = BTreeMap::new();
                for (k, x) in &s.storage_revert { if m.insert(*k, *x).is_some() { dup = true; } }
                if sto.insert(s.address, (s.wiped, m)).is_some() { dup = true; }
            }
        }
        gs.push(format!("({},{})",
            zlist(acc.iter().map(|(a, i)| format!("({},{})", za(a), zoinfo(i)))),
            zlist(sto.iter().map(|(a, (w, m))| format!("({},{},{})", za(a), zb(*w),
                zlist(m.iter().map(|(k, v)| format!("({},{})", zw(*k), match v { RevertToSlot::Some(x) => format!("Some {}", zw(*x)), RevertToSlot::Destroyed => "None".into() }))))))));
    }
    (zlist(gs), dup)
}

// ------------------------------------------------------------------------------------ reference plain state
#[derive(Clone, Default, PartialEq, Eq, Debug)]
struct Plain(BTreeMap<Address, (U256, u64, B256, BTreeMap<U256, U256>)>);
impl Plain {
    fn coq(&self) -> String {
        zlist(self.0.iter().map(|(a, (b, n, h, s))| format!("({},({},{},{},None),{})", za(a), zw(*b), zu(*n), zh(h),
            zlist(s.iter().filter(|(_, v)| !v.is_zero()).map(|(k, v)| format!("({},{})", zw(*k), zw(*v)))))))
    }
    fn info(&self, a: &Address) -> Option<AccountInfo> {
        self.0.get(a).map(|(b, n, h, _)| AccountInfo { balance: *b, nonce: *n, code_hash: *h, code: None })
    }
    fn slot(&self, a: &Address, k: U256) -> U256 { self.0.get(a).and_then(|x| x.3.get(&k).copied()).unwrap_or_default() }
    fn set_info(&mut self, a: Address, i: &AccountInfo) {
        let e = self.0.entry(a).or_insert((U256::ZERO, 0, KECCAK_EMPTY, BTreeMap::new()));
        e.0 = i.balance; e.1 = i.nonce; e.2 = i.code_hash;
    }
    fn set_slot(&mut self, a: Address, k: U256, v: U256) {
        if let Some(e) = self.0.get_mut(&a) { if v.is_zero() { e.3.remove(&k); } else { e.3.insert(k, v); } }
    }
    fn clear_storage(&mut self, a: &Address) { if let Some(e) = self.0.get_mut(a) { e.3.clear(); } }
    /// meaning of an EVM output on the database (independent of CacheState)
    fn apply_evm(&mut self, st: &EvmState, state_clear: bool) {
        for (a, acc) in st.iter() {
            if !acc.is_touched() { continue; }
            if acc.is_selfdestructed() { self.0.remove(a); continue; }
            if acc.is_created() { self.0.remove(a); }
            if acc.is_empty() && state_clear { self.0.remove(a); continue; }
            self.set_info(*a, &acc.info);
            for (k, s) in acc.storage.iter() { self.set_slot(*a, *k, s.present_value); }
        }
    }
}

// ------------------------------------------------------------------------------------ histories
type Tx = Vec<(Address, TransitionAccount)>;
struct Hist {
    stream: &'static str,
    in_contract: bool,
    retain: bool,
    p0: Plain,
    groups: Vec<Vec<Tx>>,
    refs: Vec<Vec<Plain>>,          // reference state after every transaction
    ts_obs: Vec<Option<TransitionState>>, // merged TransitionState the implementation held before each merge
    bundles: Vec<BundleState>,      // the implementation's bundle after each merge (shorter if it panicked)
    panicked: bool,
    tags: Vec<String>,
    kinds: Option<Vec<Vec<Vec<(u8, u128)>>>>, // cache stream: which CacheAccount method produced each transition
}
fn retention(r: bool) -> BundleRetention { if r { BundleRetention::Reverts } else { BundleRetention::PlainState } }

fn addr(n: u64) -> Address { let mut b = [0u8; 20]; b[12..].copy_from_slice(&n.to_be_bytes()); Address::from(b) }
fn word_val(rng: &mut Rng) -> U256 {
    match rng.below(8) { 0 => U256::ZERO, 1 => U256::from(1), 2 => U256::MAX, 3 => rng.u256b(), _ => U256::from(rng.range(1, 9)) }
}

// ---- tiny assembler for the test contracts
enum A { Op(u8), P1(u8), PL(&'static str), L(&'static str) }
fn asm(code: &[A]) -> Vec<u8> {
    let mut pos = std::collections::HashMap::new();
    let mut pc = 0usize;
    for x in code { match x { A::Op(_) => pc += 1, A::P1(_) => pc += 2, A::PL(_) => pc += 3, A::L(n) => { pos.insert(*n, pc); pc += 1; } } }
    let mut out = vec![];
    for x in code {
        match x {
            A::Op(o) => out.push(*o), A::P1(v) => { out.push(0x60); out.push(*v); }
            A::PL(n) => { let p = pos[n]; out.push(0x61); out.push((p >> 8) as u8); out.push(p as u8); }
            A::L(_) => out.push(0x5b),
        }
    }
    out
}
/// runtime of the store contract: calldata size 0: stop; 32: selfdestruct(word0); 64: sstore(w0,w1);
/// otherwise: sstore(w0,w1); sstore(w2,w3)
fn store_runtime() -> Vec<u8> {
    use A::*;
    asm(&[Op(0x36), Op(0x80), Op(0x15), PL("stop"), Op(0x57),
        Op(0x80), P1(32), Op(0x14), PL("sd"), Op(0x57),
        Op(0x80), P1(64), Op(0x14), PL("one"), Op(0x57),
        P1(32), Op(0x35), P1(0), Op(0x35), Op(0x55), P1(96), Op(0x35), P1(64), Op(0x35), Op(0x55), Op(0x00),
        L("one"), P1(32), Op(0x35), P1(0), Op(0x35), Op(0x55), Op(0x00),
        L("sd"), P1(0), Op(0x35), Op(0xff),
        L("stop"), Op(0x00)])
}
/// init code: sstore(1, callvalue); sstore(2, number); return store_runtime
fn store_initcode() -> Vec<u8> {
    use A::*;
    let rt = store_runtime();
    let mut pre = asm(&[Op(0x34), P1(1), Op(0x55), Op(0x43), P1(2), Op(0x55)]);
    // codecopy(0, off, len); return(0, len)   (off patched below; prefix length is fixed: 6+ 2+2+2+1 +2+2+1 = 18)
    let off = pre.len() + 12;
    pre.extend(asm(&[P1(rt.len() as u8), P1(off as u8), P1(0), Op(0x39), P1(rt.len() as u8), P1(0), Op(0xf3)]));
    assert_eq!(pre.len(), off);
    pre.extend(rt);
    pre
}
/// factory: calldata = salt ++ initcode; create2(callvalue, 0, len, salt)
fn factory_runtime() -> Vec<u8> {
    use A::*;
    asm(&[P1(32), Op(0x36), Op(0x03), Op(0x80), P1(32), P1(0), Op(0x37), P1(0), Op(0x35), Op(0x90), P1(0), Op(0x34), Op(0xf5), Op(0x50), Op(0x00)])
}

fn w32(x: U256) -> [u8; 32] { x.to_be_bytes::<32>() }

/// real EVM execution
fn gen_evm(rng: &mut Rng, thorough: bool) -> Hist {
    let pre161 = rng.chance(1, 8);
    let spec = if pre161 { SpecId::TANGERINE } else if rng.chance(1, 5) { SpecId::CANCUN } else { *rng.pick(&[SpecId::SHANGHAI, SpecId::LONDON, SpecId::PETERSBURG]) };
    let state_clear = !pre161;
    let retain = rng.chance(4, 5);
    let mut tags = vec![format!("spec:{:?}", spec)];
    let eoas = [addr(0xE1), addr(0xE2), addr(0xE3)];
    let s1 = addr(0x51); let s2 = addr(0x52); let fac = addr(0xFA); let empty0 = addr(0x20); let none0 = addr(0x30); let none1 = addr(0x31);
    let coinbase = addr(0xCB);
    let rt = Bytecode::new_raw(Bytes::from(store_runtime()));
    let frt = Bytecode::new_raw(Bytes::from(factory_runtime()));
    let init = store_initcode();
    let init_hash = keccak256(&init);
    let children: Vec<Address> = (1u64..=2).map(|s| fac.create2(w32(U256::from(s)), init_hash)).collect();
    let mut db = CacheDB::new(EmptyDB::default());
    let mut p0 = Plain::default();
    let mut put = |db: &mut CacheDB<EmptyDB>, p0: &mut Plain, a: Address, i: AccountInfo, st: &[(u64, u64)]| {
        db.insert_account_info(a, i.clone());
        p0.set_info(a, &i);
        for (k, v) in st { db.insert_account_storage(a, U256::from(*k), U256::from(*v)).unwrap(); p0.set_slot(a, U256::from(*k), U256::from(*v)); }
    };
    for e in eoas.iter() { put(&mut db, &mut p0, *e, AccountInfo { balance: U256::from(1_000_000u64), nonce: rng.below(3), code_hash: KECCAK_EMPTY, code: None }, &[]); }
    put(&mut db, &mut p0, s1, AccountInfo { balance: U256::from(rng.below(3)), nonce: 1, code_hash: rt.hash_slow(), code: Some(rt.clone()) }, &[(1, 7), (2, 5)]);
    if rng.chance(1, 2) { put(&mut db, &mut p0, s2, AccountInfo { balance: U256::ZERO, nonce: 1, code_hash: rt.hash_slow(), code: Some(rt.clone()) }, &[(3, 9)]); }
    put(&mut db, &mut p0, fac, AccountInfo { balance: U256::ZERO, nonce: 1, code_hash: frt.hash_slow(), code: Some(frt.clone()) }, &[]);
    if pre161 || rng.chance(1, 2) { put(&mut db, &mut p0, empty0, AccountInfo { balance: U256::ZERO, nonce: 0, code_hash: KECCAK_EMPTY, code: None }, &[]); }
    if rng.chance(1, 3) { put(&mut db, &mut p0, children[0], AccountInfo { balance: U256::from(3), nonce: 0, code_hash: KECCAK_EMPTY, code: None }, &[]); }
    // a contract that already lives (with storage) at a CREATE2 address: destroy + re-create in one group
    if !pre161 && rng.chance(1, 3) { put(&mut db, &mut p0, children[1], AccountInfo { balance: U256::from(1), nonce: 1, code_hash: rt.hash_slow(), code: Some(rt.clone()) }, &[(1, 7), (2, 5), (3, 6)]); }
    let mut sb = State::builder().with_database(db).with_bundle_update();
    if !state_clear { sb = sb.without_state_clear(); }
    let mut state = sb.build();
    let mut cur = p0.clone();
    let n_groups = rng.range(1, if thorough { 6 } else { 5 }) as usize;
    let sched = rng.below(3); // 0: one tx per group, 1: k txs, 2: random
    let mut groups = vec![]; let mut refs = vec![]; let mut ts_obs = vec![]; let mut bundles = vec![];
    let mut panicked = false;
    let mut blockno = 1u64;
    'outer: for _ in 0..n_groups {
        let ntx = match sched { 0 => 1, 1 => 3, _ => rng.range(1, 4) } as usize;
        let mut g = vec![]; let mut gr = vec![];
        for _ in 0..ntx {
            blockno += 1;
            let targets_sd: Vec<Address> = [s1, s2, children[0], children[1]].into_iter().collect();
            let kind = rng.below(12);
            // balance-level operations of State itself
            if kind == 10 {
                let a = *rng.pick(&[eoas[0], s1, none0, none1, empty0, children[0], children[1], coinbase]);
                let amt = rng.range(1, 5) as u128;
                let mut ca = state.load_cache_account(a).unwrap().clone();
                let t = ca.increment_balance(amt).unwrap();
                state.increment_balances(vec![(a, amt)]).unwrap();
                if state.cache.accounts.get(&a) != Some(&ca) { tags.push("shadow-cache-differs".into()); }
                let tx: Tx = vec![(a, t)];
                let mut i = cur.info(&a).unwrap_or(AccountInfo { balance: U256::ZERO, nonce: 0, code_hash: KECCAK_EMPTY, code: None });
                i.balance = i.balance.saturating_add(U256::from(amt));
                cur.set_info(a, &i);
                tags.push("op:increment_balances".into());
                g.push(tx); gr.push(cur.clone());
                continue;
            }
            if kind == 11 {
                let cands: Vec<Address> = [eoas[1], eoas[2], s1, children[0]].into_iter().filter(|a| cur.0.contains_key(a)).collect();
                if !cands.is_empty() {
                    let a = *rng.pick(&cands);
                    let mut ca = state.load_cache_account(a).unwrap().clone();
                    let (_, t) = ca.drain_balance();
                    state.drain_balances(vec![a]).unwrap();
                    if state.cache.accounts.get(&a) != Some(&ca) { tags.push("shadow-cache-differs".into()); }
                    let tx: Tx = vec![(a, t)];
                    let mut i = cur.info(&a).unwrap();
                    i.balance = U256::ZERO;
                    cur.set_info(a, &i);
                    tags.push("op:drain_balances".into());
                    g.push(tx); gr.push(cur.clone());
                    continue;
                }
            }
            let caller = *rng.pick(&eoas);
            let (to, data, value, tag): (TxKind, Vec<u8>, U256, &str) = match kind {
                0 => { // plain transfer (possibly zero value: touch)
                    let t = *rng.pick(&[eoas[0], none0, none1, empty0, s1, children[0], coinbase]);
                    (TxKind::Call(t), vec![], U256::from(*rng.pick(&[0u64, 0, 1, 5])), "tx:transfer")
                }
                1 | 2 => { // store
                    let t = *rng.pick(&[s1, s1, s2, children[0], children[1]]);
                    let k = U256::from(rng.range(1, 3));
                    let orig = cur.slot(&t, k);
                    let v = match rng.below(4) { 0 => U256::ZERO, 1 => orig, 2 => p0.slot(&t, k), _ => word_val(rng) };
                    let mut d = w32(k).to_vec(); d.extend(w32(v));
                    (TxKind::Call(t), d, U256::from(rng.below(2)), "tx:sstore")
                }
                3 => { // two stores, possibly back to the original inside one transaction
                    let t = *rng.pick(&[s1, s2, children[0], children[1]]);
                    let k = U256::from(rng.range(1, 3));
                    let orig = cur.slot(&t, k);
                    let k2 = if rng.chance(2, 3) { k } else { U256::from(rng.range(1, 3)) };
                    let v2 = if rng.chance(1, 2) { orig } else { word_val(rng) };
                    let mut d = w32(k).to_vec(); d.extend(w32(word_val(rng))); d.extend(w32(k2)); d.extend(w32(v2));
                    (TxKind::Call(t), d, U256::ZERO, "tx:sstore2")
                }
                4 | 5 => { // selfdestruct to self / others / non-existing
                    let t = *rng.pick(&targets_sd);
                    let b = *rng.pick(&[t, eoas[0], none0, empty0]);
                    (TxKind::Call(t), w32(U256::from_be_slice(b.as_slice())).to_vec(), U256::from(rng.below(2)), "tx:selfdestruct")
                }
                6 | 7 => { // create2 through the factory (same salt => same address: re-creation)
                    let s = rng.range(1, 2);
                    let mut d = w32(U256::from(s)).to_vec(); d.extend(init.clone());
                    (TxKind::Call(fac), d, U256::from(*rng.pick(&[0u64, 0, 4, 9])), "tx:create2")
                }
                8 => (TxKind::Create, init.clone(), U256::from(rng.below(3)), "tx:create"),
                _ => { // call with no data to a contract (touch, no change)
                    let t = *rng.pick(&[s1, s2, children[0], fac]);
                    (TxKind::Call(t), vec![], U256::ZERO, "tx:touch")
                }
            };
            let res = {
                let mut evm = Evm::builder().with_db(&mut state).with_spec_id(spec)
                    
                    .modify_block_env(|b| { b.number = U256::from(blockno); b.coinbase = coinbase; b.basefee = U256::ZERO; b.gas_limit = U256::from(30_000_000u64); })
                    .modify_tx_env(|tx| { tx.caller = caller; tx.transact_to = to; tx.data = Bytes::from(data.clone()); tx.value = value; tx.gas_limit = 1_000_000; tx.gas_price = U256::ZERO; tx.nonce = None; })
                    .build();
                evm.transact()
            };
            let rs = match res { Ok(r) => r, Err(_) => { tags.push("tx:rejected".into()); continue; } };
            if !rs.result.is_success() { tags.push(format!("{}:failed", tag)); } else { tags.push(tag.into()); }
            // transitions: the same computation State::commit performs, on a clone of its cache
            let mut shadow = state.cache.clone();
            let mut tx: Tx = shadow.apply_evm_state(rs.state.clone());
            tx.sort_by_key(|(a, _)| *a);
            cur.apply_evm(&rs.state, state_clear);
            state.commit(rs.state);
            if state.cache != shadow { tags.push("shadow-cache-differs".into()); }
            g.push(tx); gr.push(cur.clone());
        }
        let ts = state.transition_state.clone();
        let r = catch(|| { state.merge_transitions(retention(retain)); });
        ts_obs.push(ts);
        groups.push(g); refs.push(gr);
        if r.is_err() { panicked = true; break 'outer; }
        bundles.push(state.bundle_state.clone());
    }
    tags.push(format!("sched:{}", ["per-tx", "every-3", "random"][sched as usize]));
    Hist { stream: "evm", in_contract: true, retain, p0, groups, refs, ts_obs, bundles, panicked, tags, kinds: None }
}

// ------------------------------------------------------------------------------------ cache-level stream
fn load_cache(p: &Plain, a: &Address) -> CacheAccount {
    match p.info(a) {
        None => CacheAccount::new_loaded_not_existing(),
        Some(i) if i.is_empty() => CacheAccount::new_loaded_empty_eip161(PlainStorage::default()),
        Some(i) => CacheAccount::new_loaded(i, PlainStorage::default()),
    }
}
fn empty_info() -> AccountInfo { AccountInfo { balance: U256::ZERO, nonce: 0, code_hash: KECCAK_EMPTY, code: None } }

/// transitions produced by the real CacheAccount methods, chosen so that an EVM could have caused them
/// `churn`: two addresses only and mostly selfdestruct / re-creation with storage, several
/// transactions per merged group: accounts that are destroyed, re-created and destroyed again
/// within and across groups (DestroyedChanged / DestroyedAgain paths of update_and_create_revert,
/// extend over an account destroyed in both halves).
fn gen_cache(rng: &mut Rng, thorough: bool, churn: bool) -> Hist {
    let state_clear = rng.chance(3, 4);
    let direct = rng.chance(1, 2);
    let retain = rng.chance(4, 5);
    let mut tags = vec![format!("state_clear:{}", state_clear), format!("feed:{}", if direct { "TransitionState+BundleState" } else { "State::apply_transition" })];
    let codes: Vec<Bytecode> = (0..3u8).map(|i| Bytecode::new_raw(Bytes::from(vec![0x60, i, 0x00]))).collect();
    let addrs: Vec<Address> = (1..=if churn { 2 } else { 5u64 }).map(addr).collect();
    if churn { tags.push("churn".into()); }
    let mut p0 = Plain::default();
    for a in &addrs {
        match if churn { *rng.pick(&[0u64, 3, 4, 4]) } else { rng.below(6) } {
            0 | 1 => {}
            2 => p0.set_info(*a, &AccountInfo { balance: U256::from(rng.range(1, 9)), nonce: 0, code_hash: KECCAK_EMPTY, code: None }),
            3 => p0.set_info(*a, &AccountInfo { balance: U256::from(rng.below(9)), nonce: rng.range(1, 3), code_hash: KECCAK_EMPTY, code: None }),
            4 => { let c = rng.pick(&codes).clone();
                   p0.set_info(*a, &AccountInfo { balance: U256::from(rng.below(4)), nonce: 1, code_hash: c.hash_slow(), code: None });
                   for k in 1..=3u64 { if rng.chance(1, 2) { p0.set_slot(*a, U256::from(k), U256::from(rng.range(1, 9))); } } }
            _ => { if !state_clear || rng.chance(1, 2) { p0.set_info(*a, &empty_info()); if !state_clear && rng.chance(1, 3) { p0.set_slot(*a, U256::from(1), U256::from(4)); } } }
        }
    }
    let mut cur = p0.clone();
    let mut cache: BTreeMap<Address, CacheAccount> = BTreeMap::new();
    let n_groups = if churn { rng.range(2, 6) } else { rng.range(1, if thorough { 7 } else { 5 }) } as usize;
    let sched = if churn { 1 + rng.below(2) } else { rng.below(3) };
    let mut groups = vec![]; let mut refs = vec![]; let mut ts_obs = vec![]; let mut bundles = vec![];
    let mut kinds: Vec<Vec<Vec<(u8, u128)>>> = vec![];
    let mut panicked = false;
    let mut state = State::builder().with_bundle_update().build();
    let mut ts_direct = TransitionState::default();
    let mut bundle_direct = BundleState::default();
    for _ in 0..n_groups {
        let ntx = match sched { 0 => 1, 1 => 3, _ => rng.range(1, 5) } as usize;
        let mut g = vec![]; let mut gr = vec![]; let mut gk = vec![];
        for _ in 0..ntx {
            let mut tx: Tx = vec![];
            let mut txk: Vec<(u8, u128)> = vec![];
            let nops = rng.range(1, 3) as usize;
            let mut used: Vec<Address> = vec![];
            for _ in 0..nops {
                let a = *rng.pick(&addrs);
                if used.contains(&a) { continue; }
                let ca = cache.entry(a).or_insert_with(|| load_cache(&cur, &a));
                let info = cur.info(&a);
                let exists = info.is_some();
                let is_empty = info.as_ref().map(|i| i.is_empty()).unwrap_or(true);
                let plain_acct = info.as_ref().map(|i| i.code_hash == KECCAK_EMPTY && i.nonce == 0).unwrap_or(true);
                let has_code = info.as_ref().map(|i| i.code_hash != KECCAK_EMPTY).unwrap_or(false);
                let sto_empty = cur.0.get(&a).map(|x| x.3.is_empty()).unwrap_or(true);
                let touch_ok = !matches!(ca.status, AccountStatus::Loaded | AccountStatus::Changed);
                let mk_storage = |rng: &mut Rng, cur: &Plain, fresh: bool| -> HashMap<U256, StorageSlot> {
                    let mut m = HashMap::default();
                    for k in 1..=3u64 {
                        if rng.chance(1, 2) {
                            let o = if fresh { U256::ZERO } else { cur.slot(&a, U256::from(k)) };
                            let v = match rng.below(4) { 0 => U256::ZERO, 1 => p0.slot(&a, U256::from(k)), _ => U256::from(rng.range(1, 9)) };
                            if v != o { m.insert(U256::from(k), StorageSlot::new_changed(o, v)); }
                        }
                    }
                    m
                };
                let mut kind: (u8, u128) = (9, 0);
                let t: Option<TransitionAccount> = match if churn { *rng.pick(&[0u64, 3, 3, 4, 5, 5, 6, 3, 5, 8]) } else { rng.below(10) } {
                    0 | 1 | 2 => { // change
                        let mut ni = ca.account_info().unwrap_or_else(empty_info);
                        match rng.below(4) { 0 => ni.balance = ni.balance.saturating_add(U256::from(rng.range(1, 5))),
                            1 => ni.balance = ni.balance.saturating_sub(U256::from(rng.range(0, 2))), 2 => ni.nonce += 1, _ => {} }
                        if ni.is_empty() { ni.balance = U256::from(1); }
                        let st = if has_code { mk_storage(rng, &cur, false) } else { HashMap::default() };
                        cur.set_info(a, &ni);
                        for (k, s) in st.iter() { cur.set_slot(a, *k, s.present_value); }
                        tags.push("op:change".into()); kind = (0, 0);
                        Some(ca.change(ni, st))
                    }
                    3 | 4 if plain_acct && sto_empty => { // newly created contract
                        let c = rng.pick(&codes).clone();
                        let with_code = rng.chance(3, 4);
                        let ni = AccountInfo { balance: info.as_ref().map(|i| i.balance).unwrap_or_default().saturating_add(U256::from(rng.below(3))), nonce: 1,
                            code_hash: if with_code { c.hash_slow() } else { KECCAK_EMPTY }, code: if with_code { Some(c) } else { Some(Bytecode::default()) } };
                        let mut ni = ni;
                        let mut st = mk_storage(rng, &cur, true);
                        // churn: sometimes the new incarnation is exactly the account of the pre-state (same balance,
                        // nonce, code) and its constructor writes nothing: the only thing that changed is the wiped storage
                        if churn && rng.chance(1, 3) {
                            if let Some(old) = p0.info(&a) {
                                if let Some(c0) = codes.iter().find(|c| c.hash_slow() == old.code_hash) {
                                    ni = AccountInfo { balance: old.balance, nonce: old.nonce, code_hash: old.code_hash, code: Some(c0.clone()) };
                                    st = HashMap::default();
                                    tags.push("op:recreated-identical".into());
                                }
                            }
                        }
                        cur.0.remove(&a);
                        cur.set_info(a, &ni);
                        for (k, s) in st.iter() { cur.set_slot(a, *k, s.present_value); }
                        tags.push("op:newly_created".into()); kind = (1, 0);
                        Some(ca.newly_created(ni, st))
                    }
                    5 | 6 if exists || rng.chance(1, 4) => { cur.0.remove(&a); tags.push("op:selfdestruct".into()); kind = (2, 0); ca.selfdestruct() }
                    7 if is_empty && touch_ok => {
                        if state_clear { cur.0.remove(&a); tags.push("op:touch_empty_eip161".into()); kind = (3, 0); ca.touch_empty_eip161() }
                        else {
                            let st = HashMap::default();
                            let had = exists;
                            if !had { cur.set_info(a, &empty_info()); }
                            tags.push("op:touch_create_pre_eip161".into()); kind = (4, 0);
                            ca.touch_create_pre_eip161(st)
                        }
                    }
                    8 => { let amt = rng.range(1, 4) as u128; let mut ni = info.clone().unwrap_or_else(empty_info); ni.balance = ni.balance.saturating_add(U256::from(amt));
                           cur.set_info(a, &ni); tags.push("op:increment_balance".into()); kind = (5, amt); ca.increment_balance(amt) }
                    9 if exists => { let mut ni = info.clone().unwrap(); ni.balance = U256::ZERO; cur.set_info(a, &ni); tags.push("op:drain_balance".into()); kind = (6, 0); Some(ca.drain_balance().1) }
                    _ => None,
                };
                if let Some(t) = t { used.push(a); tx.push((a, t)); txk.push(kind); }
            }
            if direct { ts_direct.add_transitions(tx.clone()); } else { state.apply_transition(tx.clone()); }
            g.push(tx); gr.push(cur.clone()); gk.push(txk);
        }
        let ts = if direct { Some(ts_direct.clone()) } else { state.transition_state.clone() };
        let r = catch(|| {
            if direct { bundle_direct.apply_transitions_and_create_reverts(ts_direct.take(), retention(retain)); }
            else { state.merge_transitions(retention(retain)); }
        });
        ts_obs.push(ts); groups.push(g); refs.push(gr); kinds.push(gk);
        if r.is_err() { panicked = true; break; }
        bundles.push(if direct { bundle_direct.clone() } else { state.bundle_state.clone() });
    }
    tags.push(format!("sched:{}", ["per-tx", "every-3", "random"][sched as usize]));
    Hist { stream: "cache", in_contract: true, retain, p0, groups, refs, ts_obs, bundles, panicked, tags, kinds: Some(kinds) }
}

/// out-of-contract stream: arbitrary transitions (any status pair); only model = code is asked
fn gen_free(rng: &mut Rng) -> Hist {
    let retain = rng.chance(4, 5);
    let addrs: Vec<Address> = (1..=3u64).map(addr).collect();
    let code = Bytecode::new_raw(Bytes::from(vec![0x00]));
    let rinfo = |rng: &mut Rng| -> Option<AccountInfo> {
        match rng.below(4) { 0 => None,
            1 => Some(AccountInfo { balance: U256::from(rng.below(3)), nonce: rng.below(2), code_hash: KECCAK_EMPTY, code: None }),
            2 => Some(AccountInfo { balance: U256::from(rng.below(3)), nonce: 1, code_hash: code.hash_slow(), code: Some(code.clone()) }),
            _ => Some(AccountInfo::default()) }
    };
    let n_groups = rng.range(1, 4) as usize;
    let mut groups = vec![]; let mut ts_obs = vec![]; let mut bundles = vec![]; let mut refs = vec![];
    let mut panicked = false;
    let mut ts = TransitionState::default();
    let mut bundle = BundleState::default();
    let mut last: BTreeMap<Address, (AccountStatus, Option<AccountInfo>)> = BTreeMap::new();
    for _ in 0..n_groups {
        let mut g = vec![];
        for _ in 0..rng.range(1, 3) {
            let mut tx: Tx = vec![];
            let a = *rng.pick(&addrs);
            let (ps, pi) = if rng.chance(3, 4) { last.get(&a).cloned().unwrap_or((*rng.pick(&ALL_ST), rinfo(rng))) } else { (*rng.pick(&ALL_ST), rinfo(rng)) };
            let s = *rng.pick(&ALL_ST);
            let mut st = HashMap::default();
            for k in 1..=3u64 { if rng.chance(1, 3) { st.insert(U256::from(k), StorageSlot::new_changed(U256::from(rng.below(3)), U256::from(rng.below(3)))); } }
            let t = TransitionAccount { info: rinfo(rng), status: s, previous_info: pi, previous_status: ps, storage: st, storage_was_destroyed: rng.chance(1, 3) };
            last.insert(a, (t.status, t.info.clone()));
            tx.push((a, t));
            ts.add_transitions(tx.clone());
            g.push(tx);
        }
        let snap = Some(ts.clone());
        let r = catch(|| bundle.apply_transitions_and_create_reverts(ts.take(), retention(retain)));
        ts_obs.push(snap); refs.push(g.iter().map(|_| Plain::default()).collect()); groups.push(g);
        if r.is_err() { panicked = true; break; }
        bundles.push(bundle.clone());
    }
    let tags = vec![if panicked { "free:panicked".to_string() } else { "free:ok".to_string() }];
    Hist { stream: "free", in_contract: false, retain, p0: Plain::default(), groups, refs, ts_obs, bundles, panicked, tags, kinds: None }
}

// ------------------------------------------------------------------------------------ observations
fn cs2(b: &BundleState, dup: &mut bool) -> String {
    let (y, d1) = zchangeset(&b.to_plain_state(OriginalValuesKnown::Yes));
    let (n, d2) = zchangeset(&b.to_plain_state(OriginalValuesKnown::No));
    if d1 || d2 { *dup = true; }
    format!("({},{})", y, n)
}
fn base(h: &Hist, dup: bool) -> String {
    format!("(mkBase {} {} {} {} {} {} {})", zb(h.in_contract), zb(h.retain), h.p0.coq(),
        zlist(h.groups.iter().map(|g| zlist(g.iter().map(|tx| ztx(tx))))),
        zlist(h.refs.iter().map(|g| zlist(g.iter().map(|p| p.coq())))), zb(h.panicked), zb(dup))
}
fn fresh_from(h: &Hist, from: usize) -> Result<BundleState, String> {
    let mut b = BundleState::default();
    catch(|| {
        for ts in h.ts_obs[from..h.bundles.len()].iter() {
            b.apply_transitions_and_create_reverts(ts.clone().unwrap_or_default(), retention(h.retain));
        }
        b
    })
}

/// The second half as a separately built bundle: the recorded operations of groups from.. are
/// applied again by the real CacheAccount methods on a fresh cache loaded from the plain state
/// after group `from` (as a State over the database after block i would), so that no status is
/// inherited from the first half. Returns the transitions per group and the bundle.
fn fresh_second_half(h: &Hist, from: usize) -> Option<Result<(Vec<Vec<Tx>>, BundleState), String>> {
    let kinds = h.kinds.as_ref()?;
    let n = h.bundles.len();
    let mut cur = if from == 0 { h.p0.clone() } else { h.refs[from - 1].last().cloned().unwrap_or_else(|| h.p0.clone()) };
    let mut cache: BTreeMap<Address, CacheAccount> = BTreeMap::new();
    let mut out: Vec<Vec<Tx>> = vec![];
    for g in from..n {
        let mut gg = vec![];
        for (t, tx) in h.groups[g].iter().enumerate() {
            let mut ntx: Tx = vec![];
            for (j, (a, rec)) in tx.iter().enumerate() {
                let ca = cache.entry(*a).or_insert_with(|| load_cache(&cur, a));
                let (k, amt) = kinds[g][t][j];
                let nt = match k {
                    0 => Some(ca.change(rec.info.clone().unwrap_or_else(empty_info), rec.storage.clone())),
                    1 => Some(ca.newly_created(rec.info.clone().unwrap_or_else(empty_info), rec.storage.clone())),
                    2 => ca.selfdestruct(),
                    3 => ca.touch_empty_eip161(),
                    4 => ca.touch_create_pre_eip161(rec.storage.clone()),
                    5 => ca.increment_balance(amt),
                    6 => Some(ca.drain_balance().1),
                    _ => None,
                };
                if let Some(nt) = nt { ntx.push((*a, nt)); }
            }
            cur = h.refs[g][t].clone();
            gg.push(ntx);
        }
        out.push(gg);
    }
    let groups = out.clone();
    Some(catch(move || {
        let mut b = BundleState::default();
        for gg in out {
            let mut ts = TransitionState::default();
            for tx in gg { ts.add_transitions(tx); }
            b.apply_transitions_and_create_reverts(ts, retention(h.retain));
        }
        b
    }).map(|b| (groups, b)))
}

fn emit16(h: &Hist) -> String {
    let mut dup = false;
    let css = zlist(h.bundles.iter().map(|b| cs2(b, &mut dup)));
    let tso = zlist(h.ts_obs.iter().map(|t| t.as_ref().map(ztstate).unwrap_or("[]".into())));
    let fin = zopt(h.bundles.last().map(zbundle));
    format!("(mkCase16 {} {} {} {})", base(h, dup), tso, fin, css)
}
fn emit17(h: &Hist) -> String {
    let mut dup = false;
    let n = h.bundles.len();
    let (pr, d) = match h.bundles.last() { Some(b) => zplain_reverts(&b.to_plain_state_and_reverts(OriginalValuesKnown::No).1), None => ("[]".into(), false) };
    if d { dup = true; }
    let mut revs = vec![];
    if let Some(b) = h.bundles.last() {
        for j in 1..=n {
            let mut c = b.clone();
            let r = catch(|| { c.revert(j); c });
            match r { Ok(c) => revs.push(format!("(Some ({},{}))", zbundle(&c), cs2(&c, &mut dup))), Err(_) => revs.push("None".into()) }
        }
    }
    // revert_latest one at a time must agree with revert(j): observed through the return flag
    let mut flags = vec![];
    if let Some(b) = h.bundles.last() { let mut c = b.clone(); for _ in 0..n + 1 { flags.push(zb(c.revert_latest()).to_string()); } }
    format!("(mkCase17 {} {} {} {})", base(h, dup), pr, zlist(revs), zlist(flags))
}
fn emit18(h: &Hist, rng: &mut Rng) -> String {
    let mut dup = false;
    let n = h.bundles.len();
    let mono = match h.bundles.last() {
        Some(b) => { let (pr, d) = zplain_reverts(&b.reverts.to_plain_state_reverts()); if d { dup = true; } format!("(Some ({},{}))", cs2(b, &mut dup), pr) }
        None => "None".into(),
    };
    let mut splits = vec![];
    for i in 1..n {
        let b1 = h.bundles[i - 1].clone();
        let b2 = match fresh_from(h, i) { Ok(b) => b, Err(_) => { splits.push("None".into()); continue; } };
        let ext = catch(|| { let mut e = b1.clone(); e.extend(b2.clone()); e });
        let pre = catch(|| { let mut p = b2.clone(); p.prepend_state(b1.clone()); p });
        match (ext, pre) {
            (Ok(e), Ok(p)) => {
                let (pr, d) = zplain_reverts(&e.reverts.to_plain_state_reverts()); if d { dup = true; }
                let (b2n, d2) = zchangeset(&b2.to_plain_state(OriginalValuesKnown::No)); if d2 { dup = true; }
                splits.push(format!("(Some ({},{},{},{},{},{}))", zbundle(&e), cs2(&e, &mut dup), pr, zbundle(&p), cs2(&p, &mut dup), b2n));
            }
            _ => splits.push("None".into()),
        }
    }
    // the same split points with the second half built on its own (no inherited statuses)
    let mut fsplits = vec![];
    if h.kinds.is_some() && !h.panicked {
        for i in 1..n {
            let b1 = h.bundles[i - 1].clone();
            match fresh_second_half(h, i) {
                Some(Ok((fg, b2))) => match catch(|| { let mut e = b1.clone(); e.extend(b2.clone()); e }) {
                    Ok(e) => {
                        let (pr, d) = zplain_reverts(&e.reverts.to_plain_state_reverts()); if d { dup = true; }
                        fsplits.push(format!("(Some ({},{},{},{}))", zlist(fg.iter().map(|g| zlist(g.iter().map(|tx| ztx(tx))))), zbundle(&e), cs2(&e, &mut dup), pr));
                    }
                    Err(_) => fsplits.push("None".into()),
                },
                _ => fsplits.push("None".into()),
            }
        }
    }
    let take = match h.bundles.last() {
        Some(b) => {
            let m = match rng.below(4) { 0 => 0, 1 => n, 2 => n + 1, _ => rng.below(n as u64 + 1) as usize };
            let mut c = b.clone();
            let det = c.take_n_reverts(m);
            let mut c2 = b.clone();
            let all = c2.take_all_reverts();
            format!("(Some ({},{},{},{},{}))", m, zreverts(&det), zbundle(&c), zreverts(&all), zbundle(&c2))
        }
        None => "None".into(),
    };
    format!("(mkCase18 {} {} {} {} {})", base(h, dup), mono, zlist(splits), take, zlist(fsplits))
}

pub fn run(o: &Opts, which: u32) {
    let mut rng = Rng::new(o.seed ^ 0xC16);
    let module = format!("C{}", which);
    let mut w = CaseWriter::new(o, &module, 40);
    let n = if o.thorough() { 4000 } else { 400 };
    for i in 0..n {
        let h = match i % 10 { 0 | 1 | 2 => gen_evm(&mut rng, o.thorough()), 9 => gen_free(&mut rng), 7 | 8 => gen_cache(&mut rng, o.thorough(), true), _ => gen_cache(&mut rng, o.thorough(), false) };
        let mut sub = Rng::new(o.seed ^ (i as u64) << 8 ^ 0x18);
        let case = match which { 16 => emit16(&h), 17 => emit17(&h), _ => emit18(&h, &mut sub) };
        let ntx: usize = h.groups.iter().map(|g| g.iter().map(|t| t.len()).sum::<usize>()).sum();
        let human = format!("stream={} retain={} panicked={} p0={} groups={}", h.stream, h.retain, h.panicked, h.p0.coq(),
            zlist(h.groups.iter().map(|g| zlist(g.iter().map(|tx| ztx(tx))))));
        let mut tags: Vec<String> = vec![format!("stream:{}", h.stream), format!("retain:{}", h.retain), format!("groups:{}", h.groups.len())];
        if h.panicked { tags.push("implementation-panicked".into()); }
        let mut seen = std::collections::BTreeSet::new();
        for t in &h.tags { if seen.insert(t.clone()) { tags.push(t.clone()); } }
        // status pairs that reached the bundle
        for ts in h.ts_obs.iter().flatten() { for (_, t) in ts.transitions.iter() { let s = format!("merged:{:?}->{:?}", t.previous_status, t.status); if seen.insert(s.clone()) { tags.push(s); } } }
        let tr: Vec<&str> = tags.iter().map(|s| s.as_str()).collect();
        w.push(case, human, ntx >= 2, &tr);
    }
    w.finish("histories of account transitions: 30% real Evm transactions on State<CacheDB<EmptyDB>> (transfers, touches, SSTOREs incl. back to original / zero, SELFDESTRUCT to self/others/non-existing, CREATE2 re-creation at the same address, CREATE, increment_balances, drain_balances; TANGERINE..CANCUN), 60% transitions produced by the real CacheAccount methods (all reachable status pairs, with and without state clear; a third of them as 'churn' histories: two addresses, mostly selfdestruct / re-creation with storage, several transactions per merged group) fed through State::apply_transition or TransitionState/BundleState directly, 10% out-of-contract transitions (arbitrary status pairs, model = code only); merge schedules per tx / every 3 / random; both retentions; non-trivial = at least 2 transitions; distinct = distinct full case terms");
}
