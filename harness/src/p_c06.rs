//! C06 (also the base of C07/C34/C08): operation histories on the real `JournaledState`
//! over a `CacheDB`, compared with coq/Model/Host.v.
use crate::util::*;
use revm::db::{CacheDB, EmptyDB};
use revm::primitives::{
    AccountInfo, Address, Bytecode, Bytes, HashSet, Log, LogData, SpecId, B256, KECCAK_EMPTY, U256,
};
use revm::{JournalCheckpoint, JournaledState};
use std::collections::HashMap;

pub const NADDR: u64 = 7; // addresses 1..=7 (3 = RIPEMD precompile, EIP-161 exception)
pub const NKEY: u64 = 4;

pub fn addr(n: u64) -> Address { Address::with_last_byte(n as u8) }

#[derive(Clone, Debug)]
pub enum Hop {
    Load(u64), LoadDelegated(u64), Touch(u64), IncNonce(u64), SetCode(u64, u64), Transfer(u64, u64, U256),
    Create(u64, u64, bool, U256), Sload(u64, u64), Sstore(u64, u64, U256), Tload(u64, u64), Tstore(u64, u64, U256),
    Log(u64), Selfdestruct(u64, u64), Checkpoint, Commit, Revert,
}
impl Hop {
    pub fn coq(&self) -> String {
        match self {
            Hop::Load(a) => format!("HLoad {}", a),
            Hop::LoadDelegated(a) => format!("HLoadDelegated {}", a),
            Hop::Touch(a) => format!("HTouch {}", a),
            Hop::IncNonce(a) => format!("HIncNonce {}", a),
            Hop::SetCode(a, c) => format!("HSetCode {} {}", a, c),
            Hop::Transfer(f, t, v) => format!("HTransfer {} {} {}", f, t, zw(*v)),
            Hop::Create(c, a, h, v) => format!("HCreate {} {} {} {}", c, a, zb(*h), zw(*v)),
            Hop::Sload(a, k) => format!("HSload {} {}", a, k),
            Hop::Sstore(a, k, v) => format!("HSstore {} {} {}", a, k, zw(*v)),
            Hop::Tload(a, k) => format!("HTload {} {}", a, k),
            Hop::Tstore(a, k, v) => format!("HTstore {} {} {}", a, k, zw(*v)),
            Hop::Log(l) => format!("HLog {}", l),
            Hop::Selfdestruct(a, t) => format!("HSelfdestruct {} {}", a, t),
            Hop::Checkpoint => "HCheckpoint".into(),
            Hop::Commit => "HCommit".into(),
            Hop::Revert => "HRevert".into(),
        }
    }
    pub fn kind(&self) -> &'static str {
        match self {
            Hop::Load(_) => "op:load", Hop::LoadDelegated(_) => "op:load_delegated", Hop::Touch(_) => "op:touch",
            Hop::IncNonce(_) => "op:inc_nonce", Hop::SetCode(..) => "op:set_code", Hop::Transfer(..) => "op:transfer",
            Hop::Create(..) => "op:create", Hop::Sload(..) => "op:sload", Hop::Sstore(..) => "op:sstore",
            Hop::Tload(..) => "op:tload", Hop::Tstore(..) => "op:tstore", Hop::Log(_) => "op:log",
            Hop::Selfdestruct(..) => "op:selfdestruct", Hop::Checkpoint => "op:checkpoint", Hop::Commit => "op:commit",
            Hop::Revert => "op:revert",
        }
    }
}

/// code identities: 0 = empty, 1..=3 plain code, 10+n = EIP-7702 delegation to address n
pub fn code_of(id: u64) -> Bytecode {
    if id == 0 { Bytecode::default() }
    else if id >= 10 { Bytecode::new_eip7702(addr(id - 10)) }
    else { Bytecode::new_raw(Bytes::from(vec![0x60, id as u8, 0x50, 0x00])) }
}
pub fn code_ids() -> HashMap<B256, u64> {
    let mut m = HashMap::new();
    m.insert(KECCAK_EMPTY, 0);
    for id in (1..=3).chain(10..=10 + NADDR) { m.insert(code_of(id).hash_slow(), id); }
    m
}

pub struct World {
    pub db: CacheDB<EmptyDB>,
    pub accs: Vec<(u64, U256, u64, u64)>,
    pub sto: Vec<(u64, u64, U256)>,
    pub pre: Vec<u64>,
    pub init: Vec<(u64, Vec<u64>)>,
    pub spec: SpecId,
}

pub fn balance_pick(rng: &mut Rng) -> U256 {
    match rng.below(9) {
        0 => U256::ZERO,
        1 => U256::from(1u64),
        2 => U256::from(1u64) << 255,
        3 => U256::MAX - U256::from(1u64),
        4 => U256::MAX,
        5 => U256::MAX - U256::from(rng.below(20)),
        _ => U256::from(rng.below(1000)),
    }
}

pub fn gen_world(rng: &mut Rng) -> World {
    let mut db = CacheDB::new(EmptyDB::default());
    let mut accs = vec![];
    let mut sto = vec![];
    for a in 1..=NADDR {
        if rng.chance(2, 3) {
            let bal = balance_pick(rng);
            let nonce = match rng.below(5) { 0 => 0, 1 => 1, 2 => u64::MAX, 3 => u64::MAX - 1, _ => rng.below(5) };
            let code = match rng.below(6) { 0 => 1 + rng.below(3), 1 => 10 + 1 + rng.below(NADDR), _ => 0 };
            let c = code_of(code);
            db.insert_account_info(addr(a), AccountInfo { balance: bal, nonce, code_hash: c.hash_slow(), code: Some(c) });
            accs.push((a, bal, nonce, code));
            // storage only for accounts that cannot be creation targets without collision, or
            // flagged through has_storage by the generator (it answers truthfully)
            for k in 0..NKEY {
                if rng.chance(1, 3) {
                    let v = if rng.chance(1, 4) { U256::ZERO } else { U256::from(1 + rng.below(9)) };
                    db.insert_account_storage(addr(a), U256::from(k), v).unwrap();
                    sto.push((a, k, v));
                }
            }
        }
    }
    let mut pre = vec![];
    for a in 1..=NADDR { if rng.chance(1, 5) { pre.push(a); } }
    let spec = *rng.pick(&[SpecId::HOMESTEAD, SpecId::LONDON, SpecId::LONDON, SpecId::CANCUN, SpecId::CANCUN]);
    // access list (initial_account_load): addresses with some storage keys, possibly repeated
    let mut init = vec![];
    for _ in 0..rng.below(4) { let a = 1 + rng.below(NADDR); let ks: Vec<u64> = (0..NKEY).filter(|_| rng.chance(1, 3)).collect(); init.push((a, ks)); }
    World { db, accs, sto, pre, init, spec }
}

pub fn new_js(w: &World) -> JournaledState {
    let set: HashSet<Address> = w.pre.iter().map(|a| addr(*a)).collect();
    JournaledState::new(w.spec, set)
}

pub fn has_storage_truth(w: &World, a: u64) -> bool { w.sto.iter().any(|(x, _, v)| *x == a && !v.is_zero()) }

/// Applies one operation to the real journaled state; returns the observation list.
pub fn apply(js: &mut JournaledState, db: &mut CacheDB<EmptyDB>, cps: &mut Vec<JournalCheckpoint>, op: &Hop) -> Vec<String> {
    let b = |x: bool| if x { "1".to_string() } else { "0".to_string() };
    match op {
        Hop::Load(a) => { let r = js.load_account(addr(*a), db).unwrap(); vec![b(r.is_cold)] }
        Hop::LoadDelegated(a) => {
            let r = js.load_account_delegated(addr(*a), db).unwrap();
            vec![b(r.load.state_load.is_cold), b(r.is_empty), match r.load.is_delegate_account_cold { Some(x) => b(x), None => "(-1)".into() }]
        }
        Hop::Touch(a) => { js.touch(&addr(*a)); vec![] }
        Hop::IncNonce(a) => { match js.inc_nonce(addr(*a)) { Some(n) => vec![zu(n)], None => vec!["(-1)".into()] } }
        Hop::SetCode(a, c) => { js.set_code(addr(*a), code_of(*c)); vec![] }
        Hop::Transfer(f, t, v) => {
            let r = js.transfer(&addr(*f), &addr(*t), *v, db).unwrap();
            vec![match r { None => "0".into(), Some(revm::interpreter::InstructionResult::OutOfFunds) => "1".into(),
                           Some(revm::interpreter::InstructionResult::OverflowPayment) => "2".into(), Some(_) => "9".into() }]
        }
        Hop::Create(c, a, h, v) => {
            match js.create_account_checkpoint(addr(*c), addr(*a), *h, *v, js.spec) {
                Ok(cp) => { cps.push(cp); vec!["0".into()] }
                Err(revm::interpreter::InstructionResult::CreateCollision) => vec!["1".into()],
                Err(revm::interpreter::InstructionResult::OverflowPayment) => vec!["2".into()],
                Err(_) => vec!["9".into()],
            }
        }
        Hop::Sload(a, k) => { let r = js.sload(addr(*a), U256::from(*k), db).unwrap(); vec![zw(r.data), b(r.is_cold)] }
        Hop::Sstore(a, k, v) => {
            let r = js.sstore(addr(*a), U256::from(*k), *v, db).unwrap();
            vec![zw(r.data.original_value), zw(r.data.present_value), b(r.is_cold)]
        }
        Hop::Tload(a, k) => vec![zw(js.tload(addr(*a), U256::from(*k)))],
        Hop::Tstore(a, k, v) => { js.tstore(addr(*a), U256::from(*k), *v); vec![] }
        Hop::Log(l) => { js.log(Log { address: addr(1), data: LogData::new_unchecked(vec![], Bytes::from(vec![*l as u8])) }); vec![] }
        Hop::Selfdestruct(a, t) => {
            let r = js.selfdestruct(addr(*a), addr(*t), db).unwrap();
            vec![b(r.data.had_value), b(r.data.target_exists), b(r.data.previously_destroyed), b(r.is_cold)]
        }
        Hop::Checkpoint => { cps.push(js.checkpoint()); vec![] }
        Hop::Commit => { if cps.pop().is_some() { js.checkpoint_commit(); } vec![] }
        Hop::Revert => { if let Some(cp) = cps.pop() { js.checkpoint_revert(cp); } vec![] }
    }
}

pub fn dump(js: &JournaledState, ids: &HashMap<B256, u64>) -> String {
    let mut accs = vec![];
    for a in 1..=NADDR {
        match js.state.get(&addr(a)) {
            None => accs.push("None".to_string()),
            Some(acc) => {
                let code = *ids.get(&acc.info.code_hash).unwrap_or(&99);
                let slots = zlist((0..NKEY).map(|k| match acc.storage.get(&U256::from(k)) {
                    None => "None".to_string(),
                    Some(s) => format!("(Some ({},{},{}))", zw(s.original_value), zw(s.present_value), zb(s.is_cold)),
                }));
                use revm::primitives::AccountStatus as St;
                accs.push(format!("(Some ({},{},{},({},{},{},{},{}),{}))", zw(acc.info.balance), zu(acc.info.nonce), code,
                    zb(acc.status.contains(St::Created)), zb(acc.status.contains(St::SelfDestructed)), zb(acc.status.contains(St::Touched)),
                    zb(acc.status.contains(St::LoadedAsNotExisting)), zb(acc.status.contains(St::Cold)), slots));
            }
        }
    }
    let mut ts = vec![];
    for a in 1..=NADDR { for k in 0..NKEY { ts.push(zw(js.transient_storage.get(&(addr(a), U256::from(k))).copied().unwrap_or_default())); } }
    let logs = zlist(js.logs.iter().map(|l| format!("{}", l.data.data.first().copied().unwrap_or(0))));
    let frames = zlist(js.journal.iter().rev().map(|f| format!("{}", f.len())));
    format!("(mkDump {} {} {} {} {})", zlist(accs), zlist(ts), logs, js.depth, frames)
}

/// Chooses the next operation looking at the live state so that most operations are applicable.
pub fn gen_op(rng: &mut Rng, js: &JournaledState, w: &World, open: usize, allow_cp: bool) -> Hop {
    let loaded: Vec<u64> = (1..=NADDR).filter(|a| js.state.contains_key(&addr(*a))).collect();
    let any = |rng: &mut Rng| 1 + rng.below(NADDR);
    let pick_loaded = |rng: &mut Rng| if !loaded.is_empty() && rng.chance(9, 10) { *rng.pick(&loaded) } else { 1 + rng.below(NADDR) };
    let key = |rng: &mut Rng| rng.below(NKEY);
    let val = |rng: &mut Rng| match rng.below(4) { 0 => U256::ZERO, 1 => U256::from(1u64), _ => U256::from(rng.below(6)) };
    match rng.below(22) {
        0 | 1 => Hop::Load(any(rng)),
        2 => Hop::LoadDelegated(any(rng)),
        3 => Hop::Touch(any(rng)),
        4 => Hop::IncNonce(pick_loaded(rng)),
        5 => {
            // set_code is only called by revm on accounts whose code is empty
            let cands: Vec<u64> = loaded.iter().copied().filter(|a| js.state[&addr(*a)].info.code_hash == KECCAK_EMPTY).collect();
            if cands.is_empty() { Hop::Load(any(rng)) } else { Hop::SetCode(*rng.pick(&cands), 1 + rng.below(3)) }
        }
        6 | 7 | 8 => {
            let f = pick_loaded(rng);
            let t = any(rng);
            let fb = js.state.get(&addr(f)).map(|a| a.info.balance).unwrap_or_default();
            let v = match rng.below(6) { 0 => U256::ZERO, 1 => fb, 2 => fb.saturating_add(U256::from(1u64)), 3 => U256::from(rng.below(10)), 4 => fb >> 1, _ => balance_pick(rng) };
            Hop::Transfer(f, t, v)
        }
        9 | 10 => {
            if !allow_cp { return Hop::Load(any(rng)); }
            let c = pick_loaded(rng);
            let a = pick_loaded(rng);
            let cb = js.state.get(&addr(c)).map(|x| x.info.balance).unwrap_or_default();
            let v = match rng.below(4) { 0 => U256::ZERO, 1 => cb, 2 => U256::from(rng.below(5)).min(cb), _ => cb >> 1 };
            // has_storage is answered truthfully (sometimes pessimistically `true`)
            let hs = has_storage_truth(w, a) || rng.chance(1, 10);
            // contract of create_account_checkpoint inside revm: creator <> target, and a target that
            // is already marked created collides (it has nonce 1 from Spurious Dragon on; before,
            // CREATE addresses are never reused)
            let reused = js.state.get(&addr(a)).map(|x| x.is_created() && x.info.nonce == 0 && x.info.code_hash == KECCAK_EMPTY).unwrap_or(false) && !hs;
            if c == a || reused { return Hop::Load(any(rng)); }
            Hop::Create(c, a, hs, v)
        }
        11 | 12 => Hop::Sload(pick_loaded(rng), key(rng)),
        13 | 14 | 15 => Hop::Sstore(pick_loaded(rng), key(rng), val(rng)),
        16 => Hop::Tload(any(rng), key(rng)),
        17 => Hop::Tstore(any(rng), key(rng), val(rng)),
        18 => Hop::Log(rng.below(200)),
        19 => Hop::Selfdestruct(pick_loaded(rng), any(rng)),
        20 => if allow_cp { Hop::Checkpoint } else { Hop::Load(any(rng)) },
        _ => if open > 0 { if rng.chance(1, 2) { Hop::Commit } else { Hop::Revert } } else if allow_cp { Hop::Checkpoint } else { Hop::Touch(any(rng)) },
    }
}

pub fn world_coq(w: &World) -> String {
    let accs = zlist(w.accs.iter().map(|(a, b, n, c)| format!("({},({},{},{}))", a, zw(*b), zu(*n), c)));
    let sto = zlist(w.sto.iter().map(|(a, k, v)| format!("({},{},{})", a, k, zw(*v))));
    let del = zlist((1..=NADDR).map(|n| format!("({},{})", 10 + n, n)));
    let us = zlist((1..=NADDR).map(|a| format!("{}", a)));
    let ks = zlist((0..NKEY).map(|k| format!("{}", k)));
    let spur = w.spec.is_enabled_in(SpecId::SPURIOUS_DRAGON);
    let canc = w.spec.is_enabled_in(SpecId::CANCUN);
    let init = zlist(w.init.iter().map(|(a, ks)| format!("({},{})", a, zlist(ks.iter().map(|k| format!("{}", k))))));
    format!("{} {} {} {} {} {} {} {} {}", zb(spur), zb(canc), zlist(w.pre.iter().map(|a| format!("{}", a))), accs, sto, del, us, ks, init)
}

pub fn run(o: &Opts) { run_mod(o, "C06", 0xC06) }

pub fn run_mod(o: &Opts, module: &str, salt: u64) {
    let mut rng = Rng::new(o.seed ^ salt);
    let mut w = CaseWriter::new(o, module, 250);
    let ids = code_ids();
    let n = if o.thorough() { 30_000 } else { 3_000 };
    for _ in 0..n {
        let mut world = gen_world(&mut rng);
        let mut js = new_js(&world);
        let mut db = world.db.clone();
        for (a, ks) in &world.init { js.initial_account_load(addr(*a), ks.iter().map(|k| U256::from(*k)), &mut db).unwrap(); }
        let mut obs: Vec<String> = vec![];
        let mut tags: Vec<&'static str> = vec![];
        let mut completed = true;
        // setup: its own checkpoints are closed before the outer checkpoint
        let mut setup = vec![];
        let mut cps: Vec<JournalCheckpoint> = vec![];
        let ns = rng.range(0, 10);
        for i in 0..ns + 8 {
            if i >= ns && cps.is_empty() { break; }
            let op = if i >= ns { if rng.chance(1, 2) { Hop::Commit } else { Hop::Revert } } else { gen_op(&mut rng, &js, &world, cps.len(), true) };
            let r = catch(|| apply(&mut js, &mut db, &mut cps, &op));
            tags.push(op.kind());
            setup.push(op);
            match r { Ok(v) => obs.push(zlist(v)), Err(_) => { obs.push("[-99]".into()); completed = false; break; } }
        }
        let mut body = vec![];
        let mut d0 = String::from("(mkDump [] [] [] 0 [])");
        let mut d1 = d0.clone();
        let mut d2 = d0.clone();
        let mut balanced = true;
        if completed && cps.is_empty() {
            d0 = dump(&js, &ids);
            let outer = js.checkpoint();
            let mut inner: Vec<JournalCheckpoint> = vec![];
            let nb = rng.range(1, 22);
            for _ in 0..nb {
                let op = gen_op(&mut rng, &js, &world, inner.len(), true);
                let r = catch(|| apply(&mut js, &mut db, &mut inner, &op));
                tags.push(op.kind());
                body.push(op);
                match r { Ok(v) => obs.push(zlist(v)), Err(_) => { obs.push("[-99]".into()); completed = false; break; } }
            }
            if completed {
                balanced = inner.is_empty();
                d1 = dump(&js, &ids);
                if catch(|| js.checkpoint_revert(outer)).is_err() { completed = false; tags.push("panic-in-outer-revert"); }
                d2 = dump(&js, &ids);
            }
        } else if completed { completed = false; }
        if !completed { tags.push("history-hit-panic-point"); }
        if !balanced { tags.push("body-leaves-checkpoints-open"); }
        tags.push(match world.spec { SpecId::HOMESTEAD => "spec:pre-spurious", SpecId::LONDON => "spec:london", _ => "spec:cancun" });
        let case = format!("(mkCase {} {} {} {} {} {} {} {} {})", world_coq(&world), zlist(setup.iter().map(|x| x.coq())),
            zlist(body.iter().map(|x| x.coq())), zb(balanced), zlist(obs.clone()), zb(completed), d0, d1, d2);
        let human = format!("spec={:?} pre={:?} access_list={:?} accs={:?} sto={:?} setup={:?} body={:?}", world.spec, world.pre, world.init, world.accs, world.sto, setup, body);
        tags.sort(); tags.dedup();
        w.push(case, human, body.len() >= 3, &tags);
        world.db = db;
    }
    w.finish("histories on the real revm::JournaledState over CacheDB: 7 addresses (incl. precompile 3 and access-list style pre-warmed ones), 4 keys, balances from {0,1,2^255,2^256-2,2^256-1,small}, nonces incl. 2^64-1, EIP-7702 delegations; setup history, outer checkpoint, body of 1..22 operations (load/load_delegated/touch/inc_nonce/set_code/transfer/create_account_checkpoint/sload/sstore/tload/tstore/log/selfdestruct/nested checkpoint/commit/revert) chosen from the live state, outer revert; specs pre-SpuriousDragon / London / Cancun; non-trivial = body of at least 3 operations; distinct = distinct case terms");
}
