//! C01: whole transactions on the real `Evm` against the Gallina reference interpreter
//! (coq/Model/Step.v + Evm.v), and the official execution-spec vectors through revme.
//!  * `vh c01`    generated worlds (call graphs of progs.rs + opcode soups), all five transaction
//!                types, 13 SpecIds: the case carries the pre-state, the environment, the precompile
//!                oracle recorded from the run, and the observed ExecutionResult + EvmState.
//!  * `vh c01vec` runs an already built `revme statetest` on every shipped vector file.
use crate::progs::{self, op::*, Asm, GenOpts, World};
use crate::util::*;
use revm::db::{CacheDB, EmptyDB};
use revm::interpreter::{CallInputs, CallOutcome, InstructionResult, Interpreter};
use revm::precompile::{PrecompileSpecId, Precompiles};
use revm::primitives::{AccountStatus, Address, Bytes, ExecutionResult, HaltReason, OutOfGasError, Output, ResultAndState, SpecId, SuccessReason, TxKind, B256, KECCAK_EMPTY, U256};
use revm::{inspector_handle_register, Evm, EvmContext, Inspector};
use std::collections::BTreeMap;

fn za(a: Address) -> String { format!("0x{:x}", U256::from_be_slice(a.as_slice())) }
fn zh(h: B256) -> String { format!("0x{:x}", U256::from_be_bytes(h.0)) }
fn zopt_w(x: Option<U256>) -> String { zopt(x.map(zw)) }
fn code_id(h: B256) -> String { if h == KECCAK_EMPTY || h == B256::ZERO { "0".into() } else { zh(h) } }
fn enabled(spec: SpecId, since: SpecId) -> bool { spec as u8 >= since as u8 }

// ------------------------------------------------------------------ recording inspector
#[derive(Default)]
struct Rec {
    pre: Vec<(Address, u64, Bytes, String)>, // precompile oracle rows
    steps: u64,
    max_mem: usize,
    max_code: usize,
    precompiles: Vec<Address>,
    ops: std::collections::BTreeSet<u8>,
}
impl<DB: revm::Database> Inspector<DB> for Rec {
    fn step(&mut self, i: &mut Interpreter, _c: &mut EvmContext<DB>) {
        self.steps += 1;
        self.max_mem = self.max_mem.max(i.shared_memory.len());
        self.max_code = self.max_code.max(i.contract.bytecode.len());
        self.ops.insert(i.current_opcode());
    }
    fn step_end(&mut self, i: &mut Interpreter, _c: &mut EvmContext<DB>) { self.max_mem = self.max_mem.max(i.shared_memory.len()); }
    fn call_end(&mut self, _c: &mut EvmContext<DB>, inputs: &CallInputs, outcome: CallOutcome) -> CallOutcome {
        if self.precompiles.contains(&inputs.bytecode_address) {
            let r = match outcome.result.result {
                InstructionResult::Return => Some(format!("(POk {} {})", outcome.result.gas.spent(), zbytes(&outcome.result.output))),
                InstructionResult::PrecompileOOG => Some("POog".to_string()),
                InstructionResult::PrecompileError => Some("PErr".to_string()),
                _ => None, // the call did not reach the precompile (depth, funds)
            };
            if let Some(r) = r {
                if !self.pre.iter().any(|x| x.0 == inputs.bytecode_address && x.1 == inputs.gas_limit && x.2 == inputs.input) {
                    self.pre.push((inputs.bytecode_address, inputs.gas_limit, inputs.input.clone(), r));
                }
            }
        }
        outcome
    }
}

// ------------------------------------------------------------------ opcode soup generator
/// Straight-line / looping programs that exercise every legacy opcode with boundary operands.
fn soup(rng: &mut Rng, spec: SpecId, others: &[Address], len: u64) -> Vec<u8> {
    let mut a = Asm::new();
    let small = |r: &mut Rng| -> U256 {
        match r.below(10) {
            0 => U256::ZERO, 1 => U256::from(1), 2 => U256::from(31), 3 => U256::from(32), 4 => U256::from(33),
            5 => U256::from(r.below(200)), 6 => r.u256b(), 7 => U256::from(r.below(70)), 8 => U256::MAX, _ => U256::from(r.below(5)),
        }
    };
    let moff = |r: &mut Rng| -> U256 { match r.below(40) { 0 => U256::from(1u64 << 40), 1 => U256::MAX, 2 => U256::from(u64::MAX), _ => U256::from(r.below(130)) } };
    let mlen = |r: &mut Rng| -> U256 { match r.below(14) { 0 => U256::from(1u64 << 33), 1 => U256::MAX, 2 | 3 => U256::ZERO, _ => U256::from(r.below(70)) } };
    let target = |r: &mut Rng| -> Address {
        match r.below(8) { 0 => progs::addr(r.range(1, 12)), 1 => progs::addr(progs::CALLER_ADDR), 2 => progs::addr(0xDEAD0000 + r.below(2)), 3 => progs::addr(progs::COINBASE),
            _ => if others.is_empty() { progs::addr(4) } else { *r.pick(others) } }
    };
    let since = |k: u64| -> SpecId { match k { 12 | 19 | 20 => SpecId::CANCUN, _ => SpecId::FRONTIER } };
    for _ in 0..len {
        let mut k = rng.below(34);
        // mostly instructions that exist in this hardfork and do not end the frame
        if !enabled(spec, since(k)) && rng.chance(5, 6) { k = 14; }
        if (k == 27 || k == 30 || k == 32) && rng.chance(3, 4) { k = 33; }
        match k {
            0..=3 => { // arithmetic / bitwise, 2 or 3 operands
                let mut op = *rng.pick(&[ADD, MUL, SUB, DIV, 0x05, 0x06, 0x07, 0x0a, 0x0b, LT, 0x11, 0x12, 0x13, 0x14, 0x16, 0x17, 0x18, 0x1a, SHL, 0x1c, 0x1d, 0x08, 0x09]);
                if (op == SHL || op == 0x1c || op == 0x1d) && !enabled(spec, SpecId::CONSTANTINOPLE) && rng.chance(7, 8) { op = 0x0b; }
                if op == 0x08 || op == 0x09 { a.push(rng.u256b()); }
                a.push(rng.u256b()).push(if op == 0x0a { U256::from(rng.below(300)) } else { rng.u256b() }).op(op);
                if rng.chance(1, 2) { a.op(POP); } }
            4 => { a.push(rng.u256b()).op(*rng.pick(&[ISZERO, 0x19])); }
            5 => { a.push(mlen(rng).min(U256::from(200))).push(moff(rng)).op(KECCAK256); if rng.chance(2, 3) { a.op(POP); } }
            6 => {
                let mut ops = vec![ADDRESS, 0x32, CALLER, CALLVALUE, CALLDATASIZE, CODESIZE, 0x3a, 0x41, 0x42, 0x43, 0x44, 0x45, PC, MSIZE, GAS];
                if enabled(spec, SpecId::BYZANTIUM) || rng.chance(1, 8) { ops.push(RETURNDATASIZE); }
                if enabled(spec, SpecId::ISTANBUL) || rng.chance(1, 8) { ops.push(0x46); ops.push(SELFBALANCE); }
                if enabled(spec, SpecId::LONDON) || rng.chance(1, 8) { ops.push(BASEFEE); }
                if enabled(spec, SpecId::SHANGHAI) || rng.chance(1, 8) { ops.push(PUSH0); }
                if enabled(spec, SpecId::CANCUN) || rng.chance(1, 8) { ops.push(0x4a); }
                a.op(*rng.pick(&ops)); if rng.chance(1, 2) { a.op(POP); } }
            7 => { let t = target(rng); let op = if enabled(spec, SpecId::CONSTANTINOPLE) || rng.chance(1, 8) { *rng.pick(&[BALANCE, EXTCODESIZE, EXTCODEHASH]) } else { *rng.pick(&[BALANCE, EXTCODESIZE]) };
                   a.push_addr(t).op(op); if rng.chance(1, 2) { a.op(POP); } }
            8 => { a.push(small(rng)).op(CALLDATALOAD).op(POP); }
            9 => { let op = if enabled(spec, SpecId::BYZANTIUM) || rng.chance(1, 8) { *rng.pick(&[CALLDATACOPY, CODECOPY, RETURNDATACOPY]) } else { *rng.pick(&[CALLDATACOPY, CODECOPY]) }; a.push(mlen(rng)).push(if op == RETURNDATACOPY { U256::from(rng.below(3)) } else { small(rng) }).push(moff(rng)).op(op); }
            10 => { let t = target(rng); a.push(mlen(rng)).push(small(rng)).push(moff(rng)).push_addr(t).op(EXTCODECOPY); }
            11 => { a.push(match rng.below(4) { 0 => U256::from(99), 1 => U256::from(100), 2 => U256::from(rng.below(400)), _ => rng.u256b() }).op(0x40).op(POP); }
            12 => { a.push_u(rng.below(4)).op(BLOBHASH); }
            13 => { a.push(moff(rng)).op(MLOAD).op(POP); }
            14 | 15 => { a.push(rng.u256b()).push(moff(rng)).op(*rng.pick(&[MSTORE, MSTORE, MSTORE8])); }
            16 => { a.push(U256::from(rng.below(4))).op(SLOAD); if rng.chance(1, 2) { a.op(POP); } }
            17 | 18 => { a.push(match rng.below(3) { 0 => U256::ZERO, 1 => U256::from(rng.below(3)), _ => rng.u256b() }).push(U256::from(rng.below(4))).op(SSTORE); }
            19 => { a.push(rng.u256b()).push(U256::from(rng.below(3))).op(TSTORE).push(U256::from(rng.below(3))).op(TLOAD).op(POP); }
            20 => { a.push(mlen(rng)).push(moff(rng)).push(moff(rng)).op(MCOPY); }
            21 => { let n = rng.range(1, 32) as usize; let b = rng.bytes(n); a.op(PUSH1 + n as u8 - 1).ops(&b); if rng.chance(1, 2) { a.op(POP); } }
            22 => { let n = rng.range(1, 16); for _ in 0..rng.range(0, n) { a.push_u(rng.below(9)); } a.op(DUP1 + n as u8 - 1); }
            23 => { let n = rng.range(1, 16); for _ in 0..rng.range(0, n + 1) { a.push_u(rng.below(9)); } a.op(SWAP1 + n as u8 - 1); }
            24 => { let n = rng.below(5) as u8; for _ in 0..n { a.push(rng.u256b()); } a.push(mlen(rng).min(U256::from(100))).push(moff(rng)).op(LOG0 + n); }
            25 => { // forward conditional jump
                let l = a.new_label(); a.push(U256::from(rng.below(2))).push_label(l).op(JUMPI);
                a.push_u(7).op(POP); a.place(l); }
            26 => { // small counted loop
                let l = a.new_label(); a.push_u(rng.range(1, 4)); a.place(l); a.push_u(1).op(SWAP1).op(SUB).op(DUP1); a.push_label(l).op(JUMPI); a.op(POP); }
            27 => { a.push(rng.u256b()).op(*rng.pick(&[JUMP, JUMPI])); }
            28 => { // call with explicit operands
                let t = target(rng);
                let mut scheme = *rng.pick(&[CALL, CALL, CALLCODE, DELEGATECALL, STATICCALL]);
                if scheme == STATICCALL && !enabled(spec, SpecId::BYZANTIUM) && rng.chance(7, 8) { scheme = CALL; }
                if scheme == DELEGATECALL && !enabled(spec, SpecId::HOMESTEAD) && rng.chance(7, 8) { scheme = CALLCODE; }
                a.push(U256::from(rng.below(3) * 32)).push(U256::from(rng.below(100))).push(mlen(rng).min(U256::from(96))).push(U256::from(rng.below(40)));
                if scheme == CALL || scheme == CALLCODE { a.push(match rng.below(4) { 0 | 1 => U256::ZERO, 2 => U256::from(rng.below(30)), _ => U256::from(1u64 << 50) }); }
                a.push_addr(t);
                match rng.below(4) { 0 => { a.op(GAS); } 1 => { a.push(rng.u256b()); } _ => { a.push_u(rng.below(40_000)); } }
                a.op(scheme); if rng.chance(1, 2) { a.op(POP); } }
            29 => { // create with tiny init code
                let init: Vec<u8> = match rng.below(5) {
                    0 => vec![], 1 => vec![INVALID],
                    2 => { let mut b = Asm::new(); b.push_u(rng.below(3)).push_u(0).op(SSTORE).push_u(0x00).push_u(0).op(MSTORE8).push_u(1).push_u(0).op(RETURN); b.finish() }
                    3 => { let mut b = Asm::new(); b.push_u(0xfe).push_u(0).op(MSTORE8).push_u(rng.below(3)).push_u(0).op(RETURN); b.finish() }
                    _ => { let mut b = Asm::new(); b.push_u(0).push_u(0).op(if enabled(spec, SpecId::BYZANTIUM) { REVERT } else { RETURN }); b.finish() }
                };
                a.mstore_bytes(0, &init);
                let two = rng.chance(1, 2) && (enabled(spec, SpecId::PETERSBURG) || rng.chance(1, 8));
                if two { a.push(U256::from(rng.below(2))); }
                a.push_u(init.len() as u64).push_u(0).push(U256::from(rng.below(3))).op(if two { CREATE2 } else { CREATE });
                if rng.chance(1, 2) { a.op(POP); } }
            30 => { a.op(POP); }
            31 => { a.op(JUMPDEST); }
            32 => { a.op(*rng.pick(&[0x0c, 0x1e, 0x21, 0x4b, 0xa5, 0xb0, 0xd0, 0xe0, 0xee, 0xf6, 0xf7, 0xf8, 0xfb, 0xfc, 0xec])); }
            _ => { a.push(small(rng)); }
        }
    }
    match rng.below(10) {
        0 => { a.op(STOP); }
        1 | 2 => { a.push(mlen(rng).min(U256::from(100))).push(moff(rng)).op(RETURN); }
        3 => { a.push(mlen(rng).min(U256::from(64))).push(moff(rng)).op(REVERT); }
        4 => { let t = target(rng); a.push_addr(t).op(SELFDESTRUCT); }
        5 => { a.op(INVALID); }
        _ => {}
    }
    a.finish()
}

fn soup_world(rng: &mut Rng) -> World {
    let spec = if rng.chance(1, 2) { *rng.pick(progs::SPECS) } else { progs::pick_spec(rng) };
    let n = rng.range(1, 3) as usize;
    let addrs: Vec<Address> = (0..n).map(|i| progs::addr(progs::CONTRACT_BASE + i as u64)).collect();
    let mut codes = vec![];
    let mut balances = vec![];
    for i in 0..n {
        let len = if i == 0 { rng.range(3, 18) } else { rng.range(0, 8) };
        codes.push(soup(rng, spec, &addrs, len));
        balances.push(U256::from(rng.below(1000)));
    }
    let data = rng.bytes(*rng.clone().pick(&[0usize, 4, 32, 37, 68]));
    let gas = match rng.below(6) { 0 => rng.range(21_000, 40_000), 1 => rng.range(40_000, 120_000), _ => rng.range(120_000, 2_000_000) };
    let tx = progs::base_tx(TxKind::Call(addrs[0]), gas, U256::from(rng.below(3)), data);
    let descr = format!("soup spec={:?} gas_limit={} codes=[{}]", spec, gas, codes.iter().map(|c| progs::hex(c)).collect::<Vec<_>>().join(","));
    let mut w = progs::world_from(spec, &codes, &balances, tx, descr);
    w.tags = vec!["gen:soup".into(), format!("spec:{:?}", spec), "tx:legacy".into()];
    w
}


// ------------------------------------------------------------------ scenario templates
/// Hand-written multi-contract scenarios with random parameters for paths the random generators reach rarely.
fn scenario_world(rng: &mut Rng) -> World {
    let spec = if rng.chance(1, 2) { *rng.pick(progs::SPECS) } else { progs::pick_spec(rng) };
    let byz = enabled(spec, SpecId::BYZANTIUM);
    let a0 = progs::addr(progs::CONTRACT_BASE);
    let a1 = progs::addr(progs::CONTRACT_BASE + 1);
    let a2 = progs::addr(progs::CONTRACT_BASE + 2);
    let which = rng.below(12);
    let mut gas = rng.range(100_000, 1_500_000);
    let mut value = U256::from(rng.below(3));
    let mut storage: Vec<(Address, u64, u64)> = vec![];
    let mut extra: Vec<(Address, U256, u64, Vec<u8>)> = vec![];
    let mut c0 = Asm::new();
    let mut c1 = Asm::new();
    let mut c2 = Asm::new();
    let name;
    let ret_word = |a: &mut Asm| { a.push_u(0).op(MSTORE).push_u(32).push_u(0).op(RETURN); };
    match which {
        0 => { name = "sstore-refund-patterns";
            for k in 0..3 { if rng.chance(2, 3) { storage.push((a0, k, rng.range(1, 3))); } }
            for _ in 0..rng.range(2, 7) { c0.push_u(rng.below(3)).push_u(rng.below(3)).op(SSTORE); }
            if rng.chance(1, 3) { if byz { c0.push_u(0).push_u(0).op(REVERT); } else { c0.op(INVALID); } } }
        1 => { name = "child-reverts-after-writes";
            storage.push((a1, 0, 5));
            c1.push_u(rng.below(3)).push_u(0).op(SSTORE).push_u(7).push_u(1).op(SSTORE);
            c1.push(rng.u256b()).push_u(0).op(MSTORE).push_u(1).push_u(32).push_u(0).op(LOG0 + 1);
            if enabled(spec, SpecId::CANCUN) { c1.push_u(9).push_u(1).op(TSTORE); }
            match rng.below(4) { 0 => { c1.op(STOP); } 1 => { c1.op(INVALID); } 2 => { c1.op(POP); } _ => { if byz { c1.push_u(32).push_u(0).op(REVERT); } else { c1.push_u(77).op(JUMP); } } }
            c0.push_u(3).push_u(0).op(SSTORE);
            c0.push_u(32).push_u(0).push_u(0).push_u(0).push_u(rng.below(2)).push_addr(a1).push_u(rng.range(20_000, 200_000)).op(CALL);
            c0.push_u(1).op(SSTORE);
            c0.push_u(0).op(SLOAD).push_u(2).op(SSTORE);
            if byz { c0.op(RETURNDATASIZE).push_u(3).op(SSTORE); }
            if enabled(spec, SpecId::CANCUN) { c0.push_u(1).op(TLOAD).push_u(4).op(SSTORE); } }
        2 => { name = "create2-redeploy-and-collision";
            // init code returns 1 byte of runtime (STOP) or selfdestructs
            let mut init = Asm::new();
            if rng.chance(1, 2) { init.op(ADDRESS).op(SELFDESTRUCT); } else { init.push_u(1).push_u(0).op(RETURN); }
            let init = init.finish();
            let two = enabled(spec, SpecId::PETERSBURG);
            for _ in 0..2 {
                c0.mstore_bytes(0, &init);
                if two { c0.push_u(5); }
                c0.push_u(init.len() as u64).push_u(0).push_u(rng.below(2)).op(if two { CREATE2 } else { CREATE });
                c0.op(DUP1).push_u(rng.below(2)).op(SSTORE);
                if rng.chance(1, 2) { c0.push_u(0).push_u(0).push_u(0).push_u(0).push_u(0).op(DUP1 + 5).op(GAS).op(CALL).op(POP); }
                c0.op(POP);
            } }
        3 => { name = "selfdestruct-variants";
            let t = match rng.below(4) { 0 => a1, 1 => a0, 2 => progs::addr(0xDEAD0001), _ => progs::addr(progs::COINBASE) };
            c1.push_u(1).push_u(0).op(SSTORE).push_addr(t).op(SELFDESTRUCT);
            let n = rng.range(1, 2);
            for _ in 0..n { c0.push_u(0).push_u(0).push_u(0).push_u(0).push_u(rng.below(3)).push_addr(a1).op(GAS).op(CALL).push_u(0).op(SSTORE); }
            c0.push_addr(a1).op(BALANCE).push_u(1).op(SSTORE);
            c0.push_addr(a1).op(EXTCODESIZE).push_u(2).op(SSTORE); }
        4 => { name = "value-to-new-or-empty-account";
            let t = match rng.below(4) { 0 => progs::addr(0xDEAD0002), 1 => progs::addr(rng.range(1, 9)), 2 => a2, _ => progs::addr(0xE0A) };
            extra.push((progs::addr(0xE0A), U256::ZERO, 0, vec![]));
            let scheme = *rng.pick(&[CALL, CALL, CALLCODE]);
            c0.push_u(0).push_u(0).push_u(0).push_u(0).push_u(rng.below(3)).push_addr(t);
            match rng.below(3) { 0 => { c0.op(GAS); } 1 => { c0.push_u(rng.below(3000)); } _ => { c0.push_u(rng.range(20_000, 80_000)); } }
            c0.op(scheme).push_u(0).op(SSTORE);
            c0.push_addr(t).op(BALANCE).push_u(1).op(SSTORE);
            c2.op(STOP); }
        5 => { name = "static-context-violations";
            let viol = rng.below(7);
            match viol {
                0 => { c1.push_u(1).push_u(0).op(SSTORE); }
                1 => { c1.push_u(0).push_u(0).op(LOG0); }
                2 => { c1.push_u(0).push_u(0).push_u(0).op(CREATE); }
                3 => { c1.op(ADDRESS).op(SELFDESTRUCT); }
                4 => { c1.push_u(0).push_u(0).push_u(0).push_u(0).push_u(1).push_addr(a2).op(GAS).op(CALL); }
                5 => { c1.push_u(0).push_u(0).push_u(0).push_u(0).push_u(0).push_addr(a2).op(GAS).op(CALL); }
                _ => { c1.push_u(1).push_u(1).op(if enabled(spec, SpecId::CANCUN) { TSTORE } else { SSTORE }); }
            }
            c1.op(STOP);
            c2.push_u(1).push_u(0).op(SSTORE);
            c0.push_u(0).push_u(0).push_u(0).push_u(0).push_addr(a1).op(GAS).op(if byz { STATICCALL } else { DELEGATECALL }).push_u(0).op(SSTORE); }
        6 => { name = "returndata-and-output-window";
            let n = *rng.pick(&[0u64, 1, 31, 32, 33, 64]);
            c1.push(rng.u256b()).push_u(0).op(MSTORE).push(rng.u256b()).push_u(32).op(MSTORE).push_u(n).push_u(rng.below(3)).op(if byz && rng.chance(1, 2) { REVERT } else { RETURN });
            c0.push_u(*rng.pick(&[0u64, 16, 32, 64])).push_u(rng.below(40)).push_u(0).push_u(0).push_u(0).push_addr(a1).op(GAS).op(CALL).push_u(0).op(SSTORE);
            c0.push_u(0).op(MLOAD).push_u(1).op(SSTORE).push_u(32).op(MLOAD).push_u(2).op(SSTORE);
            if byz { c0.op(RETURNDATASIZE).push_u(3).op(SSTORE); c0.push_u(*rng.pick(&[0u64, 1, 32, 65])).push_u(rng.below(3)).push_u(64).op(RETURNDATACOPY); c0.push_u(64).op(MLOAD).push_u(4).op(SSTORE); } }
        7 => { name = "code-deposit-and-limits";
            let n = *rng.pick(&[0u64, 1, 100, 24_576, 24_577, 3000]);
            let mut init = Asm::new();
            if rng.chance(1, 4) { init.push_u(0xef).push_u(0).op(MSTORE8); }
            init.push_u(n).push_u(0).op(RETURN);
            let init = init.finish();
            c0.mstore_bytes(0, &init);
            c0.push_u(init.len() as u64).push_u(0).push_u(0).op(CREATE).op(DUP1).push_u(0).op(SSTORE).op(EXTCODESIZE).push_u(1).op(SSTORE);
            gas = *rng.pick(&[120_000u64, 200_000, 700_000, 6_000_000]); }
        8 => { name = "bounded-recursion";
            let scheme = *rng.pick(&[CALL, CALLCODE, DELEGATECALL]);
            let scheme = if scheme == DELEGATECALL && !enabled(spec, SpecId::HOMESTEAD) { CALLCODE } else { scheme };
            c0.push_u(1).push_u(0).op(SLOAD).op(ADD).push_u(0).op(SSTORE);
            c0.push_u(0).push_u(0).push_u(0).push_u(0);
            if scheme != DELEGATECALL { c0.push_u(0); }
            c0.op(ADDRESS).push_u(rng.range(1000, 30_000)).op(GAS).op(SUB).op(scheme).op(POP);
            gas = rng.range(100_000, 400_000); }
        9 => { name = "create-address-collision";
            // the address CREATE from a0 with nonce 1 would give, precomputed by the real implementation
            let target = a0.create(1);
            extra.push((target, U256::from(rng.below(2)), rng.below(2), if rng.chance(1, 2) { vec![STOP] } else { vec![] }));
            if rng.chance(1, 3) { storage.push((target, 0, 1)); }
            let mut init = Asm::new(); init.push_u(1).push_u(0).op(RETURN); let init = init.finish();
            c0.mstore_bytes(0, &init);
            c0.push_u(init.len() as u64).push_u(0).push_u(0).op(CREATE).push_u(0).op(SSTORE); }
        10 => { name = "extcode-of-special-accounts";
            for t in [a1, progs::addr(progs::CALLER_ADDR), progs::addr(0xDEAD0003), progs::addr(2), a0] {
                c0.push_addr(t).op(EXTCODESIZE).op(POP);
                if enabled(spec, SpecId::CONSTANTINOPLE) { c0.push_addr(t).op(EXTCODEHASH).push_u(rng.below(5)).op(SSTORE); }
                c0.push_u(40).push_u(0).push_u(0).push_addr(t).op(EXTCODECOPY);
                c0.push_addr(t).op(BALANCE).op(POP);
            }
            c1.push(rng.u256b()).op(POP).op(STOP);
            c0.push_u(0).op(MLOAD); ret_word(&mut c0); }
        _ => { name = "blockhash-env-keccak";
            for n in [99u64, 100, 101, 0, rng.below(120)] { c0.push_u(n).op(0x40).push_u(rng.below(4)).op(SSTORE); }
            c0.op(0x41).op(0x42).op(ADD).op(0x43).op(ADD).op(0x44).op(ADD).op(0x45).op(ADD).op(0x3a).op(ADD).op(0x32).op(ADD).push_u(5).op(SSTORE);
            c0.push_u(rng.below(70)).push_u(rng.below(40)).op(KECCAK256).push_u(6).op(SSTORE);
            value = U256::from(rng.below(1000)); }
    }
    let codes = vec![c0.finish(), c1.finish(), c2.finish()];
    let balances = vec![U256::from(rng.below(50)), U256::from(rng.below(50)), U256::from(rng.below(50))];
    let data = rng.bytes(*rng.clone().pick(&[0usize, 4, 36]));
    let tx = progs::base_tx(TxKind::Call(a0), gas, value, data);
    let descr = format!("scenario {} spec={:?} gas_limit={} codes=[{}]", name, spec, gas, codes.iter().map(|c| progs::hex(c)).collect::<Vec<_>>().join(","));
    let mut w = progs::world_from(spec, &codes, &balances, tx, descr);
    for (a, k, v) in storage { let _ = w.db.insert_account_storage(a, U256::from(k), U256::from(v)); }
    for (a, b, n, c) in extra { w.db.insert_account_info(a, progs::account(b, n, &c)); }
    w.tags = vec!["gen:scenario".into(), format!("scenario:{}", name), format!("spec:{:?}", spec), "tx:legacy".into()];
    w
}

// ------------------------------------------------------------------ rendering
fn render_world(w: &World, rec: &Rec, fuel: u64) -> String {
    let spec = w.spec;
    let tx = &w.tx;
    let b = &w.block;
    let is_create = matches!(tx.transact_to, TxKind::Create);
    let auth_len = tx.authorization_list.as_ref().map(|l| l.len() as u64);
    let txe = format!("(E.mkTx {} {} {} {} {} {} {} {} {} {} {} {})",
        zu(tx.gas_limit), zw(tx.gas_price), zb(is_create), zw(tx.value), zbytes(&tx.data), zopt(tx.nonce.map(zu)), zopt(tx.chain_id.map(zu)),
        zlist(tx.access_list.iter().map(|i| zu(i.storage_keys.len() as u64))), zopt_w(tx.gas_priority_fee),
        zlist(tx.blob_hashes.iter().map(|h| zu(h.0[0] as u64))), zopt_w(tx.max_fee_per_blob_gas), zopt(auth_len.map(zu)));
    let blk = format!("(E.mkBlock {} {} {} {})", zw(b.gas_limit), zw(b.basefee), zb(b.prevrandao.is_some()), zopt(b.get_blob_gasprice().map(zu128)));
    let env = format!("(E.mkEnv (E.mainnet_cfg 1) {} {})", blk, txe);
    let to = match tx.transact_to { TxKind::Call(a) => format!("(Some {})", za(a)), TxKind::Create => "None".into() };
    let al = zlist(tx.access_list.iter().map(|i| format!("({}, {})", za(i.address), zlist(i.storage_keys.iter().map(|k| zh(*k))))));
    let auths = match &tx.authorization_list {
        None => "[]".to_string(),
        Some(l) => zlist(l.recovered_iter().map(|a| format!("({}, {}, {}, {})", zopt(a.authority().map(za)), zw(*a.chain_id()), za(a.address), zu(a.nonce())))),
    };
    // pre-state
    let mut accs: Vec<_> = w.db.accounts.iter().collect();
    accs.sort_by_key(|x| *x.0);
    let mut codes: BTreeMap<B256, Vec<u8>> = BTreeMap::new();
    let mut acc_terms = vec![];
    let mut sto_terms = vec![];
    for (a, acc) in accs {
        let h = acc.info.code_hash;
        if h != KECCAK_EMPTY && h != B256::ZERO {
            let bytes = acc.info.code.as_ref().map(|c| c.original_bytes()).or_else(|| w.db.contracts.get(&h).map(|c| c.original_bytes())).unwrap_or_default();
            codes.insert(h, bytes.to_vec());
        }
        acc_terms.push(format!("({}, ({}, {}, {}))", za(*a), zw(acc.info.balance), zu(acc.info.nonce), code_id(h)));
        let mut ks: Vec<_> = acc.storage.iter().collect();
        ks.sort();
        for (k, v) in ks { sto_terms.push(format!("({}, {}, {})", za(*a), zw(*k), zw(*v))); }
    }
    let code_terms = zlist(codes.iter().map(|(h, b)| format!("({}, {})", zh(*h), zbytes(b))));
    let pre = zlist(rec.pre.iter().map(|(a, g, i, r)| format!("({}, {}, {}, {})", za(*a), zu(*g), zbytes(i), r)));
    format!("(mkW {} {} {} {} {} {} {} {} {} {} {} {} {} {} {} {} {} {}) {}",
        spec as u8, env, za(tx.caller), to, zw(tx.value), zbytes(&tx.data), zlist(tx.blob_hashes.iter().map(|h| zh(*h))), al, auths,
        za(b.coinbase), zw(b.number), zw(b.timestamp), zw(b.difficulty), zh(b.prevrandao.unwrap_or_default()),
        zlist(acc_terms), zlist(sto_terms), code_terms, pre, zu(fuel))
}

/// (Coq term of the observation, class string, number of accounts in the state, sum check inputs)
fn render_obs(w: &World, rs: &ResultAndState, perturb: &str) -> (String, String, usize) {
    let (class, gas_used, gas_refunded, out, created, logs): (u8, u64, u64, Vec<u8>, Option<Address>, Vec<String>) = match &rs.result {
        ExecutionResult::Success { gas_used, gas_refunded, logs, output, .. } => {
            let (o, c) = match output { Output::Call(b) => (b.to_vec(), None), Output::Create(b, a) => (b.to_vec(), *a) };
            (0, *gas_used, *gas_refunded, o, c, logs.iter().map(|l| format!("({}, {}, {})", za(l.address), zlist(l.data.topics().iter().map(|t| zh(*t))), zbytes(&l.data.data))).collect())
        }
        ExecutionResult::Revert { gas_used, output } => (1, *gas_used, 0, output.to_vec(), None, vec![]),
        ExecutionResult::Halt { gas_used, .. } => (2, *gas_used, 0, vec![], None, vec![]),
    };
    let gas_used = if perturb == "gas" { gas_used + 1 } else { gas_used };
    let mut addrs: Vec<_> = rs.state.keys().cloned().collect();
    addrs.sort();
    let mut st = vec![];
    for a in &addrs {
        let acc = &rs.state[a];
        let mut ks: Vec<_> = acc.storage.iter().collect();
        ks.sort_by_key(|x| *x.0);
        let f = |s: AccountStatus| zb(acc.status.contains(s));
        let bal = if perturb == "balance" && *a == w.block.coinbase { acc.info.balance + U256::from(1) } else { acc.info.balance };
        st.push(format!("({}, ({}, {}, {}), ({}, {}, {}, {}), {})", za(*a), zw(bal), zu(acc.info.nonce), code_id(acc.info.code_hash),
            f(AccountStatus::Touched), f(AccountStatus::Created), f(AccountStatus::SelfDestructed), f(AccountStatus::LoadedAsNotExisting),
            zlist(ks.iter().map(|(k, v)| format!("({}, {})", zw(**k), zw(v.present_value))))));
    }
    let absent: Vec<String> = w.db.accounts.keys().filter(|a| !rs.state.contains_key(*a)).map(|a| za(*a)).collect();
    let term = format!("(mkObs {} {} {} {} {} {} {} {} {})", class, reason_code(&rs.result), zu(gas_used), zu(gas_refunded), zbytes(&out), zopt(created.map(za)), zlist(logs), zlist(st), zlist(absent));
    let cls = match &rs.result { ExecutionResult::Success { reason, .. } => format!("success:{:?}", reason), ExecutionResult::Revert { .. } => "revert".into(), ExecutionResult::Halt { reason, .. } => format!("halt:{:?}", reason) };
    (term, cls, addrs.len())
}

/// the InstructionResult discriminant the first frame ended with, as far as ExecutionResult shows it
fn reason_code(r: &ExecutionResult) -> u64 {
    match r {
        ExecutionResult::Success { reason, .. } => match reason { SuccessReason::Stop => 1, SuccessReason::Return => 2, SuccessReason::SelfDestruct => 3, SuccessReason::EofReturnContract => 4 },
        ExecutionResult::Revert { .. } => 16,
        ExecutionResult::Halt { reason, .. } => match reason {
            HaltReason::OutOfGas(OutOfGasError::Basic) => 80, HaltReason::OutOfGas(OutOfGasError::Memory) => 81, HaltReason::OutOfGas(OutOfGasError::MemoryLimit) => 82,
            HaltReason::OutOfGas(OutOfGasError::Precompile) => 83, HaltReason::OutOfGas(OutOfGasError::InvalidOperand) => 84,
            HaltReason::OpcodeNotFound => 85, HaltReason::CallNotAllowedInsideStatic => 86, HaltReason::StateChangeDuringStaticCall => 87,
            HaltReason::InvalidFEOpcode => 88, HaltReason::InvalidJump => 89, HaltReason::NotActivated => 90, HaltReason::StackUnderflow => 91,
            HaltReason::StackOverflow => 92, HaltReason::OutOfOffset => 93, HaltReason::CreateCollision => 94, HaltReason::OverflowPayment => 95,
            HaltReason::PrecompileError => 96, HaltReason::NonceOverflow => 97, HaltReason::CreateContractSizeLimit => 98,
            HaltReason::CreateContractStartingWithEF => 99, HaltReason::CreateInitCodeSizeLimit => 100, HaltReason::OutOfFunds => 18, HaltReason::CallTooDeep => 17,
            _ => 0,
        },
    }
}

fn has_selfdestruct_byte(w: &World) -> bool {
    w.db.contracts.values().any(|c| c.original_bytes().contains(&SELFDESTRUCT)) || w.tx.data.contains(&SELFDESTRUCT)
}

pub fn run(o: &Opts) {
    let mut rng = Rng::new(o.seed ^ 0xC01);
    let mut w = CaseWriter::new(o, "C01", 60);
    let perturb = std::env::var("VH_C01_PERTURB").unwrap_or_default();
    let n = if o.thorough() { 12_000 } else { 1_200 };
    let opts = GenOpts { tx_types: true, selfdestruct_pct: 10, ..Default::default() };
    let (mut rejected, mut heavy, mut panicked) = (0u64, 0u64, 0u64);
    let mut ops_seen = std::collections::BTreeSet::new();
    for i in 0..n {
        let mut world = match i % 6 { 1 | 4 => soup_world(&mut rng), 2 => scenario_world(&mut rng), _ => progs::gen_world(&mut rng, &opts) };
        if world.tags.iter().any(|t| t == "gen:scenario") && rng.chance(1, 3) && enabled(world.spec, SpecId::BERLIN) {
            // scenario with an access list
            world.tx.access_list.push(revm::primitives::AccessListItem { address: world.contracts[rng.below(world.contracts.len() as u64) as usize], storage_keys: (0..rng.below(3)).map(|k| B256::from(U256::from(k))).collect() });
            world.tags.retain(|t| t != "tx:legacy"); world.tags.push("tx:eip2930".into());
        }
        // pre-state storage, a base fee, an occasional collision target
        for c in world.contracts.clone() {
            for k in 0..rng.below(3) { let _ = world.db.insert_account_storage(c, U256::from(k), U256::from(rng.range(1, 5))); }
        }
        if enabled(world.spec, SpecId::LONDON) { world.block.basefee = if world.tx.gas_priority_fee.is_some() { U256::from(rng.below(10)) } else { U256::from(rng.below(2)) }; }
        world.block.difficulty = U256::from(0xd1ff);
        let db: CacheDB<EmptyDB> = world.db.clone();
        let (tx, block, spec) = (world.tx.clone(), world.block.clone(), world.spec);
        let bare = catch(move || {
            let mut evm = Evm::builder().with_db(db).with_spec_id(spec).modify_tx_env(|t| *t = tx).modify_block_env(|b| *b = block).build();
            evm.transact()
        });
        let rs = match bare {
            Err(_) => { panicked += 1; w.tag("skipped:implementation-panicked"); continue; }
            Ok(Err(_)) => { rejected += 1; w.tag("skipped:rejected-by-validation"); continue; }
            Ok(Ok(rs)) => rs,
        };
        // second run with the recording inspector: precompile oracle, step count, memory size
        let db: CacheDB<EmptyDB> = world.db.clone();
        let (tx, block, spec) = (world.tx.clone(), world.block.clone(), world.spec);
        let mut rec = Rec::default();
        rec.precompiles = Precompiles::new(PrecompileSpecId::from_spec_id(spec)).addresses().cloned().collect();
        let rec = catch(move || {
            let mut evm = Evm::builder().with_db(db).with_external_context(rec).with_spec_id(spec).modify_tx_env(|t| *t = tx).modify_block_env(|b| *b = block)
                .append_handler_register(inspector_handle_register).build();
            let _ = evm.transact();
            std::mem::take(&mut evm.context.external)
        });
        let rec = match rec { Ok(r) => r, Err(_) => { panicked += 1; w.tag("skipped:implementation-panicked"); continue; } };
        if rec.steps > 4000 || rec.max_mem > 16_384 || rec.max_code > 4096 { heavy += 1; w.tag("skipped:heavy"); continue; }
        for x in &rec.ops { ops_seen.insert(*x); }
        let fuel = rec.steps + 8;
        let (obs, cls, nacc) = render_obs(&world, &rs, if i % 7 == 0 { &perturb } else { "" });
        let case = format!("(CTx {} {} {})", render_world(&world, &rec, fuel), obs, zb(has_selfdestruct_byte(&world)));
        let human = format!("{} status={} steps={}", world.descr, cls, rec.steps);
        let mut tags = world.tags.clone();
        tags.push("kind:transaction".into());
        tags.push(format!("status:{}", cls));
        tags.push(format!("steps:{}", match rec.steps { 0 => "0", 1..=20 => "1-20", 21..=100 => "21-100", 101..=500 => "101-500", _ => "501+" }));
        if !rec.pre.is_empty() { tags.push("precompile-oracle-used".into()); }
        let tr: Vec<&str> = tags.iter().map(|s| s.as_str()).collect();
        w.push(case, human, rec.steps > 10 || nacc > 3, &tr);
    }
    w.note("skipped", format!("rejected-by-validation={} heavy={} implementation-panicked={} of {}", rejected, heavy, panicked, n));
    w.note("opcodes_executed", format!("{} distinct: {}", ops_seen.len(), ops_seen.iter().map(|x| format!("{:02x}", x)).collect::<Vec<_>>().join(" ")));
    w.finish("generated worlds (1/2 call graphs of progs.rs with all five transaction types, 1/3 opcode soups over every legacy opcode with boundary operands, 1/6 hand-written scenarios: refund patterns, reverting children, CREATE2 redeploy, self-destruct variants, static violations, return-data windows, code-deposit limits, bounded recursion, address collision, EXTCODE* of special accounts, BLOCKHASH/env; 13 SpecIds FRONTIER..PRAGUE; pre-state storage, base fee) executed by the real Evm on a CacheDB; the case carries environment, pre-state, code bytes, the precompile outcomes recorded by an inspector run, and the observed class / success-or-halt reason / gas_used / gas_refunded / output / created address / logs / full EvmState (info, status flags, storage); the Gallina interpreter (Model/Evm.v run_tx) is evaluated on the same input; skipped: transactions rejected by validation, > 4000 steps, > 16 KiB memory; non-trivial = more than 10 instructions or more than 3 accounts in the state");
}

// ------------------------------------------------------------------ official vectors through revme
fn find_json(dir: &std::path::Path, out: &mut Vec<std::path::PathBuf>) {
    if let Ok(rd) = std::fs::read_dir(dir) {
        let mut es: Vec<_> = rd.flatten().map(|e| e.path()).collect();
        es.sort();
        for p in es { if p.is_dir() { find_json(&p, out); } else if p.extension().map(|e| e == "json").unwrap_or(false) { out.push(p); } }
    }
}
/// Vectors of the shipped pectra-devnet-5 suite that encode a superseded draft of EIP-7702: there
/// EXTCODESIZE / EXTCODEHASH / EXTCODECOPY of a delegated account act on the 2-byte marker 0xef01
/// (size 2, keccak(ef01), "ef01"). The final EIP-7702 (Prague mainnet) text makes them act on the full
/// 23-byte designator 0xef0100 || address, which is what this code base implements (the
/// EIP7702_MAGIC_* special case of upstream revm 19 was dropped deliberately). The oracle is outdated
/// there, not the code: the four files are run and reported, but excluded from the verdict.
const SUPERSEDED_VECTORS: &[&str] = &[
    "prague/eip7702_set_code_tx/set_code_txs/ext_code_on_set_code.json",
    "prague/eip7702_set_code_tx/set_code_txs/ext_code_on_self_set_code.json",
    "prague/eip7702_set_code_tx/set_code_txs/ext_code_on_self_delegating_set_code.json",
    "prague/eip7702_set_code_tx/set_code_txs/ext_code_on_chain_delegating_set_code.json",
];

pub fn run_vectors(o: &Opts) {
    let mut w = CaseWriter::new(o, "C01", 400);
    let root = std::env::var("VERIF_ROOT").unwrap_or_else(|_| "/verif".into());
    let bin = std::env::var("REVME_BIN").unwrap_or_else(|_| format!("{}/harness/target-revme/ethtests/revme", root));
    let emptied: Vec<String> = std::fs::read_to_string("/root/.vp/EMPTIED_FILES.txt").unwrap_or_default().lines().map(|l| l.trim().to_string()).filter(|l| !l.is_empty()).collect();
    let dirs = std::env::var("C01_VECTOR_DIRS").unwrap_or_else(|_| "/repo/tests/pectra_devnet5/state_tests:/repo/tests/eof_suite/eest/state_tests".into());
    let mut files = vec![];
    for d in dirs.split(':') { find_json(std::path::Path::new(d), &mut files); }
    if !std::path::Path::new(&bin).exists() {
        w.push("(CVec 0 false)".into(), format!("revme binary not found at {} (build it: cargo build -p revme --profile ethtests)", bin), true, &["kind:vector", "vector:no-runner"]);
        w.finish("official execution-spec state-test vectors through revme statetest; the runner binary was not found");
        return;
    }
    let perturb = std::env::var("VH_C01_PERTURB").unwrap_or_default();
    let (mut sup_pass, mut sup_fail) = (0u64, 0u64);
    let mut id = 0u64;
    for f in files {
        let fs = f.to_string_lossy().to_string();
        if emptied.iter().any(|e| fs.ends_with(e.as_str())) { w.tag("skipped:emptied-vector-file"); continue; }
        id += 1;
        let outp = std::process::Command::new(&bin).arg("statetest").arg(&f).output();
        let (ok, detail) = match outp {
            Ok(o) => (o.status.success(), String::from_utf8_lossy(&o.stderr).chars().take(300).collect::<String>()),
            Err(e) => (false, format!("{}", e)),
        };
        let ok = if perturb == "vec" && id == 3 { false } else { ok };
        let superseded = SUPERSEDED_VECTORS.iter().any(|e| fs.ends_with(e));
        if superseded { if ok { sup_pass += 1; } else { sup_fail += 1; } }
        let dir_tag = format!("vector-dir:{}", f.parent().and_then(|p| p.file_name()).map(|s| s.to_string_lossy().to_string()).unwrap_or_default());
        if superseded {
            w.push(format!("(CVecSuperseded {} {})", id, zb(ok)), format!("revme statetest {} -> {} (superseded devnet-5 draft vector: excluded)", fs, if ok { "pass" } else { "differs" }), false, &["kind:vector", "vector:superseded-eip7702-draft"]);
            continue;
        }
        w.push(format!("(CVec {} {})", id, zb(ok)), format!("revme statetest {} -> {}{}", fs, if ok { "pass" } else { "FAIL " }, if ok { "".into() } else { detail.replace('\n', " ") }), true, &["kind:vector", &dir_tag]);
    }
    w.note("superseded_vectors", format!("{} files excluded (EIP-7702 devnet-5 draft of EXTCODE* on delegated accounts): {} differ from the draft expectation, {} pass", SUPERSEDED_VECTORS.len(), sup_fail, sup_pass));
    w.finish("every shipped execution-spec state-test file (tests/pectra_devnet5/state_tests, tests/eof_suite state tests; the intentionally emptied files skipped; 4 files ext_code_on_*set_code that encode the superseded devnet-5 draft of EIP-7702 are run and listed with tag vector:superseded-eip7702-draft but excluded from the verdict) run through revme's own statetest runner, which compares revm's post-state root and logs hash with the official expectation for every fork entry of the file; one case per file; non-trivial = all");
}
