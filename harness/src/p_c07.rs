//! C07: frame events driven directly on the real `EvmContext` (make_call_frame, call_return,
//! make_create_frame, create_return) with host operations in between; model coq/Model/Frames.v.
use crate::p_c06::{apply, balance_pick, Hop};
use crate::util::*;
use revm::db::{CacheDB, EmptyDB};
use revm::interpreter::{CallInputs, CallScheme, CallValue, CreateInputs, Gas, InstructionResult, InterpreterResult};
use revm::precompile::PrecompileSpecId;
use revm::primitives::{
    AccountInfo, Address, Bytecode, Bytes, CancunSpec, CreateScheme, Env, Eof, HashSet, HomesteadSpec, LondonSpec, OsakaSpec,
    SpecId, B256, KECCAK_EMPTY, U256,
};
use revm::{ContextPrecompiles, EvmContext, FrameOrResult, FrameResult, JournalCheckpoint, JournaledState};
use std::collections::HashMap;
use std::sync::Arc;

const BASE: [u64; 6] = [33, 34, 35, 36, 37, 38];
const PRECOMPILE: u64 = 4; // identity
const NKEY: u64 = 4;

fn eof_code() -> Bytecode {
    let raw = Bytes::from(vec![0xef, 0x00, 0x01, 0x01, 0x00, 0x04, 0x02, 0x00, 0x01, 0x00, 0x01, 0x04, 0x00, 0x00, 0x00, 0x00, 0x80, 0x00, 0x00, 0x00]);
    Bytecode::Eof(Arc::new(Eof::decode(raw).expect("valid minimal EOF container")))
}
/// code ids: 0 empty, 1..=3 legacy, 4 EOF container, 10+n delegation to address id n
fn code_of(id: u64) -> Bytecode {
    if id == 0 { Bytecode::default() }
    else if id == 4 { eof_code() }
    else if id >= 10 { Bytecode::new_eip7702(Address::with_last_byte((id - 10) as u8)) }
    else { Bytecode::new_raw(Bytes::from(vec![0x60, id as u8, 0x50, 0x00])) }
}
fn code_ids() -> HashMap<B256, u64> {
    let mut m = HashMap::new();
    m.insert(KECCAK_EMPTY, 0);
    for id in (1..=4).chain(BASE.iter().map(|b| 10 + b)) { m.insert(code_of(id).hash_slow(), id); }
    // codes that only pre-London / pre-Spurious-Dragon create_return accepts
    m.insert(Bytecode::new_legacy(Bytes::from(vec![0xefu8, 0x01])).hash_slow(), 5);
    m.insert(Bytecode::new_legacy(Bytes::from(vec![0u8; 0x6001])).hash_slow(), 6);
    m
}

struct Table { ids: Vec<(u64, Address)>, next: u64 }
impl Table {
    fn new() -> Self { let mut ids: Vec<(u64, Address)> = BASE.iter().map(|b| (*b, Address::with_last_byte(*b as u8))).collect(); ids.push((PRECOMPILE, Address::with_last_byte(4))); Table { ids, next: 100 } }
    fn addr(&self, id: u64) -> Address { self.ids.iter().find(|(i, _)| *i == id).unwrap().1 }
    fn id_of(&mut self, a: Address) -> u64 {
        if let Some((i, _)) = self.ids.iter().find(|(_, x)| *x == a) { return *i; }
        let i = self.next; self.next += 1; self.ids.push((i, a)); i
    }
}

fn dump(js: &JournaledState, t: &Table, ids: &HashMap<B256, u64>) -> String {
    let mut accs = vec![];
    for (_, a) in &t.ids {
        match js.state.get(a) {
            None => accs.push("None".to_string()),
            Some(acc) => {
                let code = *ids.get(&acc.info.code_hash).unwrap_or(&99);
                let slots = zlist((0..NKEY).map(|k| match acc.storage.get(&U256::from(k)) {
                    None => "None".to_string(),
                    Some(s) => format!("(Some ({},{},{}))", zw(s.original_value), zw(s.present_value), zb(s.is_cold)),
                }));
                use revm::primitives::AccountStatus as St;
                accs.push(format!("(Some ({},{},{},({},{},{},{},{}),{}))", zw(acc.info.balance), zu(acc.info.nonce), code,
                    zb(acc.status.contains(St::Created)), zb(acc.status.contains(St::SelfDestructed)), zb(acc.status.contains(St::Touched)),
                    zb(acc.status.contains(St::LoadedAsNotExisting)), zb(acc.status.contains(St::Cold)), slots));
            }
        }
    }
    let mut ts = vec![];
    for (_, a) in &t.ids { for k in 0..NKEY { ts.push(zw(js.transient_storage.get(&(*a, U256::from(k))).copied().unwrap_or_default())); } }
    let logs = zlist(js.logs.iter().map(|l| format!("{}", l.data.data.first().copied().unwrap_or(0))));
    let frames = zlist(js.journal.iter().rev().map(|f| format!("{}", f.len())));
    format!("(mkDump {} {} {} {} {})", zlist(accs), zlist(ts), logs, js.depth, frames)
}

fn res_code(r: InstructionResult, precompile: bool) -> i64 {
    use InstructionResult::*;
    match r {
        CallTooDeep => 1, OutOfFunds => 2, OverflowPayment => 3,
        InvalidExtDelegateCallTarget => 6,
        CreateInitCodeStartingEF00 => 8,
        Return if !precompile => 9, // nonce overflow in make_create_frame
        CreateCollision => 10,
        Stop if !precompile => 7,
        x if precompile => if x.is_ok() { 4 } else { 5 },
        _ => 99,
    }
}

enum Open { Call(JournalCheckpoint, u64), Create(JournalCheckpoint, u64, Address) }

pub fn run(o: &Opts) {
    let mut rng = Rng::new(o.seed ^ 0xC07);
    let mut w = CaseWriter::new(o, "C07", 60);
    let ids = code_ids();
    let n = if o.thorough() { 3000 } else { 420 };
    for case_no in 0..n {
        let deep = case_no % 140 == 7; // a few cases probe the real depth limit
        let spec = *rng.pick(&[SpecId::HOMESTEAD, SpecId::LONDON, SpecId::CANCUN, SpecId::CANCUN, SpecId::OSAKA, SpecId::OSAKA]);
        let mut t = Table::new();
        // database
        let mut db = CacheDB::new(EmptyDB::default());
        let mut accs: Vec<(u64, U256, u64, u64)> = vec![];
        let mut sto: Vec<(u64, u64, U256)> = vec![];
        let mut put = |db: &mut CacheDB<EmptyDB>, accs: &mut Vec<(u64, U256, u64, u64)>, id: u64, a: Address, bal: U256, nonce: u64, code: u64| {
            let c = code_of(code);
            db.insert_account_info(a, AccountInfo { balance: bal, nonce, code_hash: c.hash_slow(), code: Some(c) });
            accs.push((id, bal, nonce, code));
        };
        for b in BASE {
            if rng.chance(5, 6) || deep {
                let bal = if deep { U256::from(1_000_000u64) } else { balance_pick(&mut rng) };
                let nonce = match rng.below(6) { 0 => u64::MAX, 1 => 0, _ => rng.below(4) };
                let code = if deep { 1 } else { match rng.below(8) { 0 | 1 => 1 + rng.below(3), 2 => 4, 3 => 10 + *rng.pick(&BASE), _ => 0 } };
                put(&mut db, &mut accs, b, t.addr(b), bal, if deep { 1 } else { nonce }, code);
                for k in 0..NKEY { if rng.chance(1, 4) { let v = U256::from(1 + rng.below(5)); db.insert_account_storage(t.addr(b), U256::from(k), v).unwrap(); sto.push((b, k, v)); } }
            }
        }
        // occupy some of the addresses the first creates of account 33/34 would produce
        for b in [33u64, 34] {
            let n0 = accs.iter().find(|x| x.0 == b).map(|x| x.2).unwrap_or(0);
            for d in 0..2u64 {
                if n0.checked_add(d).is_some() && rng.chance(1, 3) {
                    let a = t.addr(b).create(n0 + d);
                    let id = t.id_of(a);
                    match rng.below(3) {
                        0 => put(&mut db, &mut accs, id, a, U256::from(rng.below(3)), 1 + rng.below(2), 0),
                        1 => put(&mut db, &mut accs, id, a, U256::ZERO, 0, 1 + rng.below(3)),
                        _ => { put(&mut db, &mut accs, id, a, balance_pick(&mut rng), 0, 0); if rng.chance(1, 2) { db.insert_account_storage(a, U256::from(1u64), U256::from(7u64)).unwrap(); sto.push((id, 1, U256::from(7u64))); } }
                    }
                }
            }
        }
        let mut ctx = EvmContext::new_with_env(db, Box::new(Env::default()));
        ctx.inner.journaled_state = JournaledState::new(spec, HashSet::default());
        ctx.set_precompiles(ContextPrecompiles::new(PrecompileSpecId::from_spec_id(spec)));

        let mut events: Vec<String> = vec![];
        let mut human: Vec<String> = vec![];
        let mut obs: Vec<String> = vec![];
        let mut tags: Vec<&'static str> = vec![];
        let mut open: Vec<Open> = vec![];
        let mut completed = true;
        let nev = if deep { 2200 } else { rng.range(3, 26) };
        let deep_siblings = rng.below(6);
        for ev in 0..nev {
            let cur = match open.last() { Some(Open::Call(_, a)) => *a, Some(Open::Create(_, a, _)) => *a, None => 33 };
            let cur_base = if BASE.contains(&cur) { cur } else { 33 };
            let kind = if deep {
                if ev < deep_siblings { if rng.chance(1, 2) { 0 } else { 1 } } else if ev < deep_siblings + 1030 { 9 } else if !open.is_empty() { 2 } else { break }
            } else { match rng.below(20) { 0..=7 => 0, 8..=10 => 1, 11..=15 => if open.is_empty() { 0 } else { 2 }, _ => 3 } };
            let r = catch(|| -> (String, String, String) {
                match kind {
                    0 | 9 => {
                        // call
                        let target = if kind == 9 { 34 } else if rng.chance(1, 8) { PRECOMPILE } else { *rng.pick(&BASE) };
                        let bytecode = if kind == 9 || rng.chance(4, 5) { target } else { *rng.pick(&BASE) };
                        let caller = cur_base;
                        let ext = kind != 9 && spec == SpecId::OSAKA && rng.chance(1, 4);
                        let cb = ctx.journaled_state.state.get(&t.addr(caller)).map(|a| a.info.balance).unwrap_or_default();
                        let value = if kind == 9 { CallValue::Transfer(U256::ZERO) } else if ext { CallValue::Apparent(U256::from(rng.below(9))) } else {
                            match rng.below(7) { 0 | 1 => CallValue::Transfer(U256::ZERO), 2 => CallValue::Transfer(cb), 3 => CallValue::Transfer(cb.saturating_add(U256::from(1u64))),
                                4 => CallValue::Transfer(U256::from(rng.below(6))), 5 => CallValue::Apparent(U256::from(rng.below(6))), _ => CallValue::Transfer(cb >> 1) } };
                        let gas_limit = if rng.chance(1, 3) { 0 } else { 100_000 };
                        let inputs = CallInputs { input: Bytes::new(), return_memory_offset: 0..0, gas_limit, bytecode_address: t.addr(bytecode), target_address: t.addr(target),
                            caller: t.addr(caller), value: value.clone(), scheme: if ext { CallScheme::ExtDelegateCall } else { CallScheme::Call }, is_static: false, is_eof: ext };
                        let is_pre = bytecode == PRECOMPILE;
                        let pre = if is_pre { format!("(Some {})", zb(gas_limit >= 15)) } else { "None".to_string() };
                        // is the code that will be loaded EOF? (code can only change at created addresses)
                        let code_hash = ctx.journaled_state.state.get(&t.addr(bytecode)).map(|a| a.info.code_hash)
                            .or_else(|| ctx.db.accounts.get(&t.addr(bytecode)).map(|a| a.info.code_hash)).unwrap_or(KECCAK_EMPTY);
                        let is_eof = *ids.get(&code_hash).unwrap_or(&0) == 4;
                        let (cv, vs) = match value { CallValue::Transfer(v) => ("Transfer", v), CallValue::Apparent(v) => ("Apparent", v) };
                        let term = format!("ECall (mkCI {} {} {} ({} {}) {} {} {})", caller, target, bytecode, cv, zw(vs), zb(ext), pre, zb(is_eof));
                        let out = ctx.make_call_frame(&inputs).unwrap();
                        let code = match out {
                            FrameOrResult::Frame(f) => { open.push(Open::Call(f.frame_data().checkpoint, target)); 0 }
                            FrameOrResult::Result(FrameResult::Call(oc)) => res_code(oc.result.result, is_pre && !ext),
                            _ => 99,
                        };
                        (term, format!("call {}->{} code@{} {:?} ext={} gas={}", caller, target, bytecode, value, ext, gas_limit), format!("[{}; {}]", code, ctx.journaled_state.depth))
                    }
                    1 => {
                        let caller = cur_base;
                        let cn = ctx.journaled_state.state.get(&t.addr(caller)).map(|a| a.info.nonce)
                            .or_else(|| ctx.db.accounts.get(&t.addr(caller)).map(|a| a.info.nonce)).unwrap_or(0);
                        let created = t.addr(caller).create(cn);
                        let cid = t.id_of(created);
                        let cb = ctx.journaled_state.state.get(&t.addr(caller)).map(|a| a.info.balance)
                            .or_else(|| ctx.db.accounts.get(&t.addr(caller)).map(|a| a.info.balance)).unwrap_or_default();
                        let value = match rng.below(5) { 0 => U256::ZERO, 1 => cb, 2 => cb.saturating_add(U256::from(1u64)), 3 => U256::from(rng.below(4)).min(cb), _ => cb >> 1 };
                        let ef = rng.chance(1, 6);
                        let init: Vec<u8> = if ef { vec![0xef, 0x00, 0x01] } else { vec![0x60, 0x00] };
                        let inputs = CreateInputs { caller: t.addr(caller), scheme: CreateScheme::Create, value, init_code: Bytes::from(init), gas_limit: 1_000_000 };
                        let hs = sto.iter().any(|(i, _, v)| *i == cid && !v.is_zero());
                        let ef00 = ef && spec == SpecId::OSAKA;
                        let term = format!("ECreate (mkCR {} {} {} {} false {})", caller, zw(value), cid, zb(ef00), zb(hs));
                        let out = ctx.make_create_frame(spec, &inputs).unwrap();
                        let code = match out {
                            FrameOrResult::Frame(f) => { open.push(Open::Create(f.frame_data().checkpoint, cid, created)); 0 }
                            FrameOrResult::Result(FrameResult::Create(oc)) => res_code(oc.result.result, false),
                            _ => 99,
                        };
                        (term, format!("create by {} value {} -> id {}", caller, value, cid), format!("[{}; {}]", code, ctx.journaled_state.depth))
                    }
                    2 => {
                        match open.pop().unwrap() {
                            Open::Call(cp, _) => {
                                let ok = rng.chance(1, 2);
                                let res = InterpreterResult { result: if ok { InstructionResult::Stop } else if rng.chance(1, 2) { InstructionResult::Revert } else { InstructionResult::OutOfGas }, output: Bytes::new(), gas: Gas::new(0) };
                                ctx.call_return(&res, cp);
                                (format!("ECallReturn {}", zb(ok)), format!("call_return ok={}", ok), format!("[-1; {}]", ctx.journaled_state.depth))
                            }
                            Open::Create(cp, cid, a) => {
                                let code = 1 + rng.below(3);
                                let variant = rng.below(6);
                                let out_bytes: Bytes = match variant { 0 => Bytes::new(), 1 => Bytes::from(vec![0xefu8, 0x01]), 2 => Bytes::from(vec![0u8; 0x6001]), _ => code_of(code).original_bytes() };
                                let mut res = InterpreterResult { result: if variant == 0 { InstructionResult::Revert } else { InstructionResult::Return }, output: out_bytes.clone(),
                                    gas: Gas::new(if variant == 5 { 10 } else { 100_000_000 }) };
                                match spec { SpecId::HOMESTEAD => ctx.create_return::<HomesteadSpec>(&mut res, a, cp), SpecId::LONDON => ctx.create_return::<LondonSpec>(&mut res, a, cp),
                                    SpecId::CANCUN => ctx.create_return::<CancunSpec>(&mut res, a, cp), _ => ctx.create_return::<OsakaSpec>(&mut res, a, cp) }
                                // what the code decided: Return = committed (with the code it stored), anything else = reverted
                                let committed = res.result == InstructionResult::Return;
                                let stored = ctx.journaled_state.state.get(&a).map(|x| x.info.code_hash).unwrap_or(KECCAK_EMPTY);
                                let term = if committed { format!("ECreateReturn {} (CRCommit {})", cid, *ids.get(&stored).unwrap_or(&98)) } else { format!("ECreateReturn {} CRFail", cid) };
                                (term, format!("create_return variant {} committed={}", variant, committed), format!("[-1; {}]", ctx.journaled_state.depth))
                            }
                        }
                    }
                    _ => {
                        // host operation of the running frame (plain hops only)
                        let a = cur_base;
                        let op = match rng.below(8) {
                            0 => Hop::Load(*rng.pick(&BASE)), 1 => Hop::Sload(a, rng.below(NKEY)), 2 | 3 => Hop::Sstore(a, rng.below(NKEY), U256::from(rng.below(4))),
                            4 => Hop::Tstore(a, rng.below(NKEY), U256::from(rng.below(3))), 5 => Hop::Log(rng.below(100)), 6 => Hop::Touch(*rng.pick(&BASE)),
                            _ => { let fb = ctx.journaled_state.state.get(&t.addr(a)).map(|x| x.info.balance).unwrap_or_default(); Hop::Transfer(a, *rng.pick(&BASE), fb >> 2) }
                        };
                        // sload/sstore need the account loaded
                        let op = match &op { Hop::Sload(x, _) | Hop::Sstore(x, _, _) if !ctx.journaled_state.state.contains_key(&t.addr(*x)) => Hop::Load(*x), _ => op };
                        let mut dummy = vec![];
                        let inner = &mut ctx.inner;
                        let v = apply(&mut inner.journaled_state, &mut inner.db, &mut dummy, &op);
                        (format!("EHop ({})", op.coq()), format!("{:?}", op), zlist(v))
                    }
                }
            });
            match r {
                Ok((term, h, ob)) => {
                    tags.push(if term.starts_with("ECall (") { "ev:call" } else if term.starts_with("ECreate (") { "ev:create" } else if term.starts_with("ECallReturn") { "ev:call_return" }
                              else if term.starts_with("ECreateReturn") { "ev:create_return" } else { "ev:hop" });
                    if ob.starts_with("[1;") { tags.push("result:CallTooDeep"); }
                    if ob.starts_with("[2;") { tags.push("result:OutOfFunds"); }
                    if ob.starts_with("[3;") { tags.push("result:OverflowPayment"); }
                    if ob.starts_with("[4;") { tags.push("result:precompile-ok"); }
                    if ob.starts_with("[5;") { tags.push("result:precompile-fail"); }
                    if ob.starts_with("[6;") { tags.push("result:InvalidExtDelegateCallTarget"); }
                    if ob.starts_with("[7;") { tags.push("result:Stop-empty-code"); }
                    if ob.starts_with("[8;") { tags.push("result:CreateInitCodeStartingEF00"); }
                    if ob.starts_with("[9;") { tags.push("result:nonce-overflow"); }
                    if ob.starts_with("[10;") { tags.push("result:CreateCollision"); }
                    if ob.starts_with("[0;") { tags.push("result:frame"); }
                    events.push(term); if human.len() < 40 { human.push(h); } obs.push(ob);
                }
                Err(_) => { events.push("EHop HCheckpoint".into()); obs.push("[-99]".into()); completed = false; tags.push("panic"); break; }
            }
        }
        let d = dump(&ctx.journaled_state, &t, &ids);
        let spur = spec.is_enabled_in(SpecId::SPURIOUS_DRAGON);
        let canc = spec.is_enabled_in(SpecId::CANCUN);
        let accs_s = zlist(accs.iter().map(|(a, b, n, c)| format!("({},({},{},{}))", a, zw(*b), zu(*n), c)));
        let sto_s = zlist(sto.iter().map(|(a, k, v)| format!("({},{},{})", a, k, zw(*v))));
        let del = zlist(BASE.iter().map(|b| format!("({},{})", 10 + b, b)));
        let us = zlist(t.ids.iter().map(|(i, _)| format!("{}", i)));
        let ks = zlist((0..NKEY).map(|k| format!("{}", k)));
        // warm pre-loaded addresses inside the universe: the precompile
        let case = format!("(mkCase {} {} [{}] {} {} {} {} {} {} {} {} {})", zb(spur), zb(canc), PRECOMPILE, accs_s, sto_s, del, us, ks, zlist(events.clone()), zlist(obs.clone()), zb(completed), d);
        if deep { tags.push("deep-chain-to-the-limit"); }
        tags.push(match spec { SpecId::HOMESTEAD => "spec:homestead", SpecId::LONDON => "spec:london", SpecId::CANCUN => "spec:cancun", _ => "spec:osaka" });
        tags.sort(); tags.dedup();
        let hs = format!("spec={:?} accs={:?} events={}", spec, accs, human.join("; "));
        w.push(case, hs, events.len() >= 3, &tags);
    }
    w.finish("frame events on the real revm::EvmContext over CacheDB: make_call_frame (value transfers that fail for funds/overflow, identity precompile with enough / no gas, EXTDELEGATECALL to EOF and non-EOF code under OSAKA, empty code, EIP-7702 delegations, apparent values), call_return (ok / revert / halt), make_create_frame (EF00 init code, missing funds, nonce 2^64-1, collisions by nonce / code / storage at the address the creator's nonce yields), create_return (revert, EF first byte, size limit, deposit out of gas, commit) and host operations in between; a few cases nest 1030 calls to reach the real depth limit after random sibling calls; specs Homestead / London / Cancun / Osaka; non-trivial = at least 3 events; distinct = distinct case terms");
}
