//! C19: a State with a preloaded bundle versus a State over the database with the bundle's
//! changeset applied. Bundles come from earlier real-Evm histories.
use crate::p_c15::*;
use crate::util::*;
use revm::db::states::bundle_state::BundleRetention;
use revm::db::{BundleState, CacheDB, EmptyDB, OriginalValuesKnown, State};
use revm::primitives::{Account, AccountInfo, AccountStatus as Flags, Address, HashMap, SpecId, U256, KECCAK_EMPTY};
use revm::{Database, DatabaseCommit};
use std::collections::BTreeMap;

fn zbundle(b: &BundleState) -> (String, String) {
    let mut v: Vec<_> = b.state.iter().collect();
    v.sort_by_key(|x| *x.0);
    let accts = zlist(v.iter().map(|(a, ba)| format!("({}, mkBacc {} {} {})", za(a), zoinfo(&ba.info),
        zslots(ba.storage.iter().map(|(k, s)| (k, (s.previous_or_original_value, s.present_value)))), stname(ba.status))));
    let mut c: Vec<_> = b.contracts.iter().collect();
    c.sort_by_key(|x| *x.0);
    (accts, zlist(c.iter().map(|(h, c)| format!("({}, {})", zh(h), zcode(c)))))
}

/// the changeset of `to_plain_state(OriginalValuesKnown::No)` applied to a plain map by hand
fn apply_changeset(w: &mut PlainWorld, b: &BundleState) {
    let cs = b.to_plain_state(OriginalValuesKnown::No);
    for (a, info) in cs.accounts.iter() {
        match info {
            None => { w.accts.remove(a); }
            Some(i) => { let e = w.accts.entry(*a).or_insert_with(|| (AccountInfo::default(), BTreeMap::new())); e.0 = i.clone(); }
        }
    }
    for s in cs.storage.iter() {
        if let Some(e) = w.accts.get_mut(&s.address) {
            if s.wipe_storage { e.1.clear(); }
            for (k, v) in s.storage.iter() { e.1.insert(*k, *v); }
        }
    }
    for (h, c) in cs.contracts.iter() { w.codes.insert(*h, c.clone()); }
}
fn db_of_world(w: &PlainWorld) -> Und {
    let mut db = CacheDB::new(EmptyDB::default());
    for (a, (i, st)) in w.accts.iter() {
        db.insert_account_info(*a, i.clone());
        for (k, v) in st.iter() { db.insert_account_storage(*a, *k, *v).unwrap(); }
    }
    for (h, c) in w.codes.iter() { db.contracts.insert(*h, c.clone()); }
    db
}
fn zworld(w: &PlainWorld) -> String {
    zlist(w.accts.iter().map(|(a, (i, st))| format!("({}, ({}, {}))", za(a), zinfo(i), zsmap(st.iter().filter(|(_, v)| !v.is_zero())))))
}

fn run_tx_on(st: &mut State<Und>, tx: &Tx, spec: SpecId, steps: &mut Vec<String>) -> (String, Option<HashMap<Address, Account>>) {
    let (r, log) = { let mut rec = Rec { inner: st, log: vec![] }; let r = exec(&mut rec, tx, spec); (r, rec.log) };
    steps.extend(log);
    let z = zexec(&r);
    match r {
        Ok(rs) => {
            let out = rs.state;
            let mut keys: Vec<Address> = out.keys().cloned().collect();
            keys.sort();
            let op = zcommit(&out);
            st.commit(out.clone());
            let t = take_trans_keep(st);
            steps.push(step(&op, &format!("OCommitted {}", zopt(t)), &zsnaps(st, &keys)));
            (z, Some(out))
        }
        Err(_) => (z, None),
    }
}
/// transitions are not taken out here (they must reach the bundle); not observed
fn take_trans_keep(_st: &mut State<Und>) -> Option<String> { None }

pub fn run(o: &Opts) {
    let mut rng = Rng::new(o.seed ^ 0xC19);
    let mut w = CaseWriter::new(o, "C19", 25);
    let n = if o.thorough() { 1_500 } else { 150 };
    for _ in 0..n {
        let base = base_world(&mut rng, false);
        let spec = *rng.pick(&SPECS);
        let clear = spec >= SpecId::SPURIOUS_DRAGON;
        let mut tags: Vec<&'static str> = vec![if clear { "clear:on" } else { "clear:off" }];
        // ---- phase 1: produce a bundle
        let mut b0 = State::builder().with_database(base.clone()).with_bundle_update();
        if !clear { b0 = b0.without_state_clear(); }
        let mut s0 = b0.build();
        let mut created: Vec<Address> = vec![];
        let mut human: Vec<String> = vec![];
        let n1 = rng.range(1, 8);
        let merge_every = rng.below(3);
        for i in 0..n1 {
            let tx = gen_tx(&mut rng, &created, spec, false, true);
            if let Ok(rs) = exec(&mut s0, &tx, spec) {
                for (a, e) in rs.state.iter() {
                    if e.is_touched() && e.is_selfdestructed() { created.retain(|x| x != a); }
                    else if e.is_touched() && e.is_created() && !created.contains(a) && e.info.code_hash != KECCAK_EMPTY { created.push(*a); }
                }
                s0.commit(rs.state);
                human.push(format!("1:{}", tx.what));
            }
            if rng.chance(1, 6) { let a = *rng.pick(&[addr(E3), addr(EMPTY), addr(W), addr(0xee)]); s0.increment_balances(vec![(a, 1000u128)]).unwrap(); human.push("1:increment".into()); }
            if merge_every == 0 || (merge_every == 1 && i % 2 == 1) { s0.merge_transitions(BundleRetention::Reverts); }
        }
        s0.merge_transitions(BundleRetention::Reverts);
        let bundle = s0.take_bundle();
        for (_, ba) in bundle.state.iter() { tags.push(match status_idx(ba.status) { 0 => "bundle:LoadedNotExisting", 1 => "bundle:Loaded", 2 => "bundle:LoadedEmptyEIP161", 3 => "bundle:InMemoryChange", 4 => "bundle:Changed", 5 => "bundle:Destroyed", 6 => "bundle:DestroyedChanged", _ => "bundle:DestroyedAgain" }); }
        let (zb_accts, zb_codes) = zbundle(&bundle);
        // ---- the two States
        let mut ba = State::builder().with_database(base.clone()).with_bundle_prestate(bundle.clone()).with_bundle_update();
        if !clear { ba = ba.without_state_clear(); }
        let mut sa = ba.build();
        let mut world = PlainWorld::from_db(&base);
        apply_changeset(&mut world, &bundle);
        let merged = db_of_world(&world);
        let mut bb = State::builder().with_database(merged.clone()).with_bundle_update();
        if !clear { bb = bb.without_state_clear(); }
        let mut sb = bb.build();
        // ---- phase 2 on both
        let mut steps_a: Vec<String> = vec![];
        let mut steps_b: Vec<String> = vec![];
        let mut rbs: Vec<String> = vec![];
        let mut execs: Vec<String> = vec![];
        // read a few accounts right away (also ones the bundle removed)
        let mut probe: Vec<Address> = bundle.state.keys().cloned().collect();
        probe.sort();
        probe.truncate(4);
        probe.push(addr(E1));
        let mut readback = |sa: &mut State<Und>, sb: &mut State<Und>, keys: &[Address], extra: &HashMap<Address, Account>, steps_a: &mut Vec<String>, steps_b: &mut Vec<String>, rbs: &mut Vec<String>| {
            for a in keys.iter() {
                let i1 = sa.basic(*a).unwrap();
                steps_a.push(step(&format!("OBasic {}", za(a)), &format!("OInfo {}", zoinfo(&i1)), &zsnaps(sa, &[*a])));
                let i2 = sb.basic(*a).unwrap();
                steps_b.push(step(&format!("OBasic {}", za(a)), &format!("OInfo {}", zoinfo(&i2)), &zsnaps(sb, &[*a])));
                rbs.push(format!("RbBasic false {} {} {} {}", za(a), zoinfo(&i1), zoinfo(&i2), zoinfo(&i2)));
                let mut ks: Vec<U256> = vec![U256::ZERO, U256::from(1), U256::from(2), U256::from(3)];
                if let Some(e) = extra.get(a) { ks.extend(e.storage.keys().cloned()); }
                ks.sort(); ks.dedup();
                for k in ks {
                    let v1 = sa.storage(*a, k).unwrap();
                    steps_a.push(step(&format!("OStorage {} {}", za(a), zw(k)), &format!("OVal {}", zw(v1)), "[]"));
                    let v2 = sb.storage(*a, k).unwrap();
                    steps_b.push(step(&format!("OStorage {} {}", za(a), zw(k)), &format!("OVal {}", zw(v2)), "[]"));
                    rbs.push(format!("RbVal {} {} {} {}", za(a), zw(v1), zw(v2), zw(v2)));
                }
                let c1 = code_via(sa, &i1, Some(steps_a));
                let c2 = code_via(sb, &i2, Some(steps_b));
                rbs.push(format!("RbVal {} {} {} {}", za(a), zcode(&c1), zcode(&c2), zcode(&c2)));
            }
        };
        let none: HashMap<Address, Account> = HashMap::default();
        readback(&mut sa, &mut sb, &probe, &none, &mut steps_a, &mut steps_b, &mut rbs);
        let n2 = rng.range(1, 6);
        for _ in 0..n2 {
            if rng.chance(1, 6) {
                let a = *rng.pick(&[addr(E3), addr(EMPTY), addr(W), addr(0xee), addr(S)]);
                let amt = 1 + rng.below(5) as u128;
                sa.increment_balances(vec![(a, amt)]).unwrap();
                sb.increment_balances(vec![(a, amt)]).unwrap();
                let op = format!("OIncr [({}, {})]", za(&a), zu128(amt));
                steps_a.push(step(&op, "OCommitted None", &zsnaps(&sa, &[a])));
                steps_b.push(step(&op, "OCommitted None", &zsnaps(&sb, &[a])));
                readback(&mut sa, &mut sb, &[a], &none, &mut steps_a, &mut steps_b, &mut rbs);
                tags.push("op:increment_balances");
                continue;
            }
            let tx = gen_tx(&mut rng, &created, spec, false, true);
            tags.push(tx.what);
            human.push(format!("2:{}", tx.what));
            let (z1, o1) = run_tx_on(&mut sa, &tx, spec, &mut steps_a);
            let (z2, _o2) = run_tx_on(&mut sb, &tx, spec, &mut steps_b);
            execs.push(format!("({}, {})", z1, z2));
            if let Some(out) = o1 {
                for (a, e) in out.iter() {
                    if e.is_touched() && e.is_selfdestructed() { created.retain(|x| x != a); }
                    else if e.is_touched() && e.is_created() && !created.contains(a) && e.info.code_hash != KECCAK_EMPTY { created.push(*a); }
                }
                let mut keys: Vec<Address> = out.keys().cloned().collect();
                keys.sort();
                readback(&mut sa, &mut sb, &keys, &out, &mut steps_a, &mut steps_b, &mut rbs);
            }
        }
        // ---- resulting bundle changes: both end states as plain maps
        sa.merge_transitions(BundleRetention::Reverts);
        sb.merge_transitions(BundleRetention::Reverts);
        let fa = sa.take_bundle();
        let fb = sb.take_bundle();
        let mut wa = PlainWorld::from_db(&base);
        apply_changeset(&mut wa, &fa);
        let mut wb = world.clone();
        apply_changeset(&mut wb, &fb);
        let _ = Flags::Touched;
        let case = format!("(mkCase {} {} {} {} {} {} {} {} {} {} {})", zdb(&base), zb_accts, zb_codes, zdb(&merged), zb(clear),
            zlist(steps_a.iter().cloned()), zlist(steps_b.iter().cloned()), zlist(rbs.iter().map(|x| format!("({})", x))), zlist(execs.iter().cloned()), zworld(&wa), zworld(&wb));
        w.push(case, format!("spec={:?} bundle_accounts={} :: {}", spec, bundle.state.len(), human.join(" ; ")), !bundle.state.is_empty() && n2 >= 1, &tags);
    }
    w.finish("bundles produced by 1..8 real Evm transactions (+ increments, merge after every / every second / all transactions) on State<CacheDB> with bundle update over 9 forks; then State(D, with_bundle_prestate(B)) and State(D (+) to_plain_state(B, No) applied by hand): immediate read-back of bundle accounts, 1..6 further transactions/increments on both with every database call recorded, read-back of all touched accounts/slots/code, execution results, and the end states D (+) final bundle of each; non-trivial = non-empty bundle");
}
