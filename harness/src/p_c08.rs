//! C08: ether conservation. Two streams of cases (coq/Corr/C08.v):
//!  H — operation histories on the real `JournaledState` over `CacheDB` (worlds, operations and
//!      `apply` of the C06 driver); the total balance of the 7-address universe is read off the
//!      real state before the history and after every operation;
//!  T — whole transactions on the real `Evm` over `CacheDB` (generated call graphs of progs.rs and
//!      directed self-destruct / failing-transfer scenarios), committed; all balances of the
//!      database are summed before and after; a recording inspector follows SELFDESTRUCT steps and
//!      the frame tree (what a reverted frame burnt is dropped), the fee credits are watched by
//!      wrapping the public post-execution handles.
use crate::p_c06::{self as h, Hop};
use crate::progs::{self, op::*, Asm, GenOpts, World};
use crate::util::*;
use revm::db::{AccountState, CacheDB, EmptyDB};
use revm::handler::register::EvmHandler;
use revm::interpreter::{CallInputs, CallOutcome, CreateInputs, CreateOutcome, EOFCreateInputs, InstructionResult, Interpreter};
use revm::primitives::{AccountInfo, Address, BlobExcessGasAndPrice, Env, SpecId, TxKind, B256, U256};
use revm::{inspector_handle_register, Database, DatabaseCommit, DatabaseRef, Evm, EvmContext, Handler, Inspector, JournalCheckpoint, JournaledState};
use std::sync::Arc;

// ------------------------------------------------------------------ sums beyond 2^256
#[derive(Clone, Copy, PartialEq, Eq, Debug, Default)]
pub struct Big(pub u64, pub U256);
impl Big {
    fn add(&mut self, x: U256) { let (s, o) = self.1.overflowing_add(x); self.1 = s; if o { self.0 += 1; } }
    fn coq(&self) -> String { if self.0 == 0 { zw(self.1) } else { format!("({} * pow256 + {})", self.0, zw(self.1)) } }
}

// ------------------------------------------------------------------ stream H
fn bal7(js: &JournaledState, db: &CacheDB<EmptyDB>, a: u64) -> U256 {
    match js.state.get(&h::addr(a)) {
        Some(acc) => acc.info.balance,
        None => db.basic_ref(h::addr(a)).unwrap().map(|i| i.balance).unwrap_or_default(),
    }
}
fn tot7(js: &JournaledState, db: &CacheDB<EmptyDB>) -> Big {
    let mut t = Big::default();
    for a in 1..=h::NADDR { t.add(bal7(js, db, a)); }
    t
}
fn set_acc(w: &mut h::World, a: u64, bal: U256, nonce: u64) {
    let c = h::code_of(0);
    w.db.insert_account_info(h::addr(a), AccountInfo { balance: bal, nonce, code_hash: c.hash_slow(), code: Some(c) });
    w.accs.retain(|x| x.0 != a);
    w.accs.push((a, bal, nonce, 0));
}

fn hist_case(rng: &mut Rng, idx: usize) -> (String, String, bool, Vec<String>) {
    let mut world = h::gen_world(rng);
    // directed: a funded contract self-destructs to a beneficiary holding almost 2^256 (F13)
    let directed = idx % 60 == 3;
    let (da, dt) = { let a = 1 + rng.below(h::NADDR); let mut t = 1 + rng.below(h::NADDR); if t == a { t = 1 + (a % h::NADDR); } (a, t) };
    if directed {
        set_acc(&mut world, da, U256::from(1 + rng.below(1000)), rng.below(3));
        set_acc(&mut world, dt, if rng.chance(3, 4) { U256::MAX - U256::from(rng.below(3)) } else { U256::MAX >> 1 }, rng.below(3));
    }
    let mut js = h::new_js(&world);
    let mut db = world.db.clone();
    for (a, ks) in &world.init { js.initial_account_load(h::addr(*a), ks.iter().map(|k| U256::from(*k)), &mut db).unwrap(); }
    let t0 = tot7(&js, &db);
    let mut cur = t0;
    let mut cps: Vec<JournalCheckpoint> = vec![];
    let (mut ops, mut obs, mut tots, mut sds): (Vec<Hop>, Vec<String>, Vec<String>, Vec<String>) = (vec![], vec![], vec![], vec![]);
    let mut tags: Vec<String> = vec![];
    let n = rng.range(1, 26);
    let dpos = rng.below(n);
    let mut pending: Vec<Hop> = vec![];
    let mut i = 0;
    while i < n {
        let op = if let Some(p) = pending.pop() { p }
            else if directed && i == dpos { pending.push(Hop::Selfdestruct(da, dt)); Hop::Load(da) }
            else { h::gen_op(rng, &js, &world, cps.len(), true) };
        if pending.is_empty() { i += 1; }
        let sd = if let Hop::Selfdestruct(a, t) = &op {
            let (ba, bt) = (bal7(&js, &db, *a), bal7(&js, &db, *t));
            let cr = js.state.get(&h::addr(*a)).map(|x| x.is_created()).unwrap_or(false);
            let canc = world.spec.is_enabled_in(SpecId::CANCUN);
            tags.push(if a == t { if cr || !canc { "sd:self-deletes".into() } else { "sd:self-kept(cancun)".into() } }
                      else if ba.checked_add(bt).is_none() { "sd:credit-overflow(F13)".into() } else { "sd:other".into() });
            format!("(Some ({},{},{}))", zw(ba), zw(bt), zb(cr))
        } else { "None".to_string() };
        let r = catch(|| h::apply(&mut js, &mut db, &mut cps, &op));
        tags.push(op.kind().to_string());
        ops.push(op);
        sds.push(sd);
        match r {
            Ok(v) => {
                obs.push(zlist(v));
                let t = tot7(&js, &db);
                tots.push(if t == cur { "None".to_string() } else { format!("(Some {})", t.coq()) });
                if t != cur { tags.push("total-changed".into()); }
                cur = t;
            }
            Err(_) => { obs.push("[-99]".into()); tots.push("None".into()); tags.push("history-hit-panic-point".into()); break; }
        }
    }
    tags.push(match world.spec { SpecId::HOMESTEAD => "spec:pre-spurious", SpecId::LONDON => "spec:london", _ => "spec:cancun" }.to_string());
    if t0.0 > 0 { tags.push("total>=2^256".into()); }
    let case = format!("(H (mkH {} {} {} {} {} {}))", h::world_coq(&world), zlist(ops.iter().map(|x| x.coq())), zlist(obs), t0.coq(), zlist(tots), zlist(sds));
    let human = format!("history spec={:?} pre={:?} access_list={:?} accs={:?} sto={:?} ops={:?}", world.spec, world.pre, world.init, world.accs, world.sto, ops);
    tags.sort(); tags.dedup();
    (case, human, ops.len() >= 3, tags)
}

// ------------------------------------------------------------------ stream T: recorder
#[derive(Default)]
pub struct Rec8 {
    coinbase: Address,
    frames: Vec<Vec<(Address, U256)>>, // burns of the open frames
    done: Vec<(Address, U256)>,        // burns that no frame reverted
    pub wraps: u64,
    pub sd_steps: u64,
    pub cb_touched: bool,
    pub saturated: bool,
    cur: Option<(Address, Address, U256, U256)>,
}
impl Rec8 {
    fn bal<DB: Database>(c: &mut EvmContext<DB>, a: &Address) -> U256 {
        if let Some(acc) = c.journaled_state.state.get(a) { return acc.info.balance; }
        c.db.basic(*a).ok().flatten().map(|i| i.balance).unwrap_or_default()
    }
    fn open(&mut self) { self.frames.push(vec![]); }
    fn close(&mut self, ok: bool) {
        if let Some(f) = self.frames.pop() {
            if ok { match self.frames.last_mut() { Some(p) => p.extend(f), None => self.done.extend(f) } }
        }
    }
}
impl<DB: Database> Inspector<DB> for Rec8 {
    fn step(&mut self, i: &mut Interpreter, c: &mut EvmContext<DB>) {
        if i.current_opcode() == SELFDESTRUCT {
            if let Ok(top) = i.stack.peek(0) {
                let contract = i.contract.target_address;
                let target = Address::from_word(B256::from(top));
                let (bc, bt) = (Self::bal(c, &contract), Self::bal(c, &target));
                self.cur = Some((contract, target, bc, bt));
            }
        }
    }
    fn step_end(&mut self, i: &mut Interpreter, c: &mut EvmContext<DB>) {
        if let Some((contract, target, bc, bt)) = self.cur.take() {
            if i.instruction_result != InstructionResult::SelfDestruct { return; }
            self.sd_steps += 1;
            if target == self.coinbase || contract == self.coinbase { self.cb_touched = true; }
            if contract == target {
                // deleted: flagged self-destructed and emptied by this step
                let gone = c.journaled_state.state.get(&contract).map(|a| a.is_selfdestructed() && a.info.balance.is_zero()).unwrap_or(false);
                if gone { if let Some(f) = self.frames.last_mut() { f.push((contract, bc)); } else { self.done.push((contract, bc)); } }
            } else if bc.checked_add(bt).is_none() { self.wraps += 1; }
        }
    }
    fn call(&mut self, _c: &mut EvmContext<DB>, i: &mut CallInputs) -> Option<CallOutcome> {
        if i.target_address == self.coinbase || i.caller == self.coinbase || i.bytecode_address == self.coinbase { self.cb_touched = true; }
        self.open(); None
    }
    fn call_end(&mut self, _c: &mut EvmContext<DB>, _i: &CallInputs, o: CallOutcome) -> CallOutcome { self.close(o.result.result.is_ok()); o }
    fn create(&mut self, _c: &mut EvmContext<DB>, i: &mut CreateInputs) -> Option<CreateOutcome> {
        if i.caller == self.coinbase { self.cb_touched = true; }
        self.open(); None
    }
    fn create_end(&mut self, _c: &mut EvmContext<DB>, _i: &CreateInputs, o: CreateOutcome) -> CreateOutcome {
        if o.address == Some(self.coinbase) { self.cb_touched = true; }
        self.close(o.result.result.is_ok()); o
    }
    fn eofcreate(&mut self, _c: &mut EvmContext<DB>, _i: &mut EOFCreateInputs) -> Option<CreateOutcome> { self.open(); None }
    fn eofcreate_end(&mut self, _c: &mut EvmContext<DB>, _i: &EOFCreateInputs, o: CreateOutcome) -> CreateOutcome { self.close(o.result.result.is_ok()); o }
}

type Db = CacheDB<EmptyDB>;
/// watches the two fee credits: a balance of 2^256-1 afterwards marks a saturated credit
fn fee_recorder(hd: &mut EvmHandler<'_, Rec8, Db>) {
    let old = Arc::new(std::mem::replace(&mut hd.post_execution.reimburse_caller, Box::new(|_, _| Ok(()))));
    hd.post_execution.reimburse_caller = Box::new(move |ctx, gas| {
        let r = old(ctx, gas);
        let a = ctx.evm.env.tx.caller;
        if ctx.evm.journaled_state.state.get(&a).map(|x| x.info.balance) == Some(U256::MAX) { ctx.external.saturated = true; }
        r
    });
    if let Some(oldr) = hd.post_execution.reward_beneficiary.take() {
        let oldr = Arc::new(oldr);
        hd.post_execution.reward_beneficiary = Some(Box::new(move |ctx, gas| {
            let r = oldr(ctx, gas);
            let a = ctx.evm.env.block.coinbase;
            if ctx.evm.journaled_state.state.get(&a).map(|x| x.info.balance) == Some(U256::MAX) { ctx.external.saturated = true; }
            r
        }));
    }
}

// ------------------------------------------------------------------ stream T: worlds
const RICH: u64 = 0x51C4;
const BASE: u64 = progs::CONTRACT_BASE;
fn enabled(spec: SpecId, since: SpecId) -> bool { spec as u8 >= since as u8 }

fn pick_spec(rng: &mut Rng) -> SpecId {
    match rng.below(10) {
        0..=2 => SpecId::CANCUN, 3 => SpecId::PRAGUE, 4 => SpecId::SHANGHAI, 5 => SpecId::LONDON, 6 => SpecId::BERLIN,
        _ => *rng.pick(progs::SPECS),
    }
}

fn push_beneficiary(rng: &mut Rng, a: &mut Asm, me: u64, tags: &mut Vec<String>) {
    let (t, name): (Option<Address>, &str) = match rng.below(14) {
        0 | 1 => (None, "self(ADDRESS)"),
        2 | 3 => (Some(progs::addr(me)), "self"),
        4 => (Some(progs::addr(BASE + 1 + (me - BASE) % 2)), "other-victim"),
        5 | 6 => (Some(progs::addr(BASE + 3)), "plain-contract"),
        7 => (Some(progs::addr(progs::CALLER_ADDR)), "caller"),
        8 => (Some(progs::addr(progs::COINBASE)), "coinbase"),
        9 => (Some(progs::addr(0xDEAD0000)), "nonexistent"),
        10 => (Some(progs::addr(4)), "precompile"),
        11 => (Some(progs::addr(BASE)), "parent"),
        _ => (Some(progs::addr(RICH)), "rich"),
    };
    match t { None => { a.op(ADDRESS); } Some(t) => { a.push_addr(t); } }
    tags.push(format!("beneficiary:{}", name));
}

fn victim_code(rng: &mut Rng, me: u64, tags: &mut Vec<String>) -> Vec<u8> {
    let mut a = Asm::new();
    if rng.chance(1, 4) { a.push_u(0).push_u(0).push_u(0).push_u(0).push_u(rng.range(0, 3)).push_addr(progs::addr(BASE + 3)).op(GAS).op(CALL).op(POP); }
    if rng.chance(1, 12) { a.op(STOP); tags.push("victim:plain".into()); return a.finish(); }
    push_beneficiary(rng, &mut a, me, tags);
    a.op(SELFDESTRUCT);
    a.finish()
}

fn value_pick(rng: &mut Rng) -> U256 {
    match rng.below(8) { 0 | 1 => U256::ZERO, 2 | 3 => U256::from(rng.range(1, 50)), 4 => U256::from(rng.range(50, 5000)), 5 => U256::from(1u64) << 100, _ => U256::from(rng.range(1, 9)) }
}

/// init code of a child created by K
fn child_init(rng: &mut Rng, tags: &mut Vec<String>) -> (Vec<u8>, bool) {
    let mut a = Asm::new();
    match rng.below(7) {
        0 | 1 => { a.op(ADDRESS).op(SELFDESTRUCT); tags.push("child:init-selfdestruct-to-self".into()); (a.finish(), false) }
        2 => { push_beneficiary(rng, &mut a, BASE + 1, tags); a.op(SELFDESTRUCT); tags.push("child:init-selfdestruct".into()); (a.finish(), false) }
        3 | 4 => {
            let mut rt = Asm::new();
            if rng.chance(2, 3) { rt.op(ADDRESS); } else { push_beneficiary(rng, &mut rt, BASE + 2, tags); }
            rt.op(SELFDESTRUCT);
            let rt = rt.finish();
            a.mstore_bytes(0, &rt).push_u(rt.len() as u64).push_u(0).op(RETURN);
            tags.push("child:runtime-selfdestructs".into());
            (a.finish(), true)
        }
        5 => { a.push_u(0).push_u(0).op(REVERT); tags.push("child:init-reverts".into()); (a.finish(), false) }
        _ => { a.push_u(0).push_u(0).op(RETURN); tags.push("child:empty-code".into()); (a.finish(), false) }
    }
}

fn call_to(a: &mut Asm, target: Address, value: U256, gas: Option<u64>) {
    a.push_u(0).push_u(0).push_u(0).push_u(0).push(value).push_addr(target);
    match gas { None => { a.op(GAS); } Some(g) => { a.push_u(g); } }
    a.op(CALL).op(POP);
}

/// Directed scenarios: K (BASE) drives victims (BASE+1, BASE+2), a plain receiver (BASE+3), a
/// reverting wrapper (BASE+4) and a rich account.
fn scenario(rng: &mut Rng) -> World {
    let spec = pick_spec(rng);
    let mut tags: Vec<String> = vec![];
    let v1 = victim_code(rng, BASE + 1, &mut tags);
    let v2 = victim_code(rng, BASE + 2, &mut tags);
    let plain = vec![STOP];
    // wrapper: calls a victim with its whole call value, then reverts (or runs out through INVALID)
    let mut wr = Asm::new();
    wr.push_u(0).push_u(0).push_u(0).push_u(0).op(CALLVALUE).push_addr(progs::addr(BASE + 1 + rng.below(2))).op(GAS).op(CALL).op(POP);
    if enabled(spec, SpecId::BYZANTIUM) && rng.chance(2, 3) { wr.push_u(0).push_u(0).op(REVERT); } else { wr.op(INVALID); }
    let wrapper = wr.finish();
    // K
    let mut k = Asm::new();
    let nact = rng.range(1, 5);
    let mut prefund_child = false;
    for _ in 0..nact {
        match rng.below(12) {
            0..=3 => { call_to(&mut k, progs::addr(BASE + 1 + rng.below(2)), value_pick(rng), if rng.chance(1, 6) { Some(rng.range(0, 40_000)) } else { None }); tags.push("k:call-victim".into()); }
            4 | 5 => { call_to(&mut k, progs::addr(BASE + 4), value_pick(rng), None); tags.push("k:call-reverting-wrapper".into()); }
            6 | 7 | 8 => {
                let (init, callable) = child_init(rng, &mut tags);
                k.mstore_bytes(0, &init);
                let two = enabled(spec, SpecId::PETERSBURG) && rng.chance(1, 3);
                if two { k.push_u(rng.below(2)); }
                k.push_u(init.len() as u64).push_u(0).push(value_pick(rng)).op(if two { CREATE2 } else { CREATE });
                if callable || rng.chance(1, 3) {
                    k.push_u(0).push_u(0).push_u(0).push_u(0).push(value_pick(rng)).op(DUP1 + 5).op(GAS).op(CALL).op(POP).op(POP);
                    tags.push("k:create-then-call-with-value".into());
                } else { k.op(POP); }
                if !two && rng.chance(1, 10) { prefund_child = true; }
                tags.push("k:create".into());
            }
            9 => { call_to(&mut k, progs::addr(RICH), value_pick(rng), None); tags.push("k:pay-rich".into()); }
            10 => { call_to(&mut k, progs::addr(BASE + 3), value_pick(rng), None); tags.push("k:pay-plain".into()); }
            _ => { call_to(&mut k, progs::addr(rng.range(1, 9)), value_pick(rng), None); tags.push("k:pay-precompile".into()); }
        }
    }
    match rng.below(8) {
        0 => { if enabled(spec, SpecId::BYZANTIUM) { k.push_u(0).push_u(0).op(REVERT); } else { k.op(INVALID); } tags.push("k:reverts".into()); }
        1 => { k.op(INVALID); tags.push("k:invalid".into()); }
        2 => { push_beneficiary(rng, &mut k, BASE, &mut tags); k.op(SELFDESTRUCT); tags.push("k:selfdestructs".into()); }
        _ => { k.op(STOP); }
    }
    let codes = vec![k.finish(), v1, v2, plain, wrapper];
    let bpick = |rng: &mut Rng| match rng.below(6) { 0 => U256::ZERO, 1 => U256::from(5), 2 => U256::from(rng.range(1, 100)), 3 => U256::from(1u64) << 200, _ => U256::from(rng.range(100, 100_000)) };
    let balances = vec![bpick(rng).max(U256::from(rng.range(0, 3000))), bpick(rng), bpick(rng),
        if rng.chance(1, 10) { U256::MAX - U256::from(rng.below(4)) } else { bpick(rng) }, U256::from(rng.below(10))];
    // the transaction
    let (to, data, txtag): (TxKind, Vec<u8>, &str) = match rng.below(10) {
        0 => (TxKind::Call(progs::addr(BASE + 1 + rng.below(2))), vec![], "tx:to-victim"),
        1 => { let (init, _) = child_init(rng, &mut tags); (TxKind::Create, init, "tx:create") }
        2 => (TxKind::Call(progs::addr(BASE + 4)), vec![], "tx:to-reverting-wrapper"),
        _ => (TxKind::Call(progs::addr(BASE)), vec![], "tx:to-K"),
    };
    tags.push(txtag.into());
    let gas_limit = match rng.below(6) { 0 => rng.range(21_000, 120_000), 1 => rng.range(120_000, 400_000), _ => rng.range(400_000, 3_000_000) };
    let tx = progs::base_tx(to, gas_limit, value_pick(rng), data);
    let descr = format!("scenario spec={:?} {} gas_limit={} value={} codes=[{}] balances={:?}", spec, txtag, gas_limit, tx.value,
        codes.iter().map(|c| progs::hex(c)).collect::<Vec<_>>().join(","), balances);
    let mut w = progs::world_from(spec, &codes, &balances, tx, descr);
    let rich = match rng.below(4) { 0 => U256::MAX - U256::from(rng.below(8)), 1 => U256::MAX >> 1, 2 => U256::from(1u64) << 200, _ => U256::from(rng.below(1000)) };
    w.db.insert_account_info(progs::addr(RICH), progs::account(rich, 0, &[]));
    if prefund_child {
        // the address of K's first CREATE already holds almost 2^256: the endowment overflows
        w.db.insert_account_info(progs::addr(BASE).create(1), progs::account(U256::MAX - U256::from(rng.below(3)), 0, &[]));
        tags.push("create-target-prefunded-near-max".into());
    }
    w.descr.push_str(&format!(" rich={}", rich));
    tags.push(format!("spec:{:?}", spec));
    w.tags = tags;
    w
}

/// the recorded witness of F13: a contract holding 5 wei self-destructs to a beneficiary holding 2^256-3
fn f13_witness(spec: SpecId) -> World {
    let mut v = Asm::new();
    v.push_addr(progs::addr(RICH)).op(SELFDESTRUCT);
    let tx = progs::base_tx(TxKind::Call(progs::addr(BASE)), 100_000, U256::ZERO, vec![]);
    let mut w = progs::world_from(spec, &[v.finish()], &[U256::from(5)], tx, format!("F13 witness spec={:?}: contract {:?} (balance 5, code PUSH20 rich SELFDESTRUCT) called; rich={:?} holds 2^256-3", spec, progs::addr(BASE), progs::addr(RICH)));
    w.db.insert_account_info(progs::addr(RICH), progs::account(U256::MAX - U256::from(2), 0, &[]));
    w.tags = vec!["f13-witness".into(), format!("spec:{:?}", spec)];
    w
}

struct Fees { reward: bool }
/// prices, base fee, blob price, beneficiary and sender balances
fn finish_world(rng: &mut Rng, w: &mut World, plain: bool) -> Fees {
    let spec = w.spec;
    let london = enabled(spec, SpecId::LONDON);
    let cancun = enabled(spec, SpecId::CANCUN);
    let bf = if plain { U256::from(7) } else { match rng.below(5) { 0 => U256::ZERO, 1 => U256::from(rng.range(1, 100)), 2 => U256::from(rng.range(1_000_000_000, 50_000_000_000)), 3 => U256::from(rng.next() >> 24), _ => U256::from(7) } };
    w.block.basefee = bf;
    let is_call = matches!(w.tx.transact_to, TxKind::Call(_));
    // some legacy calls become 1559 / blob transactions
    if !plain && w.tx.gas_priority_fee.is_none() && w.tx.authorization_list.is_none() {
        match rng.below(6) {
            0 | 1 if london => { w.tx.gas_priority_fee = Some(U256::ZERO); w.tags.push("tx:->eip1559".into()); }
            2 if cancun && is_call => {
                w.tx.gas_priority_fee = Some(U256::ZERO);
                w.tx.max_fee_per_blob_gas = Some(U256::from(1));
                for i in 0..rng.range(1, 4) { let mut hsh = [0u8; 32]; hsh[0] = 1; hsh[31] = i as u8; w.tx.blob_hashes.push(B256::from(hsh)); }
                w.tags.push("tx:->eip4844".into());
            }
            _ => {}
        }
    }
    let extra = match rng.below(5) { 0 => U256::ZERO, 1 => U256::from(1), 2 => U256::from(rng.range(0, 1_000_000_000)), 3 => U256::from(rng.next() >> 20), _ => U256::from(rng.below(100)) };
    if w.tx.gas_priority_fee.is_some() {
        let max_fee = bf + extra;
        w.tx.gas_price = max_fee;
        w.tx.gas_priority_fee = Some(match rng.below(5) { 0 => U256::ZERO, 1 => max_fee, 2 => extra, 3 => extra / U256::from(2), _ => U256::from(rng.below(10)).min(max_fee) });
    } else {
        w.tx.gas_price = if london { bf + extra } else { match rng.below(4) { 0 => U256::ZERO, 1 => U256::from(rng.below(100)), 2 => U256::from(1_000_000_000u64), _ => extra } };
    }
    if !w.tx.blob_hashes.is_empty() {
        let p: u128 = match rng.below(4) { 0 => 1, 1 => rng.range(2, 1000) as u128, 2 => (rng.next() >> 24) as u128, _ => 1 };
        w.block.blob_excess_gas_and_price = Some(BlobExcessGasAndPrice { excess_blob_gas: rng.below(1 << 20), blob_gasprice: p });
        w.tx.max_fee_per_blob_gas = Some(U256::from(p) + match rng.below(3) { 0 => U256::ZERO, 1 => U256::from(1), _ => U256::from(rng.next() >> 8) });
        w.tags.push("blob-fee>0".into());
    }
    // beneficiary
    let c0 = if plain { U256::ZERO } else { match rng.below(30) { 0 => { w.tags.push("coinbase:near-max".into()); U256::MAX - U256::from(rng.below(1_000_000)) } 1..=9 => U256::ZERO, 10..=15 => U256::from(1), _ => U256::from(rng.next()) } };
    if !c0.is_zero() { w.db.insert_account_info(progs::addr(progs::COINBASE), progs::account(c0, 0, &[])); }
    // sender: at least the maximum cost
    let blob_max = w.tx.max_fee_per_blob_gas.unwrap_or_default() * U256::from(131072u64 * w.tx.blob_hashes.len() as u64);
    let need = U256::from(w.tx.gas_limit) * w.tx.gas_price + w.tx.value + blob_max;
    let b0 = if plain { need + U256::from(10u64).pow(U256::from(18)) } else { match rng.below(8) {
        0 => { w.tags.push("sender:exactly-max-cost".into()); need }
        1 => need + U256::from(rng.below(1000)),
        2 => { w.tags.push("sender:near-max".into()); U256::MAX - U256::from(rng.below(5)) }
        3 => { w.tags.push("sender:below-max-cost".into()); need.saturating_sub(U256::from(1 + rng.below(3))) }
        _ => need + U256::from(10u64).pow(U256::from(24)) + U256::from(rng.next()),
    } };
    w.db.insert_account_info(progs::addr(progs::CALLER_ADDR), progs::account(b0, w.tx.nonce.unwrap_or(0), &[]));
    Fees { reward: plain || !rng.chance(1, 3) }
}

fn sum_db(db: &Db) -> Big {
    let mut t = Big::default();
    for (_, a) in db.accounts.iter() { if a.account_state != AccountState::NotExisting { t.add(a.info.balance); } }
    t
}
fn aw(a: Address) -> U256 { U256::from_be_bytes(a.into_word().0) }

struct TxObs { executed: bool, class: String, gas_used: u64, eff: U256, blob_fee: U256, burnt: Vec<(Address, U256)>, residual: Vec<(Address, U256)>,
    wraps: u64, saturated: bool, cb_quiet: bool, sd_steps: u64, after: Big, cb_after: U256, rich_after: Option<U256> }

fn run_tx(w: &World, reward: bool) -> Result<TxObs, String> {
    let db: Db = w.db.clone();
    let (tx, block, spec) = (w.tx.clone(), w.block.clone(), w.spec);
    catch(move || {
        let cb = block.coinbase;
        let handler = Handler::mainnet_with_spec(spec, reward);
        let mut evm = Evm::builder().with_db(db).with_external_context(Rec8 { coinbase: cb, ..Default::default() })
            .modify_tx_env(|t| *t = tx).modify_block_env(|b| *b = block)
            .with_handler(handler)
            .append_handler_register(inspector_handle_register)
            .append_handler_register(fee_recorder).build();
        let env: Env = (*evm.context.evm.env).clone();
        let eff = env.effective_gas_price();
        let blob_fee = if enabled(spec, SpecId::CANCUN) { env.calc_data_fee().unwrap_or_default() } else { U256::ZERO };
        // transact + commit, i.e. the body of Evm::transact_commit with the returned state looked at in between
        let res = evm.transact();
        let mut o = TxObs { executed: false, class: String::new(), gas_used: 0, eff, blob_fee, burnt: vec![], residual: vec![], wraps: 0, saturated: false,
            cb_quiet: false, sd_steps: 0, after: Big::default(), cb_after: U256::ZERO, rich_after: None };
        match res {
            Ok(rs) => {
                o.executed = true;
                o.gas_used = rs.result.gas_used();
                o.class = format!("{:?}", rs.result).split(|c| c == ' ' || c == '{').next().unwrap().to_string();
                let mut resid: Vec<(Address, U256)> = rs.state.iter().filter(|(_, a)| a.is_selfdestructed() && !a.info.balance.is_zero()).map(|(k, a)| (*k, a.info.balance)).collect();
                resid.sort();
                o.residual = resid;
                evm.context.evm.db.commit(rs.state);
            }
            Err(e) => { o.class = format!("rejected:{:?}", e).chars().take(60).collect(); }
        }
        let rec = &evm.context.external;
        let dbx = &evm.context.evm.db;
        // a burn counts only if the account is really gone after the commit
        o.burnt = rec.done.iter().filter(|(a, _)| dbx.accounts.get(a).map(|x| x.account_state == AccountState::NotExisting).unwrap_or(true)).cloned().collect();
        o.wraps = rec.wraps; o.saturated = rec.saturated; o.cb_quiet = !rec.cb_touched; o.sd_steps = rec.sd_steps;
        o.after = sum_db(dbx);
        o.cb_after = dbx.accounts.get(&cb).map(|x| x.info.balance).unwrap_or_default();
        o.rich_after = dbx.accounts.get(&progs::addr(RICH)).map(|x| x.info.balance);
        o
    })
}

fn tx_case(rng: &mut Rng, idx: usize) -> (String, String, bool, Vec<String>) {
    let (mut w, plain) = match idx {
        0 => (f13_witness(SpecId::CANCUN), true),
        1 => (f13_witness(SpecId::SHANGHAI), true),
        _ => (if rng.chance(1, 2) { scenario(rng) } else { progs::gen_world(rng, &GenOpts { selfdestruct_pct: 25, max_actions: 6, max_contracts: 5, tx_types: true }) }, false),
    };
    let fees = finish_world(rng, &mut w, plain);
    let spec = w.spec;
    let mut pre_tags: Vec<String> = vec![];
    // every third generated transaction is given exactly the gas it needs (learned from a first run):
    // nothing remains at the end, what the sender gets back is the refund alone
    if idx >= 2 && idx % 3 == 2 {
        let (db, tx, block) = (w.db.clone(), w.tx.clone(), w.block.clone());
        let probe = catch(move || {
            let mut evm = Evm::builder().with_db(db).with_spec_id(spec).modify_tx_env(|t| *t = tx).modify_block_env(|b| *b = block).build();
            evm.transact().ok().map(|r| r.result)
        });
        if let Ok(Some(revm::primitives::ExecutionResult::Success { gas_used, gas_refunded, .. })) = probe {
            let spent = gas_used + gas_refunded;
            if spent >= 21_000 && spent <= w.tx.gas_limit {
                w.tx.gas_limit = spent;
                pre_tags.push("gas-limit:exactly-what-is-needed".into());
                if gas_refunded > 0 { pre_tags.push("gas-limit:exact-and-refund>0".into()); }
            }
        }
    }
    let cb = progs::addr(progs::COINBASE);
    let before = sum_db(&w.db);
    let cb_before = w.db.accounts.get(&cb).map(|x| x.info.balance).unwrap_or_default();
    let mut tags = w.tags.clone();
    tags.extend(pre_tags);
    tags.push(if fees.reward { "reward:on".into() } else { "reward:off".into() });
    let r = run_tx(&w, fees.reward);
    let pairs = |v: &Vec<(Address, U256)>| zlist(v.iter().map(|(a, b)| format!("({},{})", zw(aw(*a)), zw(*b))));
    let (case, res_h, nontrivial) = match &r {
        Ok(o) => {
            tags.push(format!("result:{}", if o.executed { o.class.clone() } else { "rejected".into() }));
            if !o.burnt.is_empty() { tags.push("burnt>0".into()); }
            if !o.residual.is_empty() { tags.push("residual-of-deleted-account>0".into()); }
            if o.wraps > 0 { tags.push("selfdestruct-credit-overflow(F13)".into()); }
            if o.saturated { tags.push("fee-credit-saturated".into()); }
            if o.sd_steps > 0 { tags.push("selfdestruct-executed".into()); }
            if before.0 > 0 { tags.push("total>=2^256".into()); }
            let c = format!("(T (mkT {} {} {} {} {} {} {} {} {} ({} - {}) {} {} {} {} {} {}))", zb(enabled(spec, SpecId::LONDON)), zb(enabled(spec, SpecId::CANCUN)),
                zw(w.block.basefee), zu(o.gas_used), zw(o.eff), zw(o.blob_fee), zb(fees.reward), zb(o.executed), zb(o.cb_quiet), zw(o.cb_after), zw(cb_before),
                pairs(&o.burnt), pairs(&o.residual), zu(o.wraps), zb(o.saturated), before.coq(), o.after.coq());
            (c, format!("=> {} gas_used={} eff_price={} blob_fee={} burnt={:?} residual={:?} wraps={} saturated={} coinbase {}->{} rich_after={:?} sum {:?}->{:?}", o.class, o.gas_used, o.eff, o.blob_fee,
                o.burnt, o.residual, o.wraps, o.saturated, cb_before, o.cb_after, o.rich_after, before, o.after), o.executed)
        }
        Err(p) => {
            tags.push("result:PANIC".into());
            (format!("(T (mkT false false 0 0 0 0 true true false 0 [] [] 0 false {} (-1)))", before.coq()), format!("=> panic {}", p), true)
        }
    };
    let human = format!("tx {} basefee={} gas_price={} prio={:?} blobs={} reward={} sender_balance={} {}", w.descr, w.block.basefee, w.tx.gas_price, w.tx.gas_priority_fee,
        w.tx.blob_hashes.len(), fees.reward, w.db.accounts.get(&progs::addr(progs::CALLER_ADDR)).map(|x| x.info.balance).unwrap_or_default(), res_h);
    tags.sort(); tags.dedup();
    (case, human, nontrivial, tags)
}

pub fn run(o: &Opts) {
    let mut rng = Rng::new(o.seed ^ 0xC08);
    let mut w = CaseWriter::new(o, "C08", 150);
    let (nh, nt) = if o.thorough() { (15_000, 20_000) } else { (1_500, 2_000) };
    for i in 0..nt {
        let (case, human, nontrivial, tags) = tx_case(&mut rng, i);
        let t: Vec<&str> = tags.iter().map(|s| s.as_str()).collect();
        w.push(case, human, nontrivial, &t);
    }
    for i in 0..nh {
        let (case, human, nontrivial, tags) = hist_case(&mut rng, i);
        let t: Vec<&str> = tags.iter().map(|s| s.as_str()).collect();
        w.push(case, human, nontrivial, &t);
    }
    w.finish("T: real Evm (mainnet handler, rewards on/off) over CacheDB, transact + commit, FRONTIER..PRAGUE: generated call graphs (progs.rs) and directed scenarios (self-destructs to self / others / rich accounts, inside reverted frames, of contracts created in the same transaction, value calls and creates that fail, balances up to 2^256-1) with random base fee, gas price, priority fee, blob price, legacy/2930/1559/4844/7702 transactions; all balances of the database summed before and after; burns followed by a recording inspector (frame tree, SELFDESTRUCT steps). H: histories on the real JournaledState (C06 worlds/operations), total of the 7-address universe after every operation. non-trivial = executed transaction / history of at least 3 operations; distinct = distinct Coq terms");
}
