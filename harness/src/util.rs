//! Shared plumbing: PRNG, boundary-biased generators, Coq term printing, sharded case files.
use revm::primitives::U256;
use std::collections::{BTreeMap, HashSet};
use std::fmt::Write as _;
use std::hash::{Hash, Hasher};
use std::io::Write as _;
use std::path::PathBuf;

#[derive(Clone)]
pub struct Rng(pub u64);
impl Rng {
    pub fn new(seed: u64) -> Self { Rng(seed.wrapping_mul(0x9E3779B97F4A7C15) ^ 0xD1B54A32D192ED03) }
    pub fn next(&mut self) -> u64 {
        self.0 = self.0.wrapping_add(0x9E3779B97F4A7C15);
        let mut z = self.0;
        z = (z ^ (z >> 30)).wrapping_mul(0xBF58476D1CE4E5B9);
        z = (z ^ (z >> 27)).wrapping_mul(0x94D049BB133111EB);
        z ^ (z >> 31)
    }
    pub fn below(&mut self, n: u64) -> u64 { if n == 0 { 0 } else { self.next() % n } }
    pub fn range(&mut self, lo: u64, hi: u64) -> u64 { assert!(lo <= hi); if hi - lo == u64::MAX { self.next() } else { lo + self.below(hi - lo + 1) } }
    pub fn chance(&mut self, num: u64, den: u64) -> bool { self.below(den) < num }
    pub fn pick<'a, T>(&mut self, xs: &'a [T]) -> &'a T { &xs[self.below(xs.len() as u64) as usize] }
    /// boundary-biased u64
    pub fn u64b(&mut self) -> u64 {
        match self.below(10) {
            0 => *self.pick(&[0u64, 1, 2, 31, 32, 33, 63, 64, 65, 255, 256, 257]),
            1 => { let k = self.below(64); (1u64 << k).wrapping_add(self.below(3)).wrapping_sub(1) }
            2 => u64::MAX - self.below(3),
            3 => (1u64 << 63).wrapping_add(self.below(3)).wrapping_sub(1),
            4 => (1u64 << 32).wrapping_add(self.below(5)).wrapping_sub(2),
            5 | 6 => self.below(100_000),
            7 => self.below(1 << 32),
            _ => self.next(),
        }
    }
    pub fn i64b(&mut self) -> i64 {
        match self.below(8) {
            0 => *self.pick(&[0i64, 1, -1, i64::MAX, i64::MIN, i64::MAX - 1, i64::MIN + 1]),
            1 | 2 | 3 => self.below(50_000) as i64,
            4 | 5 => -(self.below(50_000) as i64),
            _ => self.next() as i64,
        }
    }
    /// boundary-biased 256-bit word
    pub fn u256b(&mut self) -> U256 {
        let one = U256::from(1u64);
        match self.below(16) {
            0 => U256::ZERO,
            1 => one,
            2 => U256::MAX,
            3 => U256::MAX - U256::from(self.below(4)),
            4 => one << 255,
            5 => { let t: U256 = one << 255; t.wrapping_add(U256::from(self.below(3))).wrapping_sub(one) }
            6 | 7 => { let k = self.below(256) as usize; let t: U256 = one << k; t.wrapping_add(U256::from(self.below(3))).wrapping_sub(one) }
            8 => U256::from(self.below(300)),
            9 => U256::ZERO.wrapping_sub(U256::from(self.below(300))),
            10 => U256::from(self.next()),
            11 => U256::from(self.next()) << (self.below(4) * 64) as usize,
            12 => { let k = self.below(256) as usize; U256::MAX >> k }
            13 => { let k = self.below(256) as usize; U256::MAX << k }
            _ => U256::from_limbs([self.next(), self.next(), self.next(), self.next()]),
        }
    }
    pub fn bytes(&mut self, n: usize) -> Vec<u8> { (0..n).map(|_| self.next() as u8).collect() }
}

pub fn zu(x: u64) -> String { format!("{}", x) }
pub fn zi(x: i64) -> String { if x < 0 { format!("({})", x) } else { format!("{}", x) } }
pub fn zi128(x: i128) -> String { if x < 0 { format!("({})", x) } else { format!("{}", x) } }
pub fn zu128(x: u128) -> String { format!("{}", x) }
pub fn zw(x: U256) -> String { format!("0x{:x}", x) }
pub fn zb(b: bool) -> &'static str { if b { "true" } else { "false" } }
pub fn zlist<I: IntoIterator<Item = String>>(xs: I) -> String {
    let mut s = String::from("[");
    let mut first = true;
    for x in xs { if !first { s.push_str("; "); } first = false; s.push_str(&x); }
    s.push(']');
    s
}
pub fn zbytes(b: &[u8]) -> String { zlist(b.iter().map(|x| format!("{}", x))) }
pub fn zopt(x: Option<String>) -> String { match x { Some(s) => format!("(Some {})", s), None => "None".into() } }

/// Run `f`, turning a panic into `Err(message)`.
thread_local! { static IN_CATCH: std::cell::Cell<bool> = std::cell::Cell::new(false); }
pub fn catch<T>(f: impl FnOnce() -> T) -> Result<T, String> {
    IN_CATCH.with(|c| c.set(true));
    let r = std::panic::catch_unwind(std::panic::AssertUnwindSafe(f));
    IN_CATCH.with(|c| c.set(false));
    r.map_err(|e| {
        if let Some(s) = e.downcast_ref::<&str>() { s.to_string() }
        else if let Some(s) = e.downcast_ref::<String>() { s.clone() }
        else { "panic".to_string() }
    })
}
/// Breadcrumb: the input about to be handed to the implementation, written to the file named by
/// `$VH_CRUMB`. If the implementation then aborts the whole process (a non-unwinding panic, a
/// failed `unsafe` precondition check, a signal), the check still knows which input it was.
pub fn crumb(s: &str) {
    if let Ok(p) = std::env::var("VH_CRUMB") { let _ = std::fs::write(p, s); }
}
pub fn silence_panics() { std::panic::set_hook(Box::new(|i| { if !IN_CATCH.with(|c| c.get()) { eprintln!("harness panic: {}", i); } })); }

pub struct Opts { pub tier: String, pub seed: u64, pub out: PathBuf, pub only: Option<usize>, pub release: bool }
impl Opts { pub fn thorough(&self) -> bool { self.tier == "thorough" } }

/// Collects cases (Coq terms) into sharded `.v` files evaluated by `coqc`.
pub struct CaseWriter {
    module: String,
    out: PathBuf,
    shard_size: usize,
    cur: Vec<String>,
    shard: usize,
    pub n: usize,
    seen: HashSet<u64>,
    nontrivial: usize,
    samples: Vec<String>,
    hist: BTreeMap<String, u64>,
    only: Option<usize>,
    index: std::fs::File,
    extra: BTreeMap<String, String>,
}
impl CaseWriter {
    pub fn new(o: &Opts, module: &str, shard_size: usize) -> Self {
        std::fs::create_dir_all(&o.out).unwrap();
        for e in std::fs::read_dir(&o.out).unwrap().flatten() {
            let p = e.path();
            let n = p.file_name().unwrap().to_string_lossy().to_string();
            if n.starts_with(&format!("cases_{}_", module)) || n == format!("index_{}.txt", module) { let _ = std::fs::remove_file(p); }
        }
        let index = std::fs::File::create(o.out.join(format!("index_{}.txt", module))).unwrap();
        CaseWriter { module: module.into(), out: o.out.clone(), shard_size, cur: vec![], shard: 0, n: 0,
            seen: HashSet::new(), nontrivial: 0, samples: vec![], hist: BTreeMap::new(), only: o.only, index, extra: BTreeMap::new() }
    }
    /// `case` is a Coq term of the module's `case` type; `human` a readable rendering for replays.
    pub fn push(&mut self, case: String, human: String, nontrivial: bool, tags: &[&str]) {
        let idx = self.n;
        self.n += 1;
        if let Some(o) = self.only { if o != idx { return; } }
        let mut h = std::collections::hash_map::DefaultHasher::new();
        case.hash(&mut h);
        let fresh = self.seen.insert(h.finish());
        if fresh && nontrivial { self.nontrivial += 1; }
        for t in tags { *self.hist.entry(t.to_string()).or_insert(0) += 1; }
        if self.samples.len() < 3 || (nontrivial && self.samples.len() < 6 && idx % 97 == 0) { self.samples.push(human.clone()); }
        writeln!(self.index, "{}\t{}\t{}\t{}", idx, self.shard, self.cur.len(), human.replace('\n', " ")).unwrap();
        self.cur.push(case);
        if self.cur.len() >= self.shard_size { self.flush(); }
    }
    pub fn tag(&mut self, t: &str) { *self.hist.entry(t.to_string()).or_insert(0) += 1; }
    pub fn note(&mut self, k: &str, v: String) { self.extra.insert(k.into(), v); }
    fn flush(&mut self) {
        if self.cur.is_empty() { return; }
        let p = self.out.join(format!("cases_{}_{}.v", self.module, self.shard));
        let mut f = std::io::BufWriter::new(std::fs::File::create(p).unwrap());
        writeln!(f, "From Coq Require Import ZArith List Bool. Import ListNotations.\nFrom RevmV Require Import Corr.{}.\nLocal Open Scope Z_scope.\nDefinition cases : list case := [", self.module).unwrap();
        let n = self.cur.len();
        for (i, c) in self.cur.iter().enumerate() { writeln!(f, "{}{}", c, if i + 1 < n { ";" } else { "" }).unwrap(); }
        writeln!(f, "].\nEval vm_compute in (failures cases).").unwrap();
        self.cur.clear();
        self.shard += 1;
    }
    pub fn finish(mut self, rule: &str) {
        self.flush();
        let mut s = String::new();
        write!(s, "{{\"module\":{:?},\"evaluations\":{},\"distinct_nontrivial\":{},\"shards\":{},\"rule\":{:?},\"samples\":[", self.module, self.seen.len().max(if self.only.is_some() {1} else {0}), self.nontrivial, self.shard, rule).unwrap();
        for (i, x) in self.samples.iter().enumerate() { if i > 0 { s.push(','); } write!(s, "{:?}", x).unwrap(); }
        s.push_str("],\"histogram\":{");
        for (i, (k, v)) in self.hist.iter().enumerate() { if i > 0 { s.push(','); } write!(s, "{:?}:{}", k, v).unwrap(); }
        s.push_str("},\"notes\":{");
        for (i, (k, v)) in self.extra.iter().enumerate() { if i > 0 { s.push(','); } write!(s, "{:?}:{:?}", k, v).unwrap(); }
        s.push_str("}}");
        std::fs::write(self.out.join(format!("meta_{}.json", self.module)), s).unwrap();
    }
}
