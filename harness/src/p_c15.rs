//! C15: the block-state database `State` driven by synthetic EVM outputs and by real `Evm`
//! transactions, compared with the Coq model (Model/StateDb.v), the plain reference state
//! (Spec/PlainStateSpec.v), an independent plain map kept here, and `CacheDB`.
use crate::util::*;
use revm::db::states::{CacheAccount, TransitionAccount};
use revm::db::{AccountStatus, CacheDB, EmptyDB, State};
use revm::primitives::{
    keccak256, Account, AccountInfo, AccountStatus as Flags, Address, Bytecode, Bytes, EvmStorageSlot, ExecutionResult,
    HashMap, Output, ResultAndState, SpecId, TxKind, B256, KECCAK_EMPTY, U256,
};
use revm::{Database, DatabaseCommit, Evm};
use std::collections::BTreeMap;
use std::path::Path;

// ------------------------------------------------------------------------------------ printing
pub fn hexs(b: &[u8]) -> String { b.iter().map(|x| format!("{:02x}", x)).collect() }
pub fn za(a: &Address) -> String { format!("0x{}", hexs(a.as_slice())) }
pub fn zh(h: &B256) -> String { format!("0x{}", hexs(h.as_slice())) }
pub fn zcode(c: &Bytecode) -> String { format!("0x01{}", hexs(&c.original_bytes())) }
pub fn zinfo(i: &AccountInfo) -> String {
    format!("(mkInfo {} {} {} {})", zw(i.balance), i.nonce, zh(&i.code_hash), zopt(i.code.as_ref().map(zcode)))
}
pub fn zoinfo(i: &Option<AccountInfo>) -> String { zopt(i.as_ref().map(zinfo)) }

/// wildcard-free: a new variant is a compile error (= a broken obligation)
pub fn status_idx(s: AccountStatus) -> usize {
    match s {
        AccountStatus::LoadedNotExisting => 0,
        AccountStatus::Loaded => 1,
        AccountStatus::LoadedEmptyEIP161 => 2,
        AccountStatus::InMemoryChange => 3,
        AccountStatus::Changed => 4,
        AccountStatus::Destroyed => 5,
        AccountStatus::DestroyedChanged => 6,
        AccountStatus::DestroyedAgain => 7,
    }
}
pub const ALL_STATUS: [AccountStatus; 8] = [
    AccountStatus::LoadedNotExisting, AccountStatus::Loaded, AccountStatus::LoadedEmptyEIP161, AccountStatus::InMemoryChange,
    AccountStatus::Changed, AccountStatus::Destroyed, AccountStatus::DestroyedChanged, AccountStatus::DestroyedAgain,
];
pub const STATUS_NAMES: [&str; 8] = ["LoadedNotExisting", "Loaded", "LoadedEmptyEIP161", "InMemoryChange", "Changed", "Destroyed", "DestroyedChanged", "DestroyedAgain"];
pub fn stname(s: AccountStatus) -> &'static str { STATUS_NAMES[status_idx(s)] }

pub fn zslots<'a>(it: impl Iterator<Item = (&'a U256, (U256, U256))>) -> String {
    let mut v: Vec<(U256, U256, U256)> = it.map(|(k, (o, p))| (*k, o, p)).collect();
    v.sort();
    zlist(v.into_iter().map(|(k, o, p)| format!("(mkSlot {} {} {})", zw(k), zw(o), zw(p))))
}
pub fn zeacc(a: &Account) -> String {
    format!("(mkEacc {} {} {} {} {})", zinfo(&a.info),
        zslots(a.storage.iter().map(|(k, s)| (k, (s.original_value, s.present_value)))),
        zb(a.is_touched()), zb(a.is_created()), zb(a.is_selfdestructed()))
}
pub fn zcommit(m: &HashMap<Address, Account>) -> String {
    let mut v: Vec<(&Address, &Account)> = m.iter().collect();
    v.sort_by_key(|x| *x.0);
    format!("(OCommit {})", zlist(v.into_iter().map(|(a, e)| format!("({}, {})", za(a), zeacc(e)))))
}
pub fn zsmap<'a>(it: impl Iterator<Item = (&'a U256, &'a U256)>) -> String {
    let mut v: Vec<(U256, U256)> = it.map(|(k, v)| (*k, *v)).collect();
    v.sort();
    zlist(v.into_iter().map(|(k, v)| format!("({}, {})", zw(k), zw(v))))
}
pub fn zcacc(c: Option<&CacheAccount>) -> String {
    match c {
        None => "None".into(),
        Some(c) => format!("(Some ({}, {}))",
            match &c.account { None => "None".to_string(), Some(p) => format!("(Some ({}, {}))", zinfo(&p.info), zsmap(p.storage.iter())) },
            stname(c.status)),
    }
}
pub fn ztrans(t: &TransitionAccount) -> String {
    format!("(mkTrans {} {} {} {} {} {})", zoinfo(&t.info), stname(t.status), zoinfo(&t.previous_info), stname(t.previous_status),
        zslots(t.storage.iter().map(|(k, s)| (k, (s.previous_or_original_value, s.present_value)))), zb(t.storage_was_destroyed))
}

pub type Und = CacheDB<EmptyDB>;

/// take the transitions produced by the last operation (only when bundle tracking is on)
pub fn take_trans<DB: Database>(st: &mut State<DB>) -> Option<String> {
    st.transition_state.as_mut().map(|t| {
        let ts = t.take();
        let mut v: Vec<(Address, TransitionAccount)> = ts.transitions.into_iter().collect();
        v.sort_by_key(|x| x.0);
        zlist(v.iter().map(|(a, t)| format!("({}, {})", za(a), ztrans(t))))
    })
}
pub fn zsnaps<DB: Database>(st: &State<DB>, addrs: &[Address]) -> String {
    let mut v = addrs.to_vec();
    v.sort();
    v.dedup();
    zlist(v.iter().map(|a| format!("({}, {})", za(a), zcacc(st.cache.accounts.get(a)))))
}
/// database literal (Model.StateDb.db) of a CacheDB<EmptyDB>
pub fn zdb(db: &Und) -> String {
    let mut accts: Vec<(&Address, &revm::db::DbAccount)> = db.accounts.iter().collect();
    accts.sort_by_key(|x| *x.0);
    let a = zlist(accts.iter().filter(|(_, d)| d.info().is_some()).map(|(a, d)| format!("({}, mkDbAcc {} {})", za(a), zinfo(&d.info), zsmap(d.storage.iter()))));
    let mut cs: Vec<(&B256, &Bytecode)> = db.contracts.iter().collect();
    cs.sort_by_key(|x| *x.0);
    let c = zlist(cs.iter().map(|(h, c)| format!("({}, {})", zh(h), zcode(c))));
    format!("(mkDb {} {})", a, c)
}

pub fn step(op: &str, res: &str, snaps: &str) -> String { format!("(({}, {}), {})", op, res, snaps) }

// ------------------------------------------------------------------------------------ reflector
fn cell<T>(f: impl FnOnce() -> T, enc: impl FnOnce(T) -> u64) -> Option<u64> { catch(f).ok().map(enc) }

/// (function id, arguments, result) for every cell of account_status.rs; None = panicked
pub fn status_cells() -> Vec<(u64, Vec<u64>, Option<u64>)> {
    let mut v = vec![];
    let si = |s: AccountStatus| status_idx(s) as u64;
    for (i, s) in ALL_STATUS.iter().enumerate() {
        let i = i as u64;
        v.push((0, vec![i], cell(|| s.on_created(), si)));
        for b in [false, true] { v.push((1, vec![i, b as u64], cell(|| s.on_changed(b), si))); }
        v.push((2, vec![i], cell(|| s.on_selfdestructed(), si)));
        v.push((3, vec![i], cell(|| s.on_touched_empty_post_eip161(), si)));
        for b in [false, true] { v.push((4, vec![i, b as u64], cell(|| s.on_touched_created_pre_eip161(b), |r| r.map(si).unwrap_or(8)))); }
        for (j, o) in ALL_STATUS.iter().enumerate() { v.push((5, vec![i, j as u64], cell(|| { let mut x = *s; x.transition(*o); x }, si))); }
        v.push((6, vec![i], cell(|| s.is_not_modified(), |b| b as u64)));
        v.push((7, vec![i], cell(|| s.was_destroyed(), |b| b as u64)));
        v.push((8, vec![i], cell(|| s.is_storage_known(), |b| b as u64)));
        v.push((9, vec![i], cell(|| s.is_modified_and_not_destroyed(), |b| b as u64)));
    }
    v
}
fn zcell(c: &(u64, Vec<u64>, Option<u64>)) -> String {
    format!("({}, {}, {})", c.0, zlist(c.1.iter().map(|x| zu(*x))), zopt(c.2.map(zu)))
}
pub fn reflect(out: &Path) {
    let cells = status_cells();
    let mut s = String::new();
    s.push_str("(* GENERATED by `vh reflect` from the compiled crates/revm/src/db/states/account_status.rs: every\n   AccountStatus value x every status function, executed under catch_unwind; None = panicked.\n   Function ids: 0 on_created, 1 on_changed, 2 on_selfdestructed, 3 on_touched_empty_post_eip161,\n   4 on_touched_created_pre_eip161 (8 = returned None), 5 transition, 6 is_not_modified, 7 was_destroyed,\n   8 is_storage_known, 9 is_modified_and_not_destroyed. Statuses are numbered in declaration order. *)\n");
    s.push_str("From Coq Require Import ZArith List.\nImport ListNotations.\nLocal Open Scope Z_scope.\n\nDefinition gen_status_cells : list (Z * list Z * option Z) := [\n");
    let n = cells.len();
    for (i, c) in cells.iter().enumerate() { s.push_str(&format!("  {}{}\n", zcell(c), if i + 1 < n { ";" } else { "" })); }
    s.push_str("].\n");
    std::fs::write(out.join("StatusTables.v"), s).unwrap();
}

// ------------------------------------------------------------------------------------ shared bits
pub fn addr(b: u8) -> Address { Address::with_last_byte(b) }
pub fn code_table() -> Vec<Bytecode> {
    vec![Bytecode::new_raw(Bytes::from_static(&[0x00])), Bytecode::new_raw(Bytes::from_static(&[0x60, 0x00, 0x00])), Bytecode::new_raw(Bytes::from_static(&[0xfe]))]
}
pub fn info_with(balance: U256, nonce: u64, code: Option<&Bytecode>, inline: bool) -> AccountInfo {
    match code {
        Some(c) => AccountInfo { balance, nonce, code_hash: c.hash_slow(), code: if inline { Some(c.clone()) } else { None } },
        None => AccountInfo { balance, nonce, code_hash: KECCAK_EMPTY, code: if inline { Some(Bytecode::default()) } else { None } },
    }
}
fn small_val(rng: &mut Rng) -> U256 { if rng.chance(1, 4) { rng.u256b() } else { U256::from(rng.below(12)) } }
fn slot_key(rng: &mut Rng) -> U256 {
    match rng.below(8) { 0 | 1 => U256::ZERO, 2 | 3 => U256::from(1), 4 => U256::from(2), 5 => U256::MAX, 6 => U256::from(3), _ => rng.u256b() }
}

/// the harness's own plain map (independent of revm's databases)
#[derive(Clone, Default)]
pub struct PlainWorld { pub accts: BTreeMap<Address, (AccountInfo, BTreeMap<U256, U256>)>, pub codes: BTreeMap<B256, Bytecode> }
impl PlainWorld {
    pub fn from_db(db: &Und) -> Self {
        let mut w = PlainWorld::default();
        for (a, d) in db.accounts.iter() { if d.info().is_some() { w.accts.insert(*a, (d.info.clone(), d.storage.iter().map(|(k, v)| (*k, *v)).collect())); } }
        for (h, c) in db.contracts.iter() { w.codes.insert(*h, c.clone()); }
        w
    }
    pub fn basic(&self, a: &Address) -> Option<AccountInfo> { self.accts.get(a).map(|x| x.0.clone()) }
    pub fn storage(&self, a: &Address, k: &U256) -> U256 { self.accts.get(a).and_then(|x| x.1.get(k).cloned()).unwrap_or_default() }
    pub fn code_of(&self, a: &Address) -> Bytecode {
        match self.accts.get(a) { None => Bytecode::default(), Some((i, _)) => if i.code_hash == KECCAK_EMPTY { Bytecode::default() } else { self.codes.get(&i.code_hash).cloned().unwrap_or_default() } }
    }
    /// what one transaction's output does to a plain state (EIP-161 removal when `clear`)
    pub fn apply(&mut self, out: &HashMap<Address, Account>, clear: bool) {
        for (a, e) in out.iter() {
            if !e.is_touched() { continue; }
            if e.is_selfdestructed() { self.accts.remove(a); continue; }
            if clear && e.info.is_empty() { self.accts.remove(a); continue; }
            if let Some(c) = &e.info.code { if !c.is_empty() { self.codes.entry(e.info.code_hash).or_insert_with(|| c.clone()); } }
            let ent = self.accts.entry(*a).or_insert_with(|| (AccountInfo::default(), BTreeMap::new()));
            if e.is_created() { ent.1.clear(); }
            ent.0 = e.info.clone();
            for (k, s) in e.storage.iter() { ent.1.insert(*k, s.present_value); }
        }
    }
    pub fn increment(&mut self, a: &Address, n: u128) {
        if n == 0 { return; }
        let ent = self.accts.entry(*a).or_insert_with(|| (AccountInfo::default(), BTreeMap::new()));
        ent.0.balance = ent.0.balance.saturating_add(U256::from(n));
    }
    pub fn drain(&mut self, a: &Address) {
        let ent = self.accts.entry(*a).or_insert_with(|| (AccountInfo::default(), BTreeMap::new()));
        ent.0.balance = U256::ZERO;
    }
}

// ------------------------------------------------------------------------------------ (a) synthetic histories
fn gen_db(rng: &mut Rng, addrs: &[Address], codes: &[Bytecode], f15: bool) -> Und {
    let mut db = CacheDB::new(EmptyDB::default());
    for (n, a) in addrs.iter().enumerate() {
        let kind = if f15 && n == 0 { 5 } else { rng.below(5) };
        match kind {
            0 => {}
            1 => db.insert_account_info(*a, info_with(U256::ZERO, 0, None, rng.chance(1, 2))),
            2 => {
                let nonce = if rng.chance(1, 2) { 0 } else { rng.below(3) };
                db.insert_account_info(*a, info_with(small_val(rng) + U256::from(1), nonce, None, rng.chance(1, 2)));
                // no code but a nonce, and storage in the database (an account whose constructor wrote storage and
                // returned empty code, or an EOA that ran delegated code): not the F15 class, its storage must stay readable
                if nonce > 0 && rng.chance(1, 2) { for _ in 0..rng.range(1, 3) { db.insert_account_storage(*a, slot_key(rng), small_val(rng) + U256::from(1)).unwrap(); } }
            }
            3 | 4 => {
                let c = rng.pick(codes).clone();
                db.insert_account_info(*a, info_with(small_val(rng), rng.below(3), Some(&c), rng.chance(1, 2)));
                for _ in 0..rng.below(4) { db.insert_account_storage(*a, slot_key(rng), small_val(rng)).unwrap(); }
            }
            _ => {
                // known-finding class F15: neither code nor nonce, but storage in the database
                db.insert_account_info(*a, info_with(if rng.chance(1, 3) { U256::ZERO } else { U256::from(5) }, 0, None, true));
                db.insert_account_storage(*a, U256::from(1), U256::from(9)).unwrap();
                if rng.chance(1, 2) { db.insert_account_storage(*a, slot_key(rng), small_val(rng) + U256::from(1)).unwrap(); }
            }
        }
    }
    db
}

/// one synthetic EVM-output record for `a`, consistent with the current plain view when `valid`
fn gen_output(rng: &mut Rng, w: &PlainWorld, a: &Address, clear: bool, codes: &[Bytecode], valid: bool, tags: &mut Vec<&'static str>) -> Account {
    let cur = w.accts.get(a).cloned();
    let cur_info = cur.as_ref().map(|x| x.0.clone());
    let has_code = cur_info.as_ref().map(|i| i.code_hash != KECCAK_EMPTY).unwrap_or(false);
    let nonce0 = cur_info.as_ref().map(|i| i.nonce == 0).unwrap_or(true);
    let base = cur_info.clone().unwrap_or_default();
    let mut info = base.clone();
    // inline code presence varies like in real outputs
    if rng.chance(1, 2) { info.code = if has_code { w.codes.get(&info.code_hash).cloned() } else { Some(Bytecode::default()) }; } else if rng.chance(1, 2) { info.code = None; }
    let mut storage: HashMap<U256, EvmStorageSlot> = HashMap::default();
    let mut flags = Flags::Touched;
    let view = |k: &U256| w.storage(a, k);
    let mut kind = rng.below(10);
    if !valid { kind = rng.below(12); }
    match kind {
        0 => { flags = Flags::Loaded; if rng.chance(1, 2) { info.balance = small_val(rng); } tags.push("out:untouched"); }
        1 => { tags.push(if info.is_empty() { "out:touch-empty" } else { "out:touch-only" }); }
        2 | 3 => { info.balance = if rng.chance(1, 6) && !has_code && nonce0 && valid && cur_info.as_ref().map(|i| i.is_empty()).unwrap_or(true) { U256::ZERO } else { small_val(rng) + U256::from(1) }; if rng.chance(1, 3) { info.nonce += 1; } tags.push("out:balance-nonce"); }
        4 | 5 if has_code || !valid => {
            for _ in 0..rng.range(1, 4) {
                let k = slot_key(rng);
                let o = if valid || rng.chance(1, 2) { view(&k) } else { small_val(rng) };
                let p = match rng.below(4) { 0 => o, 1 => U256::ZERO, _ => small_val(rng) };
                storage.insert(k, EvmStorageSlot { original_value: o, present_value: p, is_cold: false });
            }
            if rng.chance(1, 3) { info.balance = small_val(rng); }
            tags.push("out:storage");
        }
        6 => {
            flags |= Flags::SelfDestructed;
            if rng.chance(1, 2) { info.balance = U256::ZERO; }
            if rng.chance(1, 3) { flags |= Flags::Created; }
            if rng.chance(1, 2) { storage.insert(slot_key(rng), EvmStorageSlot { original_value: U256::ZERO, present_value: small_val(rng), is_cold: false }); }
            tags.push("out:selfdestruct");
        }
        7 | 8 if (!has_code && nonce0) || !valid => {
            flags |= Flags::Created;
            let c = if rng.chance(1, 5) { None } else { Some(rng.pick(codes).clone()) };
            let nonce = if clear || rng.chance(1, 2) { 1 } else { 0 };
            info = info_with(base.balance + if rng.chance(1, 2) { U256::from(rng.below(5)) } else { U256::ZERO }, nonce, c.as_ref(), true);
            for _ in 0..rng.below(4) {
                let k = slot_key(rng);
                let p = if rng.chance(1, 5) { U256::ZERO } else { small_val(rng) };
                let o = if valid { U256::ZERO } else { small_val(rng) };
                storage.insert(k, EvmStorageSlot { original_value: o, present_value: p, is_cold: false });
            }
            tags.push("out:create");
        }
        10 => { // malformed: empty info with storage changes / nonce going back
            info = AccountInfo::default(); if rng.chance(1, 2) { info.code = None; }
            storage.insert(slot_key(rng), EvmStorageSlot { original_value: small_val(rng), present_value: small_val(rng), is_cold: false });
            tags.push("out:malformed-empty-with-storage");
        }
        11 => { info = info_with(small_val(rng), rng.below(2), if rng.chance(1, 2) { Some(rng.pick(codes)) } else { None }, rng.chance(1, 2)); if rng.chance(1, 2) { flags |= Flags::Created; } tags.push("out:malformed-info"); }
        _ => { info.balance = small_val(rng) + U256::from(1); tags.push("out:balance-nonce"); }
    }
    Account { info, storage, status: flags }
}

struct Hist { steps: Vec<String>, human: Vec<String>, panicked: bool }

fn synthetic_case(rng: &mut Rng, f15: bool, valid: bool, w: &mut CaseWriter) {
    let codes = code_table();
    let addrs: Vec<Address> = vec![addr(0xd1), addr(0xd2), addr(0xd3)];
    let db = gen_db(rng, &addrs, &codes, f15);
    let clear0 = rng.chance(2, 3);
    let track = rng.chance(1, 2);
    let mut b = State::builder().with_database(db.clone());
    if track { b = b.with_bundle_update(); }
    if !clear0 { b = b.without_state_clear(); }
    let mut st = b.build();
    let mut clear = clear0;
    let mut world = PlainWorld::from_db(&db);
    let mut h = Hist { steps: vec![], human: vec![], panicked: false };
    let mut tags: Vec<&'static str> = vec![if valid { "synthetic:valid" } else { "synthetic:malformed" }, if clear0 { "clear:on" } else { "clear:off" }, if track { "bundle:on" } else { "bundle:off" }];
    if f15 { tags.push("class:f15-db-storage"); }
    let nops = rng.range(2, 7);
    // a read, as a step
    fn do_basic(st: &mut State<Und>, a: &Address, h: &mut Hist) {
        let r = st.basic(*a).unwrap();
        h.steps.push(step(&format!("OBasic {}", za(a)), &format!("OInfo {}", zoinfo(&r)), &zsnaps(st, &[*a])));
    }
    fn do_storage(st: &mut State<Und>, a: &Address, k: &U256, h: &mut Hist) {
        match catch(|| st.storage(*a, *k).unwrap()) {
            Ok(v) => h.steps.push(step(&format!("OStorage {} {}", za(a), zw(*k)), &format!("OVal {}", zw(v)), &zsnaps(st, &[*a]))),
            Err(_) => { h.steps.push(step(&format!("OStorage {} {}", za(a), zw(*k)), "OPanic", "[]")); h.panicked = true; }
        }
    }
    for _ in 0..nops {
        if h.panicked { break; }
        match rng.below(10) {
            0 => { // withdrawals-style increments
                let mut l: Vec<(Address, u128)> = vec![];
                for a in addrs.iter() { if rng.chance(1, 2) { l.push((*a, match rng.below(5) { 0 => 0, 1 => 1, 2 => u128::MAX, _ => rng.below(1000) as u128 })); } }
                let r = catch(|| st.increment_balances(l.clone()).unwrap());
                let op = format!("OIncr {}", zlist(l.iter().map(|(a, n)| format!("({}, {})", za(a), zu128(*n)))));
                let al: Vec<Address> = l.iter().map(|x| x.0).collect();
                match r {
                    Ok(()) => { let t = take_trans(&mut st); h.steps.push(step(&op, &format!("OCommitted {}", zopt(t)), &zsnaps(&st, &al))); for (a, n) in l.iter() { world.increment(a, *n); } }
                    Err(_) => { h.steps.push(step(&op, "OPanic", "[]")); h.panicked = true; }
                }
                tags.push("op:increment_balances");
            }
            1 => { // drain
                let l: Vec<Address> = addrs.iter().filter(|_| rng.chance(1, 2)).cloned().collect();
                let r = catch(|| st.drain_balances(l.clone()).unwrap());
                let op = format!("ODrain {}", zlist(l.iter().map(za)));
                match r {
                    Ok(bs) => { let t = take_trans(&mut st); h.steps.push(step(&op, &format!("ODrained {} {}", zlist(bs.iter().map(|b| zu128(*b))), zopt(t)), &zsnaps(&st, &l))); for a in l.iter() { world.drain(a); } }
                    Err(_) => { h.steps.push(step(&op, "OPanic", "[]")); h.panicked = true; tags.push("panic:drain"); }
                }
                tags.push("op:drain_balances");
            }
            2 if rng.chance(1, 3) => { clear = !clear; st.set_state_clear_flag(clear); h.steps.push(step(&format!("OSetClear {}", zb(clear)), "OUnit", "[]")); tags.push("op:set_state_clear_flag"); }
            3 => { // code_by_hash
                let hh = if rng.chance(3, 4) { rng.pick(&codes).hash_slow() } else if rng.chance(1, 2) { KECCAK_EMPTY } else { B256::from(rng.u256b()) };
                let c = st.code_by_hash(hh).unwrap();
                h.steps.push(step(&format!("OCode {}", zh(&hh)), &format!("OVal {}", zcode(&c)), "[]"));
                tags.push("op:code_by_hash");
            }
            _ => { // a commit of 1..3 account records
                let mut out: HashMap<Address, Account> = HashMap::default();
                for a in addrs.iter() { if rng.chance(1, 2) || out.is_empty() && *a == addrs[2] { out.insert(*a, gen_output(rng, &world, a, clear, &codes, valid, &mut tags)); } }
                // the EVM loads every account (and most slots) through the database first
                let mut keys: Vec<Address> = out.keys().cloned().collect();
                keys.sort();
                for a in keys.iter() {
                    if valid || rng.chance(9, 10) { do_basic(&mut st, a, &mut h); }
                    let e = &out[a];
                    if !e.is_created() { let mut ks: Vec<U256> = e.storage.keys().cloned().collect(); ks.sort(); for k in ks { if rng.chance(2, 3) { do_storage(&mut st, a, &k, &mut h); if h.panicked { break; } } } }
                    if h.panicked { break; }
                }
                if h.panicked { break; }
                let op = zcommit(&out);
                let r = catch(|| st.commit(out.clone()));
                match r {
                    Ok(()) => { let t = take_trans(&mut st); h.steps.push(step(&op, &format!("OCommitted {}", zopt(t)), &zsnaps(&st, &keys))); world.apply(&out, clear); }
                    Err(m) => { h.steps.push(step(&op, "OPanic", "[]")); h.panicked = true; tags.push(if m.contains("All accounts should be present") { "panic:not-loaded" } else { "panic:status-cell" }); break; }
                }
                h.human.push(format!("commit {:?}", out.iter().map(|(a, e)| (a.as_slice()[19], e.status, e.info.balance, e.info.nonce, e.storage.len())).collect::<Vec<_>>()));
                // read everything back
                for a in keys.iter() {
                    do_basic(&mut st, a, &mut h);
                    let mut ks: Vec<U256> = vec![U256::ZERO, U256::from(1), U256::from(2)];
                    ks.extend(out[a].storage.keys().cloned());
                    if rng.chance(1, 2) { ks.push(slot_key(rng)); }
                    ks.sort(); ks.dedup();
                    for k in ks { do_storage(&mut st, a, &k, &mut h); }
                }
            }
        }
    }
    if h.panicked { tags.push("panicked"); }
    let case = format!("(HistCase false {} {} {} [] [])", zdb(&db), zb(clear0), zlist(h.steps.iter().cloned()));
    let human = format!("synthetic valid={} f15={} clear0={} track={} db={:?} :: {}", valid, f15, clear0, track,
        addrs.iter().map(|a| db.accounts.get(a).map(|d| (d.info.balance, d.info.nonce, d.info.code_hash != KECCAK_EMPTY, d.storage.len()))).collect::<Vec<_>>(), h.human.join(" ; "));
    let nt = h.steps.len() >= 4;
    w.push(case, human, nt, &tags);
}

// ------------------------------------------------------------------------------------ (b) real transactions
/// records every database call the EVM makes
pub struct Rec<'a, DB> { pub inner: &'a mut DB, pub log: Vec<String> }
impl<'a, DB: Database> Database for Rec<'a, DB> {
    type Error = DB::Error;
    fn basic(&mut self, a: Address) -> Result<Option<AccountInfo>, Self::Error> {
        let r = self.inner.basic(a)?;
        self.log.push(step(&format!("OBasic {}", za(&a)), &format!("OInfo {}", zoinfo(&r)), "[]"));
        Ok(r)
    }
    fn code_by_hash(&mut self, h: B256) -> Result<Bytecode, Self::Error> {
        let r = self.inner.code_by_hash(h)?;
        self.log.push(step(&format!("OCode {}", zh(&h)), &format!("OVal {}", zcode(&r)), "[]"));
        Ok(r)
    }
    fn has_storage(&mut self, a: Address) -> Result<bool, Self::Error> { self.inner.has_storage(a) }
    fn storage(&mut self, a: Address, k: U256) -> Result<U256, Self::Error> {
        let r = self.inner.storage(a, k)?;
        self.log.push(step(&format!("OStorage {} {}", za(&a), zw(k)), &format!("OVal {}", zw(r)), "[]"));
        Ok(r)
    }
    fn block_hash(&mut self, n: u64) -> Result<B256, Self::Error> { self.inner.block_hash(n) }
}

pub fn initcode(stores: &[(u8, u8)], runtime: &[u8], selfdestruct: bool) -> Vec<u8> {
    let mut v = vec![];
    for (k, x) in stores { v.extend_from_slice(&[0x60, *x, 0x60, *k, 0x55]); }
    if selfdestruct { v.extend_from_slice(&[0x33, 0xff]); return v; }
    let off = (v.len() + 11) as u8;
    v.extend_from_slice(&[0x60, runtime.len() as u8, 0x80, 0x60, off, 0x60, 0x00, 0x39, 0x60, 0x00, 0xf3]);
    v.extend_from_slice(runtime);
    v
}
pub const RT_WRITER: [u8; 8] = [0x60, 0x20, 0x35, 0x60, 0x00, 0x35, 0x55, 0x00];
pub const RT_DESTRUCT: [u8; 4] = [0x60, 0x00, 0x35, 0xff];
pub const RT_TOUCHER: [u8; 19] = [0x60, 0, 0x60, 0, 0x60, 0, 0x60, 0, 0x60, 0x20, 0x35, 0x60, 0, 0x35, 0x5a, 0xf1, 0x50, 0x00, 0x00];
pub const RT_REVERT: [u8; 10] = [0x60, 0x01, 0x60, 0x00, 0x55, 0x60, 0x00, 0x60, 0x00, 0xfd];
pub const RT_FACTORY1: [u8; 14] = [0x36, 0x60, 0, 0x60, 0, 0x37, 0x36, 0x60, 0, 0x60, 0, 0xf0, 0x50, 0x00];
pub const RT_FACTORY2: [u8; 21] = [0x36, 0x60, 0x20, 0x90, 0x03, 0x80, 0x60, 0x20, 0x60, 0, 0x37, 0x60, 0, 0x35, 0x90, 0x60, 0, 0x60, 0, 0xf5, 0x50];

pub const E1: u8 = 0xa1; pub const E2: u8 = 0xa2; pub const E3: u8 = 0xa3; pub const EMPTY: u8 = 0xa4; pub const COINBASE: u8 = 0xcb;
pub const W: u8 = 0xc1; pub const S: u8 = 0xc2; pub const F1: u8 = 0xc3; pub const F2: u8 = 0xc4; pub const T: u8 = 0xc5; pub const R: u8 = 0xc6; pub const G: u8 = 0xdd;

pub fn base_world(rng: &mut Rng, with_f15: bool) -> Und {
    let mut db = CacheDB::new(EmptyDB::default());
    let eth = U256::from(10u64).pow(U256::from(18));
    db.insert_account_info(addr(E1), AccountInfo::from_balance(eth));
    db.insert_account_info(addr(E2), AccountInfo { balance: eth, nonce: 3, ..Default::default() });
    if rng.chance(1, 2) { db.insert_account_info(addr(EMPTY), AccountInfo::default()); }
    let put = |db: &mut Und, a: u8, code: &[u8], bal: u64, nonce: u64| {
        let c = Bytecode::new_raw(Bytes::copy_from_slice(code));
        db.insert_account_info(addr(a), AccountInfo { balance: U256::from(bal), nonce, code_hash: c.hash_slow(), code: Some(c) });
    };
    put(&mut db, W, &RT_WRITER, 0, 1);
    db.insert_account_storage(addr(W), U256::from(1), U256::from(7)).unwrap();
    db.insert_account_storage(addr(W), U256::from(2), U256::from(9)).unwrap();
    put(&mut db, S, &RT_DESTRUCT, 1000, 1);
    db.insert_account_storage(addr(S), U256::from(1), U256::from(5)).unwrap();
    put(&mut db, F1, &RT_FACTORY1, 0, 1);
    put(&mut db, F2, &RT_FACTORY2, 0, 1);
    put(&mut db, T, &RT_TOUCHER, 100_000, 1);
    put(&mut db, R, &RT_REVERT, 0, 1);
    if with_f15 {
        db.insert_account_info(addr(G), AccountInfo::from_balance(U256::from(5)));
        db.insert_account_storage(addr(G), U256::from(1), U256::from(9)).unwrap();
    }
    db
}

#[derive(Clone, Debug)]
pub struct Tx { pub from: u8, pub to: Option<Address>, pub value: U256, pub data: Vec<u8>, pub gas_price: u64, pub what: &'static str }

fn word(x: U256) -> Vec<u8> { x.to_be_bytes::<32>().to_vec() }
fn aword(a: &Address) -> Vec<u8> { let mut v = vec![0u8; 12]; v.extend_from_slice(a.as_slice()); v }

pub fn gen_tx(rng: &mut Rng, created: &[Address], spec: SpecId, with_f15: bool, no_orphan: bool) -> Tx {
    let from = *rng.pick(&[E1, E2, E1]);
    let gas_price = if rng.chance(1, 3) { 1 } else { 0 };
    let targets: Vec<Address> = { let mut v = vec![addr(E1), addr(E2), addr(E3), addr(EMPTY), addr(0xee), addr(COINBASE), addr(W), addr(S)]; v.extend_from_slice(created); if with_f15 { v.push(addr(G)); v.push(addr(G)); } v };
    let runtimes: Vec<Vec<u8>> = vec![RT_WRITER.to_vec(), RT_DESTRUCT.to_vec(), vec![], RT_WRITER.to_vec()];
    let mk_init = |rng: &mut Rng| -> Vec<u8> {
        let n = rng.below(3) as usize;
        let stores: Vec<(u8, u8)> = (0..n).map(|_| (rng.below(3) as u8, rng.below(4) as u8)).collect();
        if rng.chance(1, 6) { initcode(&stores, &[], true) } else if no_orphan && spec < SpecId::SPURIOUS_DRAGON { initcode(&stores, &RT_WRITER, false) } else { { let rt: Vec<u8> = runtimes[rng.below(4) as usize].clone(); initcode(&stores, &rt, false) } }
    };
    let k = rng.below(14);
    let mut tx = Tx { from, to: None, value: U256::ZERO, data: vec![], gas_price, what: "" };
    match k {
        0 | 1 => { tx.to = Some(*rng.pick(&targets)); tx.value = if rng.chance(1, 2) { U256::ZERO } else { U256::from(rng.below(1000)) }; tx.what = if tx.value.is_zero() { "tx:zero-value-transfer" } else { "tx:value-transfer" }; }
        2 | 3 => { tx.to = Some(addr(W)); tx.data = [word(U256::from(rng.below(4))), word(match rng.below(4) { 0 => U256::ZERO, 1 => U256::from(7), _ => U256::from(rng.below(20)) })].concat(); tx.what = "tx:storage-write"; }
        4 => { tx.to = Some(addr(S)); tx.data = aword(rng.pick(&targets)); tx.what = "tx:selfdestruct-call"; }
        5 | 6 => { tx.to = None; tx.data = mk_init(rng); tx.value = U256::from(rng.below(3)); tx.what = "tx:create-tx"; }
        7 => { tx.to = Some(addr(F1)); tx.data = mk_init(rng); tx.what = "tx:CREATE"; }
        8 | 9 => { tx.to = Some(addr(if spec >= SpecId::PETERSBURG { F2 } else { F1 })); let init = mk_init(rng); tx.data = if spec >= SpecId::PETERSBURG { [word(U256::from(rng.below(2))), init].concat() } else { init }; tx.what = "tx:CREATE2"; }
        10 => { tx.to = Some(addr(T)); tx.data = [aword(rng.pick(&targets)), word(if rng.chance(2, 3) { U256::ZERO } else { U256::from(rng.below(50)) })].concat(); tx.what = "tx:touch-via-call"; }
        11 => { tx.to = Some(addr(R)); tx.what = "tx:revert"; }
        _ => {
            if created.is_empty() { tx.to = Some(addr(W)); tx.data = [word(U256::from(1)), word(U256::from(7))].concat(); tx.what = "tx:storage-write"; }
            else { tx.to = Some(*rng.pick(created)); tx.data = if rng.chance(1, 2) { aword(rng.pick(&targets)) } else { [word(U256::from(rng.below(3))), word(U256::from(rng.below(5)))].concat() }; tx.what = "tx:call-created"; }
        }
    }
    tx
}

pub fn exec<DB: Database>(db: DB, tx: &Tx, spec: SpecId) -> Result<ResultAndState, String> where DB::Error: std::fmt::Debug {
    let mut evm = Evm::builder().with_db(db).with_spec_id(spec)
        .modify_block_env(|b| { b.coinbase = addr(COINBASE); b.basefee = U256::ZERO; b.number = U256::from(100); b.gas_limit = U256::from(30_000_000u64); })
        .modify_tx_env(|t| {
            t.caller = addr(tx.from); t.gas_limit = 1_000_000; t.gas_price = U256::from(tx.gas_price);
            t.transact_to = match tx.to { Some(a) => TxKind::Call(a), None => TxKind::Create };
            t.value = tx.value; t.data = Bytes::from(tx.data.clone()); t.nonce = None; t.chain_id = None;
        }).build();
    evm.transact().map_err(|e| format!("{:?}", e))
}
pub fn zexec(r: &Result<ResultAndState, String>) -> String {
    match r {
        Err(_) => "[3]".into(),
        Ok(rs) => match &rs.result {
            ExecutionResult::Success { gas_used, gas_refunded, logs, output, .. } => {
                let (o, ca) = match output { Output::Call(b) => (b.clone(), U256::ZERO), Output::Create(b, a) => (b.clone(), a.map(|a| U256::from_be_slice(a.as_slice()) + U256::from(1)).unwrap_or_default()) };
                zlist(vec![zu(0), zu(*gas_used), zu(*gas_refunded), zh(&keccak256(&o)), zu(logs.len() as u64), zw(ca)])
            }
            ExecutionResult::Revert { gas_used, output } => zlist(vec![zu(1), zu(*gas_used), zh(&keccak256(output))]),
            ExecutionResult::Halt { reason, gas_used } => zlist(vec![zu(2), zu(*gas_used), zu(format!("{:?}", reason).len() as u64)]),
        },
    }
}
/// code of an account the way revm reads it: inline code of `basic`, else `code_by_hash`
pub fn code_via<DB: Database>(db: &mut DB, i: &Option<AccountInfo>, steps: Option<&mut Vec<String>>) -> Bytecode where DB::Error: std::fmt::Debug {
    match i {
        None => Bytecode::default(),
        Some(i) => match &i.code {
            Some(c) => c.clone(),
            None => if i.code_hash == KECCAK_EMPTY { Bytecode::default() } else {
                let c = db.code_by_hash(i.code_hash).unwrap();
                if let Some(s) = steps { s.push(step(&format!("OCode {}", zh(&i.code_hash)), &format!("OVal {}", zcode(&c)), "[]")); }
                c
            },
        },
    }
}

pub const SPECS: [SpecId; 9] = [SpecId::FRONTIER, SpecId::HOMESTEAD, SpecId::TANGERINE, SpecId::SPURIOUS_DRAGON, SpecId::BYZANTIUM, SpecId::PETERSBURG, SpecId::SHANGHAI, SpecId::CANCUN, SpecId::PRAGUE];

fn real_case(rng: &mut Rng, with_f15: bool, script: Option<(SpecId, Vec<Tx>)>, w: &mut CaseWriter) {
    let base = base_world(rng, with_f15);
    let mut spec = match &script { Some((s, _)) => *s, None => *rng.pick(&SPECS) };
    let mut clear = spec >= SpecId::SPURIOUS_DRAGON;
    // allowed mismatch: state clearing off although the fork has it (empty accounts are kept; execution does not depend on it)
    if script.is_none() && clear && rng.chance(1, 8) { clear = false; }
    let clear0 = clear;
    let track = rng.chance(1, 2);
    let mut b = State::builder().with_database(base.clone());
    if track { b = b.with_bundle_update(); }
    if !clear { b = b.without_state_clear(); }
    let mut st = b.build();
    let mut cdb: CacheDB<Und> = CacheDB::new(base.clone());
    let mut world = PlainWorld::from_db(&base);
    let mut steps: Vec<String> = vec![];
    let mut rbs: Vec<String> = vec![];
    let mut execs: Vec<String> = vec![];
    let mut human: Vec<String> = vec![];
    let mut created: Vec<Address> = vec![];
    let mut tags: Vec<&'static str> = vec!["real", if clear0 { "clear:on" } else { "clear:off" }, if track { "bundle:on" } else { "bundle:off" }];
    if with_f15 { tags.push("class:f15-db-storage"); }
    let ntx = match &script { Some((_, v)) => v.len() as u64, None => rng.range(3, 9) };
    let mut last_created: Option<Address> = None;
    let mut new_hashes: Vec<B256> = vec![];
    if script.is_some() { tags.push("directed"); }
    for n in 0..ntx {
        // fork boundary: TANGERINE -> SPURIOUS_DRAGON switches state clearing on
        if script.is_none() && n == ntx / 2 && spec == SpecId::TANGERINE && rng.chance(1, 2) {
            spec = SpecId::SPURIOUS_DRAGON; clear = true; st.set_state_clear_flag(true);
            steps.push(step("OSetClear true", "OUnit", "[]")); tags.push("fork-switch");
        }
        if script.is_none() && rng.chance(1, 7) {
            // withdrawals / DAO-style operations between transactions
            let a = *rng.pick(&[addr(E1), addr(E3), addr(EMPTY), addr(W), addr(0xee)]);
            if rng.chance(2, 3) {
                let amt = rng.below(3) as u128 * 1000;
                st.increment_balances(vec![(a, amt)]).unwrap();
                let t = take_trans(&mut st);
                steps.push(step(&format!("OIncr [({}, {})]", za(&a), zu128(amt)), &format!("OCommitted {}", zopt(t)), &zsnaps(&st, &[a])));
                world.increment(&a, amt);
                if amt != 0 { let mut i = cdb.basic(a).unwrap().unwrap_or_default(); i.balance = i.balance.saturating_add(U256::from(amt)); let mut m = HashMap::default(); m.insert(a, Account { info: i, storage: HashMap::default(), status: Flags::Touched }); cdb.commit(m); }
                tags.push("op:increment_balances");
            } else {
                let bs = st.drain_balances(vec![a]).unwrap();
                let t = take_trans(&mut st);
                steps.push(step(&format!("ODrain [{}]", za(&a)), &format!("ODrained {} {}", zlist(bs.iter().map(|b| zu128(*b))), zopt(t)), &zsnaps(&st, &[a])));
                world.drain(&a);
                let mut i = cdb.basic(a).unwrap().unwrap_or_default(); i.balance = U256::ZERO; let mut m = HashMap::default(); m.insert(a, Account { info: i, storage: HashMap::default(), status: Flags::Touched }); cdb.commit(m);
                tags.push("op:drain_balances");
            }
            continue;
        }
        let tx = match &script {
            Some((_, v)) => { let mut t = v[n as usize].clone(); if t.what == "script:call-last-created" { t.to = last_created; } t }
            None => gen_tx(rng, &created, spec, with_f15, false),
        };
        tags.push(tx.what);
        let (r1, log) = { let mut rec = Rec { inner: &mut st, log: vec![] }; let r = exec(&mut rec, &tx, spec); (r, rec.log) };
        steps.extend(log);
        let r2 = exec(&mut cdb, &tx, spec);
        execs.push(format!("({}, {})", zexec(&r1), zexec(&r2)));
        human.push(format!("{} from={:x} to={:?} value={} data={} -> {}", tx.what, tx.from, tx.to.map(|a| hexs(&a.as_slice()[18..])), tx.value, hexs(&tx.data), match &r1 { Ok(x) => format!("{:?}", x.result).chars().take(60).collect::<String>(), Err(e) => e.chars().take(60).collect() }));
        let (Ok(rs1), Ok(rs2)) = (r1, r2) else { tags.push("tx:rejected"); continue; };
        match &rs1.result { ExecutionResult::Success { .. } => tags.push("result:success"), ExecutionResult::Revert { .. } => tags.push("result:revert"), ExecutionResult::Halt { .. } => tags.push("result:halt") }
        let out = rs1.state;
        let mut keys: Vec<Address> = out.keys().cloned().collect();
        keys.sort();
        for (a, e) in out.iter() {
            if e.is_touched() && e.is_selfdestructed() { tags.push("out:selfdestruct"); created.retain(|x| x != a); }
            else if e.is_touched() && e.is_created() { tags.push("out:create"); last_created = Some(*a); if e.info.code_hash != KECCAK_EMPTY { new_hashes.push(e.info.code_hash); } if !created.contains(a) && e.info.code_hash != KECCAK_EMPTY { created.push(*a); } }
            else if e.is_touched() && e.info.is_empty() { tags.push("out:touch-empty"); }
            else if e.is_touched() { tags.push("out:change"); }
        }
        let op = zcommit(&out);
        st.commit(out.clone());
        let t = take_trans(&mut st);
        steps.push(step(&op, &format!("OCommitted {}", zopt(t)), &zsnaps(&st, &keys)));
        cdb.commit(rs2.state);
        world.apply(&out, clear);
        // read back everything that was touched through all three
        for a in keys.iter() {
            let i1 = st.basic(*a).unwrap();
            steps.push(step(&format!("OBasic {}", za(a)), &format!("OInfo {}", zoinfo(&i1)), "[]"));
            let i2 = cdb.basic(*a).unwrap();
            let i3 = world.basic(a);
            rbs.push(format!("RbBasic {} {} {} {} {}", zb(clear), za(a), zoinfo(&i1), zoinfo(&i2), zoinfo(&i3)));
            let mut ks: Vec<U256> = vec![U256::ZERO, U256::from(1), U256::from(2)];
            ks.extend(out[a].storage.keys().cloned());
            ks.sort(); ks.dedup();
            for k in ks {
                let v1 = st.storage(*a, k).unwrap();
                steps.push(step(&format!("OStorage {} {}", za(a), zw(k)), &format!("OVal {}", zw(v1)), "[]"));
                let v2 = cdb.storage(*a, k).unwrap();
                rbs.push(format!("RbVal {} {} {} {}", za(a), zw(v1), zw(v2), zw(world.storage(a, &k))));
            }
            let c1 = code_via(&mut st, &i1, Some(&mut steps));
            let c2 = code_via(&mut cdb, &i2, None);
            rbs.push(format!("RbVal {} {} {} {}", za(a), zcode(&c1), zcode(&c2), zcode(&world.code_of(a))));
        }
    }
    if script.is_some() {
        // direct code_by_hash of code deployed inside this State (class F18)
        for h in new_hashes.iter() { let c = st.code_by_hash(*h).unwrap(); steps.push(step(&format!("OCode {}", zh(h)), &format!("OVal {}", zcode(&c)), "[]")); }
    }
    let case = format!("(HistCase true {} {} {} {} {})", zdb(&base), zb(clear0), zlist(steps.iter().cloned()), zlist(rbs.iter().map(|x| format!("({})", x))), zlist(execs.iter().cloned()));
    w.push(case, format!("real spec={:?} clear0={} track={} f15={} :: {}", spec, clear0, track, with_f15, human.join(" ; ")), true, &tags);
}

pub fn run(o: &Opts) {
    let mut rng = Rng::new(o.seed ^ 0xC15);
    let mut w = CaseWriter::new(o, "C15", 60);
    // the reflected table, cell by cell
    for c in status_cells() {
        let case = format!("(CellCase {} {} {})", c.0, zlist(c.1.iter().map(|x| zu(*x))), zopt(c.2.map(zu)));
        w.push(case, format!("status cell f={} args={:?} -> {:?}", c.0, c.1, c.2), false, &["cell"]);
    }
    // directed witnesses of the three recorded classes (fixed case indices 152..154)
    real_case(&mut rng, true, Some((SpecId::CANCUN, vec![
        Tx { from: E1, to: Some(addr(G)), value: U256::from(1), data: vec![], gas_price: 0, what: "tx:value-transfer" }])), &mut w);
    real_case(&mut rng, false, Some((SpecId::HOMESTEAD, vec![
        Tx { from: E1, to: None, value: U256::ZERO, data: initcode(&[(1, 5)], &[], false), gas_price: 0, what: "tx:create-tx" },
        Tx { from: E1, to: None, value: U256::ZERO, data: vec![], gas_price: 0, what: "script:call-last-created" }])), &mut w);
    real_case(&mut rng, false, Some((SpecId::CANCUN, vec![
        Tx { from: E1, to: None, value: U256::ZERO, data: initcode(&[(1, 5)], &[0x60, 0x2a, 0x00], false), gas_price: 0, what: "tx:create-tx" }])), &mut w);
    let (na, nb) = if o.thorough() { (12_000, 2_500) } else { (720, 150) };
    for i in 0..na { let f15 = i % 40 == 7; let valid = i % 5 != 4; synthetic_case(&mut rng, f15, valid, &mut w); }
    for i in 0..nb { real_case(&mut rng, i % 25 == 3, None, &mut w); }
    w.finish("status cells (exhaustive) + synthetic State histories (database of 3 accounts, 2..7 operations: commits of 1..3 EVM-output account records chosen against the live plain view, increment_balances, drain_balances, set_state_clear_flag, code_by_hash, with the reads the EVM would make and a full read-back after every commit; 1/5 malformed) + real Evm transaction histories (3..9 transactions: transfers, zero-value touches, storage writes, SELFDESTRUCT, create transactions, CREATE/CREATE2, reverts, calls of created contracts, withdrawals/drains) on State<CacheDB<EmptyDB>> and CacheDB<CacheDB<EmptyDB>> over 9 forks; non-trivial = at least 4 steps; distinct = distinct case terms");
}

