mod util;
mod p_c13;
mod p_c34t;
mod p_c11p;
mod p_c01;
mod p_c08;
mod p_c25;
mod p_c16;
mod p_c28;
mod p_c30;
mod p_c29;
mod progs;
mod p_c24;
mod kzg_vectors;
mod p_c23;
mod p_c19;
mod p_c15;
mod p_c03;
mod p_c09;
mod p_c02;
mod p_c31;
mod p_c22;
mod p_c33;
mod p_c11;
mod p_c12;
mod p_c26;
mod p_c14;
mod p_c32;
mod p_c21;
mod p_c20;
mod p_c10;
mod p_c05;
mod p_c27;
mod p_c04;
mod p_c06;
mod p_c07;
mod p_c34;
use util::Opts;

/// Finite tables read out of the compiled code (DESIGN.md 2.1).
fn reflect_all(out: &std::path::Path) {
    p_c25::reflect(out);
    p_c28::reflect(out);
    p_c23::reflect(out);
    p_c15::reflect(out);
    p_c03::reflect(out);
    p_c26::reflect(out);
    p_c14::reflect(out);
    p_c10::reflect(out);
    p_c05::reflect(out);
}

fn main() {
    let a: Vec<String> = std::env::args().collect();
    if a.len() < 2 { eprintln!("usage: vh <prop> --tier quick|thorough --seed N --out DIR [--only I]"); std::process::exit(2); }
    let mut o = Opts { tier: "quick".into(), seed: 1, out: "/verif/work".into(), only: None, release: !cfg!(debug_assertions) };
    let mut i = 2;
    while i < a.len() {
        match a[i].as_str() {
            "--tier" => { o.tier = a[i + 1].clone(); i += 2; }
            "--seed" => { o.seed = a[i + 1].parse().unwrap(); i += 2; }
            "--out" => { o.out = a[i + 1].clone().into(); i += 2; }
            "--only" => { o.only = Some(a[i + 1].parse().unwrap()); i += 2; }
            x => { eprintln!("unknown arg {}", x); std::process::exit(2); }
        }
    }
    util::silence_panics();
    match a[1].as_str() {
        "c13" => p_c13::run(&o),
        "c34t" => p_c34t::run(&o),
        "c11p" => p_c11p::run(&o),
        "c01vec" => p_c01::run_vectors(&o),
        "c01" => p_c01::run(&o),
        "c08" => p_c08::run(&o),
        "c25t" => p_c25::run_cells(&o),
        "c25" => p_c25::run(&o),
        "c18" => p_c16::run(&o, 18),
        "c17" => p_c16::run(&o, 17),
        "c16" => p_c16::run(&o, 16),
        "c28" => p_c28::run(&o),
        "c30" => p_c30::run(&o),
        "c29" => p_c29::run(&o),
        "c24" | "c24rs" => p_c24::run(&o),
        "c23" => p_c23::run(&o),
        "c19" => p_c19::run(&o),
        "c15" => p_c15::run(&o),
        "c22" | "c22op" | "c22obr" => p_c22::run(&o),
        "c03" => p_c03::run(&o),
        "c09" => p_c09::run(&o),
        "c02" => p_c02::run(&o),
        "c31" => p_c31::run(&o),
        "c33" => p_c33::run(&o),
        "c11" => p_c11::run(&o),
        "c12" => p_c12::run(&o),
        "c26" => p_c26::run(&o),
        "c14" => p_c14::run(&o),
        "c32" => p_c32::run(&o),
        "c21" => p_c21::run(&o),
        "c20" => p_c20::run(&o),
        "c10" => p_c10::run(&o),
        "c05" => p_c05::run(&o),
        "c27" => p_c27::run(&o),
        "c04" => p_c04::run(&o),
        "c06" => p_c06::run(&o),
        "c07" => p_c07::run(&o),
        "c34" => p_c34::run(&o),
        // `vh reflect --out DIR`: every reflector writes its coq/Gen/*.v tables into DIR
        "reflect" => { std::fs::create_dir_all(&o.out).unwrap(); reflect_all(&o.out); }
        x => { eprintln!("unknown property driver {}", x); std::process::exit(2); }
    }
}
