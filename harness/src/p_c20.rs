//! C20: histories of queries / inserts / commits through the database wrappers of revm, on
//! generated underlying data.  Every answer is observed; the case carries the underlying data
//! (as observed by querying the underlying database directly over the case's universe), the
//! history and the answers.
use crate::util::*;
use revm::db::{CacheDB, DatabaseComponents, EmptyDB, State as BlockState, WrapDatabaseRef};
use revm::primitives::db::components::{BlockHash, BlockHashRef, State as CState, StateRef};
use revm::primitives::{
    keccak256, Account, AccountInfo, AccountStatus, Address, Bytecode, Bytes, EvmStorageSlot, HashMap, B256,
    KECCAK_EMPTY, U256,
};
use revm::{Database, DatabaseCommit, DatabaseRef};
use std::cell::RefCell;
use std::collections::BTreeMap;
use std::convert::Infallible;
use std::rc::Rc;
use std::sync::Arc;

// ---------------------------------------------------------------- underlying data
#[derive(Clone, Debug, Default)]
struct MapDb {
    acc: BTreeMap<Address, AccountInfo>,
    stor: BTreeMap<(Address, U256), U256>,
    code: BTreeMap<B256, Bytecode>,
    bh: BTreeMap<u64, B256>,
    /// 0 = exact (some slot non-zero), 1 = trait default (never), 2 = explicit list
    has_mode: u8,
    has_list: Vec<Address>,
}
impl DatabaseRef for MapDb {
    type Error = Infallible;
    fn basic_ref(&self, a: Address) -> Result<Option<AccountInfo>, Infallible> { Ok(self.acc.get(&a).cloned()) }
    fn code_by_hash_ref(&self, h: B256) -> Result<Bytecode, Infallible> { Ok(self.code.get(&h).cloned().unwrap_or_default()) }
    fn has_storage_ref(&self, a: Address) -> Result<bool, Infallible> {
        Ok(match self.has_mode {
            0 => self.stor.iter().any(|((x, _), v)| *x == a && !v.is_zero()),
            1 => false,
            _ => self.has_list.contains(&a),
        })
    }
    fn storage_ref(&self, a: Address, k: U256) -> Result<U256, Infallible> { Ok(self.stor.get(&(a, k)).copied().unwrap_or_default()) }
    fn block_hash_ref(&self, n: u64) -> Result<B256, Infallible> { Ok(self.bh.get(&n).copied().unwrap_or_default()) }
}
#[derive(Clone, Debug)]
enum Under { A(CacheDB<EmptyDB>), B(MapDb) }
impl DatabaseRef for Under {
    type Error = Infallible;
    fn basic_ref(&self, a: Address) -> Result<Option<AccountInfo>, Infallible> { match self { Under::A(d) => d.basic_ref(a), Under::B(d) => d.basic_ref(a) } }
    fn code_by_hash_ref(&self, h: B256) -> Result<Bytecode, Infallible> { match self { Under::A(d) => d.code_by_hash_ref(h), Under::B(d) => d.code_by_hash_ref(h) } }
    fn has_storage_ref(&self, a: Address) -> Result<bool, Infallible> { match self { Under::A(d) => d.has_storage_ref(a), Under::B(d) => d.has_storage_ref(a) } }
    fn storage_ref(&self, a: Address, k: U256) -> Result<U256, Infallible> { match self { Under::A(d) => d.storage_ref(a, k), Under::B(d) => d.storage_ref(a, k) } }
    fn block_hash_ref(&self, n: u64) -> Result<B256, Infallible> { match self { Under::A(d) => d.block_hash_ref(n), Under::B(d) => d.block_hash_ref(n) } }
}

// adapters that turn a CacheDB into the components of a DatabaseComponents
struct AdM<'a>(&'a RefCell<CacheDB<Under>>);
impl CState for AdM<'_> {
    type Error = Infallible;
    fn basic(&mut self, a: Address) -> Result<Option<AccountInfo>, Infallible> { self.0.borrow_mut().basic(a) }
    fn code_by_hash(&mut self, h: B256) -> Result<Bytecode, Infallible> { self.0.borrow_mut().code_by_hash(h) }
    fn storage(&mut self, a: Address, k: U256) -> Result<U256, Infallible> { self.0.borrow_mut().storage(a, k) }
}
impl BlockHash for AdM<'_> {
    type Error = Infallible;
    fn block_hash(&mut self, n: u64) -> Result<B256, Infallible> { self.0.borrow_mut().block_hash(n) }
}
struct AdR<'a>(&'a CacheDB<Under>);
impl StateRef for AdR<'_> {
    type Error = Infallible;
    fn basic(&self, a: Address) -> Result<Option<AccountInfo>, Infallible> { self.0.basic_ref(a) }
    fn code_by_hash(&self, h: B256) -> Result<Bytecode, Infallible> { self.0.code_by_hash_ref(h) }
    fn storage(&self, a: Address, k: U256) -> Result<U256, Infallible> { self.0.storage_ref(a, k) }
}
impl BlockHashRef for AdR<'_> {
    type Error = Infallible;
    fn block_hash(&self, n: u64) -> Result<B256, Infallible> { self.0.block_hash_ref(n) }
}

// ---------------------------------------------------------------- printing
fn za(a: Address) -> String { zw(U256::from_be_slice(a.as_slice())) }
fn zh(h: B256) -> String { zw(U256::from_be_bytes(h.0)) }
struct Pool { codes: Vec<(Bytecode, B256)> } // cid = index + 1
impl Pool {
    fn cid(&self, b: &Bytecode) -> u64 {
        let ob = b.original_bytes();
        if ob.is_empty() { return 0; }
        for (i, (c, _)) in self.codes.iter().enumerate() { if c.original_bytes() == ob { return i as u64 + 1; } }
        999_999
    }
}
fn zinfo(i: &AccountInfo) -> String { format!("(mkInfo {} {} {})", zu(i.nonce), zw(i.balance), zh(i.code_hash)) }
fn zinfo_in(i: &AccountInfo, p: &Pool) -> String {
    let code = match &i.code { None => "None".to_string(), Some(c) => format!("(Some ({}, {}))", p.cid(c), zh(c.hash_slow())) };
    format!("(mkInfoIn {} {})", zinfo(i), code)
}
fn zslots(l: &[(U256, U256)]) -> String { zlist(l.iter().map(|(k, v)| format!("({}, {})", zw(*k), zw(*v)))) }
fn ans_info(o: &Option<AccountInfo>) -> String { match o { None => "AInfo None".into(), Some(i) => format!("AInfo (Some {})", zinfo(i)) } }

#[derive(Clone, Debug)]
enum Q { Basic(Address), Storage(Address, U256), Code(B256), BlockHash(u64), Has(Address) }
impl Q {
    fn coq(&self) -> String {
        match self {
            Q::Basic(a) => format!("QBasic {}", za(*a)),
            Q::Storage(a, k) => format!("QStorage {} {}", za(*a), zw(*k)),
            Q::Code(h) => format!("QCode {}", zh(*h)),
            Q::BlockHash(n) => format!("QBlockHash {}", zu(*n)),
            Q::Has(a) => format!("QHas {}", za(*a)),
        }
    }
}
fn do_query<D: Database<Error = Infallible>>(d: &mut D, q: &Q, p: &Pool) -> String {
    match q {
        Q::Basic(a) => ans_info(&d.basic(*a).unwrap()),
        Q::Storage(a, k) => format!("AWord {}", zw(d.storage(*a, *k).unwrap())),
        Q::Code(h) => format!("AWord {}", p.cid(&d.code_by_hash(*h).unwrap())),
        Q::BlockHash(n) => format!("AWord {}", zh(d.block_hash(*n).unwrap())),
        Q::Has(a) => format!("ABool {}", zb(d.has_storage(*a).unwrap())),
    }
}
fn do_query_ref<D: DatabaseRef<Error = Infallible>>(d: &D, q: &Q, p: &Pool) -> String {
    match q {
        Q::Basic(a) => ans_info(&d.basic_ref(*a).unwrap()),
        Q::Storage(a, k) => format!("AWord {}", zw(d.storage_ref(*a, *k).unwrap())),
        Q::Code(h) => format!("AWord {}", p.cid(&d.code_by_hash_ref(*h).unwrap())),
        Q::BlockHash(n) => format!("AWord {}", zh(d.block_hash_ref(*n).unwrap())),
        Q::Has(a) => format!("ABool {}", zb(d.has_storage_ref(*a).unwrap())),
    }
}
// the components error type is not Infallible: separate copy
fn do_query_comp<D: Database>(d: &mut D, q: &Q, p: &Pool) -> String where D::Error: std::fmt::Debug {
    match q {
        Q::Basic(a) => ans_info(&d.basic(*a).unwrap()),
        Q::Storage(a, k) => format!("AWord {}", zw(d.storage(*a, *k).unwrap())),
        Q::Code(h) => format!("AWord {}", p.cid(&d.code_by_hash(*h).unwrap())),
        Q::BlockHash(n) => format!("AWord {}", zh(d.block_hash(*n).unwrap())),
        Q::Has(a) => format!("ABool {}", zb(d.has_storage(*a).unwrap())),
    }
}

/// Runs one query through the chosen wrapper; returns (via constructor, wrapper name, answer).
fn query_via(cache: &mut CacheDB<Under>, w: u64, q: &Q, p: &Pool) -> (&'static str, &'static str, String) {
    match w {
        0 => ("ViaMut", "direct", do_query(cache, q, p)),
        1 => { let mut r: &mut CacheDB<Under> = cache; ("ViaMut", "&mut", do_query(&mut r, q, p)) }
        2 => { let mut b: Box<dyn Database<Error = Infallible> + '_> = Box::new(&mut *cache); ("ViaMut", "Box<dyn>", do_query(&mut b, q, p)) }
        3 => {
            let mut b: Box<CacheDB<Under>> = Box::new(std::mem::replace(cache, CacheDB::new(Under::B(MapDb::default()))));
            let r = do_query(&mut b, q, p);
            *cache = *b;
            ("ViaMut", "Box<T>", r)
        }
        4 => { let mut wdb = WrapDatabaseRef(&*cache); ("ViaRef", "WrapDatabaseRef", do_query(&mut wdb, q, p)) }
        5 => ("ViaRef", "_ref", do_query_ref(&*cache, q, p)),
        6 => { let r: &CacheDB<Under> = cache; ("ViaRef", "&", do_query_ref(&r, q, p)) }
        7 => {
            let a = Arc::new(std::mem::replace(cache, CacheDB::new(Under::B(MapDb::default()))));
            let r = do_query_ref(&a, q, p);
            *cache = Arc::try_unwrap(a).ok().unwrap();
            ("ViaRef", "Arc", r)
        }
        8 => {
            let a = Rc::new(Box::new(std::mem::replace(cache, CacheDB::new(Under::B(MapDb::default())))));
            let r = do_query_ref(&a, q, p);
            *cache = *Rc::try_unwrap(a).ok().unwrap();
            ("ViaRef", "Rc<Box>", r)
        }
        9 => {
            let cell = RefCell::new(std::mem::replace(cache, CacheDB::new(Under::B(MapDb::default()))));
            let r = { let mut dc = DatabaseComponents { state: AdM(&cell), block_hash: AdM(&cell) }; do_query_comp(&mut dc, q, p) };
            *cache = cell.into_inner();
            ("ViaComp", "DatabaseComponents", r)
        }
        _ => {
            let ad = AdR(&*cache);
            let ad2 = AdR(&*cache);
            let mut dc = DatabaseComponents { state: &ad, block_hash: &ad2 };
            let r = do_query_comp(&mut dc, q, p);
            ("ViaCompRef", "DatabaseComponents<&,&>", r)
        }
    }
}

struct Uni { addrs: Vec<Address>, keys: Vec<U256>, pool: Pool, hashes: Vec<B256>, nums: Vec<u64> }

fn gen_info(rng: &mut Rng, u: &Uni, consistent: bool) -> AccountInfo {
    let nonce = if rng.chance(1, 3) { 0 } else if rng.chance(1, 8) { rng.u64b() } else { rng.below(4) };
    let balance = if rng.chance(1, 3) { U256::ZERO } else if rng.chance(1, 2) { U256::from(rng.below(1000)) } else { rng.u256b() };
    let (code, h) = match rng.below(10) {
        0 | 1 | 2 => (None, KECCAK_EMPTY),
        3 => (None, B256::ZERO),
        4 => (Some(Bytecode::default()), if rng.chance(1, 2) { KECCAK_EMPTY } else { B256::ZERO }),
        5 | 6 => { let (c, _) = rng.pick(&u.pool.codes).clone(); (Some(c), KECCAK_EMPTY) }
        7 | 8 => { let (c, h) = rng.pick(&u.pool.codes).clone(); (Some(c), h) }
        _ => { let (_, h) = rng.pick(&u.pool.codes).clone(); (None, h) }
    };
    let mut i = AccountInfo { nonce, balance, code_hash: h, code };
    if !consistent && rng.chance(1, 2) {
        // out of contract: a code hash that is not the hash of the code
        i.code_hash = *rng.pick(&u.hashes);
        if i.code.is_none() { i.code = Some(rng.pick(&u.pool.codes).0.clone()); }
    }
    i
}

fn observe_under(under: &Under, u: &Uni) -> String {
    let mut accs = vec![]; let mut stor = vec![]; let mut has = vec![];
    for a in &u.addrs {
        if let Some(i) = under.basic_ref(*a).unwrap() { accs.push(format!("({}, {})", za(*a), zinfo(&i))); }
        let mut sl = vec![];
        for k in &u.keys { let v = under.storage_ref(*a, *k).unwrap(); if !v.is_zero() { sl.push((*k, v)); } }
        if !sl.is_empty() { stor.push(format!("({}, {})", za(*a), zslots(&sl))); }
        if under.has_storage_ref(*a).unwrap() { has.push(za(*a)); }
    }
    let mut code = vec![];
    for h in &u.hashes { let c = u.pool.cid(&under.code_by_hash_ref(*h).unwrap()); if c != 0 { code.push(format!("({}, {})", zh(*h), c)); } }
    let mut bh = vec![];
    for n in &u.nums { let h = under.block_hash_ref(*n).unwrap(); if !h.is_zero() { bh.push(format!("({}, {})", zu(*n), zh(h))); } }
    format!("(mkData {} {} {} {} {})", zlist(accs), zlist(stor), zlist(code), zlist(bh), zlist(has))
}

fn gen_universe(rng: &mut Rng) -> Uni {
    let mut addrs = vec![Address::ZERO, Address::with_last_byte(1), Address::repeat_byte(0xff)];
    for _ in 0..rng.range(2, 4) { addrs.push(Address::from_slice(&rng.bytes(20))); }
    addrs.dedup();
    let mut keys = vec![U256::ZERO, U256::from(1), U256::MAX];
    for _ in 0..2 { let k = rng.u256b(); if !keys.contains(&k) { keys.push(k); } }
    let mut codes = vec![];
    for i in 0..4u8 {
        let nb = rng.range(1, 40) as usize; let mut b = rng.bytes(nb);
        b[0] = 0x60 + i; // distinct, never the EOF / EIP-7702 magic
        let c = Bytecode::new_raw(Bytes::from(b));
        let h = c.hash_slow();
        codes.push((c, h));
    }
    let mut hashes: Vec<B256> = codes.iter().map(|x| x.1).collect();
    hashes.push(KECCAK_EMPTY); hashes.push(B256::ZERO); hashes.push(keccak256(b"unknown code"));
    let base = *rng.pick(&[0u64, 1, 255, 256, 257, 300, 1000, 70_000, u64::MAX - 300, u64::MAX]);
    let mut nums = vec![];
    for d in [0u64, 1, 2, 255, 256, 257, 258, 512, 513] { nums.push(base.saturating_add(d)); nums.push(base.saturating_sub(d)); }
    nums.sort(); nums.dedup();
    Uni { addrs, keys, pool: Pool { codes }, hashes, nums }
}

fn gen_under(rng: &mut Rng, u: &Uni, wf: bool, force: bool) -> (Under, &'static str) {
    let flavour_a = rng.chance(1, 2);
    let mut a_db = CacheDB::new(EmptyDB::default());
    let mut b_db = MapDb::default();
    b_db.has_mode = if rng.chance(3, 4) { 0 } else if rng.chance(1, 2) { 1 } else { 2 };
    for a in &u.addrs {
        let forced = force && *a == u.addrs[1];
        let exists = forced || rng.chance(2, 3);
        if exists {
            let mut i = gen_info(rng, u, true);
            if i.code_hash.is_zero() { i.code_hash = KECCAK_EMPTY; }
            if flavour_a { a_db.insert_account_info(*a, i); } else {
                // a well-formed database hands out the hash of the code
                if let Some(c) = &i.code { if !c.is_empty() { i.code_hash = c.hash_slow(); b_db.code.insert(i.code_hash, c.clone()); } }
                i.code = None;
                b_db.acc.insert(*a, i);
            }
        }
        if forced || ((exists || !wf) && rng.chance(1, 2)) {
            for _ in 0..rng.range(1, 3) {
                let k = *rng.pick(&u.keys);
                let v = if forced { U256::from(7) } else if rng.chance(1, 5) { U256::ZERO } else if rng.chance(1, 2) { U256::from(rng.range(1, 9)) } else { rng.u256b() };
                if flavour_a { a_db.insert_account_storage(*a, k, v).unwrap(); } else { b_db.stor.insert((*a, k), v); }
            }
        }
        if b_db.has_mode == 2 && rng.chance(1, 2) { b_db.has_list.push(*a); }
    }
    for n in &u.nums {
        if rng.chance(2, 3) {
            let h = B256::from(rng.u256b().max(U256::from(1)));
            if flavour_a { a_db.block_hashes.insert(U256::from(*n), h); } else { b_db.bh.insert(*n, h); }
        }
    }
    if flavour_a { (Under::A(a_db), "under:CacheDB<EmptyDB>") } else { (Under::B(b_db), "under:custom-DatabaseRef") }
}

#[derive(Clone, Debug)]
struct Change { a: Address, touched: bool, selfdestructed: bool, created: bool, info: AccountInfo, slots: Vec<(U256, U256)> }

fn cache_history(rng: &mut Rng, u: &Uni, under: &Under, directed: Option<u64>, consistent: bool, len: usize)
    -> (Vec<String>, Vec<String>, Vec<String>, Vec<&'static str>) {
    let mut cache = CacheDB::new(under.clone());
    let (mut ops, mut obs, mut human, mut tags) = (vec![], vec![], vec![], vec![]);
    let a0 = u.addrs[1];
    let push_commit = |cache: &mut CacheDB<Under>, chs: Vec<Change>, ops: &mut Vec<String>, obs: &mut Vec<String>, human: &mut Vec<String>| {
        let mut m: HashMap<Address, Account> = HashMap::default();
        let mut terms = vec![];
        for c in &chs {
            let mut st = AccountStatus::Loaded;
            if c.touched { st |= AccountStatus::Touched; }
            if c.selfdestructed { st |= AccountStatus::SelfDestructed; }
            if c.created { st |= AccountStatus::Created; }
            let storage = c.slots.iter().map(|(k, v)| (*k, EvmStorageSlot::new_changed(U256::from(77), *v))).collect();
            m.insert(c.a, Account { info: c.info.clone(), storage, status: st });
            terms.push(format!("({}, mkChange {} {} {} {} {})", za(c.a), zb(c.touched), zb(c.selfdestructed), zb(c.created), zinfo_in(&c.info, &u.pool), zslots(&c.slots)));
        }
        // commit through a forwarding wrapper half of the time
        if chs.len() % 2 == 0 { let mut r: &mut CacheDB<Under> = cache; DatabaseCommit::commit(&mut r, m); } else { let mut wdb = WrapDatabaseRef(&mut *cache); wdb.commit(m); }
        ops.push(format!("Commit {}", zlist(terms)));
        obs.push("AUnit".into());
        human.push(format!("commit{:?}", chs.iter().map(|c| (c.a, c.touched, c.selfdestructed, c.created, c.info.nonce, &c.slots)).collect::<Vec<_>>()));
    };
    let plain = |a: Address, n: u64, bal: u64| Change { a, touched: true, selfdestructed: false, created: false, info: AccountInfo { nonce: n, balance: U256::from(bal), code_hash: KECCAK_EMPTY, code: None }, slots: vec![] };
    let mut script: Vec<(u64, Q)> = vec![];
    match directed {
        Some(0) => { // F16 witness: destroy, then credit: the wiped storage must stay wiped
            let mut d = plain(a0, 0, 0); d.selfdestructed = true;
            push_commit(&mut cache, vec![d], &mut ops, &mut obs, &mut human);
            push_commit(&mut cache, vec![plain(a0, 0, 5)], &mut ops, &mut obs, &mut human);
            for k in &u.keys { script.push((0, Q::Storage(a0, *k))); script.push((5, Q::Storage(a0, *k))); }
            script.push((0, Q::Has(a0))); script.push((0, Q::Basic(a0)));
            tags.push("directed:destroy-then-credit");
        }
        Some(1) => { // every slot the underlying holds is overwritten with zero
            let mut c = plain(a0, 1, 1); c.slots = u.keys.iter().map(|k| (*k, U256::ZERO)).collect();
            push_commit(&mut cache, vec![c], &mut ops, &mut obs, &mut human);
            script.push((0, Q::Has(a0))); script.push((5, Q::Has(a0)));
            for k in &u.keys { script.push((0, Q::Storage(a0, *k))); }
            tags.push("directed:zero-overwrite");
        }
        Some(2) => { // insert_account_info after the address was seen as not existing
            for a in &u.addrs { script.push((0, Q::Basic(*a))); }
            tags.push("directed:insert-info-after-miss");
        }
        Some(4) => { // destroy only, then read through the DatabaseRef side first (nothing cached by a &mut read yet)
            let mut d = plain(a0, 0, 0); d.selfdestructed = true;
            push_commit(&mut cache, vec![d], &mut ops, &mut obs, &mut human);
            for (j, k) in u.keys.iter().enumerate() { script.push(([5u64, 4, 6, 7][j % 4], Q::Storage(a0, *k))); }
            script.push((5, Q::Basic(a0))); script.push((5, Q::Has(a0)));
            for k in &u.keys { script.push((0, Q::Storage(a0, *k))); }
            tags.push("directed:destroy-then-ref-reads");
        }
        Some(3) => { for a in &u.addrs { script.push((9, Q::Has(*a))); script.push((10, Q::Has(*a))); script.push((0, Q::Has(*a))); } tags.push("directed:components-has-storage"); }
        _ => {}
    }
    for (w, q) in script.drain(..) {
        let (v, wn, r) = query_via(&mut cache, w, &q, &u.pool);
        ops.push(format!("Query {} ({})", v, q.coq())); obs.push(r); human.push(format!("{:?}@{}", q, wn));
    }
    if directed == Some(2) {
        for a in &u.addrs {
            let i = AccountInfo { nonce: 1, balance: U256::from(3), code_hash: KECCAK_EMPTY, code: None };
            ops.push(format!("InsInfo {} {}", za(*a), zinfo_in(&i, &u.pool))); obs.push("AUnit".into()); human.push(format!("insert_account_info({:?})", a));
            cache.insert_account_info(*a, i);
            let (v, _, r) = query_via(&mut cache, 0, &Q::Basic(*a), &u.pool);
            ops.push(format!("Query {} (QBasic {})", v, za(*a))); obs.push(r); human.push(format!("basic({:?})", a));
        }
    }
    let mut any_has = false; let mut any_commit = false;
    for _ in 0..len {
        let a = *rng.pick(&u.addrs);
        let k = *rng.pick(&u.keys);
        let val = |rng: &mut Rng| if rng.chance(1, 3) { U256::ZERO } else if rng.chance(1, 2) { U256::from(rng.range(1, 9)) } else { rng.u256b() };
        match rng.below(20) {
            0..=10 => {
                let q = match rng.below(12) {
                    0 | 1 => Q::Basic(a),
                    2 | 3 | 4 => Q::Storage(a, k),
                    5 => Q::Code(if consistent && rng.chance(5, 6) {
                        // in contract: the code hash found in the info of an account
                        match cache.basic_ref(a).unwrap() { Some(i) => i.code_hash, None => KECCAK_EMPTY }
                    } else { *rng.pick(&u.hashes) }),
                    6 | 7 => Q::BlockHash(*rng.pick(&u.nums)),
                    _ => { any_has = true; Q::Has(a) }
                };
                let w = if rng.chance(1, 12) { 9 + rng.below(2) } else { rng.below(9) };
                let (v, wn, r) = query_via(&mut cache, w, &q, &u.pool);
                ops.push(format!("Query {} ({})", v, q.coq())); obs.push(r); human.push(format!("{:?}@{}", q, wn));
            }
            11..=14 => {
                any_commit = true;
                let n = rng.range(1, 3) as usize;
                let mut chs: Vec<Change> = vec![];
                let mut with_code = false;
                for _ in 0..n {
                    let a = *rng.pick(&u.addrs);
                    if chs.iter().any(|c| c.a == a) { continue; }
                    let mut info = gen_info(rng, u, consistent);
                    // at most one account of a commit carries code (HashMap iteration order)
                    if info.code.as_ref().is_some_and(|c| !c.is_empty()) { if with_code { info.code = None; info.code_hash = KECCAK_EMPTY; } with_code = true; }
                    let mut slots = vec![];
                    for _ in 0..rng.below(4) { let k = *rng.pick(&u.keys); if !slots.iter().any(|(x, _)| *x == k) { slots.push((k, val(rng))); } }
                    chs.push(Change { a, touched: !rng.chance(1, 8), selfdestructed: rng.chance(1, 6), created: rng.chance(1, 5), info, slots });
                }
                push_commit(&mut cache, chs, &mut ops, &mut obs, &mut human);
            }
            15 => {
                // mostly where it is applicable: on an address the cache has not recorded as missing
                let i = gen_info(rng, u, consistent);
                ops.push(format!("InsInfo {} {}", za(a), zinfo_in(&i, &u.pool))); obs.push("AUnit".into()); human.push(format!("insert_account_info({:?},{:?})", a, (i.nonce, i.code_hash)));
                cache.insert_account_info(a, i);
            }
            16 | 17 => {
                let v = val(rng);
                ops.push(format!("InsStorage {} {} {}", za(a), zw(k), zw(v))); obs.push("AUnit".into()); human.push(format!("insert_account_storage({:?},{},{})", a, k, v));
                cache.insert_account_storage(a, k, v).unwrap();
            }
            18 => {
                let mut slots = vec![];
                for _ in 0..rng.below(4) { let k = *rng.pick(&u.keys); if !slots.iter().any(|(x, _)| *x == k) { slots.push((k, val(rng))); } }
                ops.push(format!("ReplStorage {} {}", za(a), zslots(&slots))); obs.push("AUnit".into()); human.push(format!("replace_account_storage({:?},{:?})", a, slots));
                cache.replace_account_storage(a, slots.iter().cloned().collect()).unwrap();
            }
            _ => {
                let mut i = gen_info(rng, u, consistent);
                let t = zinfo_in(&i, &u.pool);
                cache.insert_contract(&mut i);
                ops.push(format!("InsContract {}", t)); obs.push(format!("AWord {}", zh(i.code_hash))); human.push(format!("insert_contract({:?})", i.code_hash));
            }
        }
    }
    if any_has { tags.push("has:queried"); }
    if any_commit { tags.push("has:commit"); }
    (ops, obs, human, tags)
}

fn state_history(rng: &mut Rng, u: &Uni, under: &Under, len: usize) -> (Vec<String>, Vec<String>, Vec<String>, String, Vec<&'static str>) {
    let mut st = BlockState::builder().with_database(WrapDatabaseRef(under)).build();
    let (mut ops, mut obs, mut human, mut tags) = (vec![], vec![], vec![], vec![]);
    let mut inserted: Vec<Address> = vec![];
    let mut loaded: Vec<Address> = vec![];
    for _ in 0..len {
        let mut a = *rng.pick(&u.addrs);
        let k = *rng.pick(&u.keys);
        match rng.below(16) {
            0..=12 => {
                let q = match rng.below(12) {
                    0 | 1 | 2 => { if !loaded.contains(&a) { loaded.push(a); } Q::Basic(a) }
                    3 | 4 | 5 => { if !loaded.is_empty() && rng.chance(7, 8) { a = *rng.pick(&loaded); } Q::Storage(a, k) }
                    6 => Q::Code(*rng.pick(&u.hashes)),
                    7 | 8 | 9 => Q::BlockHash(*rng.pick(&u.nums)),
                    _ => Q::Has(a),
                };
                let r = match catch(|| do_query(&mut st, &q, &u.pool)) { Ok(r) => r, Err(_) => { tags.push("state:storage-before-load-panics"); "APanic".to_string() } };
                ops.push(format!("SQuery ({})", q.coq())); obs.push(r); human.push(format!("{:?}", q));
            }
            13 => {
                if inserted.contains(&a) { continue; }
                inserted.push(a); if !loaded.contains(&a) { loaded.push(a); }
                st.insert_not_existing(a);
                ops.push(format!("SInsNotExisting {}", za(a))); obs.push("AUnit".into()); human.push(format!("insert_not_existing({:?})", a));
            }
            _ => {
                if inserted.contains(&a) { continue; }
                inserted.push(a); if !loaded.contains(&a) { loaded.push(a); }
                let mut i = gen_info(rng, u, true);
                i.code = None;
                let mut slots = vec![];
                for _ in 0..rng.below(3) { let k = *rng.pick(&u.keys); if !slots.iter().any(|(x, _)| *x == k) { slots.push((k, if rng.chance(1, 3) { U256::ZERO } else { U256::from(rng.range(1, 9)) })); } }
                ops.push(format!("SInsAccount {} {} {}", za(a), zinfo(&i), zslots(&slots))); obs.push("AUnit".into()); human.push(format!("insert_account_with_storage({:?},{:?})", a, slots));
                if slots.is_empty() && rng.chance(1, 2) { st.insert_account(a, i); } else { st.insert_account_with_storage(a, i, slots.iter().cloned().collect()); }
            }
        }
    }
    let keys = zlist(st.block_hashes.keys().map(|n| zu(*n)));
    (ops, obs, human, keys, tags)
}

pub fn run(o: &Opts) {
    let mut rng = Rng::new(o.seed ^ 0xC20);
    let mut w = CaseWriter::new(o, "C20", 70);
    let n = if o.thorough() { 10_000 } else { 1_000 };
    for i in 0..n {
        let u = gen_universe(&mut rng);
        let wf = i % 11 != 10;
        let consistent = i % 7 != 6;
        let (under, utag) = gen_under(&mut rng, &u, wf, i % 5 != 4 && (i % 25 < 4 || i % 25 == 5));
        let data = observe_under(&under, &u);
        let uni = format!("{} {} {}", zlist(u.addrs.iter().map(|a| za(*a))), zlist(u.keys.iter().map(|k| zw(*k))),
            zlist(u.pool.codes.iter().enumerate().map(|(j, (_, h))| format!("({}, {})", zh(*h), j + 1))));
        let len = rng.range(1, 22) as usize;
        let mut tags = vec![utag, if wf { "under:well-formed-stream" } else { "under:free-stream" }, if consistent { "code:consistent-stream" } else { "code:free-stream" }];
        if i % 5 == 4 {
            let (ops, obs, human, keys, t) = state_history(&mut rng, &u, &under, len);
            tags.extend(t); tags.push("wrapper:State<WrapDatabaseRef<&DB>>");
            let case = format!("(CState {} {} {} {} {})", data, uni, zlist(ops.clone()), zlist(obs), keys);
            w.push(case, format!("State over {}: {}", utag, human.join("; ")), ops.len() >= 3, &tags);
        } else {
            let directed = match i % 25 { 0..=3 => Some((i % 25) as u64), 5 => Some(4), _ => None };
            let (ops, obs, human, t) = cache_history(&mut rng, &u, &under, directed, consistent, len);
            tags.extend(t); tags.push("wrapper:CacheDB+forwards");
            let case = format!("(CCache {} {} {} {})", data, uni, zlist(ops.clone()), zlist(obs));
            w.push(case, format!("CacheDB over {}: {}", utag, human.join("; ")), ops.len() >= 3, &tags);
        }
    }
    w.finish("histories of 1..22 operations on CacheDB<DB> (queries through the Database methods directly / via &mut / Box<dyn Database> / Box<T>, the DatabaseRef methods directly / via & / Arc / Rc<Box> / WrapDatabaseRef, DatabaseComponents over &mut and & components; DatabaseCommit::commit of synthetic EvmState changes; insert_account_info / insert_account_storage / replace_account_storage / insert_contract) and on State<WrapDatabaseRef<&DB>> (queries, insert_not_existing, insert_account(_with_storage)); DB is a CacheDB<EmptyDB> filled through its insert_* API or a custom DatabaseRef with exact / default / arbitrary has_storage_ref; block numbers n, n±1, n±2, n±255..258, n±512/513 around boundary bases; every answer observed; non-trivial = at least 3 operations");
}
