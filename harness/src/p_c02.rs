//! C02: transaction validation through the real `Evm::transact` (CacheDB), all mainnet SpecIds.
//! Streams: typed transactions (oracle = Spec.valid), raw TxEnv mutations (model = code only),
//! histories interleaving rejected and accepted transactions on one instance vs fresh instances.
use crate::util::*;
use revm::db::{CacheDB, DbAccount, EmptyDB};
use revm::primitives::{
    AccessListItem, AccountInfo, Address, Authorization, AuthorizationList, BlobExcessGasAndPrice, BlockEnv, Bytecode,
    Bytes, CfgEnv, EVMError, Env, ExecutionResult, InvalidHeader, InvalidTransaction, RecoveredAuthority,
    RecoveredAuthorization, ResultAndState, SpecId, TxEnv, TxKind, B256, U256,
};
use revm::{DatabaseCommit, DatabaseRef, Evm};
use std::convert::Infallible;

pub type Db = CacheDB<EmptyDB>;

#[derive(Clone, Debug)]
pub struct Common { pub nonce: u64, pub gas_limit: u64, pub to: Option<Address>, pub value: U256, pub data: Vec<u8> }
#[derive(Clone, Debug)]
pub enum Typed {
    Legacy { chain_id: Option<u64>, gas_price: U256, c: Common },
    E2930 { chain_id: u64, gas_price: U256, c: Common, al: Vec<usize> },
    E1559 { chain_id: u64, prio: U256, max_fee: U256, c: Common, al: Vec<usize> },
    E4844 { chain_id: u64, prio: U256, max_fee: U256, c: Common, al: Vec<usize>, mfb: U256, blobs: Vec<u8> },
    E7702 { chain_id: u64, prio: U256, max_fee: U256, c: Common, al: Vec<usize>, auths: usize },
}
impl Typed {
    pub fn c(&self) -> &Common { match self { Typed::Legacy { c, .. } | Typed::E2930 { c, .. } | Typed::E1559 { c, .. } | Typed::E4844 { c, .. } | Typed::E7702 { c, .. } => c } }
    pub fn c_mut(&mut self) -> &mut Common { match self { Typed::Legacy { c, .. } | Typed::E2930 { c, .. } | Typed::E1559 { c, .. } | Typed::E4844 { c, .. } | Typed::E7702 { c, .. } => c } }
    pub fn kind(&self) -> &'static str { match self { Typed::Legacy { .. } => "legacy", Typed::E2930 { .. } => "2930", Typed::E1559 { .. } => "1559", Typed::E4844 { .. } => "4844", Typed::E7702 { .. } => "7702" } }
    pub fn max_fee(&self) -> U256 { match self { Typed::Legacy { gas_price, .. } | Typed::E2930 { gas_price, .. } => *gas_price, Typed::E1559 { max_fee, .. } | Typed::E4844 { max_fee, .. } | Typed::E7702 { max_fee, .. } => *max_fee } }
    pub fn set_max_fee(&mut self, v: U256) { match self { Typed::Legacy { gas_price, .. } | Typed::E2930 { gas_price, .. } => *gas_price = v, Typed::E1559 { max_fee, .. } | Typed::E4844 { max_fee, .. } | Typed::E7702 { max_fee, .. } => *max_fee = v } }
    pub fn prio_mut(&mut self) -> Option<&mut U256> { match self { Typed::E1559 { prio, .. } | Typed::E4844 { prio, .. } | Typed::E7702 { prio, .. } => Some(prio), _ => None } }
    pub fn coq(&self) -> String {
        let c = self.c();
        let cc = format!("(Spec.mkCommon {} {} {} {} {})", zu(c.nonce), zu(c.gas_limit),
            zopt(c.to.map(|a| zw(U256::from_be_slice(a.as_slice())))), zw(c.value), rle(&c.data));
        let als = |al: &Vec<usize>| zlist(al.iter().map(|k| format!("{}", k)));
        match self {
            Typed::Legacy { chain_id, gas_price, .. } => format!("(Spec.Legacy {} {} {})", zopt(chain_id.map(zu)), zw(*gas_price), cc),
            Typed::E2930 { chain_id, gas_price, al, .. } => format!("(Spec.Eip2930 {} {} {} {})", zu(*chain_id), zw(*gas_price), cc, als(al)),
            Typed::E1559 { chain_id, prio, max_fee, al, .. } => format!("(Spec.Eip1559 {} {} {} {} {})", zu(*chain_id), zw(*prio), zw(*max_fee), cc, als(al)),
            Typed::E4844 { chain_id, prio, max_fee, al, mfb, blobs, .. } => format!("(Spec.Eip4844 {} {} {} {} {} {} {})", zu(*chain_id), zw(*prio), zw(*max_fee), cc, als(al), zw(*mfb), zbytes(blobs)),
            Typed::E7702 { chain_id, prio, max_fee, al, auths, .. } => format!("(Spec.Eip7702 {} {} {} {} {} {})", zu(*chain_id), zw(*prio), zw(*max_fee), cc, als(al), auths),
        }
    }
}

/// run-length encoded byte list as a Coq term (`rle` is defined in Corr/C02.v)
pub fn rle(d: &[u8]) -> String {
    if d.len() <= 8 { return zbytes(d); }
    let mut runs: Vec<(u8, usize)> = vec![];
    for &b in d { match runs.last_mut() { Some((x, n)) if *x == b => *n += 1, _ => runs.push((b, 1)) } }
    format!("(rle {})", zlist(runs.iter().map(|(b, n)| format!("({},{})", b, n))))
}

pub fn addr(n: u64) -> Address { let mut a = [0u8; 20]; a[12..].copy_from_slice(&n.to_be_bytes()); Address::from(a) }
pub const CALLER: u64 = 0x1000_0001;
pub const TARGET: u64 = 0x2000_0002;
pub const COINBASE: u64 = 0x3000_0003;

pub fn access_list(al: &[usize]) -> Vec<AccessListItem> {
    al.iter().enumerate().map(|(i, k)| AccessListItem { address: addr(0x5000 + i as u64), storage_keys: (0..*k).map(|j| B256::from(U256::from(j as u64))).collect() }).collect()
}
pub fn invalid_auths(n: usize) -> AuthorizationList {
    AuthorizationList::Recovered((0..n).map(|i| RecoveredAuthorization::new_unchecked(
        Authorization { chain_id: U256::from(1), address: addr(0x7000 + i as u64), nonce: 0 }, RecoveredAuthority::Invalid)).collect())
}

/// The mapping typed transaction -> TxEnv (mirrors `to_tx_env` of Corr/C02.v).
pub fn to_tx_env(t: &Typed, caller: Address) -> TxEnv {
    let c = t.c();
    let mut tx = TxEnv::default();
    tx.caller = caller;
    tx.gas_limit = c.gas_limit;
    tx.transact_to = match c.to { Some(a) => TxKind::Call(a), None => TxKind::Create };
    tx.value = c.value;
    tx.data = Bytes::from(c.data.clone());
    tx.nonce = Some(c.nonce);
    match t {
        Typed::Legacy { chain_id, gas_price, .. } => { tx.chain_id = *chain_id; tx.gas_price = *gas_price; }
        Typed::E2930 { chain_id, gas_price, al, .. } => { tx.chain_id = Some(*chain_id); tx.gas_price = *gas_price; tx.access_list = access_list(al); }
        Typed::E1559 { chain_id, prio, max_fee, al, .. } => { tx.chain_id = Some(*chain_id); tx.gas_price = *max_fee; tx.gas_priority_fee = Some(*prio); tx.access_list = access_list(al); }
        Typed::E4844 { chain_id, prio, max_fee, al, mfb, blobs, .. } => {
            tx.chain_id = Some(*chain_id); tx.gas_price = *max_fee; tx.gas_priority_fee = Some(*prio); tx.access_list = access_list(al);
            tx.max_fee_per_blob_gas = Some(*mfb);
            tx.blob_hashes = blobs.iter().enumerate().map(|(i, v)| { let mut h = [0x11u8; 32]; h[0] = *v; h[31] = i as u8; B256::from(h) }).collect();
        }
        Typed::E7702 { chain_id, prio, max_fee, al, auths, .. } => {
            tx.chain_id = Some(*chain_id); tx.gas_price = *max_fee; tx.gas_priority_fee = Some(*prio); tx.access_list = access_list(al);
            tx.authorization_list = Some(invalid_auths(*auths));
        }
    }
    tx
}

#[derive(Clone, Debug)]
pub struct Sender { pub nonce: u64, pub balance: U256, pub code: u8 }
impl Sender { pub fn coq(&self) -> String { format!("(mkSender {} {} {})", zu(self.nonce), zw(self.balance), ["CodeEmpty", "CodeEip7702", "CodeOther"][self.code as usize]) } }

pub fn sender_info(s: &Sender) -> AccountInfo {
    let code = match s.code { 0 => Bytecode::default(), 1 => Bytecode::new_eip7702(addr(0x9999)), _ => Bytecode::new_legacy(Bytes::from(vec![0x60, 0x00, 0x00])) };
    let mut i = AccountInfo { balance: s.balance, nonce: s.nonce, code_hash: code.hash_slow(), code: Some(code) };
    if s.code == 0 { i.code_hash = revm::primitives::KECCAK_EMPTY; i.code = None; }
    i
}

pub fn cfg_coq(c: &CfgEnv) -> String {
    format!("(mkCfg {} {} {} false false false false)", zu(c.chain_id), zopt(c.limit_contract_code_size.map(|x| zu(x as u64))),
        zlist(c.blob_target_and_max_count.iter().map(|(s, t, m)| format!("({},{},{})", *s as u8, t, m))))
}
pub fn block_coq(b: &BlockEnv) -> String {
    format!("(mkBlock {} {} {} {})", zw(b.gas_limit), zw(b.basefee), zb(b.prevrandao.is_some()), zopt(b.blob_excess_gas_and_price.as_ref().map(|x| zu128(x.blob_gasprice))))
}
pub fn tx_coq(t: &TxEnv) -> String {
    format!("(mkTx {} {} {} {} {} {} {} {} {} {} {} {})", zu(t.gas_limit), zw(t.gas_price), zb(t.transact_to.is_create()), zw(t.value), rle(&t.data),
        zopt(t.nonce.map(zu)), zopt(t.chain_id.map(zu)), zlist(t.access_list.iter().map(|i| format!("{}", i.storage_keys.len()))),
        zopt(t.gas_priority_fee.map(zw)), zbytes(&t.blob_hashes.iter().map(|h| h[0]).collect::<Vec<u8>>()), zopt(t.max_fee_per_blob_gas.map(zw)),
        zopt(t.authorization_list.as_ref().map(|l| format!("{}", l.len()))))
}

/// observed outcome as (code, a, b)
pub fn obs_of(r: &Result<Result<ResultAndState, EVMError<Infallible>>, String>) -> (u32, U256, U256) {
    let z = U256::ZERO;
    match r {
        Err(_) => (200, z, z),
        Ok(Ok(_)) => (0, z, z),
        Ok(Err(EVMError::Header(h))) => (match h { InvalidHeader::PrevrandaoNotSet => 101, InvalidHeader::ExcessBlobGasNotSet => 102 }, z, z),
        Ok(Err(EVMError::Transaction(e))) => {
            use InvalidTransaction::*;
            match e {
                PriorityFeeGreaterThanMaxFee => (1, z, z), GasPriceLessThanBasefee => (2, z, z), CallerGasLimitMoreThanBlock => (3, z, z),
                CallGasCostMoreThanGasLimit => (4, z, z), GasFloorMoreThanGasLimit => (5, z, z), RejectCallerWithCode => (6, z, z),
                LackOfFundForMaxFee { fee, balance } => (7, **fee, **balance), OverflowPaymentInTransaction => (8, z, z),
                NonceOverflowInTransaction => (9, z, z),
                NonceTooHigh { tx, state } => (10, U256::from(*tx), U256::from(*state)), NonceTooLow { tx, state } => (11, U256::from(*tx), U256::from(*state)),
                CreateInitCodeSizeLimit => (12, z, z), InvalidChainId => (13, z, z), AccessListNotSupported => (14, z, z),
                MaxFeePerBlobGasNotSupported => (15, z, z), BlobVersionedHashesNotSupported => (16, z, z), BlobGasPriceGreaterThanMax => (17, z, z),
                EmptyBlobs => (18, z, z), BlobCreateTransaction => (19, z, z), TooManyBlobs { have } => (20, U256::from(*have as u64), z),
                BlobVersionNotSupported => (21, z, z), EofCrateShouldHaveToAddress => (22, z, z), AuthorizationListNotSupported => (23, z, z),
                AuthorizationListInvalidFields => (24, z, z), EmptyAuthorizationList => (25, z, z),
        #[cfg(feature = "optimism")]
        InvalidTransaction::OptimismError(_) => (98, z, z),
            }
        }
        Ok(Err(_)) => (201, z, z),
    }
}
pub fn obs_coq(o: &(u32, U256, U256)) -> String { format!("({},{},{})", o.0, zw(o.1), zw(o.2)) }
pub fn err_name(code: u32) -> &'static str {
    ["ok", "PriorityFeeGreaterThanMaxFee", "GasPriceLessThanBasefee", "CallerGasLimitMoreThanBlock", "CallGasCostMoreThanGasLimit", "GasFloorMoreThanGasLimit",
     "RejectCallerWithCode", "LackOfFundForMaxFee", "OverflowPaymentInTransaction", "NonceOverflowInTransaction", "NonceTooHigh", "NonceTooLow",
     "CreateInitCodeSizeLimit", "InvalidChainId", "AccessListNotSupported", "MaxFeePerBlobGasNotSupported", "BlobVersionedHashesNotSupported",
     "BlobGasPriceGreaterThanMax", "EmptyBlobs", "BlobCreateTransaction", "TooManyBlobs", "BlobVersionNotSupported", "EofCrateShouldHaveToAddress",
     "AuthorizationListNotSupported", "AuthorizationListInvalidFields", "EmptyAuthorizationList"].get(code as usize).copied()
        .unwrap_or(match code { 101 => "PrevrandaoNotSet", 102 => "ExcessBlobGasNotSet", 200 => "panic", _ => "other-error" })
}
const TAGS: [&str; 26] = ["res:ok", "res:PriorityFeeGreaterThanMaxFee", "res:GasPriceLessThanBasefee", "res:CallerGasLimitMoreThanBlock", "res:CallGasCostMoreThanGasLimit",
    "res:GasFloorMoreThanGasLimit", "res:RejectCallerWithCode", "res:LackOfFundForMaxFee", "res:OverflowPaymentInTransaction", "res:NonceOverflowInTransaction",
    "res:NonceTooHigh", "res:NonceTooLow", "res:CreateInitCodeSizeLimit", "res:InvalidChainId", "res:AccessListNotSupported", "res:MaxFeePerBlobGasNotSupported",
    "res:BlobVersionedHashesNotSupported", "res:BlobGasPriceGreaterThanMax", "res:EmptyBlobs", "res:BlobCreateTransaction", "res:TooManyBlobs",
    "res:BlobVersionNotSupported", "res:EofCrateShouldHaveToAddress", "res:AuthorizationListNotSupported", "res:AuthorizationListInvalidFields", "res:EmptyAuthorizationList"];
pub fn res_tag(code: u32) -> &'static str { if (code as usize) < TAGS.len() { TAGS[code as usize] } else { match code { 101 => "res:PrevrandaoNotSet", 102 => "res:ExcessBlobGasNotSet", 200 => "res:panic", _ => "res:other" } } }

pub fn spec_of(n: u8) -> SpecId { SpecId::try_from_u8(n).unwrap() }
pub fn build_evm(db: Db, spec: SpecId, env: Env) -> Evm<'static, (), Db> {
    Evm::builder().with_db(db).with_spec_id(spec).with_env(Box::new(env)).build()
}

/// canonical content of a CacheDB: a cached "not existing" entry equals an absent one
pub fn canon(db: &Db) -> Vec<String> {
    let mut v: Vec<String> = vec![];
    let mut keys: Vec<&Address> = db.accounts.keys().collect();
    keys.sort();
    for a in keys {
        let acc: &DbAccount = &db.accounts[a];
        let info = db.basic_ref(*a).unwrap();
        let mut st: Vec<(U256, U256)> = acc.storage.iter().filter(|(_, v)| !v.is_zero()).map(|(k, v)| (*k, *v)).collect();
        st.sort();
        if info.is_none() && st.is_empty() { continue; }
        let code = info.as_ref().map(|i| i.code_hash);
        // account_state (None/Touched/StorageCleared) is not part of the content: over EmptyDB it only says whether
        // a read of the address was cached before the commit, and no read can tell the difference
        v.push(format!("{:?} {:?} {:?} {:?}", a, info.as_ref().map(|i| (i.balance, i.nonce)), code, st));
    }
    v
}

pub struct Scn { pub spec: u8, pub cfg: CfgEnv, pub block: BlockEnv, pub t: Typed, pub s: Sender, pub in_db: bool, pub notes: Vec<&'static str> }

fn pick_spec(rng: &mut Rng) -> u8 { if rng.chance(1, 2) { *rng.pick(&[11u8, 12, 15, 16, 17, 18, 18, 17]) } else { rng.below(19) as u8 } }

fn gen_data(rng: &mut Rng, create: bool) -> Vec<u8> {
    match rng.below(10) {
        0 | 1 | 2 => vec![],
        3 => vec![0; rng.range(1, 70) as usize],
        4 => (0..rng.range(1, 70)).map(|_| 1 + (rng.next() % 255) as u8).collect(),
        5 | 6 => { let n = rng.range(1, 100) as usize; (0..n).map(|_| if rng.chance(1, 2) { 0 } else { rng.next() as u8 }).collect() }
        7 => { let n = *rng.pick(&[31usize, 32, 33, 63, 64, 65, 1000]); (0..n).map(|_| if rng.chance(1, 3) { 0 } else { 0x5b }).collect() }
        8 if create => { let n = *rng.pick(&[49151usize, 49152, 49153, 49152, 49153]); let mut d = vec![0u8; n]; if rng.chance(1, 2) { let k = n - 1; d[k] = 0x5b; } d }
        _ => { let n = rng.range(200, 3000) as usize; (0..n).map(|_| if rng.chance(1, 5) { 0 } else { 0x5b }).collect() }
    }
}

/// One scenario: valid base, every dimension independently valid (most of the time) or at a boundary.
pub fn gen_scn(rng: &mut Rng) -> Scn {
    let mut notes: Vec<&'static str> = vec![];
    let spec = pick_spec(rng);
    let sid = spec_of(spec);
    let chain = *rng.pick(&[1u64, 1, 5, 1337, u64::MAX]);
    // ---- type
    let supported: Vec<u8> = { let mut v = vec![0u8]; if spec >= 11 { v.push(1); } if spec >= 12 { v.push(2); } if spec >= 17 { v.push(3); } if spec >= 18 { v.push(4); } v };
    let ty = if rng.chance(9, 10) { *rng.pick(&supported) } else { notes.push("type:any"); let k = rng.below(5) as u8; if k == 2 && spec < 12 { 0 } else { k } };
    // ---- common
    let create = rng.chance(1, 4);
    let data = gen_data(rng, create);
    let mut to = if create { None } else { Some(addr(TARGET)) };
    if (ty == 3 || ty == 4) && create && rng.chance(2, 3) { to = Some(addr(TARGET)); }
    let al: Vec<usize> = if ty == 0 { vec![] } else { (0..rng.below(4)).map(|_| rng.below(4) as usize).collect() };
    let value = match rng.below(6) { 0 | 1 | 2 => U256::ZERO, 3 => U256::from(rng.below(1000)), 4 => U256::from(rng.next()), _ => U256::from(1u64) << 64 };
    // ---- block
    let mut block = BlockEnv::default();
    block.coinbase = addr(COINBASE);
    block.basefee = match rng.below(8) { 0 => U256::ZERO, 1 | 2 | 3 => U256::from(rng.range(1, 1000)), 4 | 5 => U256::from(rng.range(1_000_000_000, 100_000_000_000)), 6 => U256::from(rng.next()), _ => U256::from(7u64) };
    let blob_price: u128 = match rng.below(5) { 0 => 1, 1 => rng.range(2, 1000) as u128, 2 => rng.next() as u128, 3 => (rng.next() as u128) << 40, _ => 1 };
    block.blob_excess_gas_and_price = Some(BlobExcessGasAndPrice { excess_blob_gas: rng.below(1 << 24), blob_gasprice: blob_price });
    block.prevrandao = Some(B256::ZERO);
    // ---- cfg
    let mut cfg = CfgEnv::default();
    cfg.chain_id = chain;
    if rng.chance(1, 12) { let l = *rng.pick(&[0usize, 16, 100, 24576, 30000, usize::MAX, usize::MAX / 2 + 1]); cfg.limit_contract_code_size = Some(l); notes.push("cfg:code-size-limit"); }
    if rng.chance(1, 20) { cfg.blob_target_and_max_count = match rng.below(3) { 0 => vec![], 1 => vec![(SpecId::CANCUN, 1, 2)], _ => vec![(SpecId::CANCUN, 3, 6), (SpecId::PRAGUE, 2, 3)] }; notes.push("cfg:blob-table"); }
    let max_blobs = cfg.blob_max_count(sid) as usize;
    // ---- fees
    let bf = block.basefee;
    let mut max_fee = match rng.below(6) { 0 => bf, 1 => bf + U256::from(1), 2 | 3 => bf + U256::from(rng.range(0, 1_000_000_000)), 4 => bf.saturating_mul(U256::from(2)), _ => bf + U256::from(rng.below(50)) };
    let mut prio = match rng.below(5) { 0 => U256::ZERO, 1 => max_fee, 2 => U256::from(rng.below(100)).min(max_fee), _ => max_fee.saturating_sub(bf) };
    if rng.chance(1, 8) {
        match rng.below(7) {
            0 => { max_fee = bf.saturating_sub(U256::from(1)); prio = prio.min(max_fee); notes.push("fee:base-1"); }
            1 => { prio = max_fee + U256::from(1); notes.push("fee:prio=max+1"); }
            2 => { max_fee = U256::ZERO; prio = U256::ZERO; notes.push("fee:zero"); }
            3 => { // basefee + priority wraps 2^256
                block.basefee = (U256::from(1) << 255) + U256::from(rng.below(3)); max_fee = block.basefee + U256::from(rng.below(2)); prio = if rng.chance(1, 2) { max_fee } else { U256::from(1) << 255 }; notes.push("fee:wrap");
            }
            4 => { max_fee = rng.u256b(); prio = rng.u256b().min(max_fee); notes.push("fee:random-word"); }
            5 => { max_fee = U256::MAX / U256::from(rng.range(20_000, 200_000)); prio = U256::ZERO; notes.push("fee:near-overflow"); }
            _ => { prio = rng.u256b(); notes.push("fee:prio-random"); }
        }
    }
    let bf = block.basefee;
    let _ = bf;
    // ---- blobs / auths
    let mut blobs: Vec<u8> = (0..rng.range(1, max_blobs.max(1) as u64)).map(|_| 1u8).collect();
    let mut mfb = U256::from(blob_price) + match rng.below(4) { 0 => U256::ZERO, 1 => U256::from(1), _ => U256::from(rng.below(1000)) };
    let mut auths = rng.range(1, 3) as usize;
    if ty == 3 && rng.chance(1, 3) {
        match rng.below(8) {
            0 => { blobs = vec![]; notes.push("blob:none"); }
            1 => { blobs = vec![1; max_blobs]; notes.push("blob:max"); }
            2 => { blobs = vec![1; max_blobs + 1]; notes.push("blob:max+1"); }
            3 => { let k = rng.below(blobs.len() as u64) as usize; blobs[k] = *rng.pick(&[0u8, 2, 0xff, 0x80]); notes.push("blob:version"); }
            4 => { mfb = U256::from(blob_price).saturating_sub(U256::from(1)); notes.push("blob:fee-1"); }
            5 => { mfb = U256::from(blob_price); notes.push("blob:fee="); }
            6 => { to = None; notes.push("blob:create"); }
            _ => { mfb = if rng.chance(1, 2) { U256::MAX } else { U256::MAX / U256::from(131072u64 * blobs.len().max(1) as u64) + U256::from(rng.below(3)) }; notes.push("blob:fee-overflow"); }
        }
    }
    if ty == 4 && rng.chance(1, 3) {
        match rng.below(3) { 0 => { auths = 0; notes.push("auth:empty"); } 1 => { to = None; notes.push("auth:create"); } _ => { auths = 0; to = None; notes.push("auth:empty+create"); } }
    }
    // ---- gas
    let auth_n = if ty == 4 { auths as u64 } else { 0 };
    let g = revm::interpreter::gas::calculate_initial_tx_gas(sid, &data, to.is_none(), &access_list(&al), auth_n);
    let need = g.initial_gas.max(if spec >= 18 { g.floor_gas } else { 0 });
    let mut gas_limit = need + match rng.below(4) { 0 => 0, 1 => rng.below(100), _ => rng.range(0, 200_000) };
    if rng.chance(1, 6) {
        gas_limit = match rng.below(8) {
            0 => { notes.push("gas:intrinsic-1"); g.initial_gas - 1 }
            1 => { notes.push("gas:intrinsic"); g.initial_gas }
            2 => { notes.push("gas:intrinsic+1"); g.initial_gas + 1 }
            3 => { notes.push("gas:floor-1"); g.floor_gas.max(21000) - 1 }
            4 => { notes.push("gas:floor"); g.floor_gas.max(21000) }
            5 => { notes.push("gas:floor+1"); g.floor_gas.max(21000) + 1 }
            6 => { notes.push("gas:u64"); rng.u64b() }
            _ => { notes.push("gas:need-1"); need - 1 }
        };
    }
    block.gas_limit = match rng.below(10) {
        0 => { notes.push("blockgas:-1"); U256::from(gas_limit.saturating_sub(1)) }
        1 => { notes.push("blockgas:="); U256::from(gas_limit) }
        2 => { notes.push("blockgas:+1"); U256::from(gas_limit) + U256::from(1) }
        3 => U256::MAX,
        _ => U256::from(gas_limit) + U256::from(rng.range(0, 30_000_000)),
    };
    // ---- sender
    let mut s = Sender { nonce: match rng.below(6) { 0 => 0, 1 => 1, 2 => rng.below(1000), 3 => u64::MAX - 1, _ => rng.below(10) }, balance: U256::ZERO, code: 0 };
    let mut tx_nonce = s.nonce;
    if rng.chance(1, 8) {
        match rng.below(6) {
            0 => { tx_nonce = s.nonce.wrapping_add(1); notes.push("nonce:+1"); }
            1 => { tx_nonce = s.nonce.wrapping_sub(1); notes.push("nonce:-1"); }
            2 => { s.nonce = u64::MAX; tx_nonce = u64::MAX; notes.push("nonce:max"); }
            3 => { s.nonce = u64::MAX - 1; tx_nonce = u64::MAX - 1; notes.push("nonce:max-1"); }
            4 => { s.nonce = u64::MAX; tx_nonce = u64::MAX - 1; notes.push("nonce:state-max"); }
            _ => { tx_nonce = rng.u64b(); notes.push("nonce:random"); }
        }
    }
    if rng.chance(1, 10) { s.code = if rng.chance(1, 2) { notes.push("code:7702"); 1 } else { notes.push("code:other"); 2 }; }
    let is_blob = ty == 3;
    let blob_gas = U256::from(131072u64 * blobs.len() as u64);
    let cost = U256::from(gas_limit).checked_mul(max_fee).and_then(|x| x.checked_add(value))
        .and_then(|x| if is_blob && spec >= 17 { mfb.checked_mul(blob_gas).and_then(|y| x.checked_add(y)) } else { Some(x) });
    s.balance = match cost {
        Some(c) => match rng.below(12) {
            0 => { notes.push("bal:cost-1"); c.saturating_sub(U256::from(1)) }
            1 => { notes.push("bal:cost"); c }
            2 => { notes.push("bal:cost+1"); c.saturating_add(U256::from(1)) }
            3 => { notes.push("bal:zero"); U256::ZERO }
            4 => U256::MAX,
            _ => c.saturating_add(U256::from(rng.next())),
        },
        None => { notes.push("bal:cost-overflows"); if rng.chance(1, 2) { U256::MAX } else { rng.u256b() } }
    };
    let mut value = value;
    if rng.chance(1, 25) { value = U256::MAX - U256::from(rng.below(3)); notes.push("value:max"); if rng.chance(1, 2) { s.balance = U256::MAX; } }
    if rng.chance(1, 25) && is_blob { // max blob fee saturates while everything else is zero
        max_fee = U256::ZERO; prio = U256::ZERO; block.basefee = U256::ZERO; value = U256::ZERO; mfb = U256::MAX - U256::from(rng.below(2)); s.balance = U256::MAX - U256::from(rng.below(2)); notes.push("blob:fee-saturates");
    }
    // ---- chain id / header
    let mut chain_id = Some(chain);
    if rng.chance(1, 10) { match rng.below(3) { 0 => { chain_id = Some(chain.wrapping_add(1)); notes.push("chain:mismatch"); } 1 => { chain_id = Some(rng.u64b()); notes.push("chain:random"); } _ => { chain_id = None; notes.push("chain:none"); } } }
    if rng.chance(1, 30) { block.prevrandao = None; notes.push("hdr:no-prevrandao"); }
    if rng.chance(1, 30) { block.blob_excess_gas_and_price = None; notes.push("hdr:no-excess-blob-gas"); }
    let c = Common { nonce: tx_nonce, gas_limit, to, value, data };
    let cid = chain_id.unwrap_or(chain);
    let t = match ty {
        0 => Typed::Legacy { chain_id, gas_price: max_fee, c },
        1 => Typed::E2930 { chain_id: cid, gas_price: max_fee, c, al },
        2 => Typed::E1559 { chain_id: cid, prio, max_fee, c, al },
        3 => Typed::E4844 { chain_id: cid, prio, max_fee, c, al, mfb, blobs },
        _ => Typed::E7702 { chain_id: cid, prio, max_fee, c, al, auths },
    };
    let in_db = !(s.nonce == 0 && s.balance.is_zero() && s.code == 0 && rng.chance(1, 2));
    Scn { spec, cfg, block, t, s, in_db, notes }
}

/// Witnesses of the three defects this check found in the unfixed code (now `fix:` commits 32f9c32f,
/// 6f6e4336, 8fca020b); replayed first on every run, must be rejected.
fn corpus() -> Vec<Scn> {
    let mk = |spec: u8, chain: u64, basefee: u64, blob_price: u128, gas_limit_block: u64, t: Typed, s: Sender, note: &'static str| {
        let mut cfg = CfgEnv::default(); cfg.chain_id = chain;
        let mut block = BlockEnv::default(); block.coinbase = addr(COINBASE); block.basefee = U256::from(basefee); block.gas_limit = U256::from(gas_limit_block);
        block.blob_excess_gas_and_price = Some(BlobExcessGasAndPrice { excess_blob_gas: 0, blob_gasprice: blob_price });
        Scn { spec, cfg, block, t, s, in_db: true, notes: vec![note] }
    };
    let data33: Vec<u8> = (0..33).map(|i| if i < 17 { 0 } else { 0x5b }).collect();
    vec![
        // A: EIP-7702 transaction with a null destination
        mk(18, 1, 644, 1, 9_935_648, Typed::E7702 { chain_id: 1, prio: U256::from(1), max_fee: U256::from(645), c: Common { nonce: 187, gas_limit: 254_424, to: None, value: U256::from(310), data: data33 }, al: vec![0, 3, 0], auths: 3 },
           Sender { nonce: 187, balance: U256::from(164_103_790u64), code: 0 }, "corpus:7702-create"),
        // B: sender with a delegation designator before PRAGUE
        mk(11, 1337, 694, 1, 23_036_767, Typed::Legacy { chain_id: Some(1337), gas_price: U256::from(718_359_588u64), c: Common { nonce: 7, gas_limit: 175_945, to: Some(addr(TARGET)), value: U256::ZERO, data: vec![] } },
           Sender { nonce: 7, balance: U256::from(76_777_249_686_622_831u64), code: 1 }, "corpus:delegation-before-prague"),
        // C: max_fee_per_blob_gas * blob_gas >= 2^256, everything else zero, balance 2^256-1
        mk(17, 1, 0, 1, 7_161_296, Typed::E4844 { chain_id: 1, prio: U256::ZERO, max_fee: U256::ZERO, c: Common { nonce: 5, gas_limit: 24_132, to: Some(addr(TARGET)), value: U256::ZERO, data: vec![] }, al: vec![0], mfb: U256::MAX - U256::from(1), blobs: vec![1; 6] },
           Sender { nonce: 5, balance: U256::MAX, code: 0 }, "corpus:blob-fee-saturates"),
    ]
}

pub fn run_one(spec: u8, cfg: &CfgEnv, block: &BlockEnv, tx: &TxEnv, s: &Sender, in_db: bool) -> (u32, U256, U256) {
    let mut db = Db::new(EmptyDB::default());
    if in_db { db.insert_account_info(tx.caller, sender_info(s)); }
    let env = Env { cfg: cfg.clone(), block: block.clone(), tx: tx.clone() };
    let r = catch(|| { let mut evm = build_evm(db, spec_of(spec), env); evm.transact() });
    obs_of(&r)
}

fn step_coq(spec: u8, cfg: &CfgEnv, block: &BlockEnv, t: &Typed, s: &Sender, obs: &(u32, U256, U256)) -> String {
    format!("(mkStep {} {} {} {} {} {})", spec, cfg_coq(cfg), block_coq(block), t.coq(), s.coq(), obs_coq(obs))
}

pub fn run(o: &Opts) {
    let mut rng = Rng::new(o.seed ^ 0xC02);
    let mut w = CaseWriter::new(o, "C02", 250);
    let n_typed = if o.thorough() { 30_000 } else { 3_000 };
    let n_raw = if o.thorough() { 8_000 } else { 800 };
    let n_hist = if o.thorough() { 1_500 } else { 150 };
    // ------------------------------------------------------------------ typed stream
    let mut corpus = corpus();
    for i in 0..n_typed {
        let sc = if i < 3 { corpus.remove(0) } else { gen_scn(&mut rng) };
        let tx = to_tx_env(&sc.t, addr(CALLER));
        let obs = run_one(sc.spec, &sc.cfg, &sc.block, &tx, &sc.s, sc.in_db);
        let case = format!("(Typed {})", step_coq(sc.spec, &sc.cfg, &sc.block, &sc.t, &sc.s, &obs));
        let human = format!("typed spec={:?} result={} notes={:?} cfg(chain={},limit={:?},blobs={:?}) block(gas_limit={},basefee={},prevrandao={},blob={:?}) sender={:?} tx={:?}",
            spec_of(sc.spec), err_name(obs.0), sc.notes, sc.cfg.chain_id, sc.cfg.limit_contract_code_size, sc.cfg.blob_target_and_max_count,
            sc.block.gas_limit, sc.block.basefee, sc.block.prevrandao.is_some(), sc.block.blob_excess_gas_and_price, sc.s, short(&sc.t));
        let ty = match sc.t.kind() { "legacy" => "type:legacy", "2930" => "type:2930", "1559" => "type:1559", "4844" => "type:4844", _ => "type:7702" };
        let mut tags: Vec<&str> = vec!["stream:typed", res_tag(obs.0), ty, SPEC_TAGS[sc.spec as usize]];
        tags.extend(sc.notes.iter());
        w.push(case, human, true, &tags);
    }
    // ------------------------------------------------------------------ raw stream (outside the typed domain)
    for _ in 0..n_raw {
        let sc = gen_scn(&mut rng);
        let mut tx = to_tx_env(&sc.t, addr(CALLER));
        let mut notes = sc.notes.clone();
        for _ in 0..rng.range(1, 2) {
            match rng.below(9) {
                0 => { tx.nonce = None; notes.push("raw:nonce-none"); }
                1 => { tx.chain_id = None; notes.push("raw:chain-none"); }
                2 => { tx.gas_priority_fee = Some(if rng.chance(1, 2) { U256::from(rng.below(100)) } else { rng.u256b() }); notes.push("raw:priority-fee"); }
                3 => { tx.blob_hashes = vec![B256::from([1u8; 32]); rng.range(1, 3) as usize]; notes.push("raw:blob-hashes"); }
                4 => { tx.max_fee_per_blob_gas = Some(rng.u256b()); notes.push("raw:max-fee-per-blob-gas"); }
                5 => { tx.authorization_list = Some(invalid_auths(rng.below(3) as usize)); notes.push("raw:auth-list"); }
                6 => { tx.max_fee_per_blob_gas = None; notes.push("raw:no-max-fee-per-blob-gas"); }
                7 => { tx.access_list = access_list(&[1, 0, 2]); notes.push("raw:access-list"); }
                _ => { tx.gas_price = rng.u256b(); notes.push("raw:gas-price"); }
            }
        }
        let obs = run_one(sc.spec, &sc.cfg, &sc.block, &tx, &sc.s, sc.in_db);
        let case = format!("(Raw {} (mkEnv {} {} {}) {} {})", sc.spec, cfg_coq(&sc.cfg), block_coq(&sc.block), tx_coq(&tx), sc.s.coq(), obs_coq(&obs));
        let human = format!("raw spec={:?} result={} notes={:?} cfg(chain={},limit={:?},blobs={:?}) block(gas_limit={},basefee={},prevrandao={},blob={:?}) sender={:?} tx(gas_limit={},gas_price={},create={},value={},data_len={},nonce={:?},chain_id={:?},al={},prio={:?},blobs={},mfb={:?},auth={:?})",
            spec_of(sc.spec), err_name(obs.0), notes, sc.cfg.chain_id, sc.cfg.limit_contract_code_size, sc.cfg.blob_target_and_max_count,
            sc.block.gas_limit, sc.block.basefee, sc.block.prevrandao.is_some(), sc.block.blob_excess_gas_and_price, sc.s,
            tx.gas_limit, tx.gas_price, tx.transact_to.is_create(), tx.value, tx.data.len(), tx.nonce, tx.chain_id, tx.access_list.len(), tx.gas_priority_fee,
            tx.blob_hashes.len(), tx.max_fee_per_blob_gas, tx.authorization_list.as_ref().map(|l| l.len()));
        let mut tags: Vec<&str> = vec!["stream:raw", res_tag(obs.0), SPEC_TAGS[sc.spec as usize]];
        tags.extend(notes.iter().filter(|n| n.starts_with("raw:")));
        w.push(case, human, true, &tags);
    }
    // ------------------------------------------------------------------ histories
    for _ in 0..n_hist { history(&mut rng, &mut w); }
    w.finish("typed: one real Evm (CacheDB) per case, typed tx (legacy/2930/1559/4844/7702) x all mainnet SpecIds, each dimension (type, gas vs intrinsic/floor/block, fee vs base fee, priority, balance vs cost incl. overflow, nonce, blobs, authorization list, initcode size, chain id, sender code, header) valid or at a boundary; raw: TxEnv fields no typed tx produces (model = code only); hist: 4..10 transactions on ONE Evm instance, ~40% rejected, each compared with a fresh instance over a cloned database (result, returned state, committed database) and database unchanged by a rejection; every case non-trivial; distinct = distinct Coq terms");
}

const SPEC_TAGS: [&str; 19] = ["spec:FRONTIER", "spec:FRONTIER_THAWING", "spec:HOMESTEAD", "spec:DAO_FORK", "spec:TANGERINE", "spec:SPURIOUS_DRAGON", "spec:BYZANTIUM",
    "spec:CONSTANTINOPLE", "spec:PETERSBURG", "spec:ISTANBUL", "spec:MUIR_GLACIER", "spec:BERLIN", "spec:LONDON", "spec:ARROW_GLACIER", "spec:GRAY_GLACIER", "spec:MERGE",
    "spec:SHANGHAI", "spec:CANCUN", "spec:PRAGUE"];

fn short(t: &Typed) -> String {
    let mut t2 = t.clone();
    let n = t2.c().data.len();
    let z = t2.c().data.iter().filter(|b| **b == 0).count();
    t2.c_mut().data = vec![];
    format!("{:?} data_len={} zero_bytes={}", t2, n, z)
}

/// contract: SSTORE(calldata word 0 -> slot 0), returns; used so accepted transactions change state
fn store_code() -> Bytecode { Bytecode::new_legacy(Bytes::from(vec![0x60, 0x00, 0x35, 0x60, 0x00, 0x55, 0x00])) }

fn history(rng: &mut Rng, w: &mut CaseWriter) {
    let spec = pick_spec(rng);
    let sid = spec_of(spec);
    let callers = [addr(CALLER), addr(CALLER + 1), addr(CALLER + 2)];
    let contract = addr(0x4000_0004);
    let mut db = Db::new(EmptyDB::default());
    for (i, c) in callers.iter().enumerate() {
        db.insert_account_info(*c, AccountInfo { balance: U256::from(10u64).pow(U256::from(20)), nonce: i as u64 * 3, code_hash: revm::primitives::KECCAK_EMPTY, code: None });
    }
    if rng.chance(1, 2) { db.insert_account_info(callers[2], sender_info(&Sender { nonce: 2, balance: U256::from(10u64).pow(U256::from(20)), code: if rng.chance(1, 2) { 1 } else { 2 } })); }
    db.insert_account_info(contract, AccountInfo::from_bytecode(store_code()));
    let mut cfg = CfgEnv::default();
    cfg.chain_id = 1;
    let mut block = BlockEnv::default();
    block.coinbase = addr(COINBASE);
    block.basefee = U256::from(rng.range(0, 100));
    block.gas_limit = U256::from(30_000_000u64);
    block.blob_excess_gas_and_price = Some(BlobExcessGasAndPrice { excess_blob_gas: 0, blob_gasprice: rng.range(1, 5) as u128 });
    let env0 = Env { cfg: cfg.clone(), block: block.clone(), tx: TxEnv::default() };
    let mut evm = build_evm(db, sid, env0);
    let n = rng.range(4, 10);
    let mut steps: Vec<String> = vec![];
    let mut humans: Vec<String> = vec![];
    let mut rejected = 0; let mut accepted = 0; let mut all_flags = true;
    for _ in 0..n {
        let ci = rng.below(3) as usize;
        let caller = callers[ci];
        let info = evm.db().basic_ref(caller).unwrap().unwrap_or_default();
        let code_kind = match evm.db().basic_ref(caller).unwrap() { Some(i) if i.code_hash != revm::primitives::KECCAK_EMPTY => { let c = evm.db().code_by_hash_ref(i.code_hash).unwrap(); if c.is_eip7702() { 1 } else { 2 } } _ => 0 };
        let s = Sender { nonce: info.nonce, balance: info.balance, code: code_kind };
        let supported: Vec<u8> = { let mut v = vec![0u8]; if spec >= 11 { v.push(1); } if spec >= 12 { v.push(2); } if spec >= 17 { v.push(3); } if spec >= 18 { v.push(4); } v };
        let ty = *rng.pick(&supported);
        let to_contract = rng.chance(1, 2);
        let create = ty < 3 && rng.chance(1, 6);
        let data: Vec<u8> = if create { vec![0x60, 0x01, 0x60, 0x00, 0x55, 0x00] } else if to_contract { let mut d = vec![0u8; 32]; d[31] = rng.below(3) as u8; d[30] = rng.below(2) as u8; d } else { vec![] };
        let to = if create { None } else if to_contract { Some(contract) } else { Some(addr(TARGET + rng.below(2))) };
        let al: Vec<usize> = if ty == 0 { vec![] } else { (0..rng.below(2)).map(|_| rng.below(2) as usize).collect() };
        let auths = 1usize;
        let g = revm::interpreter::gas::calculate_initial_tx_gas(sid, &data, create, &access_list(&al), if ty == 4 { 1 } else { 0 });
        let mut c = Common { nonce: s.nonce, gas_limit: g.initial_gas.max(g.floor_gas) + 60_000, to, value: U256::from(rng.below(1000)), data };
        let mut max_fee = block.basefee + U256::from(rng.below(20));
        let mut prio = U256::from(rng.below(5)).min(max_fee);
        let mut chain_id = 1u64;
        let mut blobs = vec![1u8; rng.range(1, 3) as usize];
        // invalidate one dimension in ~40% of the steps
        if rng.chance(2, 5) {
            match rng.below(8) {
                0 => c.nonce = c.nonce.wrapping_add(1),
                1 => c.nonce = c.nonce.wrapping_sub(1),
                2 => c.gas_limit = g.initial_gas - 1,
                3 => c.value = s.balance,
                4 => chain_id = 2,
                5 => { max_fee = block.basefee.saturating_sub(U256::from(1)); prio = prio.min(max_fee); }
                6 => c.gas_limit = 30_000_001,
                _ => { if ty == 3 { blobs = vec![]; } else { c.gas_limit = g.initial_gas.max(g.floor_gas) - 1; } }
            }
        }
        let t = match ty {
            0 => Typed::Legacy { chain_id: Some(chain_id), gas_price: max_fee, c },
            1 => Typed::E2930 { chain_id, gas_price: max_fee, c, al },
            2 => Typed::E1559 { chain_id, prio, max_fee, c, al },
            3 => Typed::E4844 { chain_id, prio, max_fee, c, al, mfb: U256::from(10u64), blobs },
            _ => Typed::E7702 { chain_id, prio, max_fee, c, al, auths },
        };
        let tx = to_tx_env(&t, caller);
        // fresh instance over a clone of the current database
        let before = evm.db().clone();
        let fresh_r = catch(|| { let mut f = build_evm(before.clone(), sid, Env { cfg: cfg.clone(), block: block.clone(), tx: tx.clone() }); f.transact() });
        *evm.tx_mut() = tx.clone();
        let r = catch(|| evm.transact());
        let obs = obs_of(&r);
        let same_result = match (&r, &fresh_r) { (Ok(a), Ok(b)) => a == b, (Err(_), Err(_)) => true, _ => false };
        let db_ok = match &r {
            Ok(Ok(rs)) => {
                accepted += 1;
                let mut fdb = before.clone();
                if let Ok(Ok(frs)) = &fresh_r { fdb.commit(frs.state.clone()); }
                evm.db_mut().commit(rs.state.clone());
                canon(evm.db()) == canon(&fdb) && matches!(rs.result, ExecutionResult::Success { .. } | ExecutionResult::Revert { .. } | ExecutionResult::Halt { .. })
            }
            _ => { rejected += 1; canon(evm.db()) == canon(&before) && evm.context.evm.journaled_state.state.is_empty() && evm.context.evm.journaled_state.journal == vec![vec![]] && evm.context.evm.journaled_state.depth == 0 && evm.context.evm.error.is_ok() }
        };
        if !(same_result && db_ok) { all_flags = false; }
        steps.push(format!("({}, {}, {})", step_coq(spec, &cfg, &block, &t, &s, &obs), zb(same_result), zb(db_ok)));
        humans.push(format!("[{} {} from#{} same_as_fresh={} db_ok={}]", t.kind(), err_name(obs.0), ci, same_result, db_ok));
    }
    let case = format!("(Hist {})", zlist(steps));
    let human = format!("hist spec={:?} basefee={} steps={}", sid, block.basefee, humans.join(" "));
    let mut tags = vec!["stream:hist", SPEC_TAGS[spec as usize]];
    if rejected > 0 && accepted > 0 { tags.push("hist:interleaved"); }
    if !all_flags { tags.push("hist:FLAG-FALSE"); }
    w.push(case, human, rejected > 0 && accepted > 0, &tags);
}
