//! C34: the C06 histories (access list, pre-warmed addresses, nested reverting frames, repeated creates,
//! EIP-7702 delegations) judged by the accessed-set specification (coq/Spec/AccessSpec.v, coq/Corr/C34.v).
use crate::util::Opts;
pub fn run(o: &Opts) { crate::p_c06::run_mod(o, "C34", 0xC34) }
