//! C13: operation histories on the real `Gas` meter.
use crate::util::*;
use revm::interpreter::Gas;

#[derive(Clone, Debug)]
enum Op { RecordCost(u64), EraseCost(u64), RecordRefund(i64), SetFinalRefund(bool), SpendAll, SetSpent(u64), SetRefund(i64) }
impl Op {
    fn coq(&self) -> String {
        match self {
            Op::RecordCost(c) => format!("RecordCost {}", zu(*c)),
            Op::EraseCost(c) => format!("EraseCost {}", zu(*c)),
            Op::RecordRefund(c) => format!("RecordRefund {}", zi(*c)),
            Op::SetFinalRefund(b) => format!("SetFinalRefund {}", zb(*b)),
            Op::SpendAll => "SpendAll".into(),
            Op::SetSpent(c) => format!("SetSpent {}", zu(*c)),
            Op::SetRefund(c) => format!("SetRefund {}", zi(*c)),
        }
    }
}

pub fn run(o: &Opts) {
    let mut rng = Rng::new(o.seed ^ 0xC13);
    let mut w = CaseWriter::new(o, "C13", 400);
    let n = if o.thorough() { 40_000 } else { 4_000 };
    for i in 0..n {
        let in_contract = i % 4 != 3;
        let limit = if rng.chance(1, 3) { rng.u64b() } else { rng.range(21_000, 30_000_000) };
        let len = rng.range(1, 24) as usize;
        let mut g = Gas::new(limit);
        let mut ops = vec![];
        let mut obs = vec![];
        let mut panicked = false;
        let mut failed_charge = false;
        let mut overflow_pt = false;
        for _ in 0..len {
            // choose with knowledge of the current meter so that most ops are applicable
            let rem = g.remaining();
            let spent = limit.wrapping_sub(rem);
            let op = match rng.below(12) {
                0 | 1 | 2 => Op::RecordCost(if rem > 0 && rng.chance(3, 4) { rng.range(0, rem) } else if rng.chance(1, 2) { rem.wrapping_add(rng.below(3)) } else { rng.u64b() }),
                3 | 4 => Op::EraseCost(if in_contract || rng.chance(1, 2) { if spent > 0 { rng.range(0, spent) } else { 0 } } else { rng.u64b() }),
                5 | 6 => Op::RecordRefund(if in_contract { rng.range(0, 40_000) as i64 - if g.refunded() > 20_000 { 15_000 } else { 0 } } else { rng.i64b() }),
                7 => Op::SetFinalRefund(rng.chance(1, 2)),
                8 => if rng.chance(1, 3) { Op::SpendAll } else { Op::RecordCost(rng.below(5000)) },
                9 => Op::SetSpent(if rng.chance(1, 2) { rng.range(0, limit) } else { rng.u64b() }),
                10 => Op::SetRefund(if in_contract { rng.below(100_000) as i64 } else { rng.i64b() }),
                _ => Op::RecordCost(rng.u64b()),
            };
            let mut flag = 1u64;
            let mut g2 = g;
            let r = catch(|| {
                match &op {
                    Op::RecordCost(c) => { if !g2.record_cost(*c) { flag = 0; } }
                    Op::EraseCost(c) => g2.erase_cost(*c),
                    Op::RecordRefund(c) => g2.record_refund(*c),
                    Op::SetFinalRefund(b) => g2.set_final_refund(*b),
                    Op::SpendAll => g2.spend_all(),
                    Op::SetSpent(c) => g2.set_spent(*c),
                    Op::SetRefund(c) => g2.set_refund(*c),
                }
                // spent() is a u64 subtraction: may panic outside the invariant
                let sp = if g2.remaining() <= g2.limit() { g2.spent() } else { g2.limit().wrapping_sub(g2.remaining()) };
                (flag, g2, sp)
            });
            ops.push(op);
            match r {
                Ok((f, g2, sp)) => {
                    if f == 0 { failed_charge = true; }
                    obs.push(format!("({},{},{},{},{})", f, zu(g2.limit()), zu(g2.remaining()), zi(g2.refunded()), zu(sp)));
                    g = g2;
                }
                Err(_) => { obs.push("(2,0,0,0,0)".into()); panicked = true; overflow_pt = true; break; }
            }
        }
        let _ = panicked;
        let case = format!("mkCase {} {} {} {}", zu(limit), zb(o.release), zlist(ops.iter().map(|x| x.coq())), zlist(obs.clone()));
        let human = format!("limit={} ops={:?}", limit, ops);
        let mut tags = vec![if in_contract { "stream:in-contract" } else { "stream:free" }];
        if failed_charge { tags.push("has-failed-charge"); }
        if overflow_pt { tags.push("hit-overflow-point"); }
        w.push(format!("({})", case), human, ops.len() >= 3, &tags);
    }
    w.finish("histories of 1..24 Gas operations (record_cost/erase_cost/record_refund/set_final_refund/spend_all/set_spent/set_refund) on the real revm_interpreter::Gas, 3/4 chosen inside the frame-accounting contract using the live meter state, 1/4 with free boundary-biased u64/i64 arguments; non-trivial = at least 3 operations; distinct = distinct (limit, ops, observations)");
}
