//! C04: jump-table analysis and real JUMP / JUMPI execution on generated legacy code.
use crate::util::*;
use revm::interpreter::analysis::to_analysed;
use revm::interpreter::opcode::{make_boxed_instruction_table, make_instruction_table, InstructionTable};
use revm::interpreter::{Contract, DummyHost, InstructionResult, Interpreter, InterpreterAction, SharedMemory};
use revm::primitives::{Address, Bytecode, Bytes, CancunSpec, U256};
use std::cell::Cell;

fn biased_byte(rng: &mut Rng) -> u8 {
    match rng.below(20) {
        0..=5 => 0x5b,
        6 | 7 => 0x60 + rng.below(32) as u8,
        8 => *rng.pick(&[0x60u8, 0x61, 0x7e, 0x7f, 0x5f, 0x80, 0x5a, 0x5c]),
        9 => 0x7f,
        10 => 0x56,
        11 => 0x57,
        12 => 0x00,
        _ => rng.next() as u8,
    }
}

/// (code, shape tag, ends inside push data?)
fn gen_code(rng: &mut Rng, i: usize) -> (Vec<u8>, &'static str) {
    let len = match rng.below(12) {
        0 => *rng.pick(&[0usize, 1, 2, 3, 31, 32, 33, 34, 35, 63, 64, 65, 66]),
        1..=6 => rng.below(48) as usize,
        7..=9 => rng.below(160) as usize,
        10 => rng.below(601) as usize,
        _ => 560 + rng.below(41) as usize,
    };
    match i % 8 {
        // free biased bytes
        0 | 1 | 2 => ((0..len).map(|_| biased_byte(rng)).collect(), "shape:biased"),
        // well-formed instruction stream whose push data is full of 0x5b, cut at `len`
        3 | 4 => {
            let mut c = vec![];
            while c.len() < len {
                match rng.below(6) {
                    0 | 1 => c.push(0x5b),
                    2 | 3 => {
                        let n = if rng.chance(1, 3) { 32 } else { 1 + rng.below(32) as usize };
                        c.push(0x5f + n as u8);
                        for _ in 0..n { c.push(if rng.chance(2, 3) { 0x5b } else { biased_byte(rng) }); }
                    }
                    4 => c.push(*rng.pick(&[0x56u8, 0x57, 0x00, 0x01, 0x5f, 0x80])),
                    _ => c.push(biased_byte(rng)),
                }
            }
            c.truncate(len);
            (c, "shape:stream-cut")
        }
        // explicit truncated trailing PUSH: prefix ++ PUSHn ++ k < n data bytes (all JUMPDEST)
        5 => {
            let mut c: Vec<u8> = (0..len.saturating_sub(34)).map(|_| if rng.chance(1, 2) { 0x5b } else { biased_byte(rng) }).collect();
            // make the tail start at an instruction boundary with high probability
            if rng.chance(3, 4) { for _ in 0..33 { c.push(0x5b); } }
            let n = 1 + rng.below(32) as usize;
            let k = rng.below(n as u64) as usize;
            c.push(0x5f + n as u8);
            for _ in 0..k { c.push(0x5b); }
            (c, "shape:truncated-push-tail")
        }
        // uniform runs
        6 => {
            let b = *rng.pick(&[0x5bu8, 0x7f, 0x60, 0x61, 0x7e, 0x00, 0x56]);
            let mut c = vec![b; len];
            if len > 0 && rng.chance(1, 2) { let p = rng.below(len as u64) as usize; c[p] = biased_byte(rng); }
            (c, "shape:run")
        }
        // PUSH32 chains shifted by a small offset, JUMPDEST everywhere else
        _ => {
            let off = rng.below(34) as usize;
            let mut c = vec![0x5bu8; len];
            let mut p = off;
            while p < len { c[p] = 0x7f; p += 33 + rng.below(2) as usize; }
            (c, "shape:push32-chain")
        }
    }
}

fn res_code(r: InstructionResult) -> u64 {
    match r { InstructionResult::Continue => 0, InstructionResult::InvalidJump => 1, _ => 2 }
}

pub fn run(o: &Opts) {
    let mut rng = Rng::new(o.seed ^ 0xC04);
    let mut w = CaseWriter::new(o, "C04", 100);
    let n = if o.thorough() { 16_000 } else { 1_600 };
    let table: InstructionTable<DummyHost> = make_instruction_table::<DummyHost, CancunSpec>();
    // the real `Interpreter::run` loop, stopped after the first instruction that leaves the
    // result at Continue (the wrapper records the program counter reached)
    let reached: Cell<Option<usize>> = Cell::new(None);
    let boxed = make_boxed_instruction_table::<DummyHost, _>(&table, |instr| {
        let reached = &reached;
        Box::new(move |interp: &mut Interpreter, host: &mut DummyHost| {
            instr(interp, host);
            if interp.instruction_result == InstructionResult::Continue {
                reached.set(Some(interp.program_counter()));
                interp.instruction_result = InstructionResult::Stop;
            }
        })
    });
    for i in 0..n {
        let (code, shape) = gen_code(&mut rng, i);
        let len = code.len();
        let eager = rng.chance(1, 2);
        let raw = Bytecode::new_legacy(Bytes::from(code.clone()));
        let analysed = to_analysed(raw.clone());
        let (orig_len, padded_len, jt_len) = match &analysed {
            Bytecode::LegacyAnalyzed(a) => (a.original_len() as u64, a.bytecode().len() as u64, a.jump_table().0.len() as u64),
            _ => (u64::MAX, u64::MAX, u64::MAX),
        };
        let contract = Contract::new(Bytes::new(), if eager { analysed.clone() } else { raw.clone() }, None, Address::ZERO, None, Address::ZERO, U256::ZERO);
        // whole table
        let mut extra: Vec<u64> = vec![len as u64 + 41, len as u64 + 64, 1 << 16, 1 << 32, (1 << 32) + 1, 1 << 63, u64::MAX - 1, u64::MAX];
        for _ in 0..3 { extra.push((1u64 << 32).wrapping_mul(1 + rng.below(1 << 31)).wrapping_add(rng.below(len as u64 + 1))); }
        let probes: Vec<u64> = (0..len as u64 + 40).chain(extra.iter().copied()).collect();
        let jt = analysed.legacy_jump_table().cloned().unwrap_or_default();
        let valid_jt: Vec<u64> = probes.iter().copied().filter(|&p| jt.is_valid(p as usize)).collect();
        let valid_contract: Vec<u64> = probes.iter().copied().filter(|&p| contract.is_valid_jump(p as usize)).collect();
        let dests: Vec<u64> = valid_jt.iter().copied().filter(|&p| p < len as u64).collect();
        let hidden: Vec<u64> = (0..len as u64).filter(|&p| code[p as usize] == 0x5b && !dests.contains(&p)).collect();

        // real JUMP / JUMPI
        let mut targets: Vec<U256> = vec![
            U256::from(len as u64), U256::from(len as u64 + 32), U256::from(len as u64 + 33),
            U256::from(1u64 << 32), U256::from(1u64) << 64, U256::from(1u64) << 255,
        ];
        if len > 0 { targets.push(U256::from(len as u64 - 1)); }
        if !dests.is_empty() {
            let d = *rng.pick(&dests);
            targets.push(U256::from(d));
            targets.push(U256::from(*rng.pick(&dests)));
            // a valid destination plus a multiple of 2^64 / 2^32 / 2^128: must not be truncated
            targets.push(U256::from(d) + (U256::from(1u64) << 64));
            targets.push(U256::from(d) + (U256::from(1u64 + rng.below(1000)) << (64 * (1 + rng.below(3)) as usize)));
            targets.push(U256::from(d) + U256::from(1u64 << 32));
        }
        if !hidden.is_empty() { targets.push(U256::from(*rng.pick(&hidden))); targets.push(U256::from(*rng.pick(&hidden))); }
        targets.push(U256::from(rng.below(len as u64 + 40)));
        targets.push(rng.u256b());
        let jump_positions: Vec<usize> = (0..len).filter(|&p| code[p] == 0x56).collect();
        let jumpi_positions: Vec<usize> = (0..len).filter(|&p| code[p] == 0x57).collect();
        let mut execs = vec![];
        let mut tags: Vec<String> = vec![shape.into(), if eager { "analysis:eager".into() } else { "analysis:lazy".into() }];
        for t in targets {
            let is_jumpi = rng.chance(1, 2);
            let cond = if !is_jumpi { U256::ZERO } else {
                match rng.below(6) { 0 | 1 => U256::ZERO, 2 => U256::from(1u64), 3 => U256::from(1u64) << 64, 4 => U256::from(1u64) << 255, _ => rng.u256b() }
            };
            let op: u8 = if is_jumpi { 0x57 } else { 0x56 };
            let positions = if is_jumpi { &jumpi_positions } else { &jump_positions };
            let via_run = !positions.is_empty();
            let pc = if via_run { *rng.pick(positions) } else { rng.below(len as u64 + 1) as usize };
            let r = catch(|| {
                let mut interp = Interpreter::new(contract.clone(), 1_000_000, false);
                let mut host = DummyHost::default();
                if is_jumpi { interp.stack.push(cond).unwrap(); }
                interp.stack.push(t).unwrap();
                if via_run {
                    // the opcode byte is in the code: position the interpreter on it and use the real run loop
                    interp.instruction_pointer = unsafe { interp.bytecode.as_ptr().add(pc) };
                    reached.set(None);
                    let action = interp.run(SharedMemory::new(), &boxed, &mut host);
                    match (reached.get(), action) {
                        (Some(p), _) => (0u64, p as u64, interp.stack.len()),
                        (None, InterpreterAction::Return { result }) => (if res_code(result.result) == 1 { 1 } else { 2 }, 0, interp.stack.len()),
                        _ => (2, 0, 0),
                    }
                } else {
                    // call the table entry the way `step` does (pointer already past the opcode)
                    interp.instruction_pointer = unsafe { interp.bytecode.as_ptr().add(pc + 1) };
                    (table[op as usize])(&mut interp, &mut host);
                    let rc = res_code(interp.instruction_result);
                    (rc, if rc == 0 { interp.program_counter() as u64 } else { 0 }, interp.stack.len())
                }
            });
            let (rc, newpc) = match r { Ok((rc, p, sl)) => if sl == 0 { (rc, p) } else { (2, 0) }, Err(_) => (2, 0) };
            tags.push(format!("{}:{}{}", if is_jumpi { "JUMPI" } else { "JUMP" },
                match rc { 0 => if is_jumpi && cond.is_zero() { "fallthrough" } else { "taken" }, 1 => "InvalidJump", _ => "other" },
                if via_run { "" } else { "/direct" }));
            execs.push(format!("mkExec {} {} {} {} {} {}", op, zu(pc as u64), zw(t), zw(cond), rc, zu(newpc)));
        }
        if !hidden.is_empty() { tags.push("has-jumpdest-in-push-data".into()); }
        if !dests.is_empty() { tags.push("has-valid-dest".into()); }
        let case = format!("(mkCase {} {} {} {} {} {} {} {} {})", zbytes(&code), zb(eager), zu(orig_len), zu(padded_len), zu(jt_len),
            zlist(extra.iter().map(|x| zu(*x))), zlist(valid_jt.iter().map(|x| zu(*x))), zlist(valid_contract.iter().map(|x| zu(*x))), zlist(execs.clone()));
        let human = format!("code=0x{} eager={} valid={:?} execs={:?}", revm::primitives::hex::encode(&code), eager, valid_jt, execs);
        let tag_refs: Vec<&str> = tags.iter().map(|s| s.as_str()).collect();
        w.push(case, human, !hidden.is_empty() && !dests.is_empty(), &tag_refs);
    }
    w.finish("legacy byte strings of length 0..600 biased to JUMPDEST / PUSH1..PUSH32 / JUMP / JUMPI (free biased bytes, instruction streams cut at a random length, explicit truncated trailing PUSH, uniform runs, PUSH32 chains); per case the whole jump table (JumpTable::is_valid and Contract::is_valid_jump for every pc in 0..len+40 and 11 large pcs) after eager (to_analysed) or lazy (Contract::new) analysis, and ~10-16 real JUMP/JUMPI executions on a real Interpreter (through Interpreter::run when the opcode byte occurs in the code, else through the instruction table entry) with targets len-1, len, len+32, len+33, 2^32, 2^64, 2^255, valid destinations, valid destinations + k*2^64 / 2^32, JUMPDEST bytes inside push data, random; non-trivial = the code has at least one valid destination and at least one JUMPDEST byte inside push data; distinct = distinct (code, flags, observations)");
}
