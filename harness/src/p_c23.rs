//! C23: every precompile of every PrecompileSpecId is executed through
//! `Precompiles::new(spec).get(&addr)` on generated (input, gas limit) pairs; a subset additionally
//! through a real `Evm` CALL (covers `EvmContext::call_precompile` and the caller's gas accounting).
use crate::util::*;
use revm::precompile::{modexp, u64_to_address, Precompile, PrecompileError, PrecompileErrors, PrecompileSpecId, Precompiles};
use revm::primitives::ruint::Uint;
use revm::primitives::{AccountInfo, Bytecode, Bytes, Env, SpecId, TxKind, U256};
use revm::{inspector_handle_register, Evm, InMemoryDB, Inspector};
use std::path::Path;

type U384 = Uint<384, 6>;

pub const PSPECS: [PrecompileSpecId; 6] = [
    PrecompileSpecId::HOMESTEAD, PrecompileSpecId::BYZANTIUM, PrecompileSpecId::ISTANBUL,
    PrecompileSpecId::BERLIN, PrecompileSpecId::CANCUN, PrecompileSpecId::PRAGUE,
];

#[derive(Clone, Debug, PartialEq)]
pub enum Obs { Absent, Ok(u64, Vec<u8>), Err(u32) }

pub fn err_kind(e: &PrecompileErrors) -> u32 {
    match e {
        PrecompileErrors::Fatal { .. } => 14,
        PrecompileErrors::Error(e) => match e {
            PrecompileError::OutOfGas => 1,
            PrecompileError::Blake2WrongLength => 2,
            PrecompileError::Blake2WrongFinalIndicatorFlag => 3,
            PrecompileError::ModexpExpOverflow => 4,
            PrecompileError::ModexpBaseOverflow => 5,
            PrecompileError::ModexpModOverflow => 6,
            PrecompileError::Bn128FieldPointNotAMember => 7,
            PrecompileError::Bn128AffineGFailedToCreate => 8,
            PrecompileError::Bn128PairLength => 9,
            PrecompileError::BlobInvalidInputLength => 10,
            PrecompileError::BlobMismatchedVersion => 11,
            PrecompileError::BlobVerifyKzgProofFailed => 12,
            PrecompileError::Other(_) => 13,
        },
    }
}

/// The way revm itself reaches a precompile: table of the spec, then the function pointer.
pub fn call(spec: usize, addr: u64, input: &[u8], gas: u64) -> Obs {
    let ps = Precompiles::new(PSPECS[spec]);
    let Some(p) = ps.get(&u64_to_address(addr)) else { return Obs::Absent };
    let inp = Bytes::copy_from_slice(input);
    let env = Env::default();
    let r = catch(|| match p {
        Precompile::Standard(f) => f(&inp, gas),
        Precompile::Env(f) => f(&inp, gas, &env),
        other => other.call_ref(&inp, gas, &env),
    });
    match r {
        Err(_) => Obs::Err(15),
        Ok(Ok(o)) => Obs::Ok(o.gas_used, o.bytes.to_vec()),
        Ok(Err(e)) => Obs::Err(err_kind(&e)),
    }
}

/// bytes as a list of segments: `Zr n` = n zero bytes, `H n 0x..` = n bytes big endian
pub fn segs(b: &[u8]) -> String {
    let mut out: Vec<String> = vec![];
    let mut i = 0;
    while i < b.len() {
        let mut j = i;
        while j < b.len() && b[j] == 0 { j += 1; }
        if j - i >= 6 || (j == b.len() && j > i) { out.push(format!("Zr {}", j - i)); i = j; continue; }
        // a chunk of up to 32 bytes that stops before a long zero run
        let mut k = i;
        let mut zr = 0;
        while k < b.len() && k - i < 32 {
            if b[k] == 0 { zr += 1; if zr >= 6 { k = k + 1 - zr; break; } } else { zr = 0; }
            k += 1;
        }
        if k == i { k = i + 1; }
        let mut s = String::new();
        for x in &b[i..k] { s.push_str(&format!("{:02x}", x)); }
        out.push(format!("H {} 0x{}", k - i, s));
        i = k;
    }
    zlist(out)
}
pub fn obs_coq(o: &Obs) -> String {
    match o {
        Obs::Absent => "OAbsent".into(),
        Obs::Ok(g, b) => format!("(OOk {} {})", zu(*g), segs(b)),
        Obs::Err(k) => format!("(OErr {})", k),
    }
}
fn hexs(b: &[u8]) -> String { let mut s = String::new(); for x in b.iter().take(300) { s.push_str(&format!("{:02x}", x)); } if b.len() > 300 { s.push_str(&format!("..({} bytes)", b.len())); } s }

struct Case { spec: usize, addr: u64, input: Vec<u8>, gas: u64, tags: Vec<String>, evm: bool }

fn be32(x: U256) -> [u8; 32] { x.to_be_bytes::<32>() }
fn u256_rand(rng: &mut Rng) -> U256 { U256::from_limbs([rng.next(), rng.next(), rng.next(), rng.next()]) }

// ---------------------------------------------------------------- curve helpers (generation only)
fn bn_p() -> U256 { U256::from_str_radix("21888242871839275222246405745257275088696311157297823662689037894645226208583", 10).unwrap() }
fn secp_n() -> U256 { U256::from_str_radix("fffffffffffffffffffffffffffffffebaaedce6af48a03bbfd25e8cd0364141", 16).unwrap() }
fn secp_p() -> U256 { U256::from_str_radix("fffffffffffffffffffffffffffffffffffffffffffffffffffffffefffffc2f", 16).unwrap() }
/// a random point of y^2 = x^3 + 3 over the BN254 base field (p = 3 mod 4)
fn bn_point(rng: &mut Rng) -> (U256, U256) {
    let p = bn_p();
    loop {
        let x = if rng.chance(1, 6) { U256::from(rng.below(20)) } else { u256_rand(rng) % p };
        let rhs = x.mul_mod(x, p).mul_mod(x, p).add_mod(U256::from(3u64), p);
        let e = (p + U256::from(1u64)) >> 2;
        let y = rhs.pow_mod(e, p);
        if y.mul_mod(y, p) == rhs { return (x, if rng.chance(1, 2) { y } else { (p - y) % p }); }
    }
}
fn bls_p() -> U384 { U384::from_str_radix("1a0111ea397fe69a4b1ba7b6434bacd764774b84f38512bf6730d2a0f6b0f6241eabfffeb153ffffb9feffffffffaaab", 16).unwrap() }
fn fp64(x: U384) -> Vec<u8> { let mut v = vec![0u8; 16]; v.extend_from_slice(&x.to_be_bytes::<48>()); v }
/// a random point of y^2 = x^3 + 4 over the BLS12-381 base field: on the curve, almost surely NOT in G1
fn bls_curve_point(rng: &mut Rng) -> (U384, U384) {
    let p = bls_p();
    loop {
        let x = U384::from_limbs([rng.next(), rng.next(), rng.next(), rng.next(), rng.next(), rng.next() >> 4]) % p;
        let rhs = x.mul_mod(x, p).mul_mod(x, p).add_mod(U384::from(4u64), p);
        let e = (p + U384::from(1u64)) >> 2;
        let y = rhs.pow_mod(e, p);
        if y.mul_mod(y, p) == rhs { return (x, y); }
    }
}

fn gas_choice(rng: &mut Rng, g: u64) -> u64 {
    match rng.below(10) {
        0 | 1 | 2 => g,
        3 | 4 => g.wrapping_sub(1),
        5 => g.saturating_add(1),
        6 => 0,
        7 => u64::MAX,
        8 => if g > 0 { rng.below(g) } else { 0 },
        _ => g.saturating_add(rng.below(100_000)),
    }
}

fn gen_cases(o: &Opts, rng: &mut Rng) -> Vec<Case> {
    let mut cs: Vec<Case> = vec![];
    let scale = if o.thorough() { 10 } else { 1 };
    let mut push = |spec: usize, addr: u64, input: Vec<u8>, gas: u64, tag: &str, evm: bool| {
        cs.push(Case { spec, addr, input, gas, tags: vec![tag.to_string()], evm });
    };
    // learn the cost with an unlimited call, then pick the limit around it
    macro_rules! around { ($spec:expr, $addr:expr, $input:expr, $tag:expr, $n:expr) => {{
        let input: Vec<u8> = $input;
        let g = match call($spec, $addr, &input, u64::MAX) { Obs::Ok(g, _) => g, _ => rng.below(100_000) };
        push($spec, $addr, input.clone(), g, $tag, rng.chance(1, 12));
        for _ in 0..$n { let gl = gas_choice(rng, g); if gl != g { push($spec, $addr, input.clone(), gl, $tag, rng.chance(1, 12)); } }
    }}; }

    // ---- identity / sha256 / ripemd160
    let lens = [0usize, 1, 2, 31, 32, 33, 54, 55, 56, 57, 63, 64, 65, 95, 96, 118, 119, 120, 127, 128, 129, 191, 192, 193, 255, 256, 257];
    for addr in [2u64, 3, 4] {
        for i in 0..(50 * scale) {
            let n = if i < lens.len() { lens[i] } else if rng.chance(1, 10) { rng.range(300, 1500) as usize } else { rng.range(0, 260) as usize };
            let input = match rng.below(6) { 0 => vec![0u8; n], 1 => vec![0xff; n], _ => rng.bytes(n) };
            let spec = rng.below(6) as usize;
            around!(spec, addr, input, ["", "", "sha256", "ripemd160", "identity"][addr as usize], 1);
        }
    }

    // ---- modexp
    for i in 0..(260 * scale) {
        let spec = *rng.pick(&[1usize, 1, 2, 3, 3, 3, 4, 5]);
        let berlin = spec >= 3;
        let small = |rng: &mut Rng| -> u64 { match rng.below(8) { 0 => 0, 1 => 1, 2 => *rng.pick(&[2u64, 3, 7, 8, 9, 31, 32, 33]), 3 => rng.range(0, 40), _ => rng.range(0, 12) } };
        if i % 5 == 4 {
            // huge / overflowing lengths in the header; the limit is kept below every possible cost
            let huge = |rng: &mut Rng| -> U256 {
                let one = U256::from(1u64);
                match rng.below(12) {
                    0 => U256::from(257u64), 1 => U256::from(65536u64), 2 => U256::from(u32::MAX), 3 => one << 32,
                    4 => one << 63, 5 => U256::from(u64::MAX), 6 => one << 64, 7 => (one << 64) + one,
                    8 => one << 128, 9 => one << 255, 10 => U256::MAX, _ => U256::from(rng.range(257, 1 << 20)),
                }
            };
            let mut l = [U256::from(small(rng)), U256::from(small(rng)), U256::from(small(rng))];
            let k = rng.below(7);
            for j in 0..3 { if k == j || (k >= 3 && rng.chance(1, 2)) { l[j as usize] = huge(rng); } }
            if rng.chance(1, 4) { l[0] = U256::ZERO; l[2] = U256::ZERO; } // the early-return special case
            let mut input = vec![];
            for x in l { input.extend_from_slice(&be32(x)); }
            let extra = rng.range(0, 70) as usize; input.extend(rng.bytes(extra));
            if rng.chance(1, 8) { let t = rng.below(input.len() as u64 + 1) as usize; input.truncate(t); }
            // re-read the header as the precompile will see it (right padded)
            let hdr = |k: usize| { let mut w = [0u8; 32]; for j in 0..32 { if let Some(b) = input.get(32 * k + j) { w[j] = *b; } } U256::from_be_bytes(w) };
            let big = (0..3).any(|k| hdr(k) > U256::from(256u64));
            let gas = if big { *rng.pick(&[0u64, 1, 50, 89, if berlin { 199 } else { 88 }, if berlin { 200 } else { 60 }, if berlin { 350 } else { 89 }]) } else { rng.below(100_000) };
            push(spec, 5, input, gas, "modexp:huge-header", false);
            continue;
        }
        let (mut bl, mut el, mut ml) = (small(rng), small(rng), small(rng));
        if rng.chance(1, 10) { bl = *rng.pick(&[64u64, 65, 100, 128, 200, 256]); }
        if rng.chance(1, 10) { ml = *rng.pick(&[64u64, 65, 100, 128, 200]); }
        if rng.chance(1, 8) { el = rng.range(33, 70); }
        let field = |rng: &mut Rng, n: u64| -> Vec<u8> {
            let n = n as usize;
            let mut v = match rng.below(8) { 0 => vec![0u8; n], 1 => { let mut v = vec![0u8; n]; if n > 0 { v[n - 1] = 1; } v } 2 => vec![0xff; n],
                3 => { let mut v = vec![0u8; n]; if n > 0 { v[n - 1] = *rng.pick(&[2u8, 3, 4, 5, 16, 17]); } v }
                4 => { let mut v = vec![0u8; n]; if n > 0 { let k = rng.below(n as u64) as usize; v[k] = 1 << rng.below(8); } v }
                _ => rng.bytes(n) };
            if n > 2 && rng.chance(1, 5) { let z = rng.below(n as u64) as usize; for b in v.iter_mut().take(z) { *b = 0; } }
            v
        };
        let base = field(rng, bl);
        let mut exp = field(rng, el);
        let modu = field(rng, ml);
        // keep the cost of evaluating the model inside Coq bounded: exp_bits * mod_len^2 <= 20000
        let budget_bits = (20000 / ((ml * ml).max(1))).max(1) as usize;
        let gas_only = rng.chance(1, 4);
        if !gas_only {
            let total = exp.len() * 8;
            if total > budget_bits {
                // clear high-order bits (keeps exp_len; iteration count then depends on the remaining bits)
                let keep = budget_bits; let clear = total - keep;
                for b in 0..clear { exp[b / 8] &= !(0x80u8 >> (b % 8)); }
            }
        }
        let mut input = vec![];
        for x in [bl, el, ml] { input.extend_from_slice(&be32(U256::from(x))); }
        input.extend(&base); input.extend(&exp); input.extend(&modu);
        if rng.chance(1, 5) { let t = rng.below(input.len() as u64 + 1) as usize; input.truncate(t); }
        else if rng.chance(1, 8) { let extra = rng.range(1, 40) as usize; input.extend(rng.bytes(extra)); }
        let g = match call(spec, 5, &input, u64::MAX) { Obs::Ok(g, _) => g, _ => 0 };
        if gas_only {
            push(spec, 5, input, g.wrapping_sub(1), "modexp:oog-boundary", false);
        } else {
            let gl = match rng.below(6) { 0 => g.saturating_add(1), 1 => u64::MAX, 2 => g.saturating_add(rng.below(1000)), _ => g };
            push(spec, 5, input.clone(), gl, "modexp:value", rng.chance(1, 12));
            if rng.chance(1, 3) { push(spec, 5, input, if rng.chance(1, 2) { g.wrapping_sub(1) } else { rng.below(g + 1) }, "modexp:oog-boundary", false); }
        }
    }

    // ---- blake2f
    for i in 0..(90 * scale) {
        let spec = *rng.pick(&[2usize, 3, 4, 5]);
        let mut input = rng.bytes(213);
        let rounds: u32 = match rng.below(10) { 0 => 0, 1 => 1, 2 => 12, 3 => 10, 4 => rng.range(0, 100) as u32, _ => rng.range(0, 16) as u32 };
        input[..4].copy_from_slice(&rounds.to_be_bytes());
        input[212] = match rng.below(8) { 0 => 2, 1 => 255, 2 | 3 | 4 => 0, _ => 1 };
        if rng.chance(1, 6) { for b in input[4..212].iter_mut() { *b = 0; } }
        match i % 9 {
            0 => { let n = *rng.pick(&[0usize, 1, 212, 214, 4, 100, 426]); input = rng.bytes(n); around!(spec, 9, input, "blake2f:bad-length", 1); }
            1 => { // huge round count: only ever called with a limit below it
                let r = *rng.pick(&[u32::MAX, 1 << 31, 1_000_000, 65536]);
                input[..4].copy_from_slice(&r.to_be_bytes());
                let gl = *rng.pick(&[0u64, 1, 1000, r as u64 - 1]);
                push(spec, 9, input, gl, "blake2f:huge-rounds-oog", false);
            }
            _ => {
                let r = rounds as u64;
                push(spec, 9, input.clone(), r, "blake2f", rng.chance(1, 10));
                let gl = *rng.pick(&[r.wrapping_sub(1), r + 1, 0, u64::MAX, r + 5000]);
                push(spec, 9, input, gl, "blake2f", false);
            }
        }
    }

    // ---- ecrecover
    let n = secp_n();
    let p = secp_p();
    for i in 0..(110 * scale) {
        let spec = rng.below(6) as usize;
        let heavy = i % 4 == 0; // a proper recovery costs seconds inside Coq
        let mut z = match rng.below(8) { 0 => U256::ZERO, 1 => n, 2 => U256::MAX, _ => u256_rand(rng) };
        let mut r = u256_rand(rng) % n;
        let mut s = u256_rand(rng) % n;
        let mut v = [0u8; 32]; v[31] = 27 + rng.below(2) as u8;
        let mut tag = "ecrecover:random-rs";
        if !heavy {
            match rng.below(14) {
                0 => { r = U256::ZERO; tag = "ecrecover:r=0"; }
                1 => { s = U256::ZERO; tag = "ecrecover:s=0"; }
                2 => { r = n + U256::from(rng.below(3)); tag = "ecrecover:r>=n"; }
                3 => { s = n + U256::from(rng.below(3)); tag = "ecrecover:s>=n"; }
                4 => { r = p + U256::from(rng.below(3)) - U256::from(1u64); tag = "ecrecover:r~p"; }
                5 => { r = U256::MAX; s = U256::MAX; tag = "ecrecover:rs-max"; }
                6 => { v[31] = *rng.pick(&[0u8, 1, 26, 29, 30, 255]); tag = "ecrecover:bad-v"; }
                7 => { let k = rng.below(31) as usize; v[k] = 1 + rng.below(255) as u8; tag = "ecrecover:v-garbage-high-bytes"; }
                8 => { v = [0xff; 32]; tag = "ecrecover:v-garbage-high-bytes"; }
                9 => { z = u256_rand(rng); tag = "ecrecover:short-input"; }
                10 => { s = n - U256::from(1u64 + rng.below(3)); tag = "ecrecover:s=n-k"; }
                11 => { r = U256::from(1u64 + rng.below(8)); tag = "ecrecover:small-r"; }
                12 => { s = (n >> 1) + U256::from(rng.below(3)); tag = "ecrecover:s~n/2"; }
                _ => { r = n - U256::from(1u64 + rng.below(3)); tag = "ecrecover:r=n-k"; }
            }
        } else if rng.chance(1, 3) { s = n - (s >> 3) - U256::from(1u64); tag = "ecrecover:high-s"; }
        let mut input = vec![];
        input.extend_from_slice(&be32(z)); input.extend_from_slice(&v); input.extend_from_slice(&be32(r)); input.extend_from_slice(&be32(s));
        if tag == "ecrecover:short-input" { let t = *rng.pick(&[0usize, 1, 32, 63, 64, 65, 96, 127]); input.truncate(t); }
        else if rng.chance(1, 10) { let e = rng.range(1, 40) as usize; input.extend(rng.bytes(e)); }
        let gas = match rng.below(8) { 0 => 2999, 1 => 0, 2 => 3001, 3 => u64::MAX, _ => 3000 };
        push(spec, 1, input, gas, tag, rng.chance(1, 12));
    }
    // the vector of the repository's benchmark / go-ethereum
    {
        let input = revm::primitives::hex::decode("18c547e4f7b0f325ad1e56f57e26c745b09a3e503d86e00e5255ff7f715d3d1c000000000000000000000000000000000000000000000000000000000000001c73b1693892219d736caba55bdb67216e485557ea6b6af75f37096c9aa6a5a75feeb940b1d03b21e36b0e47e79769f095fe2ab855bd91e3a38756b7d75a9c4549").unwrap();
        push(3, 1, input, 3000, "ecrecover:known-vector", true);
    }

    // ---- bn254 add / mul
    let bnp = bn_p();
    let bad_coord = |rng: &mut Rng, x: U256| -> U256 { match rng.below(5) { 0 => bnp, 1 => bnp + U256::from(1u64), 2 => U256::MAX, 3 => x.wrapping_add(bnp), _ => bnp + U256::from(rng.next()) } };
    let pt_bytes = |pt: (U256, U256)| -> Vec<u8> { let mut v = be32(pt.0).to_vec(); v.extend_from_slice(&be32(pt.1)); v };
    for i in 0..(150 * scale) {
        let spec = *rng.pick(&[1usize, 1, 2, 2, 3, 4, 5]);
        let a = bn_point(rng);
        let b = match rng.below(6) { 0 => a, 1 => (a.0, (bnp - a.1) % bnp), 2 => (U256::ZERO, U256::ZERO), _ => bn_point(rng) };
        let a = if rng.chance(1, 10) { (U256::ZERO, U256::ZERO) } else if rng.chance(1, 10) { (U256::from(1u64), U256::from(2u64)) } else { a };
        let mut input = pt_bytes(a); input.extend(pt_bytes(b));
        let mut tag = "bn-add:valid";
        match i % 6 {
            4 => { let k = rng.below(4) as usize; let w = U256::from_be_slice(&input[32 * k..32 * k + 32]); input[32 * k..32 * k + 32].copy_from_slice(&be32(bad_coord(rng, w))); tag = "bn-add:coord>=p"; }
            5 => { let k = rng.below(4) as usize; let w = U256::from_be_slice(&input[32 * k..32 * k + 32]); input[32 * k..32 * k + 32].copy_from_slice(&be32(w.add_mod(U256::from(1u64 + rng.below(5)), bnp))); tag = "bn-add:off-curve"; }
            _ => {}
        }
        if rng.chance(1, 8) { let t = rng.below(129) as usize; input.truncate(t); tag = "bn-add:truncated"; }
        else if rng.chance(1, 10) { let e = rng.range(1, 40) as usize; input.extend(rng.bytes(e)); }
        around!(spec, 6, input, tag, 1);
    }
    for i in 0..(110 * scale) {
        let spec = *rng.pick(&[1usize, 1, 2, 2, 3, 4, 5]);
        let a = if rng.chance(1, 10) { (U256::ZERO, U256::ZERO) } else if rng.chance(1, 5) { (U256::from(1u64), U256::from(2u64)) } else { bn_point(rng) };
        let bn_n = U256::from_str_radix("21888242871839275222246405745257275088548364400416034343698204186575808495617", 10).unwrap();
        // full-size scalars cost ~10 s each inside Coq: one case in ten
        let k = if i % 10 == 0 { match rng.below(5) { 0 => bn_n, 1 => bn_n - U256::from(1u64), 2 => U256::MAX, 3 => bn_n + U256::from(1u64), _ => u256_rand(rng) } }
            else { match rng.below(12) { 0 => U256::ZERO, 1 => U256::from(1u64), 2 => U256::from(2u64), 3 => U256::from(3u64), 4 => U256::from(rng.below(1 << 20)),
            5 => U256::from(rng.next() >> 24), _ => U256::from(rng.below(1 << 16)) } };
        let mut input = pt_bytes(a); input.extend_from_slice(&be32(k));
        let mut tag = "bn-mul:valid";
        match i % 7 {
            5 => { let j = rng.below(2) as usize; let w = U256::from_be_slice(&input[32 * j..32 * j + 32]); input[32 * j..32 * j + 32].copy_from_slice(&be32(bad_coord(rng, w))); tag = "bn-mul:coord>=p"; }
            6 => { let j = rng.below(2) as usize; let w = U256::from_be_slice(&input[32 * j..32 * j + 32]); input[32 * j..32 * j + 32].copy_from_slice(&be32(w.add_mod(U256::from(1u64 + rng.below(5)), bnp))); tag = "bn-mul:off-curve"; }
            _ => {}
        }
        if rng.chance(1, 8) { let t = rng.below(97) as usize; input.truncate(t); tag = "bn-mul:truncated"; }
        else if rng.chance(1, 10) { let e = rng.range(1, 40) as usize; input.extend(rng.bytes(e)); }
        around!(spec, 7, input, tag, 1);
    }

    // ---- bn254 pairing (value opaque)
    let pair_vec = revm::primitives::hex::decode("1c76476f4def4bb94541d57ebba1193381ffa7aa76ada664dd31c16024c43f593034dd2920f673e204fee2811c678745fc819b55d3e9d294e45c9b03a76aef41209dd15ebff5d46c4bd888e51a93cf99a7329636c63514396b4a452003a35bf704bf11ca01483bfa8b34b43561848d28905960114c8ac04049af4b6315a416782bb8324af6cfc93537a2ad1a445cfd0ca2a71acd7ac41fadbf933c2a51be344d120a2a4cf30c1bf9845f20c6fe39e07ea2cce61f0c9bb048165fe5e4de877550111e129f1cf1097710d41c4ac70fcdfa5ba2023c6ff1cbeac322de49d1b6df7c2032c61a830e3c17286de9462bf242fca2883585b93870a73853face6a6bf411198e9393920d483a7260bfb731fb5d25f1aa493335a9e71297e485b7aef312c21800deef121f1e76426a00665e5c4479674322d4f75edadd46debd5cd992f6ed090689d0585ff075ec9e99ad690c3395bc4b313370b38ef355acdadcd122975b12c85ea5db8c6deb4aab71808dcb408fe3d1e7690c43d37b4ce6cc0166fa7daa").unwrap();
    let g2gen = pair_vec[192 + 64..384].to_vec();
    for i in 0..(70 * scale) {
        let spec = *rng.pick(&[1usize, 1, 2, 2, 3, 4, 5]);
        let mut tag = "bn-pair:shipped-vector";
        let mut input: Vec<u8> = match i % 11 {
            0 => pair_vec.clone(),
            1 => { tag = "bn-pair:empty"; vec![] }
            2 => { tag = "bn-pair:P,-P with one G2 (true)"; let a = bn_point(rng); let mut v = pt_bytes(a); v.extend(&g2gen); v.extend(pt_bytes((a.0, (bnp - a.1) % bnp))); v.extend(&g2gen); v }
            3 => { tag = "bn-pair:single pair (false)"; let a = bn_point(rng); let mut v = pt_bytes(a); v.extend(&g2gen); v }
            4 => { tag = "bn-pair:infinity pairs"; let k = rng.range(1, 4); let mut v = vec![]; for _ in 0..k { if rng.chance(1, 2) { v.extend(vec![0u8; 64]); v.extend(&g2gen); } else { v.extend(pt_bytes(bn_point(rng))); v.extend(vec![0u8; 128]); } } v }
            5 => { tag = "bn-pair:bad-length"; let n = *rng.pick(&[1usize, 64, 191, 193, 383, 385, 200]); let mut v = pair_vec.clone(); v.truncate(n.min(384)); if n > 384 { v.push(0); } v }
            6 => { tag = "bn-pair:coord>=p"; let mut v = pair_vec.clone(); let k = rng.below(12) as usize; let w = U256::from_be_slice(&v[32 * k..32 * k + 32]); v[32 * k..32 * k + 32].copy_from_slice(&be32(bad_coord(rng, w))); v }
            7 => { tag = "bn-pair:g1-off-curve"; let mut v = pair_vec.clone(); let k = 6 * rng.below(2) as usize + rng.below(2) as usize; let w = U256::from_be_slice(&v[32 * k..32 * k + 32]); v[32 * k..32 * k + 32].copy_from_slice(&be32(w.add_mod(U256::from(1u64), bnp))); v }
            8 => { tag = "bn-pair:g2-garbage"; let mut v = pair_vec.clone(); let k = 2 + 6 * rng.below(2) as usize + rng.below(4) as usize; let w = U256::from_be_slice(&v[32 * k..32 * k + 32]); v[32 * k..32 * k + 32].copy_from_slice(&be32(w.add_mod(U256::from(1u64 + rng.below(9)), bnp))); v }
            9 => { // EIP-197: every element of the input must be a valid point, also next to the point at infinity
                tag = "bn-pair:infinity G1 with invalid G2";
                let mut v = vec![];
                if rng.chance(1, 2) { v.extend(pt_bytes(bn_point(rng))); v.extend(&g2gen); }
                v.extend(vec![0u8; 64]);
                let mut g2 = g2gen.clone();
                if rng.chance(1, 2) { for b in g2.iter_mut() { *b = 0x11; } } else { let k = rng.below(4) as usize; let w = U256::from_be_slice(&g2[32 * k..32 * k + 32]); g2[32 * k..32 * k + 32].copy_from_slice(&be32(w.add_mod(U256::from(1u64 + rng.below(9)), bnp))); }
                v.extend(&g2);
                if rng.chance(1, 2) { v.extend(pt_bytes(bn_point(rng))); v.extend(&g2gen); }
                v }
            _ => { tag = "bn-pair:mixed"; let mut v = vec![]; for _ in 0..rng.range(1, 3) { v.extend(pt_bytes(bn_point(rng))); v.extend(&g2gen); } v }
        };
        if rng.chance(1, 12) { input.extend(vec![0u8; 192]); }
        around!(spec, 8, input, tag, 1);
    }

    // ---- KZG point evaluation (verification opaque)
    let commitment = revm::primitives::hex::decode("8f59a8d2a1a625a17f3fea0fe5eb8c896db3764f3185481bc22f91b4aaffcca25f26936857bc3a7c2539ea8ec3a952b7").unwrap();
    let kz = revm::primitives::hex::decode("73eda753299d7d483339d80809a1d80553bda402fffe5bfeffffffff00000000").unwrap();
    let ky = revm::primitives::hex::decode("1522a4a7f34e1ea350ae07c29c96c7e79655aa926122e95fe69fcbd932ca49e9").unwrap();
    let kproof = revm::primitives::hex::decode("a62ad71d14c5719385c0686f1871430475bf3a00f0aa3f7b8dd99a9abc2160744faf0070725e00b60ad9a026a15b1a8c").unwrap();
    let vhash = |c: &[u8]| -> Vec<u8> { revm::precompile::kzg_point_evaluation::kzg_to_versioned_hash(c).to_vec() };
    for i in 0..(48 * scale) {
        let spec = *rng.pick(&[4usize, 5]);
        let (mut c, mut z, mut y, mut pr) = (commitment.clone(), kz.clone(), ky.clone(), kproof.clone());
        let mut vh = vhash(&c);
        let mut tag = "kzg:valid-vector";
        match i % 12 {
            0 => {}
            1 => { vh[0] = *rng.pick(&[0u8, 2, 0xff]); tag = "kzg:wrong-version-byte"; }
            2 => { let k = rng.range(1, 31) as usize; vh[k] ^= 1 << rng.below(8); tag = "kzg:wrong-hash"; }
            3 => { let k = rng.below(32) as usize; y[k] ^= 1 << rng.below(8); if y[0] >= 0x73 { y[0] = 0x10; } tag = "kzg:wrong-y"; }
            4 => { z = revm::primitives::hex::decode("73eda753299d7d483339d80809a1d80553bda402fffe5bfeffffffff00000001").unwrap(); tag = "kzg:z-noncanonical"; }
            5 => { y = vec![0xff; 32]; tag = "kzg:y-noncanonical"; }
            6 => { let k = rng.below(48) as usize; pr[k] ^= 1 << rng.below(8); tag = "kzg:proof-mutated"; }
            7 => { let k = rng.below(48) as usize; c[k] ^= 1 << rng.below(8); vh = vhash(&c); tag = "kzg:commitment-mutated-hash-recomputed"; }
            8 => { let k = rng.below(48) as usize; c[k] ^= 1 << rng.below(8); tag = "kzg:commitment-mutated"; }
            9 => { z = be32(U256::from(rng.below(1000))).to_vec(); tag = "kzg:other-z"; }
            10 => { c = { let mut v = vec![0u8; 48]; v[0] = 0xc0; v }; pr = c.clone(); vh = vhash(&c); z = be32(U256::from(rng.below(1000))).to_vec(); y = vec![0u8; 32]; tag = "kzg:infinity-commitment-and-proof"; }
            _ => { tag = "kzg:bad-length"; }
        }
        let mut input = vh; input.extend(&z); input.extend(&y); input.extend(&c); input.extend(&pr);
        if tag == "kzg:bad-length" { let n = *rng.pick(&[0usize, 1, 191, 193, 96, 384]); input.resize(n, 0); }
        let gas = match rng.below(8) { 0 => 49_999, 1 => 0, 2 => 50_001, 3 => u64::MAX, _ => 50_000 };
        push(spec, 10, input, gas, tag, rng.chance(1, 8));
    }

    // ---- BLS12-381 (group operations opaque)
    let blsp = bls_p();
    let g1_of = |rng: &mut Rng| -> Vec<u8> { // a point of the subgroup G1, through the map precompile
        let fp = U384::from_limbs([rng.next(), rng.next(), rng.next(), rng.next(), rng.next(), rng.next() >> 4]) % blsp;
        match call(5, 16, &fp64(fp), u64::MAX) { Obs::Ok(_, b) => b, _ => vec![0u8; 128] }
    };
    let g2_of = |rng: &mut Rng| -> Vec<u8> {
        let a = U384::from_limbs([rng.next(), rng.next(), rng.next(), rng.next(), rng.next(), rng.next() >> 4]) % blsp;
        let b = U384::from_limbs([rng.next(), rng.next(), rng.next(), rng.next(), rng.next(), rng.next() >> 4]) % blsp;
        let mut i = fp64(a); i.extend(fp64(b));
        match call(5, 17, &i, u64::MAX) { Obs::Ok(_, b) => b, _ => vec![0u8; 256] }
    };
    let neg_g1 = |pt: &[u8]| -> Vec<u8> { let y = U384::from_be_slice(&pt[80..128]); let mut v = pt[..64].to_vec(); v.extend(fp64(if y.is_zero() { y } else { blsp - y })); v };
    // malformations of one 64-byte field element at position k
    let mangle = |rng: &mut Rng, v: &mut Vec<u8>, nfe: usize| -> &'static str {
        let k = rng.below(nfe as u64) as usize * 64;
        match rng.below(4) {
            0 => { v[k + rng.below(16) as usize] = 1 + rng.below(255) as u8; "padding-nonzero" }
            1 => { v[k + 16..k + 64].copy_from_slice(&blsp.to_be_bytes::<48>()); "fe=p" }
            2 => { v[k + 16..k + 64].copy_from_slice(&[0xff; 48]); "fe>p" }
            _ => { let x = U384::from_be_slice(&v[k + 16..k + 64]); v[k + 16..k + 64].copy_from_slice(&x.add_mod(U384::from(1u64 + rng.below(7)), blsp).to_be_bytes::<48>()); "off-curve" }
        }
    };
    for i in 0..(30 * scale) {
        // G1ADD
        let a = if rng.chance(1, 8) { vec![0u8; 128] } else if rng.chance(1, 6) { let q = bls_curve_point(rng); let mut v = fp64(q.0); v.extend(fp64(q.1)); v } else { g1_of(rng) };
        let b = match rng.below(6) { 0 => a.clone(), 1 => neg_g1(&a), 2 => vec![0u8; 128], _ => g1_of(rng) };
        let mut input = a; input.extend(b);
        let mut tag = "bls-g1add:valid".to_string();
        if i % 3 == 2 { tag = format!("bls-g1add:{}", mangle(rng, &mut input, 4)); }
        if rng.chance(1, 10) { let n = *rng.pick(&[0usize, 255, 257, 128, 512]); input.resize(n, 0); tag = "bls-g1add:bad-length".into(); }
        around!(5, 11, input, &tag, 1);
        // G2ADD
        let a = if rng.chance(1, 8) { vec![0u8; 256] } else { g2_of(rng) };
        let b = match rng.below(5) { 0 => a.clone(), 1 => vec![0u8; 256], _ => g2_of(rng) };
        let mut input = a; input.extend(b);
        let mut tag = "bls-g2add:valid".to_string();
        if i % 3 == 2 { tag = format!("bls-g2add:{}", mangle(rng, &mut input, 8)); }
        if rng.chance(1, 10) { let n = *rng.pick(&[0usize, 511, 513, 256]); input.resize(n, 0); tag = "bls-g2add:bad-length".into(); }
        around!(5, 13, input, &tag, 1);
        // G1MSM / G2MSM
        for g2 in [false, true] {
            let k = match rng.below(6) { 0 => 1, 1 => 2, 2 => 3, 3 => rng.range(1, 6), _ => 1 } as usize;
            let mut input = vec![];
            let mut tag = if g2 { "bls-g2msm:valid".to_string() } else { "bls-g1msm:valid".to_string() };
            for _ in 0..k {
                let pt = if rng.chance(1, 5) { vec![0u8; if g2 { 256 } else { 128 }] } else if g2 { g2_of(rng) } else { g1_of(rng) };
                input.extend(pt);
                input.extend(match rng.below(5) { 0 => vec![0u8; 32], 1 => vec![0xff; 32], 2 => be32(U256::from(rng.below(100))).to_vec(), _ => rng.bytes(32) });
            }
            match i % 5 {
                3 => { let nfe = if g2 { 4 } else { 2 }; let mut first = input[..nfe * 64].to_vec(); let m = mangle(rng, &mut first, nfe); input[..nfe * 64].copy_from_slice(&first); tag = format!("bls-{}msm:{}", if g2 { "g2" } else { "g1" }, m); }
                4 if !g2 => { let q = bls_curve_point(rng); let mut v = fp64(q.0); v.extend(fp64(q.1)); input[..128].copy_from_slice(&v); tag = "bls-g1msm:on-curve-not-in-subgroup".into(); }
                _ => {}
            }
            if rng.chance(1, 10) { let n = input.len() + *rng.pick(&[1usize, 31, 159]); input.resize(n, 0); tag = format!("bls-{}msm:bad-length", if g2 { "g2" } else { "g1" }); }
            if rng.chance(1, 20) { input = vec![]; tag = format!("bls-{}msm:empty", if g2 { "g2" } else { "g1" }); }
            around!(5, if g2 { 14 } else { 12 }, input, &tag, 1);
        }
        // pairing
        let p1 = g1_of(rng); let q = g2_of(rng);
        let mut input = vec![];
        let mut tag = "bls-pairing:P,Q,-P,Q (true)".to_string();
        match i % 6 {
            0 => { input.extend(&p1); input.extend(&q); input.extend(neg_g1(&p1)); input.extend(&q); }
            1 => { input.extend(&p1); input.extend(&q); tag = "bls-pairing:single (false)".into(); }
            2 => { input.extend(vec![0u8; 128]); input.extend(&q); input.extend(&p1); input.extend(vec![0u8; 256]); tag = "bls-pairing:infinity pairs".into(); }
            3 => { input.extend(&p1); input.extend(&q); let m = mangle(rng, &mut input, 6); tag = format!("bls-pairing:{}", m); }
            4 => { let c = bls_curve_point(rng); input.extend(fp64(c.0)); input.extend(fp64(c.1)); input.extend(&q); tag = "bls-pairing:g1-not-in-subgroup".into(); }
            _ => { input.extend(&p1); input.extend(&q); let n = *rng.pick(&[0usize, 383, 385, 128]); input.resize(n, 0); tag = "bls-pairing:bad-length".into(); }
        }
        around!(5, 15, input, &tag, 1);
        // maps
        let fe = U384::from_limbs([rng.next(), rng.next(), rng.next(), rng.next(), rng.next(), rng.next() >> 4]) % blsp;
        let mut input = fp64(if rng.chance(1, 8) { U384::ZERO } else if rng.chance(1, 8) { blsp - U384::from(1u64) } else { fe });
        let mut tag = "bls-map-fp:valid".to_string();
        if i % 4 == 3 { let m = mangle(rng, &mut input, 1); tag = format!("bls-map-fp:{}", m); if m == "off-curve" { tag = "bls-map-fp:valid".into(); } }
        if rng.chance(1, 10) { let n = *rng.pick(&[0usize, 63, 65, 48, 128]); input.resize(n, 0); tag = "bls-map-fp:bad-length".into(); }
        around!(5, 16, input, &tag, 1);
        let mut input = fp64(fe); input.extend(fp64(U384::from(rng.next())));
        let mut tag = "bls-map-fp2:valid".to_string();
        if i % 4 == 3 { let m = mangle(rng, &mut input, 2); tag = format!("bls-map-fp2:{}", m); if m == "off-curve" { tag = "bls-map-fp2:valid".into(); } }
        if rng.chance(1, 10) { let n = *rng.pick(&[0usize, 127, 129, 64, 256]); input.resize(n, 0); tag = "bls-map-fp2:bad-length".into(); }
        around!(5, 17, input, &tag, 1);
    }

    // ---- addresses that are not precompiles in a spec
    for spec in 0..6usize {
        for addr in [0u64, 1, 4, 5, 8, 9, 10, 11, 17, 18, 0x100] {
            let present = Precompiles::new(PSPECS[spec]).contains(&u64_to_address(addr));
            if !present { push(spec, addr, rng.bytes(8), 100_000, "absent", false); }
        }
    }
    cs
}

// ---------------------------------------------------------------- through a real Evm
#[derive(Default)]
struct CallProbe { about_to_call: bool, after_call_insn: Option<u64>, passed: Option<u64>, ended: bool, next_step: Option<(u64, U256)>, out: Vec<u8>, class: u32 }
impl<DB: revm::Database> Inspector<DB> for CallProbe {
    fn step(&mut self, interp: &mut revm::interpreter::Interpreter, _c: &mut revm::EvmContext<DB>) {
        if self.ended && self.next_step.is_none() {
            self.next_step = Some((interp.gas.remaining(), interp.stack.peek(0).unwrap_or(U256::MAX)));
        }
        self.about_to_call = interp.current_opcode() == 0xF1 && self.passed.is_none();
    }
    fn step_end(&mut self, interp: &mut revm::interpreter::Interpreter, _c: &mut revm::EvmContext<DB>) {
        if self.about_to_call && self.after_call_insn.is_none() { self.after_call_insn = Some(interp.gas.remaining()); }
    }
    fn call(&mut self, _c: &mut revm::EvmContext<DB>, inputs: &mut revm::interpreter::CallInputs) -> Option<revm::interpreter::CallOutcome> {
        if self.about_to_call && self.passed.is_none() { self.passed = Some(inputs.gas_limit); }
        None
    }
    fn call_end(&mut self, _c: &mut revm::EvmContext<DB>, _i: &revm::interpreter::CallInputs, outcome: revm::interpreter::CallOutcome) -> revm::interpreter::CallOutcome {
        if self.passed.is_some() && !self.ended {
            self.ended = true;
            self.out = outcome.result.output.to_vec();
            use revm::interpreter::InstructionResult as R;
            self.class = match outcome.result.result { R::Return => 0, R::PrecompileOOG => 1, R::PrecompileError => 2, _ => 9 };
        }
        outcome
    }
}

const EVM_SPECS: [(SpecId, usize); 7] = [(SpecId::HOMESTEAD, 0), (SpecId::BYZANTIUM, 1), (SpecId::ISTANBUL, 2), (SpecId::BERLIN, 3), (SpecId::SHANGHAI, 3), (SpecId::CANCUN, 4), (SpecId::PRAGUE, 5)];

/// CALL the precompile from a contract; returns (passed gas, success flag, gas charged to the caller for
/// the sub-call, result class seen by the inspector, output of the sub-call)
fn via_evm(sid: SpecId, addr: u64, input: &[u8], gas: u64) -> Result<(u64, u64, u64, u32, Vec<u8>), String> {
    let mut code = vec![0x36, 0x60, 0x00, 0x60, 0x00, 0x37, 0x60, 0x00, 0x60, 0x00, 0x36, 0x60, 0x00, 0x60, 0x00, 0x61, (addr >> 8) as u8, addr as u8, 0x67];
    code.extend_from_slice(&gas.to_be_bytes());
    code.extend_from_slice(&[0xf1, 0x00]);
    let contract = u64_to_address(0xC0DE);
    let caller = u64_to_address(0xCA11);
    let mut db = InMemoryDB::default();
    db.insert_account_info(contract, AccountInfo { balance: U256::ZERO, nonce: 1, code_hash: revm::primitives::keccak256(&code), code: Some(Bytecode::new_raw(code.into())) });
    db.insert_account_info(caller, AccountInfo { balance: U256::from(u64::MAX), nonce: 0, code_hash: revm::primitives::KECCAK_EMPTY, code: None });
    // give the precompile account a wei so that no fork charges for creating it
    db.insert_account_info(u64_to_address(addr), AccountInfo { balance: U256::from(1u64), nonce: 0, code_hash: revm::primitives::KECCAK_EMPTY, code: None });
    let data = Bytes::copy_from_slice(input);
    let r = catch(|| {
        let mut evm = Evm::builder().with_db(db).with_external_context(CallProbe::default()).with_spec_id(sid)
            .append_handler_register(inspector_handle_register)
            .modify_tx_env(|tx| { tx.caller = caller; tx.transact_to = TxKind::Call(contract); tx.data = data; tx.gas_limit = 60_000_000; tx.gas_price = U256::ZERO; })
            .build();
        let res = evm.transact();
        let probe = std::mem::take(&mut evm.context.external);
        (res.is_ok(), probe)
    })?;
    let (ok, p) = r;
    if !ok { return Err("transact failed".into()); }
    let (Some(a), Some(passed), Some((b, top))) = (p.after_call_insn, p.passed, p.next_step) else { return Err("probe incomplete".into()) };
    let returned = b - a;
    Ok((passed, if top == U256::from(1u64) { 1 } else if top.is_zero() { 0 } else { 7 }, passed - returned, p.class, p.out))
}

pub fn run(o: &Opts) {
    let mut rng = Rng::new(o.seed ^ 0xC23);
    let mut w = CaseWriter::new(o, "C23", 40);
    let mut cases = gen_cases(o, &mut rng);
    // spread the expensive cases over the shards
    for i in (1..cases.len()).rev() { let j = rng.below(i as u64 + 1) as usize; cases.swap(i, j); }
    for c in &cases {
        let obs = call(c.spec, c.addr, &c.input, c.gas);
        let kind = match &obs { Obs::Absent => "absent".to_string(), Obs::Ok(_, b) => if b.is_empty() { "ok-empty".into() } else { "ok".into() }, Obs::Err(k) => format!("err{}", k) };
        let mut tags: Vec<String> = c.tags.clone();
        tags.push(format!("result:{}", kind));
        tags.push(format!("spec:{:?}", PSPECS[c.spec]));
        let tr: Vec<&str> = tags.iter().map(|s| s.as_str()).collect();
        let term = format!("(Direct {} {} {} {} {})", c.spec, c.addr, segs(&c.input), zu(c.gas), obs_coq(&obs));
        let human = format!("direct spec={:?} addr={} gas={} input={} -> {:?}", PSPECS[c.spec], c.addr, c.gas, hexs(&c.input), match &obs { Obs::Ok(g, b) => format!("Ok({},{})", g, hexs(b)), x => format!("{:?}", x) });
        w.push(term, human, !c.input.is_empty(), &tr);
        if c.evm && c.gas <= 5_000_000 {
            let cands: Vec<&(SpecId, usize)> = EVM_SPECS.iter().filter(|(_, ps)| *ps == c.spec).collect();
            let (sid, ps) = **rng.pick(&cands);
            match via_evm(sid, c.addr, &c.input, c.gas) {
                Ok((passed, success, consumed, class, out)) => {
                    let direct = call(ps, c.addr, &c.input, passed);
                    let term = format!("(ViaEvm {} {} {} {} {} {} {} {} {})", ps, c.addr, segs(&c.input), zu(passed), obs_coq(&direct), success, zu(consumed), class, segs(&out));
                    let human = format!("evm-call spec={:?} addr={} passed={} input={} -> success={} consumed={} class={} out={}", sid, c.addr, passed, hexs(&c.input), success, consumed, class, hexs(&out));
                    w.push(term, human, true, &["via-evm", &format!("evm-class:{}", class)]);
                }
                Err(e) => { w.push(format!("(Broken {})", 1), format!("evm-call failed: {} spec={:?} addr={} input={}", e, sid, c.addr, hexs(&c.input)), true, &["via-evm-broken"]); }
            }
        }
    }
    // modexp gas functions on their whole u64 / U256 domain (no data needed)
    let n = if o.thorough() { 6000 } else { 600 };
    for _ in 0..n {
        let len = |rng: &mut Rng| -> u64 { if rng.chance(1, 2) { rng.u64b() } else { rng.range(0, 1100) } };
        let (b, e, m) = (len(&mut rng), len(&mut rng), len(&mut rng));
        let hp = if rng.chance(1, 4) { U256::ZERO } else { rng.u256b() };
        let berlin = rng.chance(1, 2);
        let r = catch(|| if berlin { modexp::berlin_gas_calc(b, e, m, &hp) } else { modexp::byzantium_gas_calc(b, e, m, &hp) });
        let it = catch(|| modexp::calculate_iteration_count(e, &hp));
        let term = format!("(ModexpGas {} {} {} {} {} {} {})", zb(berlin), zu(b), zu(e), zu(m), zw(hp), zopt(r.ok().map(zu)), zopt(it.ok().map(zu)));
        w.push(term, format!("modexp gas berlin={} base_len={} exp_len={} mod_len={} exp_highp={:#x}", berlin, b, e, m, hp), true, &["modexp-gas-fn"]);
    }
    // MSM / pairing gas per k (all-infinity inputs), every k up to beyond the table
    for g2 in [false, true] {
        for k in 1..=140u64 {
            let input = vec![0u8; (k as usize) * if g2 { 288 } else { 160 }];
            let g = match call(5, if g2 { 14 } else { 12 }, &input, u64::MAX) { Obs::Ok(g, _) => Some(g), _ => None };
            w.push(format!("(MsmGas {} {} {})", zb(g2), k, zopt(g.map(zu))), format!("msm gas g2={} k={} -> {:?}", g2, k, g), true, &["msm-gas-cell"]);
            if let Some(g) = g { if g > 0 {
                let below = call(5, if g2 { 14 } else { 12 }, &input, g - 1);
                w.push(format!("(MsmOog {} {} {} {})", zb(g2), k, zu(g - 1), obs_coq(&below)), format!("msm gas g2={} k={} limit={} -> {:?}", g2, k, g - 1, below), true, &["msm-gas-cell"]);
            } }
        }
    }
    w.finish("(spec, precompile address, input, gas limit) executed through Precompiles::new(spec).get(addr): identity/sha256/ripemd160 (lengths around block and word boundaries), modexp (small value cases, truncated/oversized data, huge header lengths, limits at cost-1/cost/cost+1/0/u64::MAX), blake2f, ecrecover (random r/s, boundary r/s/v, garbage v bytes, short input), BN254 add/mul/pairing (valid points, infinity, P/-P, coordinates >= p, off-curve, truncated), KZG (shipped vector mutated), BLS12-381 (points obtained from the map precompiles, malformed field elements, curve points outside the subgroup), absent addresses; a subset again through a real Evm CALL; modexp gas functions on boundary-biased u64/U256 arguments; MSM gas for every k = 1..140; non-trivial = non-empty input; distinct = distinct case terms");
}

/// Finite tables of the BLS12-381 MSM pricing read from the compiled code.
pub fn reflect(out: &Path) {
    use revm::precompile::bls12_381::{g1_msm, g2_msm};
    let mut s = String::from("(* GENERATED by `vh reflect` from the compiled code of /repo (crates/precompile/src/bls12_381): do not edit. *)\nFrom Coq Require Import ZArith List. Import ListNotations. Local Open Scope Z_scope.\n");
    s.push_str(&format!("Definition g1_discount_table : list Z := {}.\n", zlist(g1_msm::DISCOUNT_TABLE.iter().map(|x| format!("{}", x)))));
    s.push_str(&format!("Definition g2_discount_table : list Z := {}.\n", zlist(g2_msm::DISCOUNT_TABLE.iter().map(|x| format!("{}", x)))));
    for (name, addr, item) in [("g1_msm_gas_by_k", 12u64, 160usize), ("g2_msm_gas_by_k", 14, 288), ("pairing_gas_by_k", 15, 384)] {
        let mut v = vec![];
        for k in 1..=140usize { v.push(match call(5, addr, &vec![0u8; k * item], u64::MAX) { Obs::Ok(g, _) => format!("{}", g), _ => "(-1)".into() }); }
        s.push_str(&format!("(* gas_used of the executed precompile on k all-infinity entries, k = 1..140 *)\nDefinition {} : list Z := {}.\n", name, zlist(v)));
    }
    std::fs::write(out.join("BlsTables.v"), s).unwrap();
}
