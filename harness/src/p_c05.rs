//! C05: every opcode byte x every SpecId (x legacy/EOF code) and every precompile address x every
//! SpecId, observed on the real instruction tables / precompile sets / `Evm`.
//!
//! `reflect` prints the finite tables `coq/Gen/OpGate.v` and `coq/Gen/Precompiles.v`; `run` emits
//! the same cells (and whole-EVM observations) as cases for `Corr/C05.v`.
use crate::util::*;
use revm::db::{CacheDB, EmptyDB};
use revm::interpreter::analysis::{validate_eof_code, AccessTracker, CodeType, EofValidationError};
use revm::interpreter::opcode::{make_instruction_table, InstructionTable};
use revm::interpreter::{CallInputs, CallOutcome, Contract, DummyHost, InstructionResult, Interpreter, SharedMemory};
use revm::precompile::{PrecompileSpecId, Precompiles};
use revm::primitives::eof::{EofBody, TypesSection};
use revm::primitives::{
    spec_to_generic, AccountInfo, Address, Bytecode, Bytes, Env, Eof, ExecutionResult, HaltReason, OutOfGasError, SpecId, TxKind,
    B256, U256,
};
use revm::{inspector_handle_register, Evm, EvmContext, Inspector};
use std::fmt::Write as _;
use std::path::Path;
use std::sync::Arc;

// ------------------------------------------------------------------------------------------
// shared with p_c10

/// Every SpecId of this build, ascending by discriminant (`SpecId::try_from_u8` over 0..=255).
pub fn all_specs() -> Vec<SpecId> {
    (0u16..=255).filter_map(|i| SpecId::try_from_u8(i as u8)).collect()
}
pub fn spec_name(s: SpecId) -> String { format!("{:?}", s) }

/// The instruction table the handler installs for `spec` (`spec_to_generic!` picks SPEC exactly as
/// `Handler::mainnet_with_spec` does).
pub fn table(spec: SpecId) -> InstructionTable<DummyHost> {
    spec_to_generic!(spec, make_instruction_table::<DummyHost, SPEC>())
}

/// Class of an `InstructionResult` (wildcard = "other": the instruction is defined and did something).
pub fn class_of(r: InstructionResult) -> u8 {
    match r {
        InstructionResult::NotActivated => 1,
        InstructionResult::OpcodeNotFound => 2,
        InstructionResult::EOFOpcodeDisabledInLegacy => 3,
        InstructionResult::InvalidFEOpcode => 4,
        InstructionResult::ReturnContractInNotInitEOF => 7,
        InstructionResult::StateChangeDuringStaticCall => 9,
        InstructionResult::CallNotAllowedInsideStatic => 10,
        _ => 0,
    }
}
pub const CLASS_PANIC: u8 = 8;

#[derive(Clone, Copy)]
pub struct Prep { pub eof: bool, pub is_static: bool, pub fill: u64 }

/// A minimal EOF container whose first code section is `code`, with a 64-byte data section and
/// one (default, valid) sub-container so that DATA*, EOFCREATE and RETURNCONTRACT find their operands.
pub fn eof_container(code: Vec<u8>) -> Eof {
    EofBody {
        types_section: vec![TypesSection::new(0, 0x80, 64)],
        code_section: vec![Bytes::from(code)],
        container_section: vec![Eof::default().raw().clone()],
        data_section: Bytes::from(vec![7u8; 64]),
        is_data_filled: true,
    }
    .into_eof()
}

pub const TARGET: Address = Address::new([0, 0, 0, 0, 0, 0, 0, 0, 0, 0, 0, 0, 0, 0, 0, 0, 0, 0, 0xC0, 0xDE]);
pub const CALLER: Address = Address::new([0, 0, 0, 0, 0, 0, 0, 0, 0, 0, 0, 0, 0, 0, 0, 0, 0, 0xCA, 0x11, 0xE0]);

/// Interpreter positioned on `byte` (immediates zero, then STOP), 64 stack words equal to `fill`,
/// 10M gas, 1 KiB of memory, 64 bytes of return data and call data.
pub fn prepared(byte: u8, p: Prep) -> Interpreter {
    let mut code = vec![byte];
    code.extend([0u8; 40]);
    let bytecode = if p.eof { Bytecode::Eof(Arc::new(eof_container(code))) } else { Bytecode::new_legacy(code.into()) };
    let contract = Contract::new(Bytes::from(vec![1u8; 64]), bytecode, None, TARGET, None, CALLER, U256::ZERO);
    let mut i = Interpreter::new(contract, 10_000_000, p.is_static);
    for _ in 0..64 { let _ = i.stack.push(U256::from(p.fill)); }
    let mut m = SharedMemory::new();
    m.new_context();
    m.resize(1024);
    i.shared_memory = m;
    i.return_data_buffer = Bytes::from(vec![3u8; 64]);
    if p.eof {
        i.is_eof_init = true; // RETURNCONTRACT is then executable (initcode mode)
        i.function_stack.push(0, 0); // RETF finds a frame
    }
    i
}

/// Executes exactly one instruction the way `Interpreter::step` (crate-private) does: read the
/// opcode, advance the pointer, dispatch through the table. Returns the class and the interpreter.
pub fn exec_one(spec: SpecId, byte: u8, p: Prep) -> (u8, Option<Interpreter>) {
    let r = catch(|| {
        let t = table(spec);
        let mut host = DummyHost::new(Env::default());
        let mut i = prepared(byte, p);
        let op = unsafe { *i.instruction_pointer };
        i.instruction_pointer = unsafe { i.instruction_pointer.offset(1) };
        (t[op as usize])(&mut i, &mut host);
        i
    });
    match r { Ok(i) => (class_of(i.instruction_result), Some(i)), Err(_) => (CLASS_PANIC, None) }
}

/// EOF code validation's verdict on the byte as an opcode: 0 accepted as an opcode, 1 `OpcodeDisabled`
/// (legacy-only), 2 `UnknownOpcode`.
pub fn eof_validate_class(byte: u8) -> u8 {
    let r = catch(|| {
        let mut code = vec![byte];
        code.extend([0u8; 8]);
        let types = [TypesSection::new(0, 0x80, 64)];
        let mut tracker = AccessTracker::new(Some(CodeType::ReturnOrStop), 1, 1);
        validate_eof_code(&code, 64, 0, 1, &types, &mut tracker)
    });
    match r {
        Ok(Err(EofValidationError::UnknownOpcode)) => 2,
        Ok(Err(EofValidationError::OpcodeDisabled)) => 1,
        Ok(_) => 0,
        Err(_) => CLASS_PANIC,
    }
}

fn addr_num(a: &Address) -> U256 { U256::from_be_slice(a.as_slice()) }

/// Sorted address set of `Precompiles::new(PrecompileSpecId::from_spec_id(s))`.
fn precompiles_new(s: SpecId) -> Vec<U256> {
    let mut v: Vec<U256> = Precompiles::new(PrecompileSpecId::from_spec_id(s)).addresses().map(addr_num).collect();
    v.sort();
    v
}
/// Sorted address set of the handler's `load_precompiles::<SPEC>()` (what `Evm` installs).
fn precompiles_loaded(s: SpecId) -> Vec<U256> {
    let p = spec_to_generic!(s, revm::handler::mainnet::load_precompiles::<SPEC, EmptyDB>());
    let mut v: Vec<U256> = p.addresses().map(addr_num).collect();
    v.sort();
    v
}

// ------------------------------------------------------------------------------------------
// reflector

fn row(f: impl Fn(u8) -> u8) -> String { zlist((0u16..256).map(|b| format!("{}", f(b as u8)))) }

pub fn reflect(out: &Path) {
    let specs = all_specs();
    let mut s = String::new();
    s.push_str("(* GENERATED by `vh reflect` (harness/src/p_c05.rs) from the compiled code of /repo. Do not edit.\n");
    s.push_str("   One instruction executed through make_instruction_table::<DummyHost, SPEC>() per cell.\n");
    s.push_str("   classes: 0 other (defined) | 1 NotActivated | 2 OpcodeNotFound | 3 EOFOpcodeDisabledInLegacy |\n");
    s.push_str("            4 InvalidFEOpcode | 7 ReturnContractInNotInitEOF | 8 panicked *)\n");
    s.push_str("From Coq Require Import ZArith List.\nImport ListNotations.\nLocal Open Scope Z_scope.\n\n");
    writeln!(s, "Definition specs : list Z := {}.\n", zlist(specs.iter().map(|x| format!("{}", *x as u8)))).unwrap();
    for (name, eof) in [("legacy_rows", false), ("eof_rows", true)] {
        writeln!(s, "Definition {} : list (Z * list Z) := [", name).unwrap();
        for (k, sp) in specs.iter().enumerate() {
            let r = row(|b| exec_one(*sp, b, Prep { eof, is_static: false, fill: 1 }).0);
            writeln!(s, " ({} (* {} *),\n  {}){}", *sp as u8, spec_name(*sp), r, if k + 1 < specs.len() { ";" } else { "" }).unwrap();
        }
        s.push_str("].\n\n");
    }
    s.push_str("(* validate_eof_code on the byte as first opcode: 0 accepted | 1 OpcodeDisabled | 2 UnknownOpcode *)\n");
    writeln!(s, "Definition eof_validate : list Z :=\n  {}.", row(eof_validate_class)).unwrap();
    std::fs::write(out.join("OpGate.v"), s).unwrap();

    let mut s = String::new();
    s.push_str("(* GENERATED by `vh reflect` (harness/src/p_c05.rs) from the compiled code of /repo. Do not edit.\n");
    s.push_str("   new_rows:    sorted addresses of Precompiles::new(PrecompileSpecId::from_spec_id(s))\n");
    s.push_str("   loaded_rows: sorted addresses of handler::mainnet::load_precompiles::<SPEC>() (spec_to_generic!) *)\n");
    s.push_str("From Coq Require Import ZArith List.\nImport ListNotations.\nLocal Open Scope Z_scope.\n\n");
    for (name, f) in [("new_rows", precompiles_new as fn(SpecId) -> Vec<U256>), ("loaded_rows", precompiles_loaded)] {
        writeln!(s, "Definition {} : list (Z * list Z) := [", name).unwrap();
        for (k, sp) in specs.iter().enumerate() {
            writeln!(s, " ({} (* {} *), {}){}", *sp as u8, spec_name(*sp), zlist(f(*sp).into_iter().map(zw)), if k + 1 < specs.len() { ";" } else { "" }).unwrap();
        }
        s.push_str("].\n\n");
    }
    std::fs::write(out.join("Precompiles.v"), s).unwrap();
}

// ------------------------------------------------------------------------------------------
// whole-EVM observations

fn base_evm<'a, EXT>(spec: SpecId, db: CacheDB<EmptyDB>, ext: EXT, to: Address, data: Bytes, gas_limit: u64) -> Evm<'a, EXT, CacheDB<EmptyDB>> {
    Evm::builder()
        .with_db(db)
        .with_external_context(ext)
        .with_spec_id(spec)
        .modify_block_env(|b| {
            b.prevrandao = Some(B256::ZERO);
            b.set_blob_excess_gas_and_price(0, spec.is_enabled_in(SpecId::PRAGUE));
        })
        .modify_tx_env(|t| {
            t.caller = CALLER;
            t.transact_to = TxKind::Call(to);
            t.data = data;
            t.gas_limit = gas_limit;
            t.gas_price = U256::ZERO;
            t.value = U256::ZERO;
        })
        .build()
}

fn fresh_db() -> CacheDB<EmptyDB> {
    let mut db = CacheDB::new(EmptyDB::default());
    db.insert_account_info(CALLER, AccountInfo { balance: U256::from(1u64) << 100, ..Default::default() });
    db
}

/// outcome code of a transaction: 0 success | 1 revert | 10 halt OpcodeNotFound | 11 halt NotActivated |
/// 12 halt InvalidFEOpcode | 13 halt PrecompileError | 14 halt OutOfGas(Precompile) | 15 other halt |
/// 20 transact returned Err | 21 panicked
fn outcome_code(r: &Result<Result<ExecutionResult, String>, String>) -> (u8, u64, usize) {
    match r {
        Err(_) => (21, 0, 0),
        Ok(Err(_)) => (20, 0, 0),
        Ok(Ok(ExecutionResult::Success { gas_used, output, .. })) => (0, *gas_used, output.data().len()),
        Ok(Ok(ExecutionResult::Revert { gas_used, output })) => (1, *gas_used, output.len()),
        Ok(Ok(ExecutionResult::Halt { reason, gas_used })) => (
            match reason {
                HaltReason::OpcodeNotFound => 10,
                HaltReason::NotActivated => 11,
                HaltReason::InvalidFEOpcode => 12,
                HaltReason::PrecompileError => 13,
                HaltReason::OutOfGas(OutOfGasError::Precompile) => 14,
                _ => 15,
            },
            *gas_used,
            0,
        ),
    }
}

/// A contract `PUSH1 1 x17 ; byte ; 0x00...` called by a plain transaction.
fn evm_opcode(spec: SpecId, byte: u8, eof: bool) -> (u8, u64, u64) {
    let gas_limit = 300_000u64;
    let r = catch(|| {
        let mut code = vec![];
        for _ in 0..17 { code.extend([0x60u8, 0x01]); }
        code.push(byte);
        code.extend([0u8; 40]);
        let bc = if eof { Bytecode::Eof(Arc::new(eof_container(code))) } else { Bytecode::new_legacy(code.into()) };
        let mut db = fresh_db();
        db.insert_account_info(TARGET, AccountInfo { code_hash: bc.hash_slow(), code: Some(bc), ..Default::default() });
        let mut evm = base_evm(spec, db, (), TARGET, Bytes::new(), gas_limit);
        evm.transact().map(|x| x.result).map_err(|e| format!("{:?}", e))
    });
    let (c, g, _) = outcome_code(&r);
    (c, g, gas_limit)
}

/// Plain transaction with empty call data sent to address `a`.
fn evm_tx_to(spec: SpecId, a: u64) -> (u8, u64, usize, u64) {
    let gas_limit = 1_000_000u64;
    let r = catch(|| {
        let mut evm = base_evm(spec, fresh_db(), (), revm::precompile::u64_to_address(a), Bytes::new(), gas_limit);
        evm.transact().map(|x| x.result).map_err(|e| format!("{:?}", e))
    });
    let (c, g, l) = outcome_code(&r);
    (c, g, l, gas_limit)
}

/// The same observation on an Evm that already ran a transaction under `first` and was then
/// re-targeted to `spec` (`modify().with_spec_id`, which rebuilds the handler and keeps the
/// Context, or `modify_spec_id`): availability must follow the fork in force, not the fork of the
/// instance's first transaction.
fn evm_tx_to_respec(first: SpecId, spec: SpecId, a: u64, via_modify_spec_id: bool) -> (u8, u64, usize, u64) {
    let gas_limit = 1_000_000u64;
    let r = catch(|| {
        let mut evm = base_evm(first, fresh_db(), (), revm::precompile::u64_to_address(a), Bytes::new(), gas_limit);
        let _ = evm.transact();
        if via_modify_spec_id { evm.modify_spec_id(spec); } else { evm = evm.modify().with_spec_id(spec).build(); }
        evm.context.evm.env.block.set_blob_excess_gas_and_price(0, spec.is_enabled_in(SpecId::PRAGUE));
        evm.transact().map(|x| x.result).map_err(|e| format!("{:?}", e))
    });
    let (c, g, l) = outcome_code(&r);
    (c, g, l, gas_limit)
}
fn evm_opcode_respec(first: SpecId, spec: SpecId, byte: u8) -> (u8, u64, u64) {
    let gas_limit = 300_000u64;
    let r = catch(|| {
        let mut code = vec![];
        for _ in 0..17 { code.extend([0x60u8, 0x01]); }
        code.push(byte);
        code.extend([0u8; 40]);
        let bc = Bytecode::new_legacy(code.into());
        let mut db = fresh_db();
        db.insert_account_info(TARGET, AccountInfo { code_hash: bc.hash_slow(), code: Some(bc), ..Default::default() });
        let mut evm = base_evm(first, db, (), TARGET, Bytes::new(), gas_limit);
        let _ = evm.transact();
        evm = evm.modify().with_spec_id(spec).build();
        evm.context.evm.env.block.set_blob_excess_gas_and_price(0, spec.is_enabled_in(SpecId::PRAGUE));
        evm.transact().map(|x| x.result).map_err(|e| format!("{:?}", e))
    });
    let (c, g, _) = outcome_code(&r);
    (c, g, gas_limit)
}

#[derive(Default)]
struct CallEndRec { probe: Address, seen: Option<(u8, u64, usize)> }
impl<DB: revm::Database> Inspector<DB> for CallEndRec {
    fn call_end(&mut self, _c: &mut EvmContext<DB>, inputs: &CallInputs, outcome: CallOutcome) -> CallOutcome {
        if inputs.bytecode_address == self.probe && self.seen.is_none() {
            let cls = match outcome.result.result {
                InstructionResult::Stop => 0,
                InstructionResult::Return => 1,
                InstructionResult::PrecompileError => 3,
                InstructionResult::PrecompileOOG => 4,
                r if r.is_revert() => 2,
                _ => 5,
            };
            self.seen = Some((cls, outcome.result.gas.spent(), outcome.result.output.len()));
        }
        outcome
    }
}

/// The 99-byte probe input: three 32-byte big-endian 1s (modexp lengths) followed by 2, 3, 5.
/// Contract: builds the input in memory, `CALL(1_000_000, a, 0, 0, 99, 0, 0)`, `STOP`.
/// Observed through `Inspector::call_end` of the inner call: (class, gas spent by the callee, output length);
/// class 9 = no inner call seen, 21 = panicked.
fn evm_call_to(spec: SpecId, a: u64) -> (u8, u64, usize) {
    let r = catch(|| {
        let mut code = vec![];
        for (v, off) in [(1u8, 31u8), (1, 63), (1, 95), (2, 96), (3, 97), (5, 98)] { code.extend([0x60, v, 0x60, off, 0x53]); }
        code.extend([0x60, 0, 0x60, 0, 0x60, 99, 0x60, 0, 0x60, 0]); // out_len out_off in_len in_off value
        code.extend([0x61, (a >> 8) as u8, a as u8]); // PUSH2 address
        code.extend([0x62, 0x0f, 0x42, 0x40]); // PUSH3 1_000_000 gas
        code.extend([0xf1, 0x00]);
        let bc = Bytecode::new_legacy(code.into());
        let mut db = fresh_db();
        db.insert_account_info(TARGET, AccountInfo { code_hash: bc.hash_slow(), code: Some(bc), ..Default::default() });
        let rec = CallEndRec { probe: revm::precompile::u64_to_address(a), seen: None };
        let mut evm = base_evm(spec, db, rec, TARGET, Bytes::new(), 3_000_000);
        evm = evm.modify().append_handler_register(inspector_handle_register).build();
        let ok = evm.transact().is_ok();
        (ok, evm.context.external.seen)
    });
    match r {
        Err(_) => (21, 0, 0),
        Ok((_, Some(x))) => x,
        Ok((_, None)) => (9, 0, 0),
    }
}

// ------------------------------------------------------------------------------------------
// cases

pub fn run(o: &Opts) {
    let mut w = CaseWriter::new(o, "C05", 400);
    let specs = all_specs();
    // 1. the reflected cells again, as cases (a differing cell is a concrete replay)
    for sp in &specs {
        let s = *sp as u8;
        for b in 0u16..256 {
            let b = b as u8;
            let l = exec_one(*sp, b, Prep { eof: false, is_static: false, fill: 1 }).0;
            let e = exec_one(*sp, b, Prep { eof: true, is_static: false, fill: 1 }).0;
            let v = eof_validate_class(b);
            let lt = format!("legacy-class:{}", l);
            let et = format!("eof-class:{}", if v != 0 { 4 + v } else { e });
            w.push(format!("(OpCell {} {} {} {} {})", s, b, l, e, v),
                   format!("spec={} ({}) opcode=0x{:02x}: one instruction on a prepared interpreter -> legacy class {}, eof exec class {}, eof validation class {}", spec_name(*sp), s, b, l, e, v),
                   l != 0 || e != 0 || v != 0, &[&lt, &et]);
        }
    }
    // 2. one-opcode contracts as real transactions
    for sp in &specs {
        let s = *sp as u8;
        for b in 0u16..256 {
            let b = b as u8;
            let (c, g, lim) = evm_opcode(*sp, b, false);
            let t = format!("evm-legacy-outcome:{}", c);
            w.push(format!("(EvmOp {} {} false {} {} {})", s, b, c, zu(g), zu(lim)),
                   format!("spec={} ({}) legacy contract PUSH1 1 x17; 0x{:02x}; 00.. as transaction (gas limit {}) -> outcome {} gas_used {}", spec_name(*sp), s, b, lim, c, g),
                   c >= 10, &[&t]);
            if sp.is_enabled_in(SpecId::OSAKA) {
                let (c, g, lim) = evm_opcode(*sp, b, true);
                let t = format!("evm-eof-outcome:{}", c);
                w.push(format!("(EvmOp {} {} true {} {} {})", s, b, c, zu(g), zu(lim)),
                       format!("spec={} ({}) EOF contract PUSH1 1 x17; 0x{:02x}; 00.. as transaction (gas limit {}) -> outcome {} gas_used {}", spec_name(*sp), s, b, lim, c, g),
                       c >= 10, &[&t]);
            }
        }
    }
    // 3. precompile address sets and behaviour of every low address
    for sp in &specs {
        let s = *sp as u8;
        for (which, f) in [(0u8, precompiles_new as fn(SpecId) -> Vec<U256>), (1, precompiles_loaded)] {
            let v = f(*sp);
            w.push(format!("(PcSet {} {} {})", s, which, zlist(v.iter().map(|x| zw(*x)))),
                   format!("spec={} ({}) precompile address set ({}) = {:?}", spec_name(*sp), s, if which == 0 { "Precompiles::new" } else { "load_precompiles" }, v),
                   true, &["precompile-set"]);
        }
        let mut addrs: Vec<u64> = (1..=0x14).collect();
        addrs.extend([0x100u64, 0xffff]);
        for a in addrs {
            let (c, g, l, lim) = evm_tx_to(*sp, a);
            let t = format!("pc-tx-outcome:{}", c);
            w.push(format!("(PcTx {} {} {} {} {} {})", s, a, c, zu(g), l, zu(lim)),
                   format!("spec={} ({}) transaction with empty data to address 0x{:x} (gas limit {}) -> outcome {} gas_used {} output_len {}", spec_name(*sp), s, a, lim, c, g, l),
                   true, &[&t]);
            let (c, g, l) = evm_call_to(*sp, a);
            let t = format!("pc-call-class:{}", c);
            w.push(format!("(PcCall {} {} {} {} {})", s, a, c, zu(g), l),
                   format!("spec={} ({}) CALL with the 99-byte probe input to address 0x{:x} -> callee class {} gas spent {} output_len {}", spec_name(*sp), s, a, c, g, l),
                   true, &[&t]);
        }
    }
    // 4. the same observations on a re-targeted instance: every pair of neighbouring SpecIds, both
    //    directions; all probed addresses, and the opcodes whose class differs between the two
    for k in 0..specs.len().saturating_sub(1) {
        for (first, sp) in [(specs[k], specs[k + 1]), (specs[k + 1], specs[k])] {
            let s = sp as u8;
            let mut addrs: Vec<u64> = (1..=0x14).collect();
            addrs.extend([0x100u64, 0xffff]);
            for (i, a) in addrs.into_iter().enumerate() {
                let (c, g, l, lim) = evm_tx_to_respec(first, sp, a, i % 2 == 1);
                let t = format!("respec-pc-tx-outcome:{}", c);
                w.push(format!("(PcTx {} {} {} {} {} {})", s, a, c, zu(g), l, zu(lim)),
                       format!("Evm first used under {} then re-targeted to spec={} ({}): transaction with empty data to address 0x{:x} (gas limit {}) -> outcome {} gas_used {} output_len {}", spec_name(first), spec_name(sp), s, a, lim, c, g, l),
                       true, &[&t, "respec"]);
            }
            for b in 0u16..256 {
                let b = b as u8;
                let p = || Prep { eof: false, is_static: false, fill: 1 };
                if exec_one(first, b, p()).0 == exec_one(sp, b, p()).0 { continue; }
                let (c, g, lim) = evm_opcode_respec(first, sp, b);
                let t = format!("respec-evm-legacy-outcome:{}", c);
                w.push(format!("(EvmOp {} {} false {} {} {})", s, b, c, zu(g), zu(lim)),
                       format!("Evm first used under {} then re-targeted to spec={} ({}): legacy contract PUSH1 1 x17; 0x{:02x}; 00.. as transaction (gas limit {}) -> outcome {} gas_used {}", spec_name(first), spec_name(sp), s, b, lim, c, g),
                       true, &[&t, "respec"]);
            }
        }
    }
    w.finish("exhaustive, seed-independent: every SpecId of the build x every opcode byte (one instruction on a prepared legacy and EOF interpreter + EOF validation verdict; the same byte in a one-opcode contract run as a transaction through Evm over CacheDB, EOF contracts from OSAKA), every SpecId x both precompile-set constructors, every SpecId x addresses 0x01..0x14, 0x100, 0xffff as transaction target (empty data) and as CALL target (99-byte probe input, observed by Inspector::call_end); every ordered pair of neighbouring SpecIds (first, then): an Evm that ran a transaction under `first` and was re-targeted to `then` (modify().with_spec_id / modify_spec_id) x the same addresses as transaction target, and x the opcodes whose class differs between the two; non-trivial = cell not in class 'defined' / halting transaction / every precompile observation");
}
