//! C24: the two cfg-selected backend sets of crates/precompile (C: secp256k1 + c-kzg; Rust: k256 + kzg-rs).
//! The harness is built twice; both binaries generate the same inputs from the seed. The Rust-backend
//! binary (driver `c24rs`) writes its results to a side file, the C-backend binary (driver `c24`) reads it
//! and emits cases carrying BOTH results.
use crate::kzg_vectors::KZG_VECTORS;
use crate::p_c23::{call, obs_coq, segs, Obs};
use crate::util::*;
use revm::primitives::{hex, U256};
use std::io::Write as _;

pub fn backend() -> &'static str { if cfg!(feature = "cbackends") { "c" } else { "rs" } }

struct In { kzg: bool, input: Vec<u8>, gas: u64, tag: String, chk: bool, expected: u8 }

fn be32(x: U256) -> [u8; 32] { x.to_be_bytes::<32>() }
fn u256_rand(rng: &mut Rng) -> U256 { U256::from_limbs([rng.next(), rng.next(), rng.next(), rng.next()]) }
fn secp_n() -> U256 { U256::from_str_radix("fffffffffffffffffffffffffffffffebaaedce6af48a03bbfd25e8cd0364141", 16).unwrap() }
fn secp_p() -> U256 { U256::from_str_radix("fffffffffffffffffffffffffffffffffffffffffffffffffffffffefffffc2f", 16).unwrap() }
/// is r the x coordinate of a curve point (y^2 = x^3 + 7 has a root)
fn valid_x(r: U256) -> bool {
    let p = secp_p();
    if r >= p { return false; }
    let rhs = r.mul_mod(r, p).mul_mod(r, p).add_mod(U256::from(7u64), p);
    let y = rhs.pow_mod((p + U256::from(1u64)) >> 2, p);
    y.mul_mod(y, p) == rhs
}

/// Inputs depend on the seed only (never on a backend's answer).
fn gen(o: &Opts, rng: &mut Rng) -> Vec<In> {
    let mut v: Vec<In> = vec![];
    let scale = if o.thorough() { 8 } else { 1 };
    let n = secp_n();
    let p = secp_p();
    let mut heavy_budget = 36 * scale; // full recoveries evaluated by the Gallina model (seconds each)
    let mut mk = |z: U256, vb: [u8; 32], r: U256, s: U256, tag: &str, cut: Option<usize>, extra: usize, rng: &mut Rng, v: &mut Vec<In>| {
        let mut input = vec![];
        input.extend_from_slice(&be32(z)); input.extend_from_slice(&vb); input.extend_from_slice(&be32(r)); input.extend_from_slice(&be32(s));
        if let Some(c) = cut { input.truncate(c); }
        if extra > 0 { input.extend(rng.bytes(extra)); }
        let full = cut.is_none() && vb[..31].iter().all(|b| *b == 0) && (vb[31] == 27 || vb[31] == 28) && !r.is_zero() && r < n && !s.is_zero() && s < n;
        let heavy = full && valid_x(r);
        let chk = if heavy { if heavy_budget > 0 { heavy_budget -= 1; true } else { false } } else { !full || rng.chance(1, 2) };
        let gas = match rng.below(10) { 0 => 2999, 1 => u64::MAX, 2 => 3001, _ => 3000 };
        v.push(In { kzg: false, input, gas, tag: format!("ecrecover:{}{}", tag, if heavy { " (recoverable)" } else { "" }), chk, expected: 3 });
    };
    let v27 = |b: u8| -> [u8; 32] { let mut x = [0u8; 32]; x[31] = b; x };
    for i in 0..(260 * scale) {
        let z = match rng.below(10) { 0 => U256::ZERO, 1 => n, 2 => U256::MAX, 3 => n - U256::from(1u64), _ => u256_rand(rng) };
        let r = u256_rand(rng) % n;
        let s = u256_rand(rng) % n;
        let vb = v27(27 + rng.below(2) as u8);
        match i % 13 {
            0 | 1 | 2 => mk(z, vb, r, s, "random r,s", None, 0, rng, &mut v),
            3 => { // the pair (s, v) / (n - s, v flipped): one of them is high-s, k256 normalises it
                let s2 = n - s; let mut vb2 = vb; vb2[31] = if vb[31] == 27 { 28 } else { 27 };
                mk(z, vb, r, s, "s / n-s pair", None, 0, rng, &mut v);
                mk(z, vb2, r, s2, "s / n-s pair", None, 0, rng, &mut v);
            }
            4 => { let s = (n >> 1) + U256::from(rng.below(4)); mk(z, vb, r, s, "s around n/2", None, 0, rng, &mut v); }
            5 => { let which = rng.below(6);
                   let (r2, s2, t) = match which { 0 => (U256::ZERO, s, "r = 0"), 1 => (r, U256::ZERO, "s = 0"), 2 => (n + U256::from(rng.below(3)), s, "r >= n"),
                       3 => (r, n + U256::from(rng.below(3)), "s >= n"), 4 => (U256::MAX, U256::MAX, "r = s = 2^256-1"), _ => (p - U256::from(rng.below(3)), s, "r around p") };
                   mk(z, vb, r2, s2, t, None, 0, rng, &mut v); }
            6 => { let b = *rng.pick(&[0u8, 1, 2, 26, 29, 30, 31, 255]); mk(z, v27(b), r, s, "v not 27/28", None, 0, rng, &mut v); }
            7 => { let mut vb2 = vb; let k = rng.below(31) as usize; vb2[k] = 1 + rng.below(255) as u8; mk(z, vb2, r, s, "v garbage in upper bytes", None, 0, rng, &mut v); }
            8 => { let s = n - U256::from(1u64 + rng.below(4)); mk(z, vb, r, s, "s = n-k", None, 0, rng, &mut v); }
            9 => { let r = U256::from(1u64 + rng.below(16)); mk(z, vb, r, s, "small r", None, 0, rng, &mut v); }
            10 => { let r = n - U256::from(1u64 + rng.below(4)); mk(z, vb, r, s, "r = n-k", None, 0, rng, &mut v); }
            11 => { let c = *rng.pick(&[0usize, 1, 31, 32, 63, 64, 65, 95, 96, 127]); mk(z, vb, r, s, "short input", Some(c), 0, rng, &mut v); }
            _ => { let e = rng.range(1, 64) as usize; mk(z, vb, r, s, "oversized input", None, e, rng, &mut v); }
        }
    }
    // known vector (go-ethereum / revm bench)
    v.push(In { kzg: false, input: hex::decode("18c547e4f7b0f325ad1e56f57e26c745b09a3e503d86e00e5255ff7f715d3d1c000000000000000000000000000000000000000000000000000000000000001c73b1693892219d736caba55bdb67216e485557ea6b6af75f37096c9aa6a5a75feeb940b1d03b21e36b0e47e79769f095fe2ab855bd91e3a38756b7d75a9c4549").unwrap(),
        gas: 3000, tag: "ecrecover:known vector".into(), chk: true, expected: 3 });

    // ---- KZG point evaluation
    let vhash = |c: &[u8]| -> Vec<u8> { revm::precompile::kzg_point_evaluation::kzg_to_versioned_hash(c).to_vec() };
    let assemble = |vh: &[u8], z: &[u8], y: &[u8], c: &[u8], pr: &[u8]| -> Vec<u8> { let mut i = vh.to_vec(); i.extend(z); i.extend(y); i.extend(c); i.extend(pr); i };
    let mut valid: Vec<(Vec<u8>, Vec<u8>, Vec<u8>, Vec<u8>)> = vec![];
    for (name, c, z, y, pr, exp) in KZG_VECTORS {
        let (c, z, y, pr) = (hex::decode(c).unwrap(), hex::decode(z).unwrap(), hex::decode(y).unwrap(), hex::decode(pr).unwrap());
        let input = assemble(&vhash(&c), &z, &y, &c, &pr);
        if *exp == 1 { valid.push((c.clone(), z.clone(), y.clone(), pr.clone())); }
        let short: String = name.rsplitn(2, '_').last().unwrap_or(name).to_string();
        v.push(In { kzg: true, input, gas: 50_000, tag: format!("kzg:official:{}", short), chk: true, expected: *exp });
    }
    for i in 0..(140 * scale) {
        let (mut c, mut z, mut y, mut pr) = rng.pick(&valid).clone();
        let mut vh = vhash(&c);
        let mut exp = 3u8;
        let tag;
        match i % 14 {
            0 => { vh[0] = *rng.pick(&[0u8, 2, 0x80, 0xff]); tag = "wrong version byte"; }
            1 => { let k = rng.range(1, 31) as usize; vh[k] ^= 1 << rng.below(8); tag = "wrong hash"; }
            2 => { z = hex::decode("73eda753299d7d483339d80809a1d80553bda402fffe5bfeffffffff00000001").unwrap(); tag = "z = modulus"; }
            3 => { y = vec![0xff; 32]; tag = "y = 2^256-1"; }
            4 => { let mut m = U256::from_be_slice(&hex::decode("73eda753299d7d483339d80809a1d80553bda402fffe5bfeffffffff00000001").unwrap()); m += U256::from(rng.below(1000)); if rng.chance(1, 2) { z = be32(m).to_vec(); } else { y = be32(m).to_vec(); } tag = "z or y above the modulus"; }
            5 => { let k = rng.below(48) as usize; pr[k] ^= 1 << rng.below(8); tag = "proof bit flipped"; }
            6 => { let k = rng.below(48) as usize; c[k] ^= 1 << rng.below(8); vh = vhash(&c); tag = "commitment bit flipped, hash recomputed"; }
            7 => { c = rng.bytes(48); c[0] = (c[0] & 0x1f) | *rng.pick(&[0x80u8, 0xa0, 0x00, 0xc0, 0xe0, 0x40]); vh = vhash(&c); tag = "random commitment bytes, hash recomputed"; }
            8 => { pr = rng.bytes(48); pr[0] = (pr[0] & 0x1f) | *rng.pick(&[0x80u8, 0xa0, 0x00, 0xc0, 0xe0, 0x40]); tag = "random proof bytes"; }
            9 => { c = vec![0u8; 48]; c[0] = *rng.pick(&[0xc0u8, 0x00, 0x80, 0xe0]); if rng.chance(1, 2) { c[47] = 1; } vh = vhash(&c); tag = "infinity-like commitment"; }
            10 => { pr = vec![0u8; 48]; pr[0] = *rng.pick(&[0xc0u8, 0x00, 0x80, 0xe0]); if rng.chance(1, 3) { pr[47] = 1; } tag = "infinity-like proof"; }
            11 => { let y2 = U256::from_be_slice(&y).wrapping_add(U256::from(1u64)); y = be32(y2).to_vec(); tag = "y + 1"; }
            12 => { z = be32(U256::from(rng.below(5))).to_vec(); tag = "small z"; }
            _ => { exp = 1; tag = "official valid vector again"; }
        }
        let mut input = assemble(&vh, &z, &y, &c, &pr);
        if i % 28 == 27 { let nn = *rng.pick(&[0usize, 191, 193, 96, 384]); input.resize(nn, 0); exp = 2; }
        let gas = match rng.below(10) { 0 => 49_999, 1 => u64::MAX, 2 => 50_001, _ => 50_000 };
        v.push(In { kzg: true, input, gas, tag: format!("kzg:{}", tag), chk: true, expected: exp });
    }
    v
}

pub fn run(o: &Opts) {
    let mut rng = Rng::new(o.seed ^ 0xC24);
    let mut w = CaseWriter::new(o, "C24", 30);
    let mut ins = gen(o, &mut rng);
    for i in (1..ins.len()).rev() { let j = rng.below(i as u64 + 1) as usize; ins.swap(i, j); }
    let results: Vec<Obs> = ins.iter().map(|c| call(4, if c.kzg { 10 } else { 1 }, &c.input, c.gas)).collect();
    let kind = |o: &Obs| match o { Obs::Absent => "absent".to_string(), Obs::Ok(_, b) => if b.is_empty() { "ok-empty".into() } else { "ok".into() }, Obs::Err(k) => format!("err{}", k) };
    let hx = |b: &[u8]| { let mut s = String::new(); for x in b { s.push_str(&format!("{:02x}", x)); } s };
    let side_name = "side_c24.txt";
    if backend() == "rs" {
        let mut f = std::io::BufWriter::new(std::fs::File::create(o.out.join(side_name)).unwrap());
        for (i, r) in results.iter().enumerate() { writeln!(f, "{}\t{}\t{}", i, hx(&ins[i].input), obs_coq(r)).unwrap(); }
        drop(f);
        for (c, r) in ins.iter().zip(results.iter()) {
            let term = if c.kzg { format!("(KzOne {} {} {} {})", c.expected, segs(&c.input), zu(c.gas), obs_coq(r)) }
                       else { format!("(EcOne {} {} {} {})", zb(c.chk && !c.tag.ends_with("(recoverable)")), segs(&c.input), zu(c.gas), obs_coq(r)) }; // full recoveries are compared with the model in the joint run
            w.push(term, format!("[k256/kzg-rs] {} gas={} input={} -> {:?}", c.tag, c.gas, hx(&c.input), r), true, &[&c.tag, &format!("rs-result:{}", kind(r))]);
        }
        w.finish("k256 + kzg-rs build: every generated ecrecover / point-evaluation input, compared with the Gallina model (ecrecover) and the official verify_kzg_proof vectors");
        return;
    }
    // C backends: join with the side file of the Rust-backend binary
    let side = o.out.parent().map(|p| p.join(format!("c24rs-{}", if o.release { "release" } else { "debug" })).join(side_name));
    let mut other: Vec<Option<(String, String)>> = vec![None; ins.len()];
    if let Some(Ok(txt)) = side.as_ref().map(std::fs::read_to_string) {
        for line in txt.lines() {
            let p: Vec<&str> = line.splitn(3, '\t').collect();
            if p.len() == 3 { if let Ok(i) = p[0].parse::<usize>() { if i < other.len() { other[i] = Some((p[1].to_string(), p[2].to_string())); } } }
        }
    }
    for (i, (c, r)) in ins.iter().zip(results.iter()).enumerate() {
        match &other[i] {
            Some((inp, rs)) if *inp == hx(&c.input) => {
                let term = if c.kzg { format!("(Kz {} {} {} {} {})", c.expected, segs(&c.input), zu(c.gas), obs_coq(r), rs) }
                           else { format!("(Ec {} {} {} {} {})", zb(c.chk), segs(&c.input), zu(c.gas), obs_coq(r), rs) };
                let agree = obs_coq(r) == *rs;
                w.push(term, format!("{} gas={} input={} -> secp256k1/c-kzg: {:?}  k256/kzg-rs: {}", c.tag, c.gas, hx(&c.input), r, rs), true,
                       &[&c.tag, &format!("c-result:{}", kind(r)), if agree { "backends-agree" } else { "backends-DISAGREE" }]);
            }
            _ => w.push("(Broken 1)".into(), format!("no result of the k256/kzg-rs build for input {} ({}): side file {:?} missing or generated from different inputs", i, c.tag, side), true, &["no-alt-result"]),
        }
    }
    w.finish("every generated input is executed by BOTH builds (secp256k1 + c-kzg / k256 + kzg-rs) through Precompiles::new(CANCUN).get(addr): 128-byte ecrecover inputs (random r,s of which half are recoverable, s / n-s pairs with flipped v, s around n/2, r/s = 0 or >= n, r around p, v not 27/28, garbage in v's upper bytes, short and oversized inputs) and point-evaluation inputs (the 122 official verify_kzg_proof vectors, mutated versioned hash, non-canonical z/y, flipped or random commitment/proof bytes with recomputed hash, infinity encodings, wrong lengths); non-trivial = all; distinct = distinct (input, gas, both results)");
}
