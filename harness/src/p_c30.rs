//! C30: every Inspector::selfdestruct notification against the SELFDESTRUCT steps actually executed.
use crate::progs::{self, op::*, Asm, GenOpts, World};
use crate::util::*;
use revm::db::{CacheDB, EmptyDB};
use revm::interpreter::{CallInputs, CallOutcome, CreateInputs, CreateOutcome, InstructionResult, Interpreter};
use revm::primitives::{Address, Log, SpecId, TxKind, U256};
use revm::{inspector_handle_register, Evm, EvmContext, Inspector};
use std::collections::HashSet;

fn aw(a: Address) -> U256 { U256::from_be_bytes(a.into_word().0) }

#[derive(Clone, Debug)]
pub struct SdStep { contract: Address, top: Option<U256>, is_static: bool, created_impl: bool, created_rec: bool, before: U256, after: U256, res: u8, res_name: String }
#[derive(Clone, Debug)]
pub enum Ev { Step(SdStep), Other(u8), Notify(Address, Address, U256) }
impl Ev {
    fn coq(&self) -> String {
        match self {
            Ev::Step(s) => format!("EvStep (mkStep {} {} {} {} {} {} {} 0 {})", zw(aw(s.contract)), zopt(s.top.map(zw)), zb(s.is_static), zb(s.created_impl),
                zb(s.created_rec), zw(s.before), zw(s.after), s.res),
            Ev::Other(o) => format!("EvOther {}", o),
            Ev::Notify(c, t, v) => format!("EvNotify {} {} {}", zw(aw(*c)), zw(aw(*t)), zw(*v)),
        }
    }
    fn human(&self) -> String {
        match self {
            Ev::Step(s) => format!("SELFDESTRUCT@{:x}(top={} static={} created={} bal {}->{}) => {}", aw(s.contract), s.top.map(|t| format!("{:x}", t)).unwrap_or("-".into()),
                s.is_static, s.created_rec, s.before, s.after, s.res_name),
            Ev::Other(o) => format!("after-opcode-{:02x}", o),
            Ev::Notify(c, t, v) => format!("notify({:x},{:x},{})", aw(*c), aw(*t), v),
        }
    }
}

#[derive(Default)]
pub struct SdRecorder {
    pub evs: Vec<Ev>, pub steps: u64,
    created: HashSet<Address>, pending_create: bool, cur: Option<SdStep>, last_was_sd: bool, last_opc: u8,
}
impl SdRecorder {
    fn bal<DB: revm::Database>(c: &EvmContext<DB>, a: &Address) -> (U256, bool) {
        c.journaled_state.state.get(a).map(|acc| (acc.info.balance, acc.is_created())).unwrap_or((U256::ZERO, false))
    }
}
impl<DB: revm::Database> Inspector<DB> for SdRecorder {
    fn initialize_interp(&mut self, i: &mut Interpreter, _c: &mut EvmContext<DB>) {
        if self.pending_create { self.created.insert(i.contract.target_address); self.pending_create = false; }
        self.last_was_sd = false;
    }
    fn step(&mut self, i: &mut Interpreter, c: &mut EvmContext<DB>) {
        self.steps += 1;
        self.last_was_sd = false;
        let opc = i.current_opcode();
        self.last_opc = opc;
        if opc == SELFDESTRUCT {
            let contract = i.contract.target_address;
            let (before, created_impl) = Self::bal(c, &contract);
            self.cur = Some(SdStep { contract, top: i.stack.peek(0).ok(), is_static: i.is_static, created_impl, created_rec: self.created.contains(&contract),
                before, after: U256::ZERO, res: 4, res_name: String::new() });
        }
    }
    fn step_end(&mut self, i: &mut Interpreter, c: &mut EvmContext<DB>) {
        if let Some(mut s) = self.cur.take() {
            s.after = Self::bal(c, &s.contract).0;
            s.res = match i.instruction_result {
                InstructionResult::StateChangeDuringStaticCall => 0,
                InstructionResult::StackUnderflow => 1,
                InstructionResult::OutOfGas => 2,
                InstructionResult::SelfDestruct => 3,
                _ => 4,
            };
            s.res_name = format!("{:?}", i.instruction_result);
            self.evs.push(Ev::Step(s));
            self.last_was_sd = true;
        }
    }
    fn log(&mut self, _i: &mut Interpreter, _c: &mut EvmContext<DB>, _l: &Log) { self.last_was_sd = false; }
    fn call(&mut self, _c: &mut EvmContext<DB>, _i: &mut CallInputs) -> Option<CallOutcome> { self.last_was_sd = false; self.pending_create = false; None }
    fn call_end(&mut self, _c: &mut EvmContext<DB>, _i: &CallInputs, o: CallOutcome) -> CallOutcome { self.last_was_sd = false; o }
    fn create(&mut self, _c: &mut EvmContext<DB>, _i: &mut CreateInputs) -> Option<CreateOutcome> { self.last_was_sd = false; self.pending_create = true; None }
    fn create_end(&mut self, _c: &mut EvmContext<DB>, _i: &CreateInputs, o: CreateOutcome) -> CreateOutcome { self.last_was_sd = false; self.pending_create = false; o }
    fn selfdestruct(&mut self, contract: Address, target: Address, value: U256) {
        if !self.last_was_sd { self.evs.push(Ev::Other(self.last_opc)); }
        self.evs.push(Ev::Notify(contract, target, value));
        self.last_was_sd = false;
    }
}

fn observe(w: &World) -> (Vec<Ev>, u64, bool, String) {
    let db: CacheDB<EmptyDB> = w.db.clone();
    let (tx, block, spec) = (w.tx.clone(), w.block.clone(), w.spec);
    let r = catch(move || {
        let mut evm = Evm::builder().with_db(db).with_external_context(SdRecorder::default()).with_spec_id(spec)
            .modify_tx_env(|t| *t = tx).modify_block_env(|b| *b = block).append_handler_register(inspector_handle_register).build();
        let res = evm.transact();
        let rec = evm.into_context().external;
        (match res { Ok(r) => format!("{:?}", r.result).split(|c| c == ' ' || c == '{').next().unwrap().to_string(), Err(e) => format!("invalid:{:?}", e).chars().take(40).collect() }, rec)
    });
    match r { Ok((st, rec)) => (rec.evs, rec.steps, false, st), Err(m) => (vec![], 0, true, format!("panic:{}", m)) }
}

/// the word pushed as beneficiary
fn beneficiary(rng: &mut Rng, a: &mut Asm, me: Address, others: &[Address]) -> &'static str {
    let dirty = rng.chance(1, 5);
    let (t, name): (Option<Address>, &'static str) = match rng.below(9) {
        0 | 1 => (Some(me), "self"),
        2 => (None, "self(ADDRESS)"),
        3 => (Some(progs::addr(0xDEAD0000 + rng.below(2))), "nonexistent"),
        4 => (Some(progs::addr(rng.range(1, 9))), "precompile"),
        5 => (Some(progs::addr(progs::CALLER_ADDR)), "caller"),
        6 => (Some(progs::addr(progs::COINBASE)), "coinbase"),
        _ => (Some(*rng.pick(others)), "contract"),
    };
    match t {
        None => { a.op(ADDRESS); }
        Some(t) => {
            if dirty { let mut w = [0xffu8; 32]; w[12..].copy_from_slice(t.as_slice()); a.push32(&w); } else { a.push_addr(t); }
        }
    }
    if dirty && t.is_some() { "dirty-high-bits" } else { name }
}

fn victim_code(rng: &mut Rng, me: Address, others: &[Address], tags: &mut Vec<String>) -> Vec<u8> {
    let mut a = Asm::new();
    match rng.below(10) {
        0 => { a.op(SELFDESTRUCT); tags.push("victim:empty-stack".into()); }
        1 => { // value transfer, then SELFDESTRUCT on an empty stack (last journal entry is a transfer)
            a.push_u(0).push_u(0).push_u(0).push_u(0).push_u(1).push_addr(*rng.pick(others)).op(GAS).op(CALL).op(POP).op(SELFDESTRUCT);
            tags.push("victim:transfer-then-empty-stack".into());
        }
        2 => { a.push_u(1).push_u(0).op(SSTORE); let b = beneficiary(rng, &mut a, me, others); a.op(SELFDESTRUCT); tags.push(format!("beneficiary:{}", b)); }
        3 => { a.push_u(0).push_u(0).op(LOG0); let b = beneficiary(rng, &mut a, me, others); a.op(SELFDESTRUCT); tags.push(format!("beneficiary:{}", b)); }
        _ => { let b = beneficiary(rng, &mut a, me, others); a.op(SELFDESTRUCT); tags.push(format!("beneficiary:{}", b)); }
    }
    a.finish()
}

fn gas_choice(rng: &mut Rng, a: &mut Asm) {
    match rng.below(8) {
        0..=2 => { a.op(GAS); }
        3 => { a.push_u(*rng.pick(&[0u64, 100, 2300, 2600, 4999, 5000, 5002, 5003, 5100])); }
        4 => { a.push_u(*rng.pick(&[7599u64, 7600, 7603, 7700, 25000, 27600, 30000, 30003, 32599, 32603, 32700])); }
        _ => { a.push_u(rng.range(0, 40_000)); }
    }
}

/// Directed scenarios around one self-destructing contract.
fn scenario(rng: &mut Rng) -> World {
    let spec = if rng.chance(1, 2) { *rng.pick(&[SpecId::CANCUN, SpecId::CANCUN, SpecId::PRAGUE]) }
               else { *rng.pick(&[SpecId::FRONTIER, SpecId::HOMESTEAD, SpecId::TANGERINE, SpecId::SPURIOUS_DRAGON, SpecId::BYZANTIUM, SpecId::ISTANBUL, SpecId::BERLIN, SpecId::LONDON, SpecId::SHANGHAI]) };
    let d = progs::addr(progs::CONTRACT_BASE);
    let v = progs::addr(progs::CONTRACT_BASE + 1);
    let x = progs::addr(progs::CONTRACT_BASE + 2);
    let others = [d, x, x];
    let mut tags: Vec<String> = vec![];
    let vcode = victim_code(rng, v, &others, &mut tags);
    let vbal = *rng.pick(&[0u64, 0, 1, 1000]);
    let mut da = Asm::new();
    let mut to = TxKind::Call(d);
    let mut data = vec![];
    let mut txvalue = U256::ZERO;
    let how = rng.below(10);
    match how {
        0 => { // transaction straight to the victim (with value): the F8 witness shape
            to = TxKind::Call(v); txvalue = U256::from(rng.below(3)); tags.push("via:tx".into());
        }
        1 => { // create transaction whose init code is the victim code
            to = TxKind::Create; data = vcode.clone(); txvalue = U256::from(rng.below(3)); tags.push("via:create-tx-initcode".into());
        }
        2 | 3 => { // D creates a contract whose init code self-destructs
            let init = victim_code(rng, progs::addr(0), &others, &mut tags);
            da.mstore_bytes(0, &init);
            let two = rng.chance(1, 2);
            if two { da.push_u(rng.below(2)); }
            da.push_u(init.len() as u64).push_u(0).push_u(rng.below(3)).op(if two { CREATE2 } else { CREATE }).op(POP).op(STOP);
            tags.push("via:initcode".into());
        }
        4 | 5 => { // D creates a contract with the victim's runtime code, then calls it once or twice in the same tx
            let runtime = victim_code(rng, progs::addr(0), &others, &mut tags);
            let mut init = Asm::new();
            init.mstore_bytes(0, &runtime).push_u(runtime.len() as u64).push_u(0).op(RETURN);
            let init = init.finish();
            da.mstore_bytes(0, &init).push_u(init.len() as u64).push_u(0).push_u(rng.below(3)).op(CREATE);
            for _ in 0..rng.range(1, 2) {
                da.push_u(0).push_u(0).push_u(0).push_u(0).push_u(rng.below(3)).op(DUP1 + 5);
                gas_choice(rng, &mut da);
                da.op(CALL).op(POP);
            }
            da.op(POP).op(STOP);
            tags.push("via:created-then-called".into());
        }
        _ => { // D calls the pre-existing victim, one to three times, different schemes
            for _ in 0..rng.range(1, 3) {
                let scheme = *rng.pick(&[CALL, CALL, CALL, STATICCALL, DELEGATECALL, CALLCODE]);
                da.push_u(0).push_u(0).push_u(0).push_u(0);
                if scheme == CALL || scheme == CALLCODE { da.push_u(*rng.pick(&[0u64, 0, 1, 7])); }
                da.push_addr(v);
                gas_choice(rng, &mut da);
                da.op(scheme).op(POP);
                tags.push(format!("via:{}", match scheme { CALL => "CALL", STATICCALL => "STATICCALL", DELEGATECALL => "DELEGATECALL", _ => "CALLCODE" }));
            }
            da.op(STOP);
        }
    }
    let codes = vec![da.finish(), vcode, vec![STOP]];
    let balances = vec![U256::from(*rng.pick(&[0u64, 5, 1000])), U256::from(vbal), U256::from(3)];
    let gas_limit = *rng.pick(&[400_000u64, 400_000, 1_000_000, 60_000, 90_000]);
    let tx = progs::base_tx(to, gas_limit, txvalue, data);
    let descr = format!("spec={:?} tx.to={:?} tx.value={} gas_limit={} D={} V={} (balance {})", spec, to, txvalue, gas_limit, progs::hex(&codes[0]), progs::hex(&codes[1]), vbal);
    let mut w = progs::world_from(spec, &codes, &balances, tx, descr);
    tags.push(format!("spec:{}", if spec as u8 >= SpecId::CANCUN as u8 { "cancun+" } else { "pre-cancun" }));
    w.tags = tags;
    w
}

pub fn run(o: &Opts) {
    let mut rng = Rng::new(o.seed ^ 0xC30);
    let mut w = CaseWriter::new(o, "C30", 250);
    let n = if o.thorough() { 30_000 } else { 3_000 };
    let perturb = std::env::var("VH_C30_PERTURB").unwrap_or_default();
    for i in 0..n {
        let world = match i % 10 {
            0..=5 => scenario(&mut rng),
            6 | 7 => progs::gen_world(&mut rng, &GenOpts { selfdestruct_pct: 45, ..Default::default() }),
            8 => { // the F8 witness itself and close variants
                let spec = if rng.chance(2, 3) { SpecId::CANCUN } else { progs::pick_spec(&mut rng) };
                let tx = progs::base_tx(TxKind::Call(progs::addr(progs::CONTRACT_BASE)), 100_000, U256::from(rng.below(3)), vec![]);
                let mut wd = progs::world_from(spec, &[vec![SELFDESTRUCT]], &[U256::from(rng.below(2))], tx, format!("spec={:?} code=ff called with value", spec));
                wd.tags = vec!["f8-witness".into()];
                wd
            }
            _ => progs::gen_world(&mut rng, &GenOpts { selfdestruct_pct: 0, ..Default::default() }),
        };
        let cancun = world.spec as u8 >= SpecId::CANCUN as u8;
        let (mut evs, steps, panicked, status) = observe(&world);
        if perturb == "drop-notify" && i % 7 == 0 { if let Some(j) = evs.iter().position(|e| matches!(e, Ev::Notify(..))) { evs.remove(j); } }
        if perturb == "value+1" && i % 7 == 0 { for e in evs.iter_mut() { if let Ev::Notify(_, _, v) = e { *v += U256::from(1); break; } } }
        if perturb == "spurious" && i % 7 == 0 { if let Some(j) = evs.iter().position(|e| matches!(e, Ev::Step(s) if s.res != 3)) {
            if let Ev::Step(s) = evs[j].clone() { evs.insert(j + 1, Ev::Notify(s.contract, s.contract, U256::from(1))); } } }
        let case = format!("(mkCase {} {} {})", zb(cancun), zlist(evs.iter().map(|e| e.coq())), zb(panicked));
        let human = format!("{} status={} steps={} events=[{}]", world.descr, status, steps, evs.iter().map(|e| e.human()).collect::<Vec<_>>().join("; "));
        let mut tags = world.tags.clone();
        let mut nsd = 0;
        for e in &evs {
            match e {
                Ev::Step(s) => { nsd += 1; tags.push(format!("sd-result:{}", s.res_name));
                    if s.res == 3 { let t = s.top.map(|t| Address::from_word(t.into())); tags.push(format!("completed:{}{}{}", if t == Some(s.contract) { "to-self" } else { "to-other" },
                        if s.created_rec { ",created-in-tx" } else { "" }, if s.before.is_zero() { ",zero-balance" } else { ",with-balance" })); } }
                Ev::Notify(..) => tags.push("notification".into()),
                Ev::Other(_) => tags.push("notification-after-other-opcode".into()),
            }
        }
        tags.push(format!("selfdestruct-steps:{}", match nsd { 0 => "0", 1 => "1", 2 => "2", _ => "3+" }));
        tags.sort(); tags.dedup();
        let tr: Vec<&str> = tags.iter().map(|s| s.as_str()).collect();
        w.push(case, human, nsd > 0, &tr);
    }
    w.finish("one real transaction per case with a recording inspector: 60% directed scenarios around a self-destructing contract (beneficiary self / ADDRESS / other contract / nonexistent / precompile / caller / coinbase / word with dirty high bits; victim reached by tx, CALL with value, STATICCALL, DELEGATECALL, CALLCODE with gas around the 5000 / 7600 / 30000 / 32600 thresholds, as init code, created and called in the same tx, twice; empty-stack SELFDESTRUCT after a value transfer), 20% random call graphs with many SELFDESTRUCTs, 10% the F8 witness shape, 10% graphs without SELFDESTRUCT; pre- and post-Cancun; non-trivial = at least one SELFDESTRUCT step executed; distinct = distinct event streams");
}
