(* Correspondence for C30.  A case is the stream, in order, of every executed SELFDESTRUCT
   step of one real transaction (what the recorder saw in step / step_end) and of every
   Inspector::selfdestruct notification (a notification that does not directly follow a
   SELFDESTRUCT step is preceded by an [EvOther] marker carrying the opcode executed last).

   oracle (from the property): walking the stream, a step whose result is SelfDestruct must
   be followed at once by the notification (contract, low 160 bits of the word on top of the
   stack before the step, balance_that_left) where "created in this transaction" is the
   recorder's own bookkeeping (a create frame was initialised for that address); every other
   step must not be followed by a notification; no notification anywhere else.
   model: Model/SelfDestructNotify.v fed with the observed state and result class predicts the
   contract's balance after the step and the notification. *)
From RevmV Require Export Base.Word Model.SelfDestructNotify Corr.Common.
Local Open Scope Z_scope.

Record sdstep := mkStep {
  st_contract : Z;
  st_top : option Z;        (* stack top before the step *)
  st_static : bool;
  st_created_impl : bool;   (* Account::is_created() of the contract before the step *)
  st_created_rec : bool;    (* recorder: a create frame was initialised for this address *)
  st_before : Z;            (* contract balance before *)
  st_after : Z;             (* contract balance at step_end *)
  st_target_before : Z;     (* beneficiary balance before; the harness passes 0 (overflow of the credit, F13, is out of scope) *)
  st_res : Z                (* 0 StateChangeDuringStaticCall, 1 StackUnderflow, 2 OutOfGas,
                               3 SelfDestruct, 4 anything else *)
}.
Inductive event :=
| EvStep (s : sdstep)
| EvOther (opc : Z)
| EvNotify (contract target value : Z).

Record case := mkCase { c_cancun : bool; c_events : list event; c_panicked : bool }.

Definition notif_eqb (a b : notification) : bool :=
  let '(a1, a2, a3) := a in let '(b1, b2, b3) := b in (a1 =? b1) && (a2 =? b2) && (a3 =? b3).

(* what the property demands after this step *)
Definition spec_notification (cancun : bool) (s : sdstep) : option notification :=
  if st_res s =? 3 then
    match st_top s with
    | Some w => Some (st_contract s, w mod 2 ^ 160,
                      if negb (st_contract s =? w mod 2 ^ 160) || st_created_rec s || negb cancun
                      then st_before s else 0)
    | None => Some (st_contract s, -1, -1)   (* completed without an operand: cannot be right *)
    end
  else None.

Fixpoint spec_walk (cancun : bool) (l : list event) : bool :=
  match l with
  | [] => true
  | EvStep s :: r =>
      match spec_notification cancun s, r with
      | Some n, EvNotify c t v :: r' => notif_eqb n (c, t, v) && spec_walk cancun r'
      | Some _, _ => false
      | None, EvNotify _ _ _ :: _ => false
      | None, _ => spec_walk cancun r
      end
  | EvOther _ :: _ => false      (* a notification after some other instruction *)
  | EvNotify _ _ _ :: _ => false (* a notification not owed to the preceding step *)
  end.

(* the model on the observed state *)
Definition res_of (z : Z) : option sd_result :=
  if z =? 0 then Some RStateChangeDuringStaticCall else if z =? 1 then Some RStackUnderflow
  else if z =? 2 then Some ROutOfGas else if z =? 3 then Some RSelfDestruct else None.

Definition model_res_code (r : sd_result) : Z :=
  match r with RStateChangeDuringStaticCall => 0 | RStackUnderflow => 1 | ROutOfGas => 2 | RSelfDestruct => 3 end.

Fixpoint model_walk (cancun : bool) (l : list event) : bool :=
  match l with
  | [] => true
  | EvStep s :: r =>
      match res_of (st_res s) with
      | None => false
      | Some robs =>
        let m := mkSd (st_static s) (match st_top s with Some w => [w] | None => [] end)
                      (st_contract s) (st_before s) (st_target_before s) (st_created_impl s) cancun
                      (match robs with ROutOfGas => false | _ => true end) in
        match wrapped_selfdestruct m with
        | Some (rm, after, n) =>
            (model_res_code rm =? st_res s) && (after =? st_after s) &&
            match n, r with
            | Some nn, EvNotify c t v :: r' => notif_eqb nn (c, t, v) && model_walk cancun r'
            | Some _, _ => false
            | None, EvNotify _ _ _ :: _ => false
            | None, _ => model_walk cancun r
            end
        | None => false
        end
      end
  | _ :: _ => false
  end.

Definition verdict (c : case) : Z :=
  if negb (c_panicked c) && spec_walk (c_cancun c) (c_events c)
  then (if model_walk (c_cancun c) (c_events c) then 0 else 1)
  else 2.

Definition failures (l : list case) := Common.failures verdict l.
