(* Correspondence for C07: sequences of frame events (make_call_frame / call_return /
   make_create_frame / create_return and host operations in between) executed on the real
   revm::EvmContext; model = Model/Frames.v. The oracle is the property: after every event the
   journal depth equals the number of open frames, and a call is rejected as too deep exactly
   when more than 1024 frames are open. *)
From RevmV Require Export Corr.C06 Model.Frames.
Local Open Scope Z_scope.

Definition fres_code (r : frame_or_result) : Z :=
  match r with
  | FFrame _ => 0
  | FResult RCallTooDeep => 1 | FResult ROutOfFunds => 2 | FResult ROverflowPayment => 3
  | FResult (RPrecompile true) => 4 | FResult (RPrecompile false) => 5
  | FResult RInvalidExtDelegateCallTarget => 6 | FResult RStop => 7
  | FResult RCreateInitCodeStartingEF00 => 8 | FResult RNonceOverflow => 9
  | FResult RCreateCollision => 10
  end.

Definition fstep_obs (d : db) (sc : st_sc) (e : fevent) : option st_sc * list Z :=
  match e with
  | EHop o => if plain_hop o then hop_obs d sc o else (None, [-99])
  | _ =>
      match fstep d sc e with
      | Some (sc', Some r) => (Some sc', [fres_code r; depth (fst sc')])
      | Some (sc', None) => (Some sc', [-1; depth (fst sc')])
      | None => (None, [-99])
      end
  end.

Fixpoint frun_obs (d : db) (sc : st_sc) (es : list fevent) : option st_sc * list (list Z) :=
  match es with
  | [] => (Some sc, [])
  | e :: r =>
      match fstep_obs d sc e with
      | (Some sc', ob) => let '(res, obs) := frun_obs d sc' r in (res, ob :: obs)
      | (None, ob) => (None, [ob])
      end
  end.

(* oracle on the implementation's answers: open-frame count against the reported depth *)
Fixpoint depth_oracle (open : Z) (es : list fevent) (obs : list (list Z)) : bool :=
  match es, obs with
  | [], _ => true
  | _, [] => true
  | e :: r, ob :: obr =>
      match e, ob with
      | EHop _, _ => depth_oracle open r obr
      | (ECall _ | ECreate _), [code; dp] =>
          let open' := if code =? 0 then open + 1 else open in
          (dp =? open') && (Bool.eqb (code =? 1) (open >? CALL_STACK_LIMIT)) && depth_oracle open' r obr
      | (ECallReturn _ | ECreateReturn _ _), [code; dp] =>
          (dp =? open - 1) && depth_oracle (open - 1) r obr
      | _, _ => true    (* the implementation panicked: judged by the model comparison *)
      end
  end.

Record case := mkCase {
  c_spur : bool; c_cancun : bool; c_pre : list Z;
  c_accs : list (Z * (Z * Z * Z)); c_sto : list (Z * Z * Z); c_del : list (Z * Z);
  c_us : list Z; c_ks : list Z;
  c_events : list fevent; c_obs : list (list Z); c_completed : bool; c_dump : dump }.

Definition verdict (c : case) : Z :=
  let d := mk_db (c_accs c) (c_sto c) (c_del c) in
  let s0 := jnew (c_spur c) (c_cancun c) (mem (c_pre c)) in
  let '(r, obs) := frun_obs d (s0, []) (c_events c) in
  let spec_ok := depth_oracle 0 (c_events c) (c_obs c) in
  let model_ok :=
    obs_eqb obs (c_obs c) &&
    match r with
    | Some (s1, _) => c_completed c && dump_eqb (dump_of s1 (c_us c) (c_ks c)) (c_dump c)
    | None => negb (c_completed c)
    end in
  if spec_ok then (if model_ok then 0 else 1) else 2.

Definition failures (l : list case) := Common.failures verdict l.
