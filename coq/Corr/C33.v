(* Correspondence for C33: a case is one transaction run through the real Evm with the Optimism
   handler.  Inputs: the transaction parameters [optx] (with the L1 cost obtained by calling
   L1BlockInfo::try_fetch + calculate_tx_l1_cost on the same database and envelope), the result of
   the top-level frame as seen by last_frame_return, the balances / nonce before.  Observation:
   the outcome of Evm::transact and the committed balances / nonce after. *)
From RevmV Require Export Base.Word Model.Gas Model.OpFees Model.L1Cost Corr.Common.
Local Open Scope Z_scope.

(* [c_slots]: the L1Block contract storage the database holds; [c_env]: byte statistics of the
   enveloped transaction (None when tx.optimism.enveloped_tx is None) *)
Record case := mkCase { c_tx : optx; c_f : fres; c_s0 : ost; c_obs : outcome;
                        c_slots : l1slots; c_env : option envsum }.

Definition ost_eqb (a b : ost) : bool :=
  (b_sender a =? b_sender b) && (b_rcpt a =? b_rcpt b) && (b_coinbase a =? b_coinbase b) &&
  (b_l1v a =? b_l1v b) && (b_basev a =? b_basev b) && (b_opv a =? b_opv b) && (nonce a =? nonce b).

Definition outcome_eqb (a b : outcome) : bool :=
  match a, b with
  | Invalid x, Invalid y => x =? y
  | Executed c1 u1 r1 s1, Executed c2 u2 r2 s2 => (c1 =? c2) && (u1 =? u2) && (r1 =? r2) && ost_eqb s1 s2
  | Panic, Panic => true
  | _, _ => false
  end.

(* ---------------------------------------------------------------------------------------------
   Specification oracle: the clauses of the property, on unbounded integers, evaluated on the
   observed balance changes.  It does not call the model's pipeline functions. *)
Definition opt0 (o : option Z) : Z := match o with Some x => x | None => 0 end.

(* domain of the property: a typed Optimism transaction (a mint only on deposits, deposits carry no
   gas price), the ether supply and the fee sums are 256-bit values *)
Definition in_domain (t : optx) (s : ost) : bool :=
  (b_sender s + b_rcpt s + b_coinbase s + b_l1v s + b_basev s + b_opv s + opt0 (mint t) <? pow256) &&
  (basefee t + opt0 (priority t) <? pow256) &&
  (if is_deposit t then (gas_price t =? 0) else match mint t with None => true | Some _ => false end).

(* EIP-1559 price paid per unit of gas *)
Definition spec_price (t : optx) : Z :=
  match priority t with Some p => Z.min (gas_price t) (basefee t + p) | None => gas_price t end.
(* Isthmus operator fee for [g] units of gas: floor(g * scalar / 10^6) + constant *)
Definition spec_operator_fee (t : optx) (g : Z) : Z :=
  if ISTHMUS <=? spec t then g * op_scalar t / 1000000 + op_const t else 0.

Definition spec_ok (c : case) : bool :=
  let t := c_tx c in let s0 := c_s0 c in
  if negb (in_domain t s0) then true else
  match c_obs c with
  | Panic => false
  | Invalid _ => negb (is_deposit t)   (* a deposit is never dropped: it mints and bumps the nonce *)
  | Executed class gu gr s =>
    let d_sender := b_sender s - b_sender s0 in
    let d_rcpt := b_rcpt s - b_rcpt s0 in
    let d_cb := b_coinbase s - b_coinbase s0 in
    let d_l1 := b_l1v s - b_l1v s0 in
    let d_base := b_basev s - b_basev s0 in
    let d_op := b_opv s - b_opv s0 in
    let moved := if class =? 0 then value t else 0 in
    let nonce_ok := nonce s =? Z.min (nonce s0 + 1) (pow64 - 1) in
    if negb (is_deposit t) then
      (* sender's debit = value + beneficiary + base-fee vault + L1-fee vault + operator-fee vault *)
      (0 <=? class) && (class <=? 2) && (0 <=? gu) && (gu <=? gas_limit t) &&
      (- d_sender =? d_rcpt + d_cb + d_base + d_l1 + d_op) &&
      (d_rcpt =? moved) &&
      (d_l1 =? l1 t) &&
      (d_base =? basefee t * gu) &&
      (d_cb =? (spec_price t - basefee t) * gu) &&
      (d_op =? spec_operator_fee t gu) &&
      nonce_ok
    else
      let m := opt0 (mint t) in
      (* fees of a deposit are pre-paid on L1: nobody is credited; exactly [mint] is created *)
      (d_cb =? 0) && (d_l1 =? 0) && (d_base =? 0) && (d_op =? 0) && nonce_ok &&
      (if class =? 3 then
         (d_sender =? m) && (d_rcpt =? 0) &&
         (gu =? (if (REGOLITH <=? spec t) || negb (is_system t) then gas_limit t else 0))
       else
         (0 <=? class) && (class <=? 2) &&
         (d_sender + d_rcpt =? m) && (d_rcpt =? moved) &&
         (* a halted deposit is reported as FailedDeposit from Regolith on *)
         negb ((class =? 2) && (REGOLITH <=? spec t)) &&
         (* Bedrock: gas usage of deposits is the gas limit (0 for successful system transactions) *)
         (if REGOLITH <=? spec t then (0 <=? gu) && (gu <=? gas_limit t)
          else gu =? (if (class =? 0) && is_system t then 0 else gas_limit t)))
  end.

(* known-finding class 10: a deposit rejected by preverify_transaction_inner (intrinsic gas /
   EIP-7623 floor above its gas limit) is returned as Err without passing through `end`: neither
   mint nor nonce increment is persisted *)
Definition class10 (c : case) : bool :=
  is_deposit (c_tx c) && match c_obs c with Invalid _ => true | _ => false end.

(* known-finding class 11: a pre-Regolith deposit that is a CREATE and cannot pay its value
   (balance + mint < value) halts with OutOfFunds at make_create_frame's balance pre-check, which
   sits before inc_nonce; before Regolith the halt is an ordinary result, so the committed state
   has the mint but not the nonce increment.  The class requires that everything else the oracle
   asks for holds: re-evaluated with the nonce the property demands. *)
Definition bump_nonce (c : case) : case :=
  match c_obs c with
  | Executed class gu gr s =>
      mkCase (c_tx c) (c_f c) (c_s0 c)
        (Executed class gu gr (mkSt (b_sender s) (b_rcpt s) (b_coinbase s) (b_l1v s) (b_basev s) (b_opv s)
                                     (Z.min (nonce s + 1) (pow64 - 1))))
        (c_slots c) (c_env c)
  | _ => c
  end.
Definition class11 (c : case) : bool :=
  let t := c_tx c in
  is_deposit t && negb (is_call t) && (spec t <? REGOLITH) &&
  (b_sender (c_s0 c) + opt0 (mint t) <? value t) &&
  match c_obs c with
  | Executed class _ _ s => (class =? 2) && (nonce s =? nonce (c_s0 c)) && spec_ok (bump_nonce c)
  | _ => false
  end.

(* second model: try_fetch decoding + L1 cost arithmetic reproduce the values the implementation
   reported (l1 cost of the envelope, operator fee scalar and constant) *)
Definition l1_agree (c : case) : bool :=
  let t := c_tx c in
  let i := try_fetch (spec t) (c_slots c) in
  (opt0z (i_op_scalar i) =? op_scalar t) && (opt0z (i_op_const i) =? op_const t) &&
  match c_env c with
  | Some e => l1_cost (spec t) i e =? l1 t
  | None => negb (has_envelope t)
  end.

Definition verdict (c : case) : Z :=
  let agree := outcome_eqb (transact (c_tx c) (c_f c) (c_s0 c)) (c_obs c) && l1_agree c in
  if spec_ok c then (if agree then 0 else 1)
  (* known classes only while the implementation behaves as the model records *)
  else if negb agree then 2
  else if class10 c then 10 else if class11 c then 11 else 2.

Definition failures (l : list case) := Common.failures verdict l.
