(* Shared plumbing of the correspondence checks: a case is evaluated inside Coq by
   [vm_compute]; the verdict is a small integer.
     0  model and implementation agree (and the specification oracle accepts)
     1  model and implementation disagree, specification oracle accepts the implementation
        (the correspondence is broken, no failing input for the property itself)
     2  the implementation's observed behaviour contradicts the property on this input
     10+k  as 2, but the input lies in known-finding class k of /verif/known_findings.json *)
From Coq Require Export ZArith List Bool.
Export ListNotations.
Local Open Scope Z_scope.

Fixpoint failures_from {A} (verdict : A -> Z) (i : Z) (l : list A) : list (Z * Z) :=
  match l with
  | [] => []
  | c :: r => let v := verdict c in
              if v =? 0 then failures_from verdict (i + 1) r
              else (i, v) :: failures_from verdict (i + 1) r
  end.
Definition failures {A} (verdict : A -> Z) (l : list A) : list (Z * Z) :=
  failures_from verdict 0 l.

Fixpoint list_eqb {A} (eqb : A -> A -> bool) (a b : list A) : bool :=
  match a, b with
  | [], [] => true
  | x :: a', y :: b' => eqb x y && list_eqb eqb a' b'
  | _, _ => false
  end.
Definition opt_eqb {A} (eqb : A -> A -> bool) (a b : option A) : bool :=
  match a, b with
  | None, None => true
  | Some x, Some y => eqb x y
  | _, _ => false
  end.
Definition zlist_eqb := list_eqb Z.eqb.
