(* Correspondence for C28. Three kinds of cases:
   Cell   — one InstructionResult variant as the compiled code classifies it; oracle: the row of
            Spec/ResultClassSpec.v; model: the row of Gen/ResultClass.v.
   Insert — the real Interpreter::insert_call_outcome (kind 0) / insert_create_outcome (1) /
            handler last_frame_return (2) applied to an outcome directly ([plain]) and after the
            real GasInspector::call_end / create_end ([insp]): observed (remaining, refunded) of
            the receiving Gas, None = panicked.  oracle: plain = insp; model: both predicted.
   Diff   — digests of (ExecutionResult, EvmState) of one transaction run bare and with each
            observing inspector.  oracle: all equal, nothing panicked. *)
From RevmV Require Export Base.Word Model.Gas Gen.ResultClass Spec.ResultClassSpec Model.InspectorTransparent Corr.Common.
Local Open Scope Z_scope.

Inductive case :=
| Cell (d : Z) (ok rev err : bool) (k : Z)
| Insert (kind d : Z) (parent og : gas) (txl : Z) (plain insp : option (Z * Z))
| Diff (bare : Z) (vs : list (Z * Z)) (panicked : bool).

Definition row_eqb (a b : bool * bool * bool * Z) : bool :=
  let '(a1, a2, a3, a4) := a in let '(b1, b2, b3, b4) := b in
  Bool.eqb a1 b1 && Bool.eqb a2 b2 && Bool.eqb a3 b3 && (a4 =? b4).

Definition obs_of (g : option gas) : option (Z * Z) :=
  match g with Some g => Some (remaining g, refunded g) | None => None end.
Definition obs_eqb := opt_eqb (fun a b : Z * Z => (fst a =? fst b) && (snd a =? snd b)).

Definition model_insert (kind d : Z) (parent og : gas) (txl : Z) (through_gas_inspector : bool) : option (Z * Z) :=
  let o := if through_gas_inspector then gas_inspector_end (d, og) else (d, og) in
  obs_of (if kind =? 2 then last_frame_return_gas txl o else insert_outcome_gas parent o).

Definition verdict (c : case) : Z :=
  match c with
  | Cell d ok rev err k =>
      match lookup spec_table d with
      | Some row =>
          if row_eqb row (ok, rev, err, k)
          then (match lookup result_table d with
                | Some g => if row_eqb g (ok, rev, err, k) then 0 else 1
                | None => 1 end)
          else 2
      | None => 2   (* a variant the specification does not know *)
      end
  | Insert kind d parent og txl plain insp =>
      if obs_eqb plain insp
      then (if obs_eqb (model_insert kind d parent og txl false) plain
               && obs_eqb (model_insert kind d parent og txl true) insp then 0 else 1)
      else 2
  | Diff bare vs panicked =>
      if negb panicked && forallb (fun v : Z * Z => snd v =? bare) vs then 0 else 2
  end.

Definition failures (l : list case) := Common.failures verdict l.
