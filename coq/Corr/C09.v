(* Correspondence for C09. A case = (SpecId, Env, initial and floor gas as computed by the real
   calculate_initial_tx_gas, sender and beneficiary balances before) and what the real
   Evm::transact was observed to do: ExecutionResult class / gas_used / gas_refunded, balances in
   the returned state, and — recorded by wrapping the public handles — the first frame's result as
   handed to last_frame_return, the EIP-7702 refund handed to refund, and the meter after
   last_frame_return, after refund and at reimburse_caller. *)
From RevmV Require Export Base.Word Model.Gas Model.Envelope Model.Settlement Corr.Common.
Local Open Scope Z_scope.

Definition snap := (Z * Z * Z)%type.     (* limit, remaining, refunded *)
Record obs := mkObs {
  o_class : Z;                 (* 0 Success, 1 Revert, 2 Halt *)
  o_gas_used : Z;
  o_gas_refunded : option Z;   (* Success only *)
  o_caller : Z; o_coinbase : Z;
  o_fclass : frame_class; o_frem : Z; o_fref : Z;
  o_auth_refund : Z;
  o_after_last_frame : snap; o_after_refund : snap; o_final : snap
}.
Record case := mkCase {
  c_spec : Z; c_env : env; c_initial : Z; c_floor : Z; c_b0 : Z; c_c0 : Z;
  c_obs : option (obs * Z)     (* observation, value that left the caller during execution *)
}.

Definition snap_of (g : gas) : snap := (limit g, remaining g, refunded g).
Definition snap_eqb (a b : snap) : bool :=
  let '(a1,a2,a3) := a in let '(b1,b2,b3) := b in (a1 =? b1) && (a2 =? b2) && (a3 =? b3).
Definition class_code (f : frame_class) : Z := match f with FOk => 0 | FRevert => 1 | FHalt => 2 end.

(* model = implementation *)
Definition agree (c : case) (o : obs) (dneg : Z) : bool :=
  let e := c_env c in let spec := c_spec c in
  let f := mkFrame (o_fclass o) (o_frem o) (o_fref o) in
  let '(ini, flo) := initial_and_floor spec e in
  (ini =? c_initial c) && (flo =? c_floor c) &&
  (class_code (o_fclass o) =? o_class o) &&
  (match last_frame_return e f with
   | Some g1 => snap_eqb (snap_of g1) (o_after_last_frame o) &&
       match refund spec g1 (o_auth_refund o) with
       | Some g2 => snap_eqb (snap_of g2) (o_after_refund o)
       | None => false end
   | None => false end) &&
  match settle spec e flo f (o_auth_refund o) (c_b0 c) (- dneg) (c_c0 c) with
  | Some s =>
      snap_eqb (snap_of (st_gas s)) (o_final o) &&
      (st_gas_used s =? o_gas_used o) &&
      (match o_gas_refunded o with Some r => st_gas_refunded s =? r | None => true end) &&
      (st_caller s =? o_caller o) && (st_coinbase s =? o_coinbase o)
  | None => false
  end.

Definition impb (a b : bool) : bool := negb a || b.

(* specification oracle: the clauses of the property, and the execution-specs' formulas they come
   from, over unbounded integers on the observed numbers; no model function is used *)
Definition oracle (c : case) (o : obs) (dneg : Z) : bool :=
  let e := c_env c in let t := e_tx e in let spec := c_spec c in
  let gl := tx_gas_limit t in
  let london := 12 <=? spec in let prague := 18 <=? spec in let cancun := 17 <=? spec in
  let q := if london then 5 else 2 in
  let floor := if prague then c_floor c else 0 in
  let used := o_gas_used o in
  let spent := match o_fclass o with FHalt => gl | _ => gl - o_frem o end in
  (* the refund counter: the frame's refund counts only on success; the EIP-7702 refund always *)
  let counter := match o_fclass o with FOk => o_fref o + o_auth_refund o | _ => o_auth_refund o end in
  let capped := Z.min counter (spent / q) in
  let floor_hit := spent - capped <? floor in
  let refund := if floor_hit then 0 else capped in
  let basefee := b_basefee (e_block e) in
  let eff := match tx_gas_priority_fee t with
             | Some p => Z.min (tx_gas_price t) (basefee + p) | None => tx_gas_price t end in
  let blob_fee := if cancun then match b_blob_gasprice (e_block e) with
                                 | Some p => p * (131072 * Z.of_nat (length (tx_blob_hashes t)))
                                 | None => 0 end else 0 in
  let tip := if london then eff - basefee else eff in
  (* intrinsic <= gas spent before the refund <= gas limit (note 6.2) *)
  (c_initial c <=? spent) && (spent <=? gl) && (0 <=? o_frem o) &&
  (* gas used <= gas limit, >= floor from PRAGUE *)
  (used <=? gl) && (floor <=? used) &&
  (* refund <= spent / q, zero on revert or halt apart from the EIP-7702 refund *)
  (0 <=? counter) && (refund <=? spent / q) &&
  (match o_fclass o with FOk => true | _ => impb (o_auth_refund o =? 0) (refund =? 0) end) &&
  (used =? (if floor_hit then floor else spent - refund)) &&
  (match o_gas_refunded o with Some r => r =? refund | None => true end) &&
  (* a halted transaction uses its whole gas limit (EIP-7702 refund aside) *)
  (match o_fclass o with FHalt => impb (o_auth_refund o =? 0) (used =? gl) | _ => true end) &&
  (* the sender pays exactly effective price * gas used + blob fee *)
  (o_caller o =? c_b0 c - dneg - (eff * used + blob_fee)) &&
  (* the beneficiary receives exactly tip * gas used (unless its balance would exceed 2^256) *)
  (if c_c0 c + tip * used <? pow256 then o_coinbase o =? c_c0 c + tip * used else true).

Definition verdict (c : case) : Z :=
  match c_obs c with
  | None => 2     (* a validated transaction was rejected or the implementation panicked *)
  | Some (o, dneg) =>
      if oracle c o dneg then (if agree c o dneg then 0 else 1) else 2
  end.

Definition failures (l : list case) := Common.failures verdict l.
