(* Correspondence for C24.  Cases carry the results of BOTH builds of the precompile crate on the
   same input:  Ec / Kz (joint), EcOne / KzOne (the k256 + kzg-rs build alone).
   verdict 2: the two backends disagree (or an official KZG vector is answered wrongly);
   verdict 1: they agree with each other but not with the Gallina model (ecrecover, KZG pre-checks). *)
From RevmV Require Export Corr.C23.
Local Open Scope Z_scope.

Inductive case :=
  | Ec (chk : bool) (input : list seg) (gas : Z) (c rs : obs)
  | Kz (expected : Z) (input : list seg) (gas : Z) (c rs : obs)
  | EcOne (chk : bool) (input : list seg) (gas : Z) (o : obs)
  | KzOne (expected : Z) (input : list seg) (gas : Z) (o : obs)
  | Broken (n : Z).

Definition obs_eqb (a b : obs) : bool := opt_eqb presult_eqb (impl_of a) (impl_of b).

(* ecrecover: with [chk] the full Gallina recovery is evaluated, otherwise only the shape
   (3000 gas, empty or 32-byte output with 12 leading zeros / OutOfGas iff limit < 3000) *)
Definition ec_model_ok (chk : bool) (input : bytes) (gas : Z) (o : obs) : bool :=
  if chk then opt_eqb presult_eqb (Some (ec_recover_run input gas)) (impl_of o)
  else match impl_of o with
       | Some (POk g out) => (3000 <=? gas) && (g =? 3000) &&
                             (bytes_eqb out [] || ((zlen out =? 32) && all_zero (firstn 12 out)))
       | Some (PErr k) => (k =? 1) && (gas <? 3000)
       | None => false
       end.

(* expected: 1 official vector says true, 0 false, 2 invalid input, 3 no official answer *)
Definition kz_expected_ok (expected : Z) (input : bytes) (gas : Z) (o : obs) : bool :=
  if gas <? 50000 then match impl_of o with Some (PErr 1) => true | _ => false end else
  if expected =? 1 then opt_eqb presult_eqb (impl_of o) (Some (POk 50000 kzg_return_value))
  else if (expected =? 0) || (expected =? 2) then
    match impl_of o with Some (PErr k) => (k =? 12) || ((k =? 10) && negb (zlen input =? 192)) | _ => false end
  else true.
Definition kz_model_ok (input : bytes) (gas : Z) (o : obs) : bool :=
  match impl_of o with
  | Some r => presult_eqb (kzg_run input gas r) r
  | None => false
  end.

Definition verdict (c : case) : Z :=
  match c with
  | Ec chk input gas c rs =>
    let input := unseg input in
    if obs_eqb c rs then (if ec_model_ok chk input gas c then 0 else 1) else 2
  | Kz expected input gas c rs =>
    let input := unseg input in
    if obs_eqb c rs && kz_expected_ok expected input gas c then (if kz_model_ok input gas c then 0 else 1) else 2
  | EcOne chk input gas o => if ec_model_ok chk (unseg input) gas o then 0 else 1
  | KzOne expected input gas o =>
    let input := unseg input in
    if kz_expected_ok expected input gas o then (if kz_model_ok input gas o then 0 else 1) else 2
  | Broken _ => 1
  end.

Definition failures (l : list case) := Common.failures verdict l.
