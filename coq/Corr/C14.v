(* Correspondence for C14: dynamic gas formulas.  A case = arguments + what the real function
   (or the real opcode on a real Interpreter) was observed to do.
   Observations: [Some v] value returned / gas spent, [None] = None / OutOfGas;
   panics are encoded as the value -1. *)
From RevmV Require Export Base.Word Gen.Specs Model.GasCalc Corr.Common.
From RevmV Require Gen.GasConst Spec.GasSpec.
Local Open Scope Z_scope.

Module S := GasSpec.

Inductive case :=
| KEnabled (our other : spec) (obs : bool)                 (* SpecId::enabled *)
| KConst (idx : Z) (obs : Z)                               (* compiled constant number idx *)
| KWord (fn : Z) (s : spec) (len : Z) (cold : bool) (n : Z) (obs : option Z)
    (* fn 0 cost_per_word(len, n)  1 verylowcopy_cost(len)  2 extcodecopy_cost(s, len, cold)
          3 log_cost(n, len)  4 keccak256_cost(len)  5 create2_cost(len)
          6 initcode_cost(len) (Some -1 = panic)  7 num_words(len)  8 memory_gas(len)
          9 memory_gas_for_len(len) *)
| KExp (s : spec) (power : Z) (obs : option Z)
| KSload (s : spec) (cold : bool) (obs : Z)
| KSstore (s : spec) (original present new gas : Z) (cold : bool) (obs_cost : option Z) (obs_refund : Z)
| KSelfdestruct (s : spec) (had_value target_exists cold : bool) (obs : Z)
| KCall (s : spec) (transfers_value cold : bool) (delegate : option bool) (is_empty : bool) (obs : Z)
| KWarmCold (cold : bool) (delegate : option bool) (obs_plain obs_deleg : Z)
| KTokens (input : list Z) (istanbul release : bool) (obs : Z)
| KFloor (tokens : Z) (release : bool) (obs : Z)
| KTx (s : spec) (input : list Z) (is_create : bool) (access_keys : list Z) (auths : Z)
      (release : bool) (obs_initial obs_floor : Z)
| KOp (kind : Z) (s : spec) (a b c : Z) (cold : bool) (gas_limit : Z) (obs : option (Z * Z)).
    (* real opcodes on a real Interpreter, gas spent and refund counter when the run stops
       normally, None when it halts with an out-of-gas result:
       0 KECCAK256(0, a)  1 CALLDATACOPY(0, 0, a)  2 LOG<b>(0, a)  3 EXP(3, a)
       4 SLOAD (host answers cold)  5 SSTORE, host answers (original a, present b, new c, cold)
       6 MSTORE(a, 1); MSTORE(b, 1)  7 EXTCODECOPY(addr, 0, 0, a) (host answers cold)
       8 SELFDESTRUCT, host answers had_value = bit 0 of a, target_exists = bit 1,
         previously_destroyed = bit 2, cold
       9 CREATE2(0, 0, a, salt): (gas spent without the forwarded gas, forwarded gas);
         (-3, -3) = CreateInitCodeSizeLimit
       10 CALL(gas b, to, value a, 0, 0, 0, 0), host answers is_empty = bit 0 of c, delegation
          present = bit 1, delegation target cold = bit 2, cold: (gas spent including the gas
          handed to the callee, gas limit of the callee including the stipend) *)

(* long inputs are written by the harness as a repeated pattern *)
Definition rep (pattern : list Z) (n : Z) : list Z := concat (repeat pattern (Z.to_nat n)).

Definition fits (x : Z) : option Z := if is_u64 x then Some x else None.
Definition oz_eqb := opt_eqb Z.eqb.
Definition clamp64 (x : Z) : Z := if x <? pow64 then x else pow64 - 1.

(* the constants as the EIPs give them, in the order of the reflector *)
Definition const_expected : list Z :=
  [0; 2; 3; 3; 4; 3; 4; 5; 8; 10; 1; 24000; 32000; 9000; 25000; 10; 3; 375; 8; 375; 30; 6; 3; 20; 200;
   800; 20000; 5000; 15000; 4; 68; 17; 16; 4; 10; 32000; 2400; 1900; 2100; 2600; 100; 2900; 2; 2300; 2300;
   24576; 49152; 12500; 25000].
Definition const_model : list Z :=
  [GasConst.ZERO; GasConst.BASE; GasConst.VERYLOW; GasConst.DATA_LOADN_GAS; GasConst.CONDITION_JUMP_GAS;
   GasConst.RETF_GAS; GasConst.DATA_LOAD_GAS; GasConst.LOW; GasConst.MID; GasConst.HIGH; GasConst.JUMPDEST;
   GasConst.SELFDESTRUCT; GasConst.CREATE; GasConst.CALLVALUE; GasConst.NEWACCOUNT; GasConst.EXP;
   GasConst.MEMORY; GasConst.LOG; GasConst.LOGDATA; GasConst.LOGTOPIC; GasConst.KECCAK256;
   GasConst.KECCAK256WORD; GasConst.COPY; GasConst.BLOCKHASH; GasConst.CODEDEPOSIT;
   GasConst.INSTANBUL_SLOAD_GAS; GasConst.SSTORE_SET; GasConst.SSTORE_RESET; GasConst.REFUND_SSTORE_CLEARS;
   GasConst.STANDARD_TOKEN_COST; GasConst.NON_ZERO_BYTE_DATA_COST; GasConst.NON_ZERO_BYTE_MULTIPLIER;
   GasConst.NON_ZERO_BYTE_DATA_COST_ISTANBUL; GasConst.NON_ZERO_BYTE_MULTIPLIER_ISTANBUL;
   GasConst.TOTAL_COST_FLOOR_PER_TOKEN; GasConst.EOF_CREATE_GAS; GasConst.ACCESS_LIST_ADDRESS;
   GasConst.ACCESS_LIST_STORAGE_KEY; GasConst.COLD_SLOAD_COST; GasConst.COLD_ACCOUNT_ACCESS_COST;
   GasConst.WARM_STORAGE_READ_COST; GasConst.WARM_SSTORE_RESET; GasConst.INITCODE_WORD_COST;
   GasConst.CALL_STIPEND; GasConst.MIN_CALLEE_GAS; GasConst.MAX_CODE_SIZE; GasConst.MAX_INITCODE_SIZE;
   GasConst.PER_AUTH_BASE_COST; GasConst.PER_EMPTY_ACCOUNT_COST].

(* ---- per-word family ---- *)
Definition word_model (fn : Z) (s : spec) (len : Z) (cold : bool) (n : Z) : option Z :=
  match fn with
  | 0 => cost_per_word len n
  | 1 => verylowcopy_cost len
  | 2 => extcodecopy_cost s len cold
  | 3 => log_cost n len
  | 4 => keccak256_cost len
  | 5 => create2_cost len
  | 6 => match initcode_cost len with Some v => Some v | None => Some (-1) end
  | 7 => Some (num_words len)
  | 8 => Some (memory_gas len)
  | _ => Some (memory_gas_for_len len)
  end.
Definition word_spec (fn : Z) (s : spec) (len : Z) (cold : bool) (n : Z) : option Z :=
  match fn with
  | 0 => fits (S.cost_per_word len n)
  | 1 => fits (S.copy_cost len)
  | 2 => fits (S.extcodecopy_cost s len cold)
  | 3 => fits (S.log_cost n len)
  | 4 => fits (S.keccak256_cost len)
  | 5 => fits (S.create2_cost len)
  | 6 => Some (S.initcode_cost len)
  | 7 => Some (S.words len)
  | 8 => Some (clamp64 (S.memory_cost len))
  | _ => Some (clamp64 (S.memory_cost (S.words len)))
  end.
(* known finding C14-num-words-top31: num_words(len) = (2^64-1)/32 for the 31 lengths above 2^64-32 *)
Definition top31 (fn len : Z) : bool :=
  (pow64 - 32 <? len) && negb (fn =? 3) && negb (fn =? 8).

(* ---- transaction sums ---- *)
Definition tx_model (s : spec) input is_create access_keys auths (release : bool) : Z * Z :=
  match calculate_initial_tx_gas_chk s input is_create access_keys auths with
  | Some r => r
  | None => (-1, -1) (* harness inputs never reach an overflow point of the sums *)
  end.

(* ---- real opcodes: gas charged, step by step as the interpreter does ---- *)
Definition charge (rem : option Z) (cost : option Z) : option Z :=
  match rem, cost with
  | Some r, Some c => if c <=? r then Some (r - c) else None
  | _, _ => None
  end.
(* resize_memory!(offset, len) with current memory size cur (bytes, multiple of 32) *)
Definition resize (rem : option Z) (cur offset length : Z) : option Z * Z :=
  let new_size := sat64 (offset + length) in
  if new_size >? cur then
    let w := num_words new_size in
    (charge rem (Some (memory_gas w - memory_gas_for_len cur)), w * 32)
  else (rem, cur).
Definition as_usize (x : Z) : option Z := if x <? pow64 then Some x else None.
Definition pushes (limit n : Z) : option Z := charge (Some limit) (Some (n * GasConst.VERYLOW)).

Definition op_model (kind : Z) (s : spec) (a b c : Z) (cold : bool) (limit : Z) : option (Z * Z) :=
  let fin (rem : option Z) (refund : Z) :=
    match rem with Some r => Some (limit - r, refund) | None => None end in
  match kind with
  | 0 => match as_usize a with None => None | Some l =>
           let r := charge (pushes limit 2) (keccak256_cost l) in
           if l =? 0 then fin r 0 else fin (fst (resize r 0 0 l)) 0 end
  | 1 => match as_usize a with None => None | Some l =>
           let r := charge (pushes limit 3) (verylowcopy_cost l) in
           if l =? 0 then fin r 0 else fin (fst (resize r 0 0 l)) 0 end
  | 2 => match as_usize a with None => None | Some l =>
           let r := charge (pushes limit (2 + b)) (log_cost b l) in
           if l =? 0 then fin r 0 else fin (fst (resize r 0 0 l)) 0 end
  | 3 => fin (charge (pushes limit 2) (exp_cost s a)) 0
  | 4 => fin (charge (pushes limit 1) (Some (sload_cost s cold))) 0
  | 5 => let r0 := pushes limit 2 in
         match r0 with
         | None => None
         | Some rem =>
           let v := mkSStore a b c in
           match charge r0 (sstore_cost s v rem cold) with
           | None => None
           | Some r => fin (Some r) (sstore_refund s v)
           end
         end
  | 6 => let r0 := charge (pushes limit 2) (Some GasConst.VERYLOW) in
         match as_usize a with None => None | Some o1 =>
           let '(r1, cur) := resize r0 0 o1 32 in
           let r2 := charge (charge r1 (Some (2 * GasConst.VERYLOW))) (Some GasConst.VERYLOW) in
           match as_usize b with None => None | Some o2 =>
             fin (fst (resize r2 cur o2 32)) 0 end end
  | 7 => match as_usize a with None => None | Some l =>
           let r := charge (pushes limit 4) (extcodecopy_cost s l cold) in
           if l =? 0 then fin r 0 else fin (fst (resize r 0 0 l)) 0 end
  | 8 => let hv := Z.odd a in let te := Z.odd (a / 2) in let pd := Z.odd (a / 4) in
         fin (charge (pushes limit 1) (Some (selfdestruct_cost s hv te cold)))
             (if negb (enabled s LONDON) && negb pd then GasConst.SELFDESTRUCT else 0)
  | 10 => let has_transfer := negb (a =? 0) in
          let dg := if Z.odd (c / 2) then Some (Z.odd (c / 4)) else None in
          match charge (pushes limit 7) (Some (call_cost s has_transfer cold dg (Z.odd c))) with
          | None => None
          | Some rem =>
            let req := if b <? pow64 then b else pow64 - 1 in
            let gl := if enabled s TANGERINE then Z.min (rem - rem / 64) req else req in
            match charge (Some rem) (Some gl) with
            | None => None
            | Some rem2 =>
                Some (limit - rem2, if has_transfer then sat64 (gl + GasConst.CALL_STIPEND) else gl)
            end
          end
  | _ => match pushes limit 4, as_usize a with
         | Some r0, Some l =>
           let after_init :=
             if l =? 0 then Some (Some r0)
             else if enabled s SHANGHAI && (l >? GasConst.MAX_INITCODE_SIZE) then None
             else let r1 := if enabled s SHANGHAI then charge (Some r0) (initcode_cost l) else Some r0 in
                  Some (fst (resize r1 0 0 l)) in
           match after_init with
           | None => Some (-3, -3)
           | Some r2 =>
             match charge r2 (create2_cost l) with
             | Some rem => let fwd := if enabled s TANGERINE then rem - rem / 64 else rem in
                           Some (limit - rem, fwd)
             | None => None
             end
           end
         | _, _ => None
         end
  end.

(* the same from the specification side: total = 3 per PUSH + EIP cost + memory-cost difference *)
Definition op_spec (kind : Z) (s : spec) (a b c : Z) (cold : bool) (limit : Z) : option (Z * Z) :=
  let within (total refund : Z) := if total <=? limit then Some (total, refund) else None in
  let mem (bytes : Z) := S.memory_cost (S.words bytes) in
  match kind with
  | 0 => within (6 + S.keccak256_cost a + mem a) 0
  | 1 => within (9 + S.copy_cost a + mem a) 0
  | 2 => within (3 * (2 + b) + S.log_cost b a + mem a) 0
  | 3 => within (6 + S.exp_cost s a) 0
  | 4 => within (3 + S.sload_cost s cold) 0
  | 5 => match S.sstore_cost s a b c (limit - 6) cold with
         | None => None
         | Some g => within (6 + g) (S.sstore_refund s a b c)
         end
  | 6 => within (18 + mem (Z.max (a + 32) (b + 32))) 0
  | 7 => within (12 + S.extcodecopy_cost s a cold + mem a) 0
  | 8 => within (3 + S.selfdestruct_cost s (Z.odd a) (Z.odd (a / 2)) cold)
                (if S.since s LONDON then 0 else if Z.odd (a / 4) then 0 else 24000)
  | 10 => let access := 21 + S.call_cost s (negb (a =? 0)) cold
                           (if Z.odd (c / 2) then Some (Z.odd (c / 4)) else None) (Z.odd c) in
          if access <=? limit then
            let avail := limit - access in
            (* EIP-150: at most all but one 64th of the remaining gas; before: exactly the request *)
            let fwd := if S.since s TANGERINE then Z.min b (avail - avail / 64) else b in
            if fwd <=? avail
            then Some (access + fwd, fwd + (if a =? 0 then 0 else 2300))
            else None
          else None
  | _ => if negb (a =? 0) && S.since s SHANGHAI && (49152 <? a) && (a <? pow64) then
           (if 12 <=? limit then Some (-3, -3) else None)  (* EIP-3860 size limit *)
         else
           let total := 12 + S.create2_cost a + (if S.since s SHANGHAI then S.initcode_cost a else 0) + mem a in
           if total <=? limit
           then Some (total, (limit - total) - (limit - total) / 64)   (* EIP-150: all but one 64th *)
           else None
  end.

Definition pair_eqb (x y : Z * Z) : bool := (fst x =? fst y) && (snd x =? snd y).
Definition combine (model_ok spec_ok : bool) : Z :=
  if spec_ok then (if model_ok then 0 else 1) else 2.

Definition verdict (c : case) : Z :=
  match c with
  | KEnabled a b obs => combine (Bool.eqb (Specs.is_enabled_in a b) obs) (Bool.eqb (S.since a b) obs)
  | KConst i obs =>
      combine (nth (Z.to_nat i) const_model (-7) =? obs) (nth (Z.to_nat i) const_expected (-7) =? obs)
  | KWord fn s len cold n obs =>
      let m := oz_eqb (word_model fn s len cold n) obs in
      let sp := oz_eqb (word_spec fn s len cold n) obs in
      if sp then (if m then 0 else 1)
      else if top31 fn len && m then 10 else 2
  | KExp s p obs => combine (oz_eqb (exp_cost s p) obs) (oz_eqb (fits (S.exp_cost s p)) obs)
  | KSload s cold obs => combine (sload_cost s cold =? obs) (S.sload_cost s cold =? obs)
  | KSstore s o p n g cold oc orf =>
      let v := mkSStore o p n in
      combine (oz_eqb (sstore_cost s v g cold) oc && (sstore_refund s v =? orf))
              (oz_eqb (S.sstore_cost s o p n g cold) oc && (S.sstore_refund s o p n =? orf))
  | KSelfdestruct s hv te cold obs =>
      combine (selfdestruct_cost s hv te cold =? obs) (S.selfdestruct_cost s hv te cold =? obs)
  | KCall s tv cold dg ie obs =>
      combine (call_cost s tv cold dg ie =? obs) (S.call_cost s tv cold dg ie =? obs)
  | KWarmCold cold dg o1 o2 =>
      combine ((warm_cold_cost cold =? o1) && (warm_cold_cost_with_delegation cold dg =? o2))
              ((S.account_access_cost cold =? o1) && (S.call_access_cost BERLIN cold dg =? o2))
  | KTokens input ist release obs =>
      let m := match get_tokens_in_calldata_chk input ist with Some v => v | None => -1 end in
      combine (m =? obs) (S.tokens input ist =? obs)
  | KFloor t release obs =>
      let m := match calc_tx_floor_cost_chk t with
               | Some v => v
               | None => if release then calc_tx_floor_cost_wrap t else -1 end in
      let sp := if S.floor_cost t <? pow64 then obs =? S.floor_cost t
                else true (* the true value does not fit: the property names no u64 answer *) in
      combine (m =? obs) sp
  | KTx s input ic ak au release oi ofl =>
      combine (pair_eqb (tx_model s input ic ak au release) (oi, ofl))
              ((S.intrinsic_gas s input ic ak au =? oi) && (S.floor_gas s input =? ofl))
  | KOp k s a b c cold limit obs =>
      combine (opt_eqb pair_eqb (op_model k s a b c cold limit) obs)
              (opt_eqb pair_eqb (op_spec k s a b c cold limit) obs)
  end.

Definition failures (l : list case) := Common.failures verdict l.
