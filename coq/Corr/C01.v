(* Correspondence for C01.
   CTx: a generated world (pre-state, environment, transaction, precompile oracle) with what the
        real Evm was observed to do; the model is Model/Evm.v [run_tx].
        0 = equal on class, success / halt reason, gas_used, gas_refunded, output, created address, logs and on every
            account of the returned EvmState (balance, nonce, code, status flags, storage) and the
            independent consistency oracle accepts;
        1 = different, the oracle accepts the implementation's answer;
        2 = the oracle rejects the implementation's answer: the observed pre/post balances
            violate ether conservation (C08) or the gas bounds (C09).
   CVec: one official execution-spec vector file run through revme's own state-test runner;
        2 when revm's post-state root / logs hash differs from the official expectation.
   CVecSuperseded: the four devnet-5 files that encode a superseded draft of EIP-7702 (EXTCODE* of a
        delegated account on the marker 0xef01); run and listed, verdict 0 (see harness/src/p_c01.rs). *)
From RevmV Require Export Corr.Common Model.Step Model.Evm.
Local Open Scope Z_scope.

Record obs := mkObs {
  o_class : Z; o_reason : Z; o_gas_used : Z; o_gas_refunded : Z; o_out : list Z; o_created : option Z;
  o_logs : list (Z * list Z * list Z);
  o_state : list (Z * (Z * Z * Z) * (bool * bool * bool * bool) * list (Z * Z));
  o_absent : list Z }.

Inductive case :=
| CTx (W : world) (fuel : Z) (o : obs) (has_selfdestruct : bool)
| CVec (id : Z) (passed : bool)
| CVecSuperseded (id : Z) (passed : bool).   (* a vector of a superseded draft: reported, not judged *)

(* ---------------------------------------------------------------- comparison *)
Definition log_eqb (l : logrec) (o : Z * list Z * list Z) : bool :=
  let '(a, t, d) := o in (l_addr l =? a) && zlist_eqb (l_topics l) t && zlist_eqb (l_data l) d.

Definition acc_eqb (s : H.jstate) (e : Z * (Z * Z * Z) * (bool * bool * bool * bool) * list (Z * Z)) : bool :=
  let '(a, (bal, nonce, cid), (touched, created, selfd, lane), slots) := e in
  match H.st s a with
  | None => false
  | Some acc =>
      (H.a_bal acc =? bal) && (H.a_nonce acc =? nonce) && (H.a_code acc =? cid)
      && Bool.eqb (H.a_touched acc) touched && Bool.eqb (H.a_created acc) created
      && Bool.eqb (H.a_selfd acc) selfd && Bool.eqb (H.a_lane acc) lane
      && forallb (fun kv => match H.a_storage acc (fst kv) with
                            | Some sl => H.s_pres sl =? snd kv | None => false end) slots
  end.

Fixpoint logs_eqb (a : list logrec) (b : list (Z * list Z * list Z)) : bool :=
  match a, b with
  | [], [] => true
  | x :: a', y :: b' => log_eqb x y && logs_eqb a' b'
  | _, _ => false
  end.

Fixpoint first_bad {A} (f : A -> bool) (i : Z) (l : list A) : Z :=
  match l with [] => 0 | x :: r => if f x then first_bad f (i + 1) r else i end.

(* 0 = equal; otherwise the first differing field:
   1 class | 7 success / halt reason | 2 gas_used | 3 gas_refunded | 4 output | 5 created address | 6 logs
   | 100+i account i of the observed state | 99 an address the implementation did not load *)
(* SuccessOrHalt::from merges the EOF-only results into OpcodeNotFound and
   CreateContractStartingWithEF into CreateContractSizeLimit *)
Definition norm_reason (r : Z) : Z :=
  if (r =? 102) || (r =? 103) then 85 else if r =? 99 then 98 else r.
Definition first_diff (r : tx_result) (o : obs) : Z :=
  if negb (tr_class r =? o_class o) then 1
  else if negb (norm_reason (tr_reason r) =? o_reason o) then 7
  else if negb (tr_gas_used r =? o_gas_used o) then 2
  else if negb (tr_gas_refunded r =? o_gas_refunded o) then 3
  else if negb (zlist_eqb (tr_out r) (o_out o)) then 4
  else if negb (opt_eqb Z.eqb (tr_created r) (o_created o)) then 5
  else if negb (logs_eqb (tr_logs r) (o_logs o)) then 6
  else let b := first_bad (acc_eqb (tr_state r)) 100 (o_state o) in
       if negb (b =? 0) then b
       else if negb (forallb (fun a => match H.st (tr_state r) a with None => true | Some _ => false end) (o_absent o))
       then 99 else 0.

(* ---------------------------------------------------------------- the independent oracle *)
Definition zsum (l : list Z) : Z := fold_left Z.add l 0.
Definition pre_balance (W : world) (a : Z) : Z :=
  match acc_lookup (w_accounts W) a with Some (b, _, _) => b | None => 0 end.

(* what the transaction burns: base fee (LONDON+) and blob fee (CANCUN+) *)
Definition burnt (W : world) (o : obs) : Z :=
  let e := w_env W in
  (if en (w_spec W) E.LONDON then E.b_basefee (E.e_block e) * o_gas_used o else 0)
  + (if en (w_spec W) E.CANCUN
     then match E.b_blob_gasprice (E.e_block e) with
          | Some p => p * (E.GAS_PER_BLOB * zlen (w_blob_hashes W)) | None => 0 end
     else 0).

Definition oracle (W : world) (o : obs) (has_sd : bool) : bool :=
  let addrs := map (fun e => fst (fst (fst e))) (o_state o) in
  let pre := zsum (map (pre_balance W) addrs) in
  let post := zsum (map (fun e => let '(_, (b, _, _), _, _) := e in b) (o_state o)) in
  let gas_limit := E.tx_gas_limit (E.e_tx (w_env W)) in
  let q := if en (w_spec W) E.LONDON then 5 else 2 in
  (* C08: ether is only destroyed by the fees burnt and by self-destructs *)
  (if has_sd then pre - post >=? burnt W o else pre - post =? burnt W o)
  (* C09: gas bounds *)
  && (o_gas_used o <=? gas_limit)
  && (o_gas_refunded o <=? (o_gas_used o + o_gas_refunded o) / q)
  && (if en (w_spec W) E.PRAGUE then snd (E.initial_and_floor (w_spec W) (w_env W)) <=? o_gas_used o else true).

(* ---------------------------------------------------------------- verdict *)
(* model outcome: 0 the model ran | 1 out of fuel | 10+k XBad k *)
Definition model_status (W : world) (fuel : Z) : Z :=
  match run_tx (Z.to_nat fuel) W with XDone _ => 0 | XOutOfFuel => 1 | XBad k => 10 + k end.

Definition verdict (c : case) : Z :=
  match c with
  | CVec _ passed => if passed then 0 else 2
  | CVecSuperseded _ _ => 0
  | CTx W fuel o sd =>
      let orc := oracle W o sd in
      match run_tx (Z.to_nat fuel) W with
      | XDone r => if first_diff r o =? 0 then (if orc then 0 else 2) else (if orc then 1 else 2)
      | XOutOfFuel => if orc then 1 else 2
      | XBad k =>
          (* BAD_UNSUPPORTED (an instruction class the model does not know: none exists for legacy
             code FRONTIER..PRAGUE; counted by [unsupported]) is excluded and judged by the oracle
             alone.  BAD_ORACLE means the model asked a precompile question the implementation did
             not ask (all calls of the real run are recorded): that is a difference. *)
          if k =? BAD_UNSUPPORTED then (if orc then 0 else 2)
          else (if orc then 1 else 2)
      end
  end.

Definition failures (l : list case) := Common.failures verdict l.

(* debugging / reporting helpers *)
Definition diff_of (c : case) : Z :=
  match c with
  | CVec _ _ | CVecSuperseded _ _ => 0
  | CTx W fuel o _ =>
      match run_tx (Z.to_nat fuel) W with
      | XDone r => first_diff r o
      | XOutOfFuel => -1
      | XBad k => -10 - k
      end
  end.
Definition diffs (l : list case) : list (Z * Z) := Common.failures diff_of l.
Definition unsupported (l : list case) : Z :=
  zlen (filter (fun c => match c with
                         | CTx W fuel _ _ => model_status W fuel =? 12
                         | _ => false end) l).
