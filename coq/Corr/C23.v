(* Correspondence for C23.  A case = one execution of the real code:
     Direct    (spec, address, input, gas limit, observed PrecompileResult)
     ViaEvm    the same call issued by a CALL instruction of a real Evm: gas passed, observed
               success flag, gas charged to the caller, InstructionResult class, output
     ModexpGas the pub gas functions of modexp.rs on arbitrary u64 / U256 arguments
     MsmGas / MsmOog   one cell of the EIP-2537 MSM price list (executed), and the limit just below.
   verdict: 0 model = implementation and the specification oracle (Spec/PrecompileSpec.v: cost,
   failure rules, out-of-gas iff cost > limit; value of the transparent precompiles) accepts;
   1 model <> implementation only; 2 the oracle rejects the observed behaviour. *)
From RevmV Require Export Model.Precompile Spec.PrecompileSpec Gen.BlsTables Corr.Common.
Local Open Scope Z_scope.

Inductive seg := H (n : Z) (x : Z) | Zr (n : Z).
Definition unseg (l : list seg) : bytes :=
  flat_map (fun s => match s with H n x => Z_to_be (Z.to_nat n) x | Zr n => zeros (Z.to_nat n) end) l.

Inductive obs := OAbsent | OOk (g : Z) (out : list seg) | OErr (k : Z).
Inductive case :=
  | Direct (spec addr : Z) (input : list seg) (limit : Z) (o : obs)
  | ViaEvm (spec addr : Z) (input : list seg) (passed : Z) (direct : obs) (success consumed class : Z) (out : list seg)
  | ModexpGas (berlin : bool) (b e m hp : Z) (gas iter : option Z)
  | MsmGas (g2 : bool) (k : Z) (gas : option Z)
  | MsmOog (g2 : bool) (k : Z) (limit : Z) (o : obs)
  | Broken (n : Z).

Definition presult_eqb (a b : presult) : bool :=
  match a, b with
  | POk g1 o1, POk g2 o2 => (g1 =? g2) && bytes_eqb o1 o2
  | PErr k1, PErr k2 => k1 =? k2
  | _, _ => false
  end.
Definition impl_of (o : obs) : option presult :=
  match o with OAbsent => None | OOk g out => Some (POk g (unseg out)) | OErr k => Some (PErr k) end.

Definition run_model (spec addr : Z) (input : bytes) (limit : Z) (impl : option presult) : option presult :=
  precompile_run g1_discount_table g2_discount_table spec addr input limit
    (match impl with Some r => r | None => PErr 0 end).

(* precompiles whose value is computed by the executable specification (not opaque) *)
Definition transparent (addr : Z) : bool :=
  (addr =? 1) || (addr =? 2) || (addr =? 3) || (addr =? 4) || (addr =? 5) || (addr =? 6) || (addr =? 7) || (addr =? 9).

Definition spec_ok (spec addr : Z) (input : bytes) (limit : Z) (impl model : option presult) : bool :=
  match impl with
  | None => negb (s_present spec addr)
  | Some (PErr k) =>
    s_present spec addr &&
    (if k =? 1 then s_accepts spec addr input limit SOog
     else if (k =? 14) || (k =? 15) then false
     else s_accepts spec addr input limit SFail)
  | Some (POk g out) =>
    s_accepts spec addr input limit (SOk g out) &&
    (if transparent addr then
       match model with Some (POk _ mout) => bytes_eqb out mout | _ => true end
     else true)
  end.

Definition verdict_direct (spec addr : Z) (input : bytes) (limit : Z) (o : obs) : Z :=
  let impl := impl_of o in
  let model := run_model spec addr input limit impl in
  let same := opt_eqb presult_eqb model impl in
  if spec_ok spec addr input limit impl model then (if same then 0 else 1) else 2.

Definition verdict (c : case) : Z :=
  match c with
  | Direct spec addr input limit o => verdict_direct spec addr (unseg input) limit o
  | ViaEvm spec addr input passed direct success consumed class out =>
    let input := unseg input in
    let impl := impl_of direct in
    match run_model spec addr input passed impl with
    | None => 1
    | Some r =>
      let '(cls, remaining, mout) := call_precompile passed r in
      let same := (class =? cls) && (success =? (if cls =? 0 then 1 else 0)) &&
                  (consumed =? call_consumed passed r) && bytes_eqb (unseg out) mout in
      (* the property: a failure consumes all passed gas and returns nothing; a success charges
         gas_used and returns the output *)
      let ok := match impl with
                | Some (POk g o) => (success =? 1) && (consumed =? g) && bytes_eqb (unseg out) o && (class =? 0)
                | Some (PErr k) => (success =? 0) && (consumed =? passed) && bytes_eqb (unseg out) [] &&
                                   (class =? (if k =? 1 then 1 else 2))
                | None => false
                end in
      if ok then (if same then verdict_direct spec addr input passed direct else 1) else 2
    end
  | ModexpGas berlin b e m hp gas iter =>
    let mg := if berlin then berlin_gas_calc b e m hp else byzantium_gas_calc b e m hp in
    let mi := calculate_iteration_count e hp in
    let same := opt_eqb Z.eqb gas (Some mg) && opt_eqb Z.eqb iter (Some mi) in
    let true_iter := eip2565_iteration_count e hp in
    let eg := if berlin then eip2565_gas b e m hp else eip198_gas b e m hp in
    let ok := match gas, iter with
              | Some g, Some i =>
                if true_iter <? pow64 then (i =? true_iter) && (g =? Z.min (pow64 - 1) eg) else true
              | _, _ => false
              end in
    if ok then (if same then 0 else 1) else 2
  | MsmGas g2 k gas =>
    let mg := msm_required_gas k (if g2 then g2_discount_table else g1_discount_table) (if g2 then 22500 else 12000) in
    let sg := eip2537_msm_gas (if g2 then eip2537_g2_discount else eip2537_g1_discount)
                (if g2 then eip2537_g2mul else eip2537_g1mul) k in
    match gas with
    | Some g => if g =? sg then (if g =? mg then 0 else 1) else 2
    | None => 2
    end
  | MsmOog g2 k limit o =>
    match o with OErr 1 => 0 | _ => 2 end
  | Broken _ => 1
  end.

Definition failures (l : list case) := Common.failures verdict l.
