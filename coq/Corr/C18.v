(* Correspondence for C18: for every split point the bundle of groups 1..i is extended by a
   bundle built separately from groups i+1..n (and the latter is prepended with the former);
   take_n_reverts / take_all_reverts are applied to the final bundle.  Compared with the model;
   the oracle evaluates the joined bundle's changesets and plain reverts against the recorded
   plain states, the take_* results against each other, and checks that prepend_state keeps
   every value of the newer bundle. *)
From stdpp Require Import gmap.
From RevmV Require Export Corr.BundleCommon.
Local Open Scope Z_scope.

Definition cs2_l := (changeset_l * changeset_l)%type.
Definition split_l := (bundle_l * cs2_l * list prevert_l * bundle_l * cs2_l * changeset_l)%type.
Definition take_l := (Z * list (list arevert_l) * bundle_l * list (list arevert_l) * bundle_l)%type.
(* the same split with the second half built on its own: the recorded operations applied again
   on a fresh cache loaded from the plain state after group i (no status inherited from the first
   half); the transitions it produced, and extend(b1, b2') with its changesets and plain reverts *)
Definition fsplit_l := (list (list (list (Z * trans_l))) * bundle_l * cs2_l * list prevert_l)%type.
Record case := mkCase18 {
  k_base : base;
  k_mono : option (cs2_l * list prevert_l);
  k_splits : list (option split_l);        (* split after group i, i = 1..n-1 *)
  k_take : option take_l;
  k_fsplits : list (option fsplit_l)       (* [] when the stream cannot rebuild the second half *)
}.

Definition dec_cs2 (x : cs2_l) : changeset * changeset := (dec_changeset x.1, dec_changeset x.2).
Definition cs2_of (m : bundle) := (to_plain_state m true, to_plain_state m false).

Definition split_corr (b : base) (mb : list bundle) (i : nat) (o : option split_l) : bool :=
  match o with
  | None =>
      (* the implementation panicked while building or joining the second half: agreed only on the
         out-of-contract stream and only when the model's replay of that half is undefined too *)
      negb (c_in_contract b) &&
      match bundle_from (c_retain b) bundle_empty (skipn i (firstn (length mb) (groups_of b))) with
      | None => true | Some _ => false end
  | Some (e, ecs, epr, p, pcs, b2n) =>
      match nth_error mb (i - 1), bundle_from (c_retain b) bundle_empty (skipn i (firstn (length mb) (groups_of b))) with
      | Some b1, Some b2 =>
          let me := extend b1 b2 in
          let mp := prepend_state b2 b1 in
          eqb me (dec_bundle e) && eqb (cs2_of me) (dec_cs2 ecs)
          && eqb (to_plain_state_reverts (bs_reverts me)) (map dec_prevert epr)
          && eqb mp (dec_bundle p) && eqb (cs2_of mp) (dec_cs2 pcs)
          && eqb (to_plain_state b2 false) (dec_changeset b2n)
      (* out-of-contract stream only: the second half starts from transitions whose previous status no
         empty bundle can meet; the model's replay of such a half from an empty bundle is undefined
         (the code takes its vacant-entry path without looking at the previous status) - not compared *)
      | Some _, None => negb (c_in_contract b)
      | _, _ => false
      end
  end.
Fixpoint forall_from {A} (f : nat -> A -> bool) (j : nat) (l : list A) : bool :=
  match l with [] => true | x :: r => f j x && forall_from f (S j) r end.

Definition fresh_b2 (b : base) (o : fsplit_l) : option bundle :=
  bundle_from (c_retain b) bundle_empty (map (map dec_tx) o.1.1.1).
Definition fsplit_corr (b : base) (mb : list bundle) (i : nat) (o : option fsplit_l) : bool :=
  match o with
  | None => false
  | Some x =>
      let '(fg, e, ecs, epr) := x in
      match nth_error mb (i - 1), fresh_b2 b x with
      | Some b1, Some b2 =>
          let me := extend b1 b2 in
          eqb me (dec_bundle e) && eqb (cs2_of me) (dec_cs2 ecs)
          && eqb (to_plain_state_reverts (bs_reverts me)) (map dec_prevert epr)
      | _, _ => false
      end
  end.

Definition corr (c : case) : bool :=
  let b := k_base c in
  let mb := good_bundles (model_bundles b) in
  panic_agrees b
  && forall_from (split_corr b mb) 1 (k_splits c)
  && forall_from (fsplit_corr b mb) 1 (k_fsplits c)
  && match List.last (map Some mb) None, k_take c, k_mono c with
     | None, None, None => true
     | Some m, Some (n, det, lft, all, left_all), Some (mcs, mpr) =>
         eqb (take_n_reverts m (Z.to_nat n)) (dec_reverts det, dec_bundle lft)
         && eqb (take_all_reverts m) (dec_reverts all, dec_bundle left_all)
         && eqb (cs2_of m) (dec_cs2 mcs)
         && eqb (to_plain_state_reverts (bs_reverts m)) (map dec_prevert mpr)
     | _, _, _ => false
     end.

Fixpoint reverts_ok (p0 prev : plain) (prs : list plain_revert) (afters : list plain) : bool :=
  match prs, afters with
  | [], [] => true
  | r :: prs', a :: afters' =>
      plain_eqb (apply_plain_revert p0 r a) prev && reverts_ok p0 a prs' afters'
  | _, _ => false
  end.

(* prepend_state keeps every value of the newer bundle [nw] in the result [res] *)
Definition keeps_newer (nw res : changeset) : bool :=
  forallb (fun ai => eqb (cs_accounts res !! ai.1) (Some ai.2)) (map_to_list (cs_accounts nw))
  && forallb (fun aws =>
       match cs_storage res !! aws.1 with
       | Some (w', slots') =>
           forallb (fun kv => eqb (slots' !! kv.1) (Some kv.2)) (map_to_list aws.2.2)
           && (negb aws.2.1 || (w' && eqb slots' aws.2.2))
       | None => false
       end) (map_to_list (cs_storage nw))
  && forallb (fun hc => eqb (cs_contracts res !! hc.1) (Some hc.2)) (map_to_list (cs_contracts nw)).

(* state part: the joined / prepended bundle's changesets turn the pre-state into the final state *)
Definition split_state_ok (b : base) (o : option split_l) : bool :=
  match o with
  | None => false
  | Some (e, ecs, epr, p, pcs, b2n) =>
      let p0 := dec_plain (c_p0 b) in
      let target := ref_after b (length (c_groups b)) in
      let '(ey, en) := dec_cs2 ecs in
      let '(py, pn) := dec_cs2 pcs in
      changeset_ok en p0 target && changeset_ok ey p0 target
      && plain_eqb (apply_changeset pn p0) target
      && keeps_newer (dec_changeset b2n) pn
  end.
(* revert part: the joined bundle's per-group plain reverts give the per-group pre-values *)
Definition split_reverts_ok (b : base) (o : option split_l) : bool :=
  match o with
  | None => false
  | Some (e, ecs, epr, p, pcs, b2n) =>
      let p0 := dec_plain (c_p0 b) in
      negb (c_retain b) || reverts_ok p0 p0 (map dec_prevert epr) (ref_after_groups b)
  end.

(* separately built second half: same two clauses *)
Definition fsplit_state_ok (b : base) (o : option fsplit_l) : bool :=
  match o with
  | None => false
  | Some (fg, e, ecs, epr) =>
      let p0 := dec_plain (c_p0 b) in
      let target := ref_after b (length (c_groups b)) in
      let '(ey, en) := dec_cs2 ecs in
      changeset_ok en p0 target && changeset_ok ey p0 target
  end.
Definition fsplit_reverts_ok (b : base) (o : option fsplit_l) : bool :=
  match o with
  | None => false
  | Some (fg, e, ecs, epr) =>
      let p0 := dec_plain (c_p0 b) in
      negb (c_retain b) || reverts_ok p0 p0 (map dec_prevert epr) (ref_after_groups b)
  end.

Definition take_ok (o : option take_l) : bool :=
  match o with
  | None => true
  | Some (n, det, lft, all, left_all) =>
      let l := dec_bundle lft in let la := dec_bundle left_all in
      eqb (dec_reverts det ++ bs_reverts l) (dec_reverts all)
      && (length det =? Nat.min (Z.to_nat n) (length all))%nat
      && eqb (bs_state l) (bs_state la) && eqb (bs_contracts l) (bs_contracts la)
      && match bs_reverts la with [] => true | _ => false end
  end.

(* a split is clean when no account of the second part starts in a destroyed status, i.e. the
   second bundle does not inherit "was destroyed" from a cache that lived through the first part *)
Fixpoint starts_destroyed (seen : list Z) (l : list (Z * tacc)) : bool :=
  match l with
  | [] => false
  | (a, t) :: r =>
      if existsb (Z.eqb a) seen then starts_destroyed seen r
      else was_destroyed (t_pstatus t) || starts_destroyed (a :: seen) r
  end.
Definition inherits_destroyed (b : base) (i : nat) : bool :=
  starts_destroyed [] (flat (skipn i (groups_of b))).
(* a wiped revert of the second bundle marks slot k as [RDestroyed] while the first bundle holds a
   value for k: extend's `or_insert` keeps the marker instead of the value *)
Definition marker_clash_acct (b1 : gmap Z bacc) (a : Z) (r : arevert) : bool :=
  r_wipe r &&
  match b1 !! a with
  | Some ba => existsb (fun kr => match kr.2 with
                                  | RDestroyed => match b_storage ba !! kr.1 with Some _ => true | None => false end
                                  | RSome _ => false end) (map_to_list (r_storage r))
  | None => false
  end.
Definition marker_clash (b : base) (i : nat) : bool :=
  let mb := good_bundles (model_bundles b) in
  match nth_error mb (i - 1), bundle_from (c_retain b) bundle_empty (skipn i (firstn (length mb) (groups_of b))) with
  | Some b1, Some b2 =>
      existsb (fun g => existsb (fun ar => marker_clash_acct (bs_state b1) ar.1 ar.2) (map_to_list g))
              (bs_reverts b2)
  | _, _ => false
  end.

Definition fmarker_clash (b : base) (i : nat) (o : option fsplit_l) : bool :=
  let mb := good_bundles (model_bundles b) in
  match o with
  | Some x =>
      match nth_error mb (i - 1), fresh_b2 b x with
      | Some b1, Some b2 =>
          existsb (fun g => existsb (fun ar => marker_clash_acct (bs_state b1) ar.1 ar.2) (map_to_list g))
                  (bs_reverts b2)
      | _, _ => false
      end
  | None => false
  end.
Definition fsplits_ok (exempt_clash : bool) (c : case) : bool :=
  let b := k_base c in
  forall_from (fun i o => fsplit_state_ok b o && ((exempt_clash && fmarker_clash b i o) || fsplit_reverts_ok b o)) 1 (k_fsplits c).

(* [skip b i] says whether split i is exempt *)
Definition splits_ok (f : base -> option split_l -> bool) (skip : base -> nat -> bool) (c : case) : bool :=
  let b := k_base c in
  forall_from (fun i o => skip b i || f b o) 1 (k_splits c).
Definition never (b : base) (i : nat) : bool := false.
Definition basic_ok (c : case) : bool :=
  let b := k_base c in
  negb (c_panicked b) && negb (c_dup b) && take_ok (k_take c)
  && match k_mono c, k_splits c with None, _ :: _ => false | _, _ => true end.
Definition oracle (c : case) : bool :=
  basic_ok c && splits_ok split_state_ok never c && splits_ok split_reverts_ok never c && fsplits_ok false c.

(* known-finding classes (only exempt splits fail):
   10 C18-extend-inherited-destroyed-status: joined changeset wrong on a split whose second part
      starts with an account already in a destroyed status;
   11 C18-extend-prevalues-not-migrated: joined reverts wrong on such a split;
   12 C18-extend-destroyed-marker-kept: joined reverts wrong on a split with a marker clash *)
Definition verdict (c : case) : Z :=
  let b := k_base c in
  if c_in_contract b then
    if negb (monitor b) then 2
    else if oracle c then (if corr c then 0 else 1)
    else if negb (basic_ok c
                  && splits_ok split_state_ok inherits_destroyed c
                  && splits_ok split_reverts_ok (fun b i => inherits_destroyed b i || marker_clash b i) c
                  && fsplits_ok true c)
    then 2
    (* a known finding is the recorded behaviour: the implementation still does what the model
       (which mirrors the unchanged code, defects included) does; any other wrong answer is new *)
    else if negb (corr c) then 2
    else if negb (splits_ok split_state_ok never c) then 10
    else if splits_ok split_reverts_ok inherits_destroyed c && fsplits_ok false c then 11
    else 12
  else (if corr c then 0 else 1).

Definition failures (l : list case) := Common.failures verdict l.
