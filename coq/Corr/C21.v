(* Correspondence for C21: one create executed on the real Evm.  The case describes the
   pre-state (creator, target, how the target's storage is held), the fork facts, and what was
   observed: did the create collide, the gas numbers, the target and creator afterwards. *)
From RevmV Require Export Model.CreateCollision Corr.Common.
Local Open Scope Z_scope.

(* kind: 0 = create transaction, 1 = CREATE opcode, 2 = CREATE2 opcode (factory contract) *)
Record obs := mkObs {
  o_collided : bool;        (* tx: Halt(CreateCollision); opcode: 0 pushed *)
  o_created_ok : bool;      (* tx: Success with an address; opcode: non-zero address pushed *)
  o_gas_a : Z;              (* tx: gas_used; opcode: GAS before *)
  o_gas_b : Z;              (* tx: gas_limit; opcode: GAS after *)
  o_target : acct; o_target_created : bool; o_target_storage_same : bool;
  o_caller_nonce : Z }.
Record case := mkCase {
  c_kind : Z; c_tangerine : bool; c_env : cenv;
  c_target_has_storage : bool;     (* ground truth of the pre-state: some slot of the target is non-zero *)
  c_obs : obs }.

Definition acct_eqb (a b : acct) : bool :=
  (t_nonce a =? t_nonce b) && (t_balance a =? t_balance b) && (t_code_hash a =? t_code_hash b).

(* gas between the two GAS readings of the factory: pushes (3 each), CREATE 32000, the passed
   gas (all but 1/64th from TANGERINE) if it is not given back, and the second GAS (2).
   The init code is empty: a started create spends nothing and gives everything back. *)
Definition gas_after (kind : Z) (tangerine : bool) (g0 : Z) (given_back_all : bool) : Z :=
  let pushes := if kind =? 2 then 12 else 9 in
  let rem := g0 - pushes - 32000 in
  let passed := if tangerine then rem - rem / 64 else rem in
  g0 - pushes - 32000 - (if given_back_all then 0 else passed) - 2.

Definition model_ok (c : case) : bool :=
  let e := c_env c in let o := c_obs c in
  let p := make_create_frame e in
  match p_res p with
  | RCreateCollision =>
      o_collided o && negb (o_created_ok o) &&
      acct_eqb (o_target o) (p_target p) && negb (o_target_created o) && o_target_storage_same o &&
      (o_caller_nonce o =? t_nonce (p_caller p)) &&
      (if c_kind c =? 0 then o_gas_a o =? o_gas_b o
       else o_gas_b o =? gas_after (c_kind c) (c_tangerine c) (o_gas_a o) false)
  | RStarted =>
      (* empty init code: the create succeeds with empty code *)
      negb (o_collided o) && o_created_ok o &&
      acct_eqb (o_target o) (p_target p) && o_target_created o &&
      (o_caller_nonce o =? t_nonce (p_caller p)) &&
      (if c_kind c =? 0 then o_gas_a o <? o_gas_b o
       else o_gas_b o =? gas_after (c_kind c) (c_tangerine c) (o_gas_a o) true)
  | _ => negb (o_collided o) && negb (o_created_ok o)
  end.

(* the property itself, from the pre-state description only *)
Definition spec_ok (c : case) : bool :=
  let e := c_env c in let o := c_obs c in
  let occupied := negb (t_code_hash (e_target e) =? KECCAK_EMPTY_) || negb (t_nonce (e_target e) =? 0) ||
                  c_target_has_storage c in
  if occupied then
    o_collided o && negb (o_created_ok o) &&
    acct_eqb (o_target o) (e_target e) && negb (o_target_created o) && o_target_storage_same o &&
    (if c_kind c =? 0 then o_gas_a o =? o_gas_b o
     else o_gas_b o =? gas_after (c_kind c) (c_tangerine c) (o_gas_a o) false)
  else true.

Definition verdict (c : case) : Z :=
  if model_ok c then (if spec_ok c then 0 else 2) else (if spec_ok c then 1 else 2).
Definition failures (l : list case) := Common.failures verdict l.
