(* Correspondence for C20.  A case carries the underlying data as observed by querying the
   underlying database directly over the case's universe (addresses, slot keys, code hashes,
   block numbers), the history, and every answer the implementation gave.
   verdict: the model replays the history (must equal the observation); the specification
   oracle replays it on plain data ("underlying data plus committed changes", Spec/DbSpec.v). *)
From stdpp Require Import gmap sorting.
From RevmV Require Export Spec.DbSpec Model.Db Corr.Common.
Local Open Scope Z_scope.

Record udata := mkData {
  d_accs : list (Z * info); d_stor : list (Z * list (Z * Z)); d_code : list (Z * Z);
  d_bh : list (Z * Z); d_has : list Z }.
Definition memz (x : Z) (l : list Z) : bool := existsb (Z.eqb x) l.
Definition udb_of (d : udata) : udb :=
  mkU (list_to_map (d_accs d))
      (list_to_map (map (fun al => (fst al, write_slots (snd al) ∅)) (d_stor d)))
      (list_to_map (d_code d)) (list_to_map (d_bh d)) (fun a => memz a (d_has d)).

Inductive case :=
  | CCache (d : udata) (addrs keys : list Z) (pool : list (Z * Z)) (ops : list op) (obs : list ans)
  | CState (d : udata) (addrs keys : list Z) (pool : list (Z * Z)) (ops : list sop) (obs : list ans) (final_bh : list Z).

Definition oinfo_eqb := opt_eqb info_eqb.
Definition ans_eqb (x y : ans) : bool :=
  match x, y with
  | AInfo a, AInfo b => oinfo_eqb a b
  | AWord a, AWord b => a =? b
  | ABool a, ABool b => eqb a b
  | AUnit, AUnit => true
  | APanic, APanic => true
  | _, _ => false
  end.

(* ---- decidable forms of the hypotheses of the theorems, over the case's universe ---- *)
Definition wf_datab (u : udb) (addrs keys : list Z) : bool :=
  forallb (fun a => match p_basic u a with
                    | Some i => negb (i_code_hash i =? 0)
                    | None => forallb (fun k => p_storage u a k =? 0) keys && negb (u_has u a)
                    end) addrs.
Definition has_exactb (u : udb) (addrs : list Z) : bool :=
  forallb (fun a => eqb (u_has u a) (p_has_storage u a)) addrs.
Definition Hpool (pool : list (Z * Z)) (h : Z) : Z :=
  match find (fun p => fst p =? h) pool with Some p => snd p | None => 0 end.
Definition info_in_wfb (pool : list (Z * Z)) (ii : info_in) : bool :=
  match ii_code ii with
  | Some (cid, hs) => (cid =? Hpool pool hs) &&
      ((cid =? 0) || (i_code_hash (ii_info ii) =? KECCAK_EMPTY) || (i_code_hash (ii_info ii) =? hs))
  | None => true end.
Definition code_known (s : udb) (h : Z) : bool :=
  (h =? KECCAK_EMPTY) || (h =? 0) || match u_code s !! h with Some _ => true | None => false end.

(* ---- the oracle: walks the history on plain data and classifies the first answer that
   differs from plain data.  0 = accepted; 2 = contradiction;
   10 = known class C20-has-storage-after-zeroing, 11 = known class C20-components-no-has-storage ---- *)
Record ostate := mkO {
  o_spec : udb;            (* underlying data plus the changes so far *)
  o_code_free : bool;      (* a write with a hash that is not the hash of its code, or a query of
                              an unknown code hash, happened: code answers are out of contract *)
  o_skip : list Z;         (* replace_account_storage on a non-existing account: out of contract *)
  o_zeroed : list Z }.     (* class 10: a non-zero slot of the underlying data was overwritten with 0 *)

Definition zero_writes (u : udb) (a : Z) (l : list (Z * Z)) : bool :=
  existsb (fun kv => (snd kv =? 0) && negb (p_storage u a (fst kv) =? 0)) l.

Definition classify (u : udb) (has_exact : bool) (o : ostate) (w : via) (q : query) (x y : ans) : Z :=
  if ans_eqb x y then 0 else
  match q with
  | QBasic a => if memz a (o_skip o) then 0 else 2
  | QStorage a _ => 2
  | QCode h => if o_code_free o then 0 else 2
  | QBlockHash _ => 2
  | QHas a =>
      match w, x, y with
      | (ViaComp | ViaCompRef), ABool false, ABool true => 11
      | (ViaMut | ViaRef), ABool true, ABool false =>
          if negb has_exact then 0 else if memz a (o_zeroed o) then 10 else 2
      | (ViaMut | ViaRef), _, _ => if negb has_exact then 0 else 2
      | _, _, _ => 2
      end
  end.

Fixpoint oracle (u : udb) (pool : list (Z * Z)) (has_exact : bool) (o : ostate) (c : cachedb)
         (h : list op) (t : list ans) : Z :=
  match h, t with
  | [], [] => 0
  | op :: h', x :: t' =>
    let '(s', y) := spec_step (o_spec o) op in
    let c' := fst (step u c op) in
    let here :=
      match op with
      | Query w q => classify u has_exact o w q x y
      | InsContract ii => if ans_eqb x y then 0 else 2
      | _ => if ans_eqb x AUnit then 0 else 2
      end in
    let o' :=
      match op with
      | Query _ (QCode hh) => mkO s' (o_code_free o || negb (code_known (o_spec o) hh)) (o_skip o) (o_zeroed o)
      | Query _ _ => o
      | Commit l =>
          mkO s' (o_code_free o || negb (forallb (fun ac => info_in_wfb pool (ch_info (snd ac))) l)) (o_skip o)
              (map fst (filter (fun ac => ch_touched (snd ac) && negb (ch_selfdestructed (snd ac)) &&
                                          zero_writes u (fst ac) (ch_storage (snd ac))) l) ++ o_zeroed o)
      | InsInfo a ii =>
          mkO s' (o_code_free o || negb (info_in_wfb pool ii)) (o_skip o) (o_zeroed o)
      | InsStorage a k v => mkO s' (o_code_free o) (o_skip o)
                                (if zero_writes u a [(k, v)] then a :: o_zeroed o else o_zeroed o)
      | ReplStorage a l =>
          mkO s' (o_code_free o)
              (match p_basic (o_spec o) a with None => a :: o_skip o | Some _ => o_skip o end) (o_zeroed o)
      | InsContract ii => mkO s' (o_code_free o || negb (info_in_wfb pool ii)) (o_skip o) (o_zeroed o)
      end in
    if here =? 0 then oracle u pool has_exact o' c' h' t' else here
  | _, _ => 2
  end.

(* State: reads and preloading calls on plain data. [zeroed]: addresses for which a preloading call
   wrote 0 over a non-zero slot of the underlying data (known-finding class 10: has_storage keeps
   forwarding the underlying database's "true") *)
Fixpoint st_oracle_z (has_exact : bool) (u : udb) (zeroed : list Z) (s : udb) (h : list sop) (t : list ans) : Z :=
  match h, t with
  | [], [] => 0
  | op :: h', x :: t' =>
    let '(s', y) := st_spec_step s op in
    let here :=
      match op, x with
      | SQuery (QStorage _ _), APanic => 0    (* storage of an account that was never loaded: outside the API contract *)
      | SQuery (QHas a), _ =>
          if negb has_exact || ans_eqb x y then 0
          else match x, y with
               | ABool true, ABool false => if memz a zeroed then 10 else 2
               | _, _ => 2
               end
      | _, _ => if ans_eqb x y then 0 else 2
      end in
    let zeroed' := match op with
                   | SInsAccount a _ l => if zero_writes u a l then a :: zeroed else zeroed
                   | _ => zeroed
                   end in
    if here =? 0 then st_oracle_z has_exact u zeroed' s' h' t' else here
  | _, _ => 2
  end.
Definition st_oracle (has_exact : bool) (s : udb) (h : list sop) (t : list ans) : Z :=
  st_oracle_z has_exact s [] s h t.
Fixpoint st_final (u : udb) (s : sstate) (h : list sop) : sstate :=
  match h with [] => s | o :: r => st_final u (fst (st_step u s o)) r end.
Definition keys_sorted (m : gmap Z Z) : list Z := merge_sort Z.le (map fst (map_to_list m)).

Definition verdict (c : case) : Z :=
  match c with
  | CCache d addrs keys pool ops obs =>
    let u := udb_of d in
    let m := list_eqb ans_eqb (run u cache_new ops) obs in
    let o := if wf_datab u addrs keys
             then oracle u pool (has_exactb u addrs) (mkO u false [] []) cache_new ops obs
             else 0 in
    (* known classes (o >= 10) only while the implementation behaves as the model records *)
    if m then o else if o =? 0 then 1 else 2
  | CState d addrs keys pool ops obs fin =>
    let u := udb_of d in
    let m := list_eqb ans_eqb (st_run u state_new ops) obs &&
             zlist_eqb (keys_sorted (st_bh (st_final u state_new ops))) fin in
    let o := if wf_datab u addrs keys then st_oracle (has_exactb u addrs) u ops obs else 0 in
    if m then o else if o =? 0 then 1 else 2
  end.

Definition failures (l : list case) := Common.failures verdict l.
