(* Correspondence for C15.
   A case is either one cell of the reflected status table, or a history of operations on a real
   [State] with, per step, what the implementation answered and the cache accounts it held
   afterwards; for real-EVM histories additionally the three-way read-backs (State / CacheDB /
   the harness's plain map) and the pairs of execution results. *)
From RevmV Require Export Model.AcctStatus Model.StateDb Spec.PlainStateSpec Spec.StatusSpec Corr.Common.
Local Open Scope Z_scope.

(* observed cache account: None = not in the cache *)
Definition ocacc := option (option (info * list (Z * Z)) * status).
Inductive ores :=
| OInfo (o : option info) | OVal (v : Z) | OUnit
| OCommitted (ts : option (list (Z * transition_account)))
| ODrained (bs : list Z) (ts : option (list (Z * transition_account)))
| OPanic.
Definition step := ((sop * ores) * list (Z * ocacc))%type.
Inductive rb :=
| RbBasic (clear : bool) (a : Z) (s c p : option info)   (* State, CacheDB, plain map *)
| RbVal (a : Z) (s c p : Z).
Inductive case :=
| CellCase (f : Z) (args : list Z) (res : option Z)
| HistCase (real : bool) (D : db) (clear : bool) (steps : list step) (rbs : list rb)
           (execs : list (list Z * list Z)).

(* ---- equalities *)
Definition oZ_eqb := opt_eqb Z.eqb.
Definition info_full_eqb (a b : info) : bool := info_eqb a b && oZ_eqb (i_code a) (i_code b).
Definition oinfo_full_eqb := opt_eqb info_full_eqb.
Definition oinfo_eqb := opt_eqb info_eqb.
Definition slot_eqb (a b : eslot) : bool :=
  (s_key a =? s_key b) && (s_orig a =? s_orig b) && (s_present a =? s_present b).
Definition trans_eqb (a b : transition_account) : bool :=
  oinfo_full_eqb (t_info a) (t_info b) && status_eqb (t_status a) (t_status b)
  && oinfo_full_eqb (t_prev_info a) (t_prev_info b) && status_eqb (t_prev_status a) (t_prev_status b)
  && list_eqb slot_eqb (t_storage a) (t_storage b) && Bool.eqb (t_wipe a) (t_wipe b).
Definition atrans_eqb (a b : Z * transition_account) : bool :=
  (fst a =? fst b) && trans_eqb (snd a) (snd b).
Definition otrans_match (m : list (Z * transition_account)) (o : option (list (Z * transition_account))) : bool :=
  match o with None => true | Some l => list_eqb atrans_eqb m l end.
(* model map (with shadowed entries) against the observed sorted map *)
Definition smap_equiv (m : smap) (obs : list (Z * Z)) : bool :=
  forallb (fun kv => oZ_eqb (sget (fst kv) m) (Some (snd kv))) obs
  && forallb (fun kv => match sget (fst kv) obs with Some _ => true | None => false end) m.
Definition cacc_match (c : option cacc) (o : ocacc) : bool :=
  match c, o with
  | None, None => true
  | Some c, Some (oa, st) =>
    status_eqb (ca_status c) st &&
    match ca_account c, oa with
    | None, None => true
    | Some p, Some (i, m) => info_full_eqb (p_info p) i && smap_equiv (p_storage p) m
    | _, _ => false
    end
  | _, _ => false
  end.
Definition snaps_match (s : state) (l : list (Z * ocacc)) : bool :=
  forallb (fun ao => cacc_match (aget (fst ao) (st_accounts s)) (snd ao)) l.
Definition res_match (r : sres) (o : ores) : bool :=
  match r, o with
  | RInfo a, OInfo b => oinfo_full_eqb a b
  | RVal a, OVal b => a =? b
  | RUnit, OUnit => true
  | RTrans ts, OCommitted o => otrans_match ts o
  | RDrained bs ts, ODrained bs' o => zlist_eqb bs bs' && otrans_match ts o
  | _, _ => false
  end.

(* ---- the model replayed on the history *)
Fixpoint model_ok (s : state) (l : list step) : bool :=
  match l with
  | [] => true
  | ((op, ob), snaps) :: r =>
    match st_step s op with
    | None => match ob, r with OPanic, [] => true | _, _ => false end
    | Some (s', res) => res_match res ob && snaps_match s' snaps && model_ok s' r
    end
  end.

(* ---- the specification oracle: the plain reference state evolves with the committed
   changes; every observed read must equal the reference read. Result code: 0 accepted,
   2 violation, 10/11/12 violation inside a known class. *)
Definition mem (a : Z) (l : list Z) : bool := existsb (Z.eqb a) l.
Definition class_of (f15 f17 : list Z) (a : Z) : Z :=
  if mem a f15 then 10 else if mem a f17 then 11 else 2.

Definition commit_loaded (loaded : list Z) (l : list (Z * eacc)) : bool :=
  forallb (fun ae => negb (e_touched (snd ae)) || mem (fst ae) loaded) l.
Definition commit_core_ok (clear : bool) (rs : rstate) (l : list (Z * eacc)) : bool :=
  forallb (fun ae => evm_out_core clear (rs_acc rs (fst ae)) (snd ae)) l.
Definition commit_orphans (l : list (Z * eacc)) : list Z :=
  map fst (filter (fun ae => negb (evm_out_no_orphan_storage (snd ae))) l).
(* EIP-161: a touched empty account is not in the cache as an account afterwards *)
Definition cleared_absent (clear : bool) (l : list (Z * eacc)) (snaps : list (Z * ocacc)) : bool :=
  forallb (fun ae =>
    let e := snd ae in
    if clear && e_touched e && negb (e_selfdestructed e) && negb (e_created e) && info_is_empty (e_info e)
    then match aget (fst ae) snaps with
         | Some (Some (Some _, _)) => false
         | _ => true
         end
    else true) l.
Definition drain_ok (rs : rstate) (l : list Z) : bool :=
  forallb (fun a => match rs_acc rs a with Some q => i_balance (r_info q) <? pow128 | None => true end) l.
Definition drained_of (rs : rstate) (l : list Z) : list Z :=
  map (fun a => match rs_acc rs a with Some q => i_balance (r_info q) | None => 0 end) l.
(* sequentially (an address may not repeat inside one list in the generated cases) *)

Fixpoint oracle (real : bool) (D : db) (clear : bool) (rs : rstate) (loaded f15 f17 : list Z)
         (l : list step) : Z * (list Z * list Z) :=
  match l with
  | [] => (0, (f15, f17))
  | ((op, ob), snaps) :: r =>
    match op, ob with
    | OBasic a, OInfo o =>
      if oinfo_eqb o (ref_basic (rs_acc rs a)) then oracle real D clear rs (a :: loaded) f15 f17 r
      else (class_of f15 f17 a, (f15, f17))
    | OStorage a k, OVal v =>
      if negb (mem a loaded) then (0, (f15, f17))             (* outside the API contract *)
      else if v =? ref_storage (rs_acc rs a) k then oracle real D clear rs loaded f15 f17 r
      else (class_of f15 f17 a, (f15, f17))
    | OCode h, OVal c =>
      if c =? rs_code rs h then oracle real D clear rs loaded f15 f17 r
      else ((if rs_code rs h =? db_code D h then 2 else 12), (f15, f17))
    | OCommit l', OCommitted _ =>
      if negb (commit_loaded loaded l') then (0, (f15, f17))
      else if negb (commit_core_ok clear rs l') then ((if real then 2 else 0), (f15, f17))
      else if negb (cleared_absent clear l' snaps) then (2, (f15, f17))
      else oracle real D clear (rs_commit clear rs l') loaded f15 (commit_orphans l' ++ f17) r
    | OIncr l', OCommitted _ =>
      (* increment_balances skips (does not even load) a zero amount *)
      oracle real D clear (rs_increment rs l')
             (map fst (filter (fun an => negb (snd an =? 0)) l') ++ loaded) f15 f17 r
    | ODrain l', ODrained bs _ =>
      if negb (drain_ok rs l') then (0, (f15, f17))
      else if negb (zlist_eqb bs (drained_of rs l')) then (2, (f15, f17))
      else oracle real D clear (rs_drain rs l') (l' ++ loaded) f15 f17 r
    | OSetClear b, OUnit => oracle real D b rs loaded f15 f17 r
    | OStorage a _, OPanic => ((if mem a loaded then 2 else 0), (f15, f17))
    | OCommit l', OPanic =>
      ((if commit_loaded loaded l' && commit_core_ok clear rs l' then
          (if forallb (fun ae => evm_out_no_orphan_storage (snd ae)) l' then 2 else 11) else 0), (f15, f17))
    | ODrain l', OPanic => ((if drain_ok rs l' then 2 else 0), (f15, f17))
    | _, _ => (2, (f15, f17))
    end
  end.

Definition db_core_ok (D : db) : bool := forallb (fun ad => db_acc_core (snd ad)) (db_accounts D).
Definition db_f15 (D : db) : list Z :=
  map fst (filter (fun ad => negb (db_acc_no_orphan_storage (snd ad))) (db_accounts D)).

(* three-way read-backs: State = plain map exactly (PartialEq of AccountInfo); CacheDB = plain
   map, where CacheDB keeps a touched empty account as an empty account when clearing is on *)
Definition norm_empty (clear : bool) (o : option info) : option info :=
  match o with Some i => if clear && info_is_empty i then None else o | None => None end.
Definition rb_code (f15 f17 : list Z) (x : rb) : Z :=
  match x with
  | RbBasic clear a s c p =>
    if oinfo_eqb s p && oinfo_eqb (norm_empty clear c) (norm_empty clear p) then 0 else class_of f15 f17 a
  | RbVal a s c p => if (s =? p) && (c =? p) then 0 else class_of f15 f17 a
  end.
Fixpoint first_nonzero (l : list Z) : Z :=
  match l with [] => 0 | x :: r => if x =? 0 then first_nonzero r else x end.

Definition verdict (c : case) : Z :=
  match c with
  | CellCase f args res =>
    match spec_cell f args with
    | Some r => if oZ_eqb r res then 0 else 2
    | None => 2
    end
  | HistCase real D clear steps rbs execs =>
    let m := model_ok (state_new D clear) steps in
    if negb (db_core_ok D) then (if m then 0 else 1)
    else
      let '(o, (f15, f17)) := oracle real D clear (ref_of_db D) [] (db_f15 D) [] steps in
      let o := if o =? 0 then first_nonzero (map (rb_code f15 f17) rbs) else o in
      let o := if o =? 0 then (if forallb (fun p => zlist_eqb (fst p) (snd p)) execs then 0 else 2) else o in
      (* known classes (o >= 10) only while the implementation behaves as the model records *)
      if o =? 0 then (if m then 0 else 1) else if (10 <=? o) && negb m then 2 else o
  end.

Definition failures (l : list case) := Common.failures verdict l.
