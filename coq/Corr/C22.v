(* Correspondence for C22. A case = two real Evms, built from Handler::mainnet_with_spec /
   optimism_with_spec (spec, reward) with reward = true ("on") and reward = false ("off"), taken
   through the same reconfiguration sequence, then the same fee-paying transaction on each.
   Observed: the handler after every operation, and both ResultAndStates. *)
From RevmV Require Export Base.Word Model.Gas Model.Handler Corr.Common.
Local Open Scope Z_scope.

(* handler observation: reward_beneficiary.is_some(), cfg.spec_id, registers.len(), cfg.is_optimism *)
Definition hobs := (bool * Z * Z * bool)%type.
Definition obs_of (h : handler) : hobs :=
  (reward_on h, h_spec h, Z.of_nat (length (h_regs h)), h_optimism h).
Definition hobs_eqb (a b : hobs) : bool :=
  let '(a1, a2, a3, a4) := a in let '(b1, b2, b3, b4) := b in
  Bool.eqb a1 b1 && (a2 =? b2) && (a3 =? b3) && Bool.eqb a4 b4.

(* one account of a returned EvmState; [e_rest] = nonce, code hash, status bits without Touched,
   storage (key, original, present, is_cold)* *)
Record entry := mkEntry { e_addr : Z; e_bal : Z; e_touched : bool; e_rest : list Z }.

Record txobs := mkTx {
  t_env : penv;
  t_target : Z; t_value : Z;
  t_pre : list (Z * Z);                (* database balances before the transaction (absent = 0) *)
  t_res_on : list Z; t_res_off : list Z;   (* [kind; gas_used; gas_refunded; ...]; kind 0 success 1 revert 2 halt 3 Err *)
  t_state_on : list entry; t_state_off : list entry
}.

Record case := mkCase {
  c_fe : features; c_optimism : bool; c_spec : Z;
  c_cfg_disable : bool;    (* the "off" Evm has a handler built with rewards on and, for the transaction,
                              CfgEnv::disable_beneficiary_reward = true (build with optional_beneficiary_reward) *)
  c_ops_on : list op; c_ops_off : list op;
  c_obs_on : list hobs; c_obs_off : list hobs;
  c_tx : txobs
}.

Definition table_fun (t : list (Z * Z)) (x : Z) : Z :=
  match find (fun p => fst p =? x) t with Some p => snd p | None => x end.
Definition feat (opt : bool) (canon : list (Z * Z)) : features := mkFeat opt false (table_fun canon).

Definition initial (c : case) (reward : bool) : handler :=
  let reward := reward || c_cfg_disable c in
  if c_optimism c then optimism_with_spec (c_fe c) (c_spec c) reward
  else mainnet_with_spec (c_fe c) (c_spec c) reward.

(* ------------------------------------------------------------------ specification oracle *)

(* The property on the handler trace: the setting the user configured stays in force. [exp] is
   the configured setting, [regs] the effects of the registers the user appended. The user
   changes the setting only by installing a handler or by appending a register that assigns the
   reward handle; after a documented reset, and after popping a register that assigned the reward
   handle, the property makes no claim and the observed value is taken over. *)
Fixpoint last_keeps (l : list reward_effect) : bool :=
  match l with
  | [] => true
  | [e] => match e with KeepsReward => true | _ => false end
  | _ :: t => last_keeps t
  end.

Fixpoint flag_oracle (exp : bool) (regs : list reward_effect) (ops : list op) (obs : list hobs)
  : option bool :=
  match ops, obs with
  | [], [] => Some exp
  | o :: ops', (f, _, _, _) :: obs' =>
    match o with
    | Append _ r =>
      let exp' := apply_flag (r_eff r) exp in
      if Bool.eqb f exp' then flag_oracle exp' (regs ++ [r_eff r]) ops' obs' else None
    | Install h =>
      if Bool.eqb f (reward_on h) then flag_oracle (reward_on h) (map r_eff (h_regs h)) ops' obs' else None
    | Reset _ => flag_oracle f [] ops' obs'
    | Pop =>
      if last_keeps regs
      then (if Bool.eqb f exp then flag_oracle exp (removelast regs) ops' obs' else None)
      else flag_oracle f (removelast regs) ops' obs'
    | _ => if Bool.eqb f exp then flag_oracle exp regs ops' obs' else None
    end
  | _, _ => None
  end.

Definition lookup_pre (pre : list (Z * Z)) (a : Z) : Z :=
  match find (fun p => fst p =? a) pre with Some p => snd p | None => 0 end.
Fixpoint find_entry (l : list entry) (a : Z) : option entry :=
  match l with
  | [] => None
  | e :: t => if e_addr e =? a then Some e else find_entry t a
  end.
Definition entry_eqb (a b : entry) : bool :=
  (e_addr a =? e_addr b) && (e_bal a =? e_bal b) && Bool.eqb (e_touched a) (e_touched b)
  && zlist_eqb (e_rest a) (e_rest b).
Definition mem (a : Z) (l : list Z) : bool := existsb (fun x => x =? a) l.

Definition res_kind (r : list Z) : Z := nth 0 r 3.
Definition res_used (r : list Z) : Z := nth 1 r 0.

(* balance an account must show when it receives no fee: the database balance, minus what the
   caller pays (gas used at the effective price, and the value when the call succeeded), plus the
   value when it is the successful call's target. Unbounded integers, no model function. *)
Definition nofee_balance (t : txobs) (res : list Z) (a : Z) : Z :=
  let e := t_env t in
  let ok := res_kind res =? 0 in
  lookup_pre (t_pre t) a
  - (if a =? p_caller e then res_used res * p_egp e + (if ok then t_value t else 0) else 0)
  + (if (a =? t_target t) && ok then t_value t else 0).

Definition fee_addresses (c : case) : list Z :=
  p_coinbase (t_env (c_tx c)) ::
  (if f_optimism (c_fe c) then [L1_FEE_RECIPIENT; BASE_FEE_RECIPIENT; OPERATOR_FEE_RECIPIENT] else []).

(* one Evm whose configured setting is [exp] *)
Definition side_ok (c : case) (exp : bool) (res : list Z) (st : list entry) : bool :=
  let t := c_tx c in let e := t_env t in
  if res_kind res =? 3 then true
  else if exp then
    (* rewards enabled: the beneficiary is paid (coinbase_gas_price * gas used), except for deposits *)
    if p_deposit e then true
    else match find_entry st (p_coinbase e) with
         | None => false
         | Some en =>
           let cgp := if p_london e then Z.max 0 (p_egp e - p_basefee e) else p_egp e in
           (e_bal en =? Z.min (pow256 - 1) (nofee_balance t res (p_coinbase e) + cgp * res_used res))
           && e_touched en
         end
  else
    (* rewards disabled: neither the beneficiary nor a vault receives anything *)
    forallb (fun a => match find_entry st a with
                      | None => true
                      | Some en => e_bal en =? nofee_balance t res a
                      end) (fee_addresses c).

Definition tx_oracle (c : case) (exp_on exp_off : bool) : bool :=
  let t := c_tx c in
  let fees := fee_addresses c in
  let keys := map e_addr (t_state_on t) ++ map e_addr (t_state_off t) in
  (* every other effect is identical: the result, and every account that is not a fee recipient *)
  zlist_eqb (t_res_on t) (t_res_off t)
  && forallb (fun a =>
       match find_entry (t_state_on t) a, find_entry (t_state_off t) a with
       | Some x, Some y => if mem a fees then zlist_eqb (e_rest x) (e_rest y) else entry_eqb x y
       | None, None => true
       | _, _ => mem a fees
       end) keys
  (* both configured without rewards: nobody is credited on either side, the states coincide.
     (Both with rewards: the reward handles may be different functions after the user's own
     reward-assigning registers - mainnet vs Optimism - so only [side_ok] speaks about the fee
     recipients.) *)
  && (if negb exp_on && negb exp_off
      then forallb (fun a => match find_entry (t_state_on t) a, find_entry (t_state_off t) a with
                             | Some x, Some y => entry_eqb x y | None, None => true | _, _ => false end) keys
      else true)
  && side_ok c exp_on (t_res_on t) (t_state_on t)
  && side_ok c exp_off (t_res_off t) (t_state_off t).

(* ------------------------------------------------------------------ model *)

Definition to_jstate (l : list entry) : jstate := map (fun e => (e_addr e, mkAcct (e_bal e) (e_touched e))) l.
Definition acct_eqb (a b : acct) : bool := (a_bal a =? a_bal b) && Bool.eqb (a_touched a) (a_touched b).
Definition jstate_eqb (keys : list Z) (s1 s2 : jstate) : bool :=
  forallb (fun a => opt_eqb acct_eqb (jget s1 a) (jget s2 a)) keys.
Definition is_base (r : option reward_fn) : bool :=
  match r with None => true | Some (CustomReward _) => true | _ => false end.
Definition same_fn (a b : option reward_fn) : bool :=
  match a, b with
  | Some MainnetReward, Some MainnetReward => true
  | Some OptimismReward, Some OptimismReward => true
  | _, _ => false
  end.

(* the only custom reward handle the harness installs does nothing *)
Definition custom_noop (id : Z) (s : jstate) : jstate := s.

Definition with_flag (e : penv) (b : bool) : penv :=
  mkPenv (p_caller e) (p_coinbase e) (p_egp e) (p_basefee e) (p_london e) (p_deposit e) (p_l1_cost e)
         (p_operator_fee e) b.

Definition model_tx (c : case) (r_on r_off : option reward_fn) : bool :=
  let t := c_tx c in
  if (res_kind (t_res_on t) =? 3) || (res_kind (t_res_off t) =? 3) then true else
  let db := lookup_pre (t_pre t) in
  let s_on := to_jstate (t_state_on t) in
  let s_off := to_jstate (t_state_off t) in
  let keys := map e_addr (t_state_on t) ++ map e_addr (t_state_off t) ++ beneficiaries (t_env t) (Some OptimismReward) in
  let used := res_used (t_res_on t) in
  (* the "off" Evm runs the transaction with the configuration flag set when [c_cfg_disable] *)
  let e_on := t_env t in
  let e_off := with_flag (t_env t) (c_cfg_disable c) in
  (* a deposit transaction that halts under the Optimism `end` handle (REGOLITH+) keeps only the
     caller's nonce bump and mint: whatever the reward handle credited is dropped with the rest of
     the state, so both Evms return the same state even when only one of them has a reward handle *)
  if p_deposit (t_env t) && (res_kind (t_res_on t) =? 2) && (res_kind (t_res_off t) =? 2) && jstate_eqb keys s_on s_off then true else
  if p_reward_disabled e_off || is_base r_off
  then jstate_eqb keys (reward_step custom_noop db e_on used r_on (reward_step custom_noop db e_off used r_off s_off)) s_on
  else if is_base r_on then jstate_eqb keys (reward_step custom_noop db e_off used r_off s_on) s_off
  else if same_fn r_on r_off then jstate_eqb keys s_on s_off
  else true.

Definition verdict (c : case) : Z :=
  let fe := c_fe c in
  let h_on := initial c true in
  let h_off := initial c false in
  let m_h := list_eqb hobs_eqb (map obs_of (trace fe h_on (c_ops_on c))) (c_obs_on c)
             && list_eqb hobs_eqb (map obs_of (trace fe h_off (c_ops_off c))) (c_obs_off c) in
  let m_tx := model_tx c (h_reward (run fe h_on (c_ops_on c))) (h_reward (run fe h_off (c_ops_off c))) in
  let regs0 := map r_eff (h_regs h_on) in
  match flag_oracle true regs0 (c_ops_on c) (c_obs_on c),
        flag_oracle (c_cfg_disable c) (map r_eff (h_regs h_off)) (c_ops_off c) (c_obs_off c) with
  | Some e_on, Some e_off =>
    (* configured without rewards through the CfgEnv flag: the property asks for no credit *)
    let e_off := if c_cfg_disable c then false else e_off in
    if tx_oracle c e_on e_off then (if m_h && m_tx then 0 else 1) else 2
  | _, _ => 2
  end.

Definition failures (l : list case) := Common.failures verdict l.
