(* Correspondence for C16: the recorded transitions are replayed in the model; the merged
   TransitionState of every group, the final bundle and the changesets (both OriginalValuesKnown
   settings) after every group are compared with what the implementation produced; the oracle
   applies the IMPLEMENTATION's changesets to the pre-state with Spec.apply_changeset and compares
   with the post-state the harness recorded. *)
From stdpp Require Import gmap.
From RevmV Require Export Corr.BundleCommon.
Local Open Scope Z_scope.

Record case := mkCase16 {
  k_base : base;
  k_tstates : list (list (Z * trans_l));          (* merged TransitionState before every merge *)
  k_final : option bundle_l;                       (* bundle after the last successful merge *)
  k_changesets : list (changeset_l * changeset_l)  (* (Yes, No) after every successful merge *)
}.

Definition dec_cs2 (x : changeset_l * changeset_l) : changeset * changeset :=
  (dec_changeset x.1, dec_changeset x.2).

Definition corr (c : case) : bool :=
  let b := k_base c in
  let rp := replay (c_retain b) bundle_empty (groups_of b) in
  let mb := good_bundles (map snd rp) in
  panic_agrees b
  && eqb (map fst rp) (map dec_tstate (k_tstates c))
  && eqb (List.last (map Some mb) None) (dec_bundle <$> k_final c)
  && eqb (map (fun m => (to_plain_state m true, to_plain_state m false)) mb)
         (map dec_cs2 (k_changesets c)).

Fixpoint oracle_groups (p0 : plain) (css : list (changeset * changeset)) (refs : list plain) : bool :=
  match css, refs with
  | [], [] => true
  | (y, n) :: css', r :: refs' =>
      changeset_ok y p0 r && changeset_ok n p0 r && oracle_groups p0 css' refs'
  | _, _ => false
  end.
Definition oracle (c : case) : bool :=
  let b := k_base c in
  negb (c_panicked b) && negb (c_dup b)
  && oracle_groups (dec_plain (c_p0 b)) (map dec_cs2 (k_changesets c)) (ref_after_groups b).

Definition verdict (c : case) : Z :=
  let b := k_base c in
  verdict_of (c_in_contract b) (monitor b) (oracle c) (corr c).

Definition failures (l : list case) := Common.failures verdict l.
