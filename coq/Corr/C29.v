(* Correspondence for C29.  A case is the sequence of Inspector callbacks recorded during one
   real transaction (annotated: journal depth, opcode, result of the instruction, whether the
   inspector supplied the outcome, whether an outcome is ok) and the logs of the returned
   ExecutionResult.

   oracle (written from the property, uses only Spec/InspectorSpec.v):
     - [balanced] on the erased trace (proved equivalent to the grammar): every call / create /
       eofcreate is closed by an end of the same kind with the same inputs id, LIFO; every step
       is followed by its step_end; a log / selfdestruct notification only right after a step_end;
     - [local_ok]: what follows what (after step_end with Continue a step of the same frame,
       with CallOrCreate the opener of the kind of that opcode, with a final result the closer;
       after an opener with inspector outcome the closer at once; after initialize_interp a
       step; after a closer a step of the frame below or the end), a log notification exactly
       when a LOG opcode continued, a selfdestruct notification exactly when the result is
       SelfDestruct;
     - [depth_ok]: journal depth at every step/opener = number of open brackets;
     - [logs_ok]: the logs reported inside brackets all of whose closers are ok are, in order,
       the logs of the ExecutionResult (each emitted log reported once, none invented).
   model: the trace is parsed into a frame tree (the parser only looks at the annotations),
   the model [transact] is run on it from empty stacks and must reproduce the erased trace. *)
From RevmV Require Export Spec.InspectorSpec Model.Inspector Corr.Common.
Local Open Scope Z_scope.

Inductive etoken :=
| EOpen (k : kind) (id : Z) (insp : bool) (depth : Z)
| EClose (k : kind) (id : Z) (ok : bool)
| EInit
| EStep (opc : Z) (depth : Z)
| EStepEnd (res : Z)   (* 0 Continue, 1 CallOrCreate, 2 any other result, 3 SelfDestruct *)
| ELog (h : Z)
| ESd.

Record case := mkCase { c_trace : list etoken; c_logs : list Z; c_panicked : bool }.

Definition erase (e : etoken) : token :=
  match e with
  | EOpen k i _ _ => TOpen k i
  | EClose k i _ => TClose k i
  | EInit => TInitInterp
  | EStep _ _ => TStep
  | EStepEnd _ => TStepEnd
  | ELog _ => TLog
  | ESd => TSelfDestruct
  end.

Definition is_log_op (opc : Z) : bool := (160 <=? opc) && (opc <=? 164).
Definition kind_of_op (opc : Z) : option kind :=
  if (opc =? 241) || (opc =? 242) || (opc =? 244) || (opc =? 250) ||
     (opc =? 248) || (opc =? 249) || (opc =? 251) then Some KCall
  else if (opc =? 240) || (opc =? 245) then Some KCreate
  else if (opc =? 236) then Some KEof
  else None.

Definition next_ok (res opc : Z) (nxt : option etoken) : bool :=
  match nxt with
  | Some (EStep _ _) => res =? 0
  | Some (EOpen k _ _ _) =>
      (res =? 1) && match kind_of_op opc with Some k' => kind_eqb k k' | None => false end
  | Some (EClose _ _ _) => (res =? 2) || (res =? 3)
  | _ => false
  end.

Fixpoint local_ok (l : list etoken) : bool :=
  match l with
  | [] => true
  | EStep opc _ :: r =>
      (match r with
       | EStepEnd res :: ELog _ :: r' => is_log_op opc && (res =? 0) && next_ok res opc (hd_error r')
       | EStepEnd res :: ESd :: r' => (opc =? 255) && (res =? 3) && next_ok res opc (hd_error r')
       | EStepEnd res :: r' =>
           next_ok res opc (hd_error r')
           && negb (is_log_op opc && (res =? 0))   (* a LOG that continued must be reported *)
           && negb (res =? 3)                      (* a completed SELFDESTRUCT must be reported *)
       | _ => false
       end) && local_ok r
  | EOpen _ _ insp _ :: r =>
      (match r with EClose _ _ _ :: _ => true | EInit :: _ => negb insp | _ => false end) && local_ok r
  | EInit :: r => (match r with EStep _ _ :: _ => true | _ => false end) && local_ok r
  | EClose _ _ _ :: r => (match r with [] => true | EStep _ _ :: _ => true | _ => false end) && local_ok r
  | _ :: r => local_ok r
  end.

Fixpoint depth_ok (d : Z) (l : list etoken) : bool :=
  match l with
  | [] => true
  | EOpen _ _ _ dd :: r => (dd =? d) && depth_ok (d + 1) r
  | EClose _ _ _ :: r => depth_ok (d - 1) r
  | EStep _ dd :: r => (dd =? d) && depth_ok d r
  | _ :: r => depth_ok d r
  end.

(* logs that survive: stack of per-bracket lists (most recent first) *)
Fixpoint surviving (st : list (list Z)) (l : list etoken) : option (list Z) :=
  match l with
  | [] => match st with [top] => Some (rev top) | _ => None end
  | EOpen _ _ _ _ :: r => surviving ([] :: st) r
  | ELog h :: r => match st with top :: below => surviving ((h :: top) :: below) r | [] => None end
  | EClose _ _ ok :: r =>
      match st with
      | top :: nxt :: below => surviving ((if ok then top ++ nxt else nxt) :: below) r
      | _ => None
      end
  | _ :: r => surviving st r
  end.
Definition logs_ok (c : case) : bool :=
  match surviving [[]] (c_trace c) with
  | Some l => zlist_eqb l (c_logs c)
  | None => false
  end.

Definition oracle (c : case) : bool :=
  negb (c_panicked c) && balanced (map erase (c_trace c)) && local_ok (c_trace c)
  && depth_ok 0 (c_trace c) && logs_ok c.

(* ---- parse the annotated trace into a frame tree ---- *)
Fixpoint parse_frame (fuel : nat) (l : list etoken) : option (frame * list etoken) :=
  match fuel with
  | O => None
  | S n =>
    match l with
    | EClose _ _ _ :: _ => Some (FEnd, l)
    | EStep opc _ :: EStepEnd res :: r1 =>
        let '(mid, r2) := match r1 with ELog _ :: r' => (1, r') | ESd :: r' => (2, r') | _ => (0, r1) end in
            if res =? 1 then
              match r2 with
              | EOpen k i insp _ :: EClose _ _ _ :: r3 =>
                  match parse_frame n r3 with
                  | Some (rest, r4) =>
                      Some (FSubNoFrame k i (if insp then ByInspector else Immediate) rest, r4)
                  | None => None
                  end
              | EOpen k i _ _ :: EInit :: r3 =>
                  match parse_frame n r3 with
                  | Some (child, EClose _ _ _ :: r4) =>
                      match parse_frame n r4 with
                      | Some (rest, r5) => Some (FSubFrame k i child rest, r5)
                      | None => None
                      end
                  | _ => None
                  end
              | _ => None
              end
            else
              match parse_frame n r2 with
              | Some (rest, r3) =>
                  if is_log_op opc then Some (FLog (mid =? 1) rest, r3)
                  else if opc =? 255 then Some (FSd (mid =? 2) rest, r3)
                  else if mid =? 0 then Some (FInstr rest, r3) else None
              | None => None
              end
    | _ => None
    end
  end.

Definition parse_tx (l : list etoken) : option tx :=
  match l with
  | [EOpen k i insp _; EClose _ _ _] => Some (TxNoFrame k i (if insp then ByInspector else Immediate))
  | EOpen k i _ _ :: EInit :: r =>
      match parse_frame (S (length r)) r with
      | Some (f, [EClose _ _ _]) => Some (TxFrame k i f)
      | _ => None
      end
  | _ => None
  end.

Definition token_eqb (a b : token) : bool :=
  match a, b with
  | TOpen k i, TOpen k' i' => kind_eqb k k' && (i =? i')
  | TClose k i, TClose k' i' => kind_eqb k k' && (i =? i')
  | TStep, TStep | TStepEnd, TStepEnd | TLog, TLog | TSelfDestruct, TSelfDestruct
  | TInitInterp, TInitInterp => true
  | _, _ => false
  end.

Definition stacks_empty (s : stacks) : bool :=
  match s_call s, s_create s, s_eof s with [], [], [] => true | _, _, _ => false end.

Definition model_agrees (c : case) : bool :=
  match parse_tx (c_trace c) with
  | Some x =>
      match transact x empty_stacks with
      | Some (s, t) => stacks_empty s && list_eqb token_eqb t (map erase (c_trace c))
      | None => false
      end
  | None => false
  end.

Definition verdict (c : case) : Z :=
  if oracle c then (if model_agrees c then 0 else 1) else 2.

Definition failures (l : list case) := Common.failures verdict l.
