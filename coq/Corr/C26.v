(* Correspondence for C26: a case is a byte string together with what the implementation was
   observed to do with it: Eof::decode (fields), encode_slow of the decoded container,
   Eof::decode_dangling (split), validate_raw_eof(_inner) twice (second time on a clone), and, for
   accepted containers, whether executing them panicked or left the current code section. *)
From RevmV Require Export Model.Eof Model.EofValidate Spec.EofSafe Corr.Common.
Local Open Scope Z_scope.

(* byte strings are written by the harness as [B n 0xHEX] (length, big-endian number): one token
   instead of n list cells keeps the case files quick to parse *)
Fixpoint pos_bytes (p : positive) (w : Z) (cur : Z) (acc : bytes) : bytes :=
  match p with
  | xH => (cur + w) :: acc
  | xO q => if w =? 128 then pos_bytes q 1 0 (cur :: acc) else pos_bytes q (2 * w) cur acc
  | xI q => if w =? 128 then pos_bytes q 1 0 ((cur + w) :: acc) else pos_bytes q (2 * w) (cur + w) acc
  end.
Definition B (n x : Z) : bytes :=
  let l := match x with Zpos p => pos_bytes p 1 0 [] | _ => [] end in
  repeat 0 (Z.to_nat n - length l) ++ l.
(* long strings come in chunks (very long number literals overflow coqc's stack) *)
Definition BB (chunks : list bytes) : bytes := concat chunks.

Inductive obs_decode :=
| ODOk (h : EofHeader) (b : EofBody) (raw_same : bool)
| ODErr (code : Z)
| ODPanic.
Inductive obs_reenc := ReNone | ReSame | ReOther (b : bytes) | RePanic.
(* decode_dangling: header, lengths of the two parts, and three comparisons made by the harness:
   returned raw = input[..n], returned dangling = input[n..], (header, body) = those of
   Eof::decode(input[..n]); is_data_filled of the body *)
Inductive obs_dangling :=
| DDOk (h : EofHeader) (n_raw n_dangling : Z) (raw_is_prefix dangling_is_suffix same_as_decode filled : bool)
| DDErr (code : Z)
| DDPanic.

(* c_kind: first_code_type passed to validation: 0 = validate_raw_eof (Some ReturnContract),
   1 = Some ReturnOrStop, 2 = None.
   c_v1/c_v2: 0 accepted, 100+d Decode(d), 200+v Validation(v), -1 panic.
   c_exec: 0 not executed, 1 executed, 2 panicked, 3 the step monitor saw the interpreter outside
   the instruction starts of the current code section / a section index out of range. *)
Record case := mkCase {
  c_bytes : bytes; c_kind : Z; c_dec : obs_decode; c_re : obs_reenc; c_dd : obs_dangling;
  c_v1 : Z; c_v2 : Z; c_exec : Z }.

Definition types_eqb (a b : TypesSection) : bool :=
  (inputs a =? inputs b) && (outputs a =? outputs b) && (max_stack_size a =? max_stack_size b).
Definition header_eqb (a b : EofHeader) : bool :=
  (types_size a =? types_size b) && zlist_eqb (code_sizes a) (code_sizes b)
  && zlist_eqb (container_sizes a) (container_sizes b) && (data_size a =? data_size b)
  && (sum_code_sizes a =? sum_code_sizes b) && (sum_container_sizes a =? sum_container_sizes b).
Definition body_eqb (a b : EofBody) : bool :=
  list_eqb types_eqb (types_section a) (types_section b)
  && list_eqb zlist_eqb (code_section a) (code_section b)
  && list_eqb zlist_eqb (container_section a) (container_section b)
  && zlist_eqb (data_section a) (data_section b)
  && Bool.eqb (is_data_filled a) (is_data_filled b).

(* ---- model side ---- *)
Definition model_dec_ok (c : case) : bool :=
  match decode (c_bytes c), c_dec c with
  | Ok e, ODOk h b same => header_eqb (header e) h && body_eqb (body e) b && same
                           && zlist_eqb (raw e) (c_bytes c)
  | Err e, ODErr k => err_code e =? k
  | _, _ => false
  end.
Definition model_re_ok (c : case) : bool :=
  match decode (c_bytes c), c_re c with
  | Ok e, ReSame => zlist_eqb (encode_slow e) (c_bytes c)
  | Ok e, ReOther x => zlist_eqb (encode_slow e) x
  | Err _, ReNone => true
  | _, _ => false
  end.
Definition model_dd_ok (c : case) : bool :=
  match decode_dangling (c_bytes c), c_dd c with
  | Ok (e, d), DDOk h n nd f1 f2 f3 filled =>
      header_eqb (header e) h && (len (raw e) =? n) && (len d =? nd) && f1 && f2 && f3
      && Bool.eqb (is_data_filled (body e)) filled
  | Err e, DDErr k => err_code e =? k
  | _, _ => false
  end.
Definition kind_of (k : Z) : option CodeType :=
  if k =? 0 then Some ReturnContract else if k =? 1 then Some ReturnOrStop else None.
Definition model_val_ok (c : case) : bool :=
  match validate_raw_eof_inner (c_bytes c) (kind_of (c_kind c)) with
  | VKnown v => v =? c_v1 c
  | VUnknown => true
  | VPanicked => false
  end.

(* ---- specification side: the property's clauses on the observations, written without the
   model's decode/encode functions ---- *)
Definition spec_header_size (h : EofHeader) : Z :=
  13 + 2 * Z.of_nat (length (code_sizes h))
  + match container_sizes h with [] => 0 | _ => 3 + 2 * Z.of_nat (length (container_sizes h)) end.
Definition spec_eof_size (h : EofHeader) : Z :=
  spec_header_size h + types_size h + fold_right Z.add 0 (code_sizes h)
  + fold_right Z.add 0 (container_sizes h) + data_size h.

Definition spec_ok (c : case) : bool :=
  (* decoding never panics *)
  match c_dec c with ODPanic => false | _ => true end
  && match c_dd c with DDPanic => false | _ => true end
  (* what decodes re-encodes to the same bytes *)
  && match c_dec c, c_re c with
     | ODOk _ _ same, ReSame => same
     | ODOk _ _ _, _ => false
     | ODErr _, ReNone => true
     | _, _ => false
     end
  (* decode_dangling splits at the container size *)
  && match c_dd c with
     | DDOk h n nd f1 f2 _ _ =>
         (n =? spec_eof_size h) && (n + nd =? Z.of_nat (length (c_bytes c))) && f1 && f2
     | _ => true
     end
  (* validation: no panic, same verdict both times *)
  && negb (c_v1 c =? -1) && (c_v1 c =? c_v2 c)
  (* an accepted container satisfies the independent safety predicate of Spec/EofSafe.v: whole
     instructions, jump targets on instruction starts inside the section, section / sub-container
     operands in range, sub-containers decode (the decoder used for nested containers is the model's) *)
  && (negb (c_v1 c =? 0)
      || match decode (c_bytes c) with
         | Ok e => container_safe (S (length (c_bytes c))) e
         | _ => false
         end)
  (* accepted containers execute without panic and without leaving their code sections *)
  && ((c_exec c =? 0) || ((c_exec c =? 1) && (c_v1 c =? 0))).

Definition verdict (c : case) : Z :=
  if spec_ok c then
    (if model_dec_ok c && model_re_ok c && model_dd_ok c && model_val_ok c then 0 else 1)
  else 2.

Definition failures (l : list case) := Common.failures verdict l.
