(* Correspondence for C05.  The "model" of a finite table property is the specification table
   itself (Spec/GateSpec.v); a case is one observed cell of the implementation:
     OpCell   one instruction on a prepared interpreter (the same cells as Gen/OpGate.v)
     EvmOp    the byte in a one-opcode contract run as a transaction through Evm
     PcSet    the precompile address set of a hardfork
     PcTx     transaction with empty data to a low address
     PcCall   CALL (99-byte probe input) to a low address, callee observed by Inspector::call_end
   Verdict 2 = the observed cell contradicts the property (the cell is the replay). *)
From RevmV Require Export Spec.GateSpec Corr.Common.
Local Open Scope Z_scope.

Inductive case :=
| OpCell (s b legacy_cls eof_exec_cls eof_validate_cls : Z)
| EvmOp (s b : Z) (eof : bool) (outcome gas_used gas_limit : Z)
| PcSet (s which : Z) (addrs : list Z)
| PcTx (s a outcome gas_used outlen gas_limit : Z)
| PcCall (s a cls spent outlen : Z).

(* transaction outcome codes of the driver:
   0 success | 1 revert | 10 halt OpcodeNotFound | 11 halt NotActivated | 12 halt InvalidFEOpcode |
   13 halt PrecompileError | 14 halt OutOfGas(Precompile) | 15 other halt | 20 Err | 21 panicked *)
Definition undefined_halt (o : Z) : bool := (o =? 10) || (o =? 11) || (o =? 12).

Definition evm_expected (g outcome gas_used gas_limit : Z) : bool :=
  if g =? C_DEFINED then negb (undefined_halt outcome) && negb (20 <=? outcome)
  else if g =? C_LATER then (outcome =? 11) && (gas_used =? gas_limit)
  else if (g =? C_UNDEFINED) || (g =? C_EOF_ONLY) then (outcome =? 10) && (gas_used =? gas_limit)
  else if g =? C_INVALID then (outcome =? 12) && (gas_used =? gas_limit)
  else true. (* bytes rejected by EOF validation are never executed *)

Definition verdict (c : case) : Z :=
  match c with
  | OpCell s b l e v =>
      let l' := if l =? 7 then 3 else l in            (* see Proofs/GateProofs.v norm_legacy *)
      let e' := if v =? 0 then e else 4 + v in
      if negb (l' =? gate s b Legacy) then 2
      else if e' =? gate s b Eof then 0
      else if enabled s OSAKA then 2 else 1            (* EOF code does not exist before OSAKA *)
  | EvmOp s b eof o g lim =>
      if eof then
        (* the probe container is not validated: RETURNCONTRACT is only valid in initcode containers
           (a called container is not one) and RETF is not valid in the first (non-returning) code
           section (empty function stack: the interpreter panics on this ill-formed container) *)
        if (b =? 0xee) || (b =? 0xe4) then 0
        else if evm_expected (gate s b Eof) o g lim then 0 else 2
      else if evm_expected (gate s b Legacy) o g lim then 0 else 2
  | PcSet s _ addrs => if zlist_eqb addrs (precompiles s) then 0 else 2
  | PcTx s a o g l lim =>
      if is_precompile s a then
        match precompile_on_empty s a with
        | Some (pg, pl) => if (o =? 0) && (g =? TX_BASE_GAS + pg) && (l =? pl) then 0 else 2
        | None => if ((o =? 13) || (o =? 14)) && (g =? lim) then 0 else 2
        end
      else if (o =? 0) && (g =? TX_BASE_GAS) && (l =? 0) then 0 else 2
  | PcCall s a cls spent outlen =>
      (* callee classes: 0 Stop | 1 Return | 2 revert | 3 PrecompileError | 4 PrecompileOOG | 5 other *)
      let empty_account := (cls =? 0) && (spent =? 0) && (outlen =? 0) in
      if is_precompile s a
      then (if negb empty_account && ((cls =? 1) || (cls =? 3) || (cls =? 4)) then 0 else 2)
      else (if empty_account then 0 else 2)
  end.

Definition failures (l : list case) := Common.failures verdict l.
