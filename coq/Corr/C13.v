(* Correspondence for C13: a case is (limit, ops, observed) where [observed] lists, per
   operation, what the implementation returned / its state afterwards. *)
From RevmV Require Export Base.Word Model.Gas Corr.Common.
Local Open Scope Z_scope.

(* observation after each op: (flag, limit, remaining, refunded, spent)
   flag: record_cost result (1/0), 1 for other ops, 2 = implementation panicked *)
Definition obs := (Z * Z * Z * Z * Z)%type.
Record case := mkCase { c_limit : Z; c_release : bool; c_ops : list gas_op; c_obs : list obs }.

Definition obs_of (flag : Z) (g : gas) : obs :=
  (flag, limit g, remaining g, refunded g, wrap64 (spent g)).
Definition obs_eqb (a b : obs) : bool :=
  let '(a1,a2,a3,a4,a5) := a in let '(b1,b2,b3,b4,b5) := b in
  (a1 =? b1) && (a2 =? b2) && (a3 =? b3) && (a4 =? b4) && (a5 =? b5).

(* model trace; in debug mode an overflow point ends the trace with flag 2 *)
Fixpoint model_trace (release : bool) (g : gas) (h : list gas_op) : list obs :=
  match h with
  | [] => []
  | o :: h' =>
    let flag := match o with RecordCost c => if snd (record_cost g c) then 1 else 0 | _ => 1 end in
    match gas_step g o with
    | Some g' => obs_of flag g' :: model_trace release g' h'
    | None =>
      if release then
        let g' := match o with
                  | EraseCost r => erase_cost_wrap g r
                  | RecordRefund x => record_refund_wrap g x
                  | SetFinalRefund b => set_final_refund_wrap g b
                  | _ => g end in
        obs_of flag g' :: model_trace release g' h'
      else [(2, 0, 0, 0, 0)]
    end
  end.

(* specification oracle, independent of the model functions: checks the property's own
   clauses on the observed trace for histories inside the contract *)
Fixpoint spec_trace_ok (l rem ref : Z) (h : list gas_op) (t : list obs) : bool :=
  match h, t with
  | [], [] => true
  | o :: h', (f, ol, orem, oref, osp) :: t' =>
    let common := (ol =? l) && (0 <=? orem) && (orem <=? l) && (osp =? l - orem) in
    let here :=
      match o with
      | RecordCost c => if c <=? rem then (f =? 1) && (orem =? rem - c) && (oref =? ref)
                        else (f =? 0) && (orem =? rem) && (oref =? ref)
      | EraseCost r => if rem + r <=? l then (orem =? rem + r) && (oref =? ref) else true
      | RecordRefund x => if is_i64 (ref + x) then (orem =? rem) && (oref =? ref + x) else true
      | SetFinalRefund b =>
          if 0 <=? ref then (oref =? Z.min ref ((l - rem) / (if b then 5 else 2))) && (orem =? rem)
          else (orem =? rem)
      | SpendAll => (orem =? 0) && (oref =? ref)
      | SetSpent s => (orem =? Z.max 0 (l - s)) && (oref =? ref)
      | SetRefund x => (orem =? rem) && (oref =? x)
      end in
    let in_contract :=
      match o with
      | EraseCost r => rem + r <=? l
      | RecordRefund x => is_i64 (ref + x)
      | _ => true
      end in
    if in_contract then common && here && spec_trace_ok l orem oref h' t'
    else true (* outside the contract the property says nothing *)
  | _, _ => false
  end.

Definition verdict (c : case) : Z :=
  if list_eqb obs_eqb (model_trace (c_release c) (gas_new (c_limit c)) (c_ops c)) (c_obs c)
  then (if spec_trace_ok (c_limit c) (c_limit c) 0 (c_ops c) (c_obs c) then 0 else 2)
  else (if spec_trace_ok (c_limit c) (c_limit c) 0 (c_ops c) (c_obs c) then 1 else 2).

Definition failures (l : list case) := Common.failures verdict l.
