(* Correspondence for C08 (ether conservation). Two kinds of cases.

   H: an operation history executed on the real revm::JournaledState over CacheDB (the C06 driver's
      worlds and operations). The case carries the implementation's answers and the total balance
      of the 7-address universe as observed on the real state before the history and after every
      operation, plus, for self-destructs, the two balances and the `created` flag observed before
      the operation. Oracle (the property, evaluated on the implementation's totals only): an
      operation changes the total only if it is a self-destruct naming itself that actually deletes
      (created in this transaction, or before CANCUN), by exactly the contract's balance; a revert
      gives back the total at its checkpoint. Model: Model/Host.v run on the same history, its
      [total] after every step against the implementation's.

   T: a whole transaction executed by the real Evm over CacheDB and committed. The case carries the
      sums of all balances of the database before and after, the fee parameters, the ether burnt
      by self-destructs-to-self that survived (recording inspector) and the residual balances of
      accounts deleted at commit. Oracle: the property's equation over unbounded integers.

   Known classes: 10 = a self-destruct whose beneficiary credit wraps modulo 2^256 (F13);
                  11 = a fee credit (reimburse_caller / reward_beneficiary) that saturates at 2^256-1. *)
From RevmV Require Export Base.Word Model.Host Model.Ether Corr.Common.
From RevmV Require Import Corr.C06.
Local Open Scope Z_scope.

Record hcase := mkH {
  h_spur : bool; h_cancun : bool; h_pre : list Z;
  h_accs : list (Z * (Z * Z * Z)); h_sto : list (Z * Z * Z); h_del : list (Z * Z);
  h_us : list Z; h_ks : list Z; h_init : list (Z * list Z);
  h_ops : list hop;
  h_obs : list (list Z);                    (* implementation's answers; [-99] = it panicked there *)
  h_tot0 : Z;                               (* implementation's total before the history *)
  h_tots : list (option Z);                 (* ... after every operation; None = unchanged *)
  h_sd : list (option (Z * Z * bool)) }.    (* self-destruct a t: balance a, balance t, a created; observed before *)

Record tcase := mkT {
  t_london : bool; t_cancun : bool;
  t_basefee : Z; t_gas_used : Z; t_price : Z;     (* price = effective gas price *)
  t_blob_fee : Z; t_reward : bool;
  t_executed : bool;                              (* false: rejected by validation; nothing may change *)
  t_cb_quiet : bool; t_cb_delta : Z;              (* execution did not touch the beneficiary; its balance change *)
  t_burnt : list (Z * Z);                         (* (address, balance) self-destructed to itself and deleted, not reverted *)
  t_residual : list (Z * Z);                      (* (address, balance) held by a self-destructed account when the commit deletes it *)
  t_wraps : Z;                                    (* executed self-destructs whose beneficiary credit overflowed *)
  t_saturated : bool;                             (* a fee credit ended at 2^256-1 *)
  t_before : Z; t_after : Z }.

Inductive case := H (c : hcase) | T (c : tcase).

(* ------------------------------------------------------------------ histories *)
Fixpoint expand (cur : Z) (l : list (option Z)) : list Z :=
  match l with
  | [] => []
  | None :: r => cur :: expand cur r
  | Some t :: r => t :: expand t r
  end.

Definition allowed_burn (canc : bool) (o : hop) (sd : option (Z * Z * bool)) : Z :=
  match o, sd with
  | HSelfdestruct a t, Some (ba, _, cr) => if (a =? t) && (cr || negb canc) then ba else 0
  | _, _ => 0
  end.
Definition f13_class (o : hop) (sd : option (Z * Z * bool)) : bool :=
  match o, sd with
  | HSelfdestruct a t, Some (ba, bt, _) => negb (a =? t) && (pow256 <=? ba + bt)
  | _, _ => false
  end.
Definition is_panic (ob : list Z) : bool := match ob with [x] => x =? -99 | _ => false end.
Definition is_zero_obs (ob : list Z) : bool := match ob with [x] => x =? 0 | _ => false end.

(* the property on the implementation's totals: (bad, known) *)
Fixpoint oracle (canc : bool) (ops : list hop) (obs : list (list Z)) (tots : list Z)
         (sds : list (option (Z * Z * bool))) (cur : Z) (stk : list Z) : bool * bool :=
  match ops, obs, tots, sds with
  | o :: ops', ob :: obs', t :: tots', sd :: sds' =>
      if is_panic ob then (false, false)
      else
        let '(expect, stk') :=
          match o with
          | HRevert => match stk with x :: r => (x, r) | [] => (cur, stk) end
          | HCommit => (cur, tl stk)
          | HCheckpoint => (cur, cur :: stk)
          | HCreate _ _ _ _ => (cur, if is_zero_obs ob then cur :: stk else stk)
          | _ => (cur - allowed_burn canc o sd, stk)
          end in
        let '(bad, known) := oracle canc ops' obs' tots' sds' t stk' in
        if t =? expect then (bad, known)
        else if f13_class o sd then (bad, true) else (true, known)
  | [], _, _, _ => (false, false)
  | _, _, _, _ => (true, false)          (* malformed case *)
  end.

(* the model on the same history: answers and totals *)
Fixpoint model_ok (d : db) (us : list Z) (sc : jstate * list checkpoint_t) (ops : list hop)
         (obs : list (list Z)) (tots : list Z) : bool :=
  match ops, obs, tots with
  | o :: ops', ob :: obs', t :: tots' =>
      match C06.hop_obs d sc o with
      | (Some sc', mob) =>
          zlist_eqb mob ob && (total d (fst sc') us =? t) && model_ok d us sc' ops' obs' tots'
      | (None, mob) => is_panic ob
      end
  | [], _, _ => true
  | _, _, _ => false
  end.

Definition hverdict (c : hcase) : Z :=
  let d := C06.mk_db (h_accs c) (h_sto c) (h_del c) in
  let s0 := C06.init_loads d (jnew (h_spur c) (h_cancun c) (C06.mem (h_pre c))) (h_init c) in
  let tots := expand (h_tot0 c) (h_tots c) in
  let '(bad, known) := oracle (h_cancun c) (h_ops c) (h_obs c) tots (h_sd c) (h_tot0 c) [] in
  let m := (total d s0 (h_us c) =? h_tot0 c) && model_ok d (h_us c) (s0, []) (h_ops c) (h_obs c) tots in
  if bad then 2
  (* known class only while the implementation behaves as the model records *)
  else if known then (if m then 10 else 2)
  else if m then 0 else 1.

(* ------------------------------------------------------------------ transactions *)
Fixpoint sum_snd (l : list (Z * Z)) : Z := match l with [] => 0 | (_, b) :: r => b + sum_snd r end.

Definition tip (c : tcase) : Z := if t_london c then t_price c - t_basefee c else t_price c.

(* the property's right-hand side *)
Definition expected_after (c : tcase) : Z :=
  t_before c
  - (if t_london c then t_basefee c * t_gas_used c else 0)
  - t_blob_fee c
  - sum_snd (t_burnt c) - sum_snd (t_residual c)
  - (if t_reward c then 0 else tip c * t_gas_used c).

Definition tverdict (c : tcase) : Z :=
  if negb (t_executed c) then (if t_after c =? t_before c then 0 else 2)
  else
    let loss := expected_after c - t_after c in
    if loss =? 0 then
      (* beneficiary share, where the execution itself left the beneficiary alone *)
      if negb (t_cb_quiet c) || (t_cb_delta c =? (if t_reward c then tip c * t_gas_used c else 0)) then 0 else 1
    else
      let k := loss / pow256 in
      let r := loss mod pow256 in
      if (0 <? loss) && (k <=? t_wraps c) && ((r =? 0) || t_saturated c)
      then (if 1 <=? k then 10 else 11)
      else 2.

Definition verdict (c : case) : Z :=
  match c with H h => hverdict h | T t => tverdict t end.

Definition failures (l : list case) := Common.failures verdict l.
