(* Correspondence for C34: same cases as C06 (histories on the real JournaledState with an
   access list and pre-warmed addresses). The oracle is the accessed-set specification
   (Spec/AccessSpec.v): every is_cold answer of the implementation must equal the answer of
   the specification, and the warm status after the outer revert must be the one at the
   checkpoint. *)
From RevmV Require Export Corr.C06 Spec.AccessSpec.
Local Open Scope Z_scope.

(* positions of the is_cold answers in the implementation's answer list of one operation *)
Definition cold_answers (o : hop) (ob : list Z) : list bool :=
  let z2b z := negb (z =? 0) in
  match o, ob with
  | HLoad _, [c] => [z2b c]
  | HLoadDelegated _, [c; _; dc] => if dc =? -1 then [z2b c] else [z2b c; z2b dc]
  | HSload _ _, [_; c] => [z2b c]
  | HSstore _ _ _, [_; _; c] => [z2b c]
  | HSelfdestruct _ _, [_; _; _; c] => [z2b c]
  | _, _ => []
  end.
Fixpoint cold_trace (h : list hop) (obs : list (list Z)) : list (list bool) :=
  match h, obs with o :: r, ob :: obr => cold_answers o ob :: cold_trace r obr | _, _ => [] end.

Definition blist_eqb := list_eqb Bool.eqb.

(* annotations read off the implementation's answers (facts about code and balances, not about
   access status): delegate loaded? create succeeded? *)
Definition ann_of (d : db) (codeof : Z -> Z) (o : hop) (ob : list Z) : ann :=
  match o with
  | HLoadDelegated a => mkAnn (if nth 2 ob (-1) =? -1 then None else db_delegate d (codeof a)) false
  | HCreate _ _ _ _ => mkAnn None (nth 0 ob 1 =? 0)
  | _ => mkAnn None false
  end.
Fixpoint anns (d : db) (codeof : Z -> Z) (h : list hop) (obs : list (list Z)) : list ann :=
  match h, obs with o :: r, ob :: obr => ann_of d codeof o ob :: anns d codeof r obr | _, _ => [] end.

Definition verdict (c : case) : Z :=
  let d := mk_db (c_accs c) (c_sto c) (c_del c) in
  if negb (c_completed c) then Corr.C06.verdict c else
  let w0 := initial_sets (mem (c_pre c)) (c_init c) in
  (* code of an account for the delegation lookup: histories set only non-delegating code, so
     the database code decides *)
  let codeof a := match db_basic d a with Some (_, _, co) => co | None => 0 end in
  let h := c_setup c ++ [HCheckpoint] ++ c_body c ++ [HRevert] in
  let n1 := length (c_setup c) in
  let obs := firstn n1 (c_obs c) ++ [[]] ++ skipn n1 (c_obs c) ++ [[]] in
  let '(_, spec_ans) := spec_run (w0, []) h (anns d codeof h obs) in
  let impl_ans := cold_trace h obs in
  let spec_ok := list_eqb blist_eqb spec_ans impl_ans in
  if spec_ok then Corr.C06.verdict c else 2.

Definition failures (l : list case) := Common.failures verdict l.
