(* Correspondence for C10.
     GateCell   one opcode executed with is_static = true (the cells of Gen/StaticGate.v)
     ChildCell  is_static of the CallInputs produced by a call-family opcode
     Run        a random call tree below STATICCALL on a real Evm: per recorded static frame the
                journaled-state snapshot at Inspector::call and at Inspector::call_end (sorted
                (kind, address, key, value) entries: 0 balance | 1 nonce | 2 code hash |
                3 created/selfdestructed flags | 4 storage slot | 5 transient slot | 6 log count;
                warm/cold and touched status are not part of a snapshot), the number of mutating
                attempts executed with is_static and how many of them did not fail, the number of
                frames whose flag differed from parent || STATICCALL, creations seen inside static mode.
   The oracle is the property itself (equality of the two snapshots etc.); verdict 2 = violated. *)
From RevmV Require Export Spec.GateSpec Spec.StaticSpec Model.StaticFrame Corr.Common.
Local Open Scope Z_scope.

Definition entry := (Z * Z * Z * Z)%type.
Definition entry_eqb (a b : entry) : bool :=
  let '(a1, a2, a3, a4) := a in let '(b1, b2, b3, b4) := b in
  (a1 =? b1) && (a2 =? b2) && (a3 =? b3) && (a4 =? b4).
Definition frame := (Z * list entry * list entry)%type.   (* nesting, before, after *)

Inductive case :=
| GateCell (s b legacy_v0 legacy_v1 eof_v0 eof_v1 : Z)
| ChildCell (s b : Z) (eof : bool) (c_nonstatic_parent c_static_parent : Z)
| Run (s : Z) (tx_ok : bool) (frames : list frame) (attempts escaped flag_mismatch creates_in_static : Z).

Definition objection (c : Z) : Z := if (c =? 9) || (c =? 10) then c else 0.
Definition cell_ok (s b : Z) (k : kind) (v : bool) (c : Z) : bool :=
  let g := gate s b k in
  if g =? C_DEFINED then objection c =? static_class b v
  else if (1 <=? g) && (g <=? 4) then negb (c =? 0)
  else true.

Definition verdict (c : case) : Z :=
  match c with
  | GateCell s b l0 l1 e0 e1 =>
      if cell_ok s b Legacy false l0 && cell_ok s b Legacy true l1 &&
         cell_ok s b Eof false e0 && cell_ok s b Eof true e1 then 0 else 2
  | ChildCell s b e c0 c1 =>
      let k := if e then Eof else Legacy in
      let flag := fun p : bool => if child_is_static p b then 1 else 0 in
      if gate s b k =? C_DEFINED
      then (if (c0 =? flag false) && (c1 =? flag true) then 0 else 2)
      else (if (c0 =? 2) && (c1 =? 2) then 0 else 2)
  | Run s ok frames attempts escaped mism creates =>
      if negb ok then 2
      else if negb (escaped =? 0) then 2
      else if negb (mism =? 0) then 2
      else if negb (creates =? 0) then 2
      else if forallb (fun f : frame => let '(_, before, after) := f in list_eqb entry_eqb before after) frames
           then 0 else 2
  end.

Definition failures (l : list case) := Common.failures verdict l.
