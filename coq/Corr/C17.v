(* Correspondence for C17: plain reverts of the final bundle and the bundle after revert(j) for
   every j are compared with the model; the oracle applies the IMPLEMENTATION's plain reverts of
   group k to the recorded state after group k and expects the recorded state before group k
   (wiped storage falls back to the pre-bundle state), and applies the changeset of the reverted
   bundle to the pre-state expecting the recorded state after the first n-j groups. *)
From stdpp Require Import gmap.
From RevmV Require Export Corr.BundleCommon.
Local Open Scope Z_scope.

Record case := mkCase17 {
  k_base : base;
  k_previews : list prevert_l;     (* to_plain_state_reverts of the final bundle *)
  k_reverted : list (option (bundle_l * (changeset_l * changeset_l)));  (* after revert(j), j = 1.. *)
  k_flags : list bool              (* results of n+1 successive revert_latest calls *)
}.

Definition dec_cs2 (x : changeset_l * changeset_l) : changeset * changeset :=
  (dec_changeset x.1, dec_changeset x.2).
Definition final_model (b : base) : option bundle :=
  List.last (map Some (good_bundles (model_bundles b))) None.

Fixpoint model_flags (b : bundle) (n : nat) : list bool :=
  match n with
  | O => []
  | S n' => match revert_latest b with
            | Some b' => true :: model_flags b' n'
            | None => false :: model_flags b n'
            end
  end.

Definition corr (c : case) : bool :=
  let b := k_base c in
  panic_agrees b
  && match final_model b with
     | None => match k_reverted c with [] => true | _ => false end
     | Some m =>
         eqb (to_plain_state_reverts (bs_reverts m)) (map dec_prevert (k_previews c))
         && eqb (map (fun j => let r := revert m j in
                               Some (r, (to_plain_state r true, to_plain_state r false)))
                     (seq 1 (length (k_reverted c))))
                (map (fun o => (fun x => (dec_bundle x.1, dec_cs2 x.2)) <$> o) (k_reverted c))
         && eqb (model_flags m (length (k_flags c))) (k_flags c)
     end.

(* clause 1: group k's reverts turn the state after group k into the state before it *)
Fixpoint reverts_ok (p0 prev : plain) (prs : list plain_revert) (afters : list plain) : bool :=
  match prs, afters with
  | [], [] => true
  | r :: prs', a :: afters' =>
      plain_eqb (apply_plain_revert p0 r a) prev && reverts_ok p0 a prs' afters'
  | _, _ => false
  end.
(* clause 2 *)
Definition reverted_ok (known_too : bool) (b : base) (n : nat) : nat -> option (changeset * changeset) -> bool :=
  fun j o =>
    match o with
    | None => false
    | Some (y, no) =>
        let target := ref_after b (n - j) in
        let p0 := dec_plain (c_p0 b) in
        plain_eqb (apply_changeset no p0) target
        && (negb known_too || plain_eqb (apply_changeset y p0) target)
    end.
Fixpoint forall_from {A} (f : nat -> A -> bool) (j : nat) (l : list A) : bool :=
  match l with [] => true | x :: r => f j x && forall_from f (S j) r end.

(* [mode]: 0 = clause 1 only, 1 = clause 1 and clause 2 for OriginalValuesKnown::No,
   2 = both settings *)
Definition oracle_gen (mode : nat) (c : case) : bool :=
  let b := k_base c in
  if c_retain b then
    let n := length (c_groups b) in
    let p0 := dec_plain (c_p0 b) in
    negb (c_panicked b) && negb (c_dup b)
    && reverts_ok p0 p0 (map dec_prevert (k_previews c)) (ref_after_groups b)
    && (length (k_reverted c) =? n)%nat
    && match mode with
       | O => true
       | S m =>
         forall_from (reverted_ok (match m with O => false | _ => true end) b n) 1
           (map (fun o => (fun x : bundle_l * (changeset_l * changeset_l) => dec_cs2 x.2) <$> o) (k_reverted c))
       end
  else negb (c_panicked b).
Definition oracle := oracle_gen 2.

(* known-finding classes: everything else holds, but after revert(j)
   10 (C17-revert-reinsert-loses-original): only the OriginalValuesKnown::Yes changeset is wrong,
   11 (C17-revert-keeps-zeroed-slots): the OriginalValuesKnown::No changeset is wrong *)
Definition verdict (c : case) : Z :=
  let b := k_base c in
  if c_in_contract b then
    if negb (monitor b) then 2
    else if oracle c then (if corr c then 0 else 1)
    (* a known finding is the recorded behaviour: the implementation still does what the model
       (which mirrors the unchanged code, defects included) does; any other wrong answer is new *)
    else if negb (corr c) then 2
    else if oracle_gen 1 c then 10
    else if oracle_gen 0 c then 11 else 2
  else (if corr c then 0 else 1).

Definition failures (l : list case) := Common.failures verdict l.
