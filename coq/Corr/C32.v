(* Correspondence for C32: blob fee functions.  A case is an input together with what the
   real functions returned (-1 = the call panicked). *)
From RevmV Require Export Base.Word Model.Blob Corr.Common.
From RevmV Require Import Spec.BlobSpec.
Local Open Scope Z_scope.

Inductive case :=
| CFake (factor numerator denominator : Z) (obs : Z)
    (* fake_exponential(factor, numerator, denominator) *)
| CPrice (excess : Z) (is_prague : bool) (obs_fn obs_struct obs_env : Z)
    (* calc_blob_gasprice; BlobExcessGasAndPrice::new(..).blob_gasprice;
       BlockEnv::set_blob_excess_gas_and_price + get_blob_gasprice *)
| CExcess (parent_excess parent_used target : Z) (obs_fn obs_struct : Z)
    (* calc_excess_blob_gas; BlobExcessGasAndPrice::from_parent_and_target(..).excess_blob_gas *).

Definition out_z (r : fe_out) : Z :=
  match r with FePanic => -1 | FeFuel => -2 | FeVal v => v end.

(* Specification oracle: the EIP-4844 loop on unbounded integers (BlobSpec.spec_loop) with one
   cut-off: the running output only grows, so once output/denominator >= 2^128 the final value
   is >= 2^128 (Proofs/BlobProofs.v, oracle_loop_sound). *)
Inductive oracle_res := OExact (v : Z) | OHuge | OUnknown.
Fixpoint oracle_loop (fuel : nat) (n d i out acc : Z) : oracle_res :=
  if acc =? 0 then OExact (out / d)
  else if pow128 <=? out / d then OHuge
  else match fuel with
       | O => OUnknown
       | S k => oracle_loop k n d (i + 1) (out + acc) (acc * n / (d * i))
       end.
Definition oracle_fuel : nat := Z.to_nat 4096.
Definition oracle (f n d : Z) : oracle_res := oracle_loop oracle_fuel n d 1 0 (f * d).

(* 0 accept, 2 reject, 1 oracle undecided *)
Definition oracle_accepts (f n d obs : Z) : Z :=
  if d =? 0 then (if obs =? -1 then 0 else 2) (* documented panic; outside the property *)
  else match oracle f n d with
       | OExact v => if v <? pow128 then (if obs =? v then 0 else 2)
                     else (if (obs =? pow128 - 1) || (obs =? -1) then 0 else 2)
       | OHuge => if (obs =? pow128 - 1) || (obs =? -1) then 0 else 2
       | OUnknown => 1
       end.

Definition verdict_of (model_agrees : bool) (oracle_v : Z) : Z :=
  if oracle_v =? 2 then 2
  else if oracle_v =? 1 then 1
  else if model_agrees then 0 else 1.

Definition verdict (c : case) : Z :=
  match c with
  | CFake f n d obs =>
      verdict_of (out_z (Blob.fake_exponential f n d) =? obs) (oracle_accepts f n d obs)
  | CPrice e p o1 o2 o3 =>
      let m := out_z (Blob.calc_blob_gasprice e p) in
      if (o1 =? o2) && (o2 =? o3) then
        verdict_of (m =? o1)
          (oracle_accepts BlobSpec.MIN_BLOB_GASPRICE e (BlobSpec.blob_update_fraction p) o1)
      else 2 (* the three public routes to the blob gas price disagree with each other *)
  | CExcess a b t o1 o2 =>
      let s := BlobSpec.calc_excess_blob_gas a b t in
      let ok := if s <? pow64 then (o1 =? s) && (o2 =? s)
                else ((o1 =? pow64 - 1) || (o1 =? -1)) && ((o2 =? pow64 - 1) || (o2 =? -1)) in
      verdict_of ((Blob.calc_excess_blob_gas a b t =? o1) && (Blob.calc_excess_blob_gas a b t =? o2))
                 (if ok then 0 else 2)
  end.

Definition failures (l : list case) := Common.failures verdict l.
