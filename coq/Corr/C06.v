(* Correspondence for the journaled state (C06; reused by C07/C34/C08 drivers).
   A case = database + setup history + (checkpoint; history; revert) executed on the real
   revm::JournaledState. The implementation's per-operation answers and three state dumps
   (before the checkpoint, before the revert, after the revert) are compared with the model;
   the specification oracle is the property itself evaluated on the implementation's dumps:
   view(dump before checkpoint) = view(dump after revert). *)
From RevmV Require Export Base.Word Model.Host Corr.Common.
Local Open Scope Z_scope.

Fixpoint assoc {V} (l : list (Z * V)) (a : Z) : option V :=
  match l with [] => None | (x, v) :: r => if x =? a then Some v else assoc r a end.
Fixpoint assoc2 (l : list (Z * Z * Z)) (a k : Z) : Z :=
  match l with [] => 0 | (x, y, v) :: r => if (x =? a) && (y =? k) then v else assoc2 r a k end.
Fixpoint mem (l : list Z) (a : Z) : bool :=
  match l with [] => false | x :: r => (x =? a) || mem r a end.

Definition mk_db (accs : list (Z * (Z * Z * Z))) (sto : list (Z * Z * Z)) (del : list (Z * Z)) : db :=
  mkDb (assoc accs) (assoc2 sto) (assoc del).

(* per-operation observable answers, as lists of integers; [-99] = the implementation panicked *)
Definition b2z (b : bool) : Z := if b then 1 else 0.
Definition ob2z (o : option bool) : Z := match o with Some b => b2z b | None => -1 end.

Definition hop_obs (d : db) (sc : jstate * list checkpoint_t) (o : hop)
  : option (jstate * list checkpoint_t) * list Z :=
  let '(s, cps) := sc in
  match o with
  | HLoad a => let '(s1, c) := load_account d s a in (Some (s1, cps), [b2z c])
  | HLoadDelegated a =>
      let '(s1, c, e, dc) := load_account_delegated d s a in (Some (s1, cps), [b2z c; b2z e; ob2z dc])
  | HTouch a => (Some (touch s a, cps), [])
  | HIncNonce a =>
      match inc_nonce s a with
      | Some (s1, Some n) => (Some (s1, cps), [n])
      | Some (s1, None) => (Some (s1, cps), [-1])
      | None => (None, [-99])
      end
  | HSetCode a c => match set_code s a c with Some s1 => (Some (s1, cps), []) | None => (None, [-99]) end
  | HTransfer f t v =>
      match transfer d s f t v with
      | Some (s1, r) => (Some (s1, cps), [match r with XferOk => 0 | OutOfFunds => 1 | OverflowPayment => 2 end])
      | None => (None, [-99])
      end
  | HCreate c a hs v =>
      match create_account_checkpoint s c a hs v (spurious s) with
      | Some (s1, CreateOk cp) => (Some (s1, cp :: cps), [0])
      | Some (s1, CreateCollision) => (Some (s1, cps), [1])
      | Some (s1, CreateOverflow) => (Some (s1, cps), [2])
      | None => (None, [-99])
      end
  | HSload a k =>
      match sload d s a k with Some (s1, v, c) => (Some (s1, cps), [v; b2z c]) | None => (None, [-99]) end
  | HSstore a k v =>
      match sstore d s a k v with
      | Some (s1, orig, pres, c) => (Some (s1, cps), [orig; pres; b2z c])
      | None => (None, [-99])
      end
  | HTload a k => (Some (s, cps), [tload s a k])
  | HTstore a k v => (Some (tstore s a k v, cps), [])
  | HLog l => (Some (log s l, cps), [])
  | HSelfdestruct a t =>
      match selfdestruct d s a t with
      | Some (s1, hv, te, pd, c) => (Some (s1, cps), [b2z hv; b2z te; b2z pd; b2z c])
      | None => (None, [-99])
      end
  | HCheckpoint => let '(s1, cp) := checkpoint s in (Some (s1, cp :: cps), [])
  | HCommit => match cps with _ :: r => (Some (checkpoint_commit s, r), []) | [] => (Some (s, cps), []) end
  | HRevert =>
      match cps with
      | cp :: r => match checkpoint_revert s cp with Some s1 => (Some (s1, r), []) | None => (None, [-99]) end
      | [] => (Some (s, cps), [])
      end
  end.

Fixpoint run_obs (d : db) (sc : jstate * list checkpoint_t) (h : list hop)
  : option (jstate * list checkpoint_t) * list (list Z) :=
  match h with
  | [] => (Some sc, [])
  | o :: r =>
      match hop_obs d sc o with
      | (Some sc', ob) => let '(res, obs) := run_obs d sc' r in (res, ob :: obs)
      | (None, ob) => (None, [ob])
      end
  end.

Lemma hop_obs_run d sc o : fst (hop_obs d sc o) = run_hop d sc o.
Proof.
  destruct sc as [s cps]. destruct o; cbn [hop_obs run_hop];
    repeat match goal with
           | |- context [let '(_, _) := ?x in _] => destruct x
           | |- context [match ?x with _ => _ end] => destruct x
           end; reflexivity.
Qed.

Lemma run_obs_run d h : forall sc, fst (run_obs d sc h) = run_hops d sc h.
Proof.
  induction h as [|o r IH]; intros sc; cbn [run_obs run_hops]; [reflexivity|].
  rewrite <- hop_obs_run. destruct (hop_obs d sc o) as [[sc'|] ob]; cbn [fst]; [|reflexivity].
  rewrite <- IH. destruct (run_obs d sc' r). reflexivity.
Qed.

(* ---- dumps: for every address / key of the case's universe *)
Definition sdump := option (Z * Z * bool).
Definition adump := option (Z * Z * Z * (bool * bool * bool * bool * bool) * list sdump).
Record dump := mkDump { du_accs : list adump; du_ts : list Z; du_logs : list Z; du_depth : Z;
                        du_frames : list Z }.

Definition dump_slot (acc : account) (k : Z) : sdump :=
  match a_storage acc k with Some sl => Some (s_orig sl, s_pres sl, s_cold sl) | None => None end.
Definition dump_acc (s : jstate) (ks : list Z) (a : Z) : adump :=
  match st s a with
  | Some acc => Some (a_bal acc, a_nonce acc, a_code acc,
                      (a_created acc, a_selfd acc, a_touched acc, a_lane acc, a_cold acc),
                      map (dump_slot acc) ks)
  | None => None
  end.
Definition dump_of (s : jstate) (us ks : list Z) : dump :=
  mkDump (map (dump_acc s ks) us)
         (flat_map (fun a => map (fun k => ts s a k) ks) us)
         (logs s) (depth s) (map (fun f => Z.of_nat (length f)) (journal s)).

Definition sdump_eqb (a b : sdump) : bool :=
  opt_eqb (fun x y => let '(o1, p1, c1) := x in let '(o2, p2, c2) := y in
                      (o1 =? o2) && (p1 =? p2) && Bool.eqb c1 c2) a b.
Definition adump_eqb (a b : adump) : bool :=
  opt_eqb (fun x y =>
    let '(b1, n1, c1, (f1, f2, f3, f4, f5), s1) := x in
    let '(b2, n2, c2, (g1, g2, g3, g4, g5), s2) := y in
    (b1 =? b2) && (n1 =? n2) && (c1 =? c2) && Bool.eqb f1 g1 && Bool.eqb f2 g2 && Bool.eqb f3 g3
    && Bool.eqb f4 g4 && Bool.eqb f5 g5 && list_eqb sdump_eqb s1 s2) a b.
Definition dump_eqb (a b : dump) : bool :=
  list_eqb adump_eqb (du_accs a) (du_accs b) && zlist_eqb (du_ts a) (du_ts b)
  && zlist_eqb (du_logs a) (du_logs b) && (du_depth a =? du_depth b)
  && zlist_eqb (du_frames a) (du_frames b).

(* ---- the observation of C06 on a dump: an account that is absent and one that is loaded,
   cold, unflagged and unchanged are the same; likewise slots *)
Definition view_slot (d : db) (a k : Z) (sd : sdump) : Z * Z * bool :=
  match sd with
  | Some (o, p, c) => (o, p, negb c)
  | None => (db_storage d a k, db_storage d a k, false)
  end.
Definition view_adump (d : db) (pre : list Z) (ks : list Z) (a : Z) (ad : adump)
  : Z * Z * Z * (bool * bool * bool * bool * bool) * list (Z * Z * bool) :=
  match ad with
  | Some (b, n, c, (cr, sd, to, la, co), sl) =>
      (b, n, c, (cr, sd, to, la, negb co), map (fun ks => view_slot d a (fst ks) (snd ks)) (combine ks sl))
  | None =>
      match db_basic d a with
      | Some (b, n, c) => (b, n, c, (false, false, false, false, mem pre a),
                           map (fun k => view_slot d a k None) ks)
      | None => (0, 0, 0, (false, false, false, true, mem pre a), map (fun k => view_slot d a k None) ks)
      end
  end.
Definition sview_eqb (x y : Z * Z * bool) : bool :=
  let '(o1, p1, c1) := x in let '(o2, p2, c2) := y in (o1 =? o2) && (p1 =? p2) && Bool.eqb c1 c2.
Definition aview := (Z * Z * Z * (bool * bool * bool * bool * bool) * list (Z * Z * bool))%type.
Definition aview_eqb (x y : aview) : bool :=
  let '(b1, n1, c1, (f1, f2, f3, f4, f5), s1) := x in
  let '(b2, n2, c2, (g1, g2, g3, g4, g5), s2) := y in
  (b1 =? b2) && (n1 =? n2) && (c1 =? c2) && Bool.eqb f1 g1 && Bool.eqb f2 g2 && Bool.eqb f3 g3
  && Bool.eqb f4 g4 && Bool.eqb f5 g5 && list_eqb sview_eqb s1 s2.

(* touched status of precompile 3 is excepted after Spurious Dragon (DESIGN.md note 6.3) *)
Definition forget_touch3 (spur : bool) (a : Z) (v : aview) : aview :=
  let '(b, n, c, (f1, f2, f3, f4, f5), s) := v in
  if spur && (a =? PRECOMPILE3) then (b, n, c, (f1, f2, false, f4, f5), s) else v.

Definition views_equal (spur : bool) (d : db) (pre us ks : list Z) (x y : dump) : bool :=
  list_eqb aview_eqb
    (map (fun p => forget_touch3 spur (fst p) (view_adump d pre ks (fst p) (snd p))) (combine us (du_accs x)))
    (map (fun p => forget_touch3 spur (fst p) (view_adump d pre ks (fst p) (snd p))) (combine us (du_accs y)))
  && zlist_eqb (du_ts x) (du_ts y) && zlist_eqb (du_logs x) (du_logs y) && (du_depth x =? du_depth y).

Record case := mkCase {
  c_spur : bool; c_cancun : bool; c_pre : list Z;
  c_accs : list (Z * (Z * Z * Z)); c_sto : list (Z * Z * Z); c_del : list (Z * Z);
  c_us : list Z; c_ks : list Z;
  c_init : list (Z * list Z);   (* access list: initial_account_load, before anything else *)
  c_setup : list hop;      (* before the checkpoint (its own checkpoints are closed) *)
  c_body : list hop;       (* between checkpoint and revert *)
  c_balanced : bool;       (* every checkpoint opened by the body was closed by the body *)
  c_obs : list (list Z);   (* implementation's answers for setup ++ body *)
  c_completed : bool;      (* false: the implementation panicked inside setup/body *)
  c_dump0 : dump; c_dump1 : dump; c_dump2 : dump }.

Definition obs_eqb (a b : list (list Z)) : bool := list_eqb zlist_eqb a b.

Fixpoint init_loads (d : db) (s : jstate) (l : list (Z * list Z)) : jstate :=
  match l with [] => s | (a, ks) :: r => init_loads d (initial_account_load d s a ks) r end.

Definition verdict (c : case) : Z :=
  let d := mk_db (c_accs c) (c_sto c) (c_del c) in
  let s0 := init_loads d (jnew (c_spur c) (c_cancun c) (mem (c_pre c))) (c_init c) in
  let '(r1, obs1) := run_obs d (s0, []) (c_setup c) in
  match r1 with
  | None => if negb (c_completed c) && obs_eqb obs1 (c_obs c) then 0 else 1
  | Some (s1, _) =>
      let '(s2, cp) := checkpoint s1 in
      let '(r2, obs2) := run_obs d (s2, []) (c_body c) in
      match r2 with
      | None => if negb (c_completed c) && obs_eqb (obs1 ++ obs2) (c_obs c) then 0 else 1
      | Some (s3, _) =>
          match checkpoint_revert s3 cp with
          | None => 1
          | Some s4 =>
              let model_ok :=
                c_completed c && obs_eqb (obs1 ++ obs2) (c_obs c)
                && dump_eqb (dump_of s1 (c_us c) (c_ks c)) (c_dump0 c)
                && dump_eqb (dump_of s3 (c_us c) (c_ks c)) (c_dump1 c)
                && dump_eqb (dump_of s4 (c_us c) (c_ks c)) (c_dump2 c) in
              (* oracle on the implementation's own dumps; depth is compared only when the
                 body closed all its checkpoints *)
              let d2 := if c_balanced c then c_dump2 c
                        else mkDump (du_accs (c_dump2 c)) (du_ts (c_dump2 c)) (du_logs (c_dump2 c))
                                    (du_depth (c_dump0 c)) (du_frames (c_dump2 c)) in
              let spec_ok := views_equal (c_spur c) d (c_pre c) (c_us c) (c_ks c) (c_dump0 c) d2 in
              if spec_ok then (if model_ok then 0 else 1) else 2
          end
      end
  end.

Definition failures (l : list case) := Common.failures verdict l.
