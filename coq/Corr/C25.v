(* Correspondence for C25.  Two kinds of cases:
   Cells: one row of the executed opcode table (SpecId, stack profile, 256 cells), compared with
          the reflected Gen/StepTable.v;
   Run:   one program (legacy byte string or validated EOF container) executed as a real
          transaction on an Evm built with cfg risechain_revm_verif, once plainly and once under an
          observing inspector.  Observed: panicked? (1 = the hook's message, 2 = any other panic),
          class of the result (0 success, 1 revert, 2 halt, 3 transaction rejected by validation,
          8 other EVMError, 9 none), gas used; from the inspector: the least gas charged by a step
          that left the result at Continue / CallOrCreate (-1: no such step), the maximum over all
          frames of (steps executed - gas limit of the frame), the number of failed runtime checks
          (pc inside the buffer, stack <= 1024, memory length multiple of 32, gas never grows in a
          step, EOF: pc on an instruction start of the current section, return stack inside code);
          for codes of at most 64 bytes: the jump table of the implementation, the program
          counters of the first frame that ran the code, and per opcode the least gas a
          continuing step of a legacy frame was charged. *)
From RevmV Require Export Base.Word Model.Jump Model.ControlFlow Model.StepCost Spec.JumpSpec Corr.Common.
Local Open Scope Z_scope.

Record obs := mkObs { o_panic : Z; o_class : Z; o_gas_used : Z }.

Inductive case :=
| Cells (spec profile : Z) (rows : list cell)
| Run (kind spec len : Z) (code : list Z) (digest gas_limit : Z) (plain mon : obs)
      (min_spent excess bad : Z) (dests : list Z) (tracked trunc : bool) (pcs : list Z)
      (opmin : list (Z * Z)).

(* ---- cells ------------------------------------------------------------------------------- *)
Definition cell_eqb (a b : cell) : bool :=
  (cell_class a =? cell_class b) && (cell_spent a =? cell_spent b) && (cell_len a =? cell_len b).

Definition cells_model_ok (spec p : Z) (rows : list cell) : bool :=
  match table_row spec p with
  | Some r => list_eqb cell_eqb r rows
  | None => false
  end && cells_io_ok p 0 rows && (Z.of_nat (length rows) =? 256).

(* ---- runs ----------------------------------------------------------------------------------- *)
Definition obs_ok (gas_limit : Z) (o : obs) : bool :=
  (o_panic o =? 0) && (0 <=? o_class o) && (o_class o <=? 3) &&
  (0 <=? o_gas_used o) && (o_gas_used o <=? gas_limit).

(* every recorded program counter is inside the padded buffer and is an instruction start of the
   code (Spec/JumpSpec.v, independent of the model); a fetch in the padding is the last one *)
Fixpoint pcs_spec_from (len : Z) (st : list bool) (pcs : list Z) : bool :=
  match pcs with
  | [] => true
  | p :: r =>
    (0 <=? p) && (p <? len + 33) &&
    (if p <? len then nth (Z.to_nat p) st false else match r with [] => true | _ => false end) &&
    pcs_spec_from len st r
  end.
Definition pcs_spec_ok (code : list Z) (pcs : list Z) : bool :=
  match pcs with
  | [] => true
  | p :: _ => (p =? 0) && pcs_spec_from (zlen code) (instr_starts code) pcs
  end.

Definition run_spec_ok (len : Z) (code : list Z) (gas_limit : Z) (plain mon : obs)
    (min_spent excess bad : Z) (tracked : bool) (pcs : list Z) : bool :=
  obs_ok gas_limit plain && obs_ok gas_limit mon &&
  ((min_spent =? -1) || (1 <=? min_spent)) && (excess <=? 1) && (bad =? 0) &&
  (if tracked then (zlen code =? len) && pcs_spec_ok code pcs else true).

Fixpoint zrange (start : Z) (n : nat) : list Z :=
  match n with O => [] | S k => start :: zrange (start + 1) k end.

Definition opmin_ok (spec : Z) (e : Z * Z) : bool :=
  match charge_lb spec (fst e) with
  | Some l => l <=? snd e
  | None => false
  end.

Definition run_model_ok (kind spec len : Z) (code : list Z) (plain mon : obs) (dests : list Z)
    (tracked : bool) (pcs : list Z) (opmin : list (Z * Z)) : bool :=
  (o_panic plain =? o_panic mon) && (o_class plain =? o_class mon) && (o_gas_used plain =? o_gas_used mon) &&
  (if (kind <? 3) && (len <=? 64) then
     (zlen code =? len) &&
     zlist_eqb (filter (jump_ok (to_analysed (LegacyRaw code))) (zrange 0 (length code + 40))) dests
   else true) &&
  (if tracked then cf_trace_ok code pcs else true) &&
  forallb (opmin_ok spec) opmin.

Definition verdict (c : case) : Z :=
  match c with
  | Cells spec p rows =>
    if forallb cell_spec_ok rows then (if cells_model_ok spec p rows then 0 else 1) else 2
  | Run kind spec len code digest gas_limit plain mon min_spent excess bad dests tracked trunc pcs opmin =>
    if run_spec_ok len code gas_limit plain mon min_spent excess bad tracked pcs
    then (if run_model_ok kind spec len code plain mon dests tracked pcs opmin then 0 else 1)
    else 2
  end.

Definition failures (l : list case) := Common.failures verdict l.
