(* Correspondence for C03.  A case is one opcode executed by the real interpreter on a
   prepared stack: (spec ordinal, opcode byte, stack before (top first), gas limit) and what was
   observed: result class, whole stack afterwards (top first), gas spent.
   class: 0 ran (Stop reached after the opcode), 1 StackUnderflow, 2 OutOfGas, 3 NotActivated,
          4 OpcodeNotFound, 8 other, 9 panicked *)
From RevmV Require Export Base.Word Model.Gas Model.Arith Corr.Common.
From RevmV Require Spec.ArithSpec.
Local Open Scope Z_scope.

Record case := mkCase {
  c_spec : Z; c_op : Z; c_stack : list Z; c_gas : Z;
  o_class : Z; o_stack : list Z; o_spent : Z }.

Definition class_of (r : iresult) : Z :=
  match r with Continue => 0 | StackUnderflow => 1 | OutOfGas => 2 | NotActivated => 3
             | OpcodeNotFound => 4 end.

Definition model_agrees (c : case) : bool :=
  let r := step (c_spec c) (c_op c) (c_stack c) (gas_new (c_gas c)) in
  (class_of (i_res r) =? o_class c) && zlist_eqb (i_stack r) (o_stack c)
  && (spent (i_gas r) =? o_spent c).

(* Specification oracle, from the property text only (Spec/ArithSpec.v): with the opcode
   available in the fork, enough operands and enough gas, the opcode must run, replace exactly
   its operands by the unbounded-integer value mod 2^256 and charge the fork's price; otherwise
   (opcode not in the fork, too few operands, too little gas) it must not run. *)
Definition spec_accepts (c : case) : bool :=
  let n := Z.to_nat (ArithSpec.arity (c_op c)) in
  let args := firstn n (c_stack c) in
  let rest := skipn n (c_stack c) in
  if negb (ArithSpec.available (c_spec c) (c_op c)) then negb (o_class c =? 0)
  else if negb (Nat.eqb (length args) n) then negb (o_class c =? 0)
  else
    match ArithSpec.value (c_op c) args, ArithSpec.gas_of (c_spec c) (c_op c) args with
    | Some v, Some g =>
      if g <=? c_gas c
      then (o_class c =? 0) && zlist_eqb (o_stack c) (v :: rest) && (o_spent c =? g)
      else negb (o_class c =? 0)
    | _, _ => true   (* not an opcode of this property *)
    end.

Definition verdict (c : case) : Z :=
  if model_agrees c then (if spec_accepts c then 0 else 2)
  else (if spec_accepts c then 1 else 2).

Definition failures (l : list case) := Common.failures verdict l.
