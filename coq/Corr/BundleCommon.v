(* Shared part of the correspondence for C16/C17/C18: decoding of the harness's list-shaped
   observations, replay of the recorded transitions in the model, the TransOK monitor and the
   boolean specification oracles (written over Spec/BundleSpec.v only). *)
From stdpp Require Import gmap.
From RevmV Require Export Model.Bundle Spec.BundleSpec Spec.BundleHist Corr.Common.
Local Open Scope Z_scope.

(* ---- list-shaped data as printed by harness/src/p_c16.rs *)
Definition info_l := (Z * Z * Z * option Z)%type.
Definition slot_l := (Z * Z * Z)%type.                       (* key, original, present *)
Definition trans_l := (option info_l * Z * option info_l * Z * list slot_l * bool)%type.
Definition plain_l := list (Z * info_l * list (Z * Z)).
Definition bacc_l := (Z * option info_l * option info_l * list slot_l * Z)%type.
Definition arevert_l := (Z * Z * option info_l * list (Z * option Z) * Z * bool)%type.
Definition bundle_l := (list bacc_l * list (Z * Z) * list (list arevert_l))%type.
Definition changeset_l :=
  (list (Z * option info_l) * list (Z * bool * list (Z * Z)) * list (Z * Z))%type.
Definition prevert_l :=
  (list (Z * option info_l) * list (Z * bool * list (Z * option Z)))%type.

Definition dec_info (x : info_l) : info := let '(b, n, h, c) := x in mkInfo b n h c.
Definition dec_oinfo (x : option info_l) : option info := dec_info <$> x.
Definition dec_status (z : Z) : status :=
  match z with
  | 0 => LoadedNotExisting | 1 => Loaded | 2 => LoadedEmptyEIP161 | 3 => InMemoryChange
  | 4 => Changed | 5 => Destroyed | 6 => DestroyedChanged | _ => DestroyedAgain
  end.
Definition dec_storage (l : list slot_l) : storage :=
  list_to_map (map (fun x : slot_l => let '(k, o, p) := x in (k, mkSlot o p)) l).
Definition dec_trans (x : trans_l) : tacc :=
  let '(i, s, pi, ps, sto, w) := x in
  mkTA (dec_oinfo i) (dec_status s) (dec_oinfo pi) (dec_status ps) (dec_storage sto) w.
Definition dec_tx (l : list (Z * trans_l)) : txout := map (fun x => (x.1, dec_trans x.2)) l.
Definition dec_tstate (l : list (Z * trans_l)) : tstate := list_to_map (dec_tx l).
Definition dec_plain (l : plain_l) : plain :=
  mkPlain (list_to_map (map (fun x : Z * info_l * list (Z * Z) => let '(a, i, _) := x in (a, dec_info i)) l))
          (list_to_map (map (fun x : Z * info_l * list (Z * Z) =>
                               let '(a, _, s) := x in (a, (list_to_map s : gmap Z Z))) l)).
Definition dec_rslot (o : option Z) : rslot := match o with Some v => RSome v | None => RDestroyed end.
Definition dec_rstorage (l : list (Z * option Z)) : gmap Z rslot :=
  list_to_map (map (fun x => (x.1, dec_rslot x.2)) l).
Definition dec_bacc (x : bacc_l) : Z * bacc :=
  let '(a, i, oi, sto, s) := x in (a, mkBA (dec_oinfo i) (dec_oinfo oi) (dec_storage sto) (dec_status s)).
Definition dec_arevert (x : arevert_l) : Z * arevert :=
  let '(a, kind, i, sto, ps, w) := x in
  (a, mkAR (match kind with
            | 0 => DoNothing | 1 => DeleteIt
            | _ => RevertTo (default info_default (dec_oinfo i)) end)
           (dec_rstorage sto) (dec_status ps) w).
Definition dec_reverts (l : list (list arevert_l)) : list (gmap Z arevert) :=
  map (fun g => list_to_map (map dec_arevert g)) l.
Definition dec_bundle (x : bundle_l) : bundle :=
  let '(st, c, r) := x in mkB (list_to_map (map dec_bacc st)) (list_to_map c) (dec_reverts r).
Definition dec_changeset (x : changeset_l) : changeset :=
  let '(acc, sto, con) := x in
  mkCS (list_to_map (map (fun y => (y.1, dec_oinfo y.2)) acc))
       (list_to_map (map (fun y : Z * bool * list (Z * Z) =>
                            let '(a, w, s) := y in (a, (w, (list_to_map s : gmap Z Z)))) sto))
       (list_to_map con).
Definition dec_prevert (x : prevert_l) : plain_revert :=
  let '(acc, sto) := x in
  mkPR (list_to_map (map (fun y => (y.1, dec_oinfo y.2)) acc))
       (list_to_map (map (fun y : Z * bool * list (Z * option Z) =>
                            let '(a, w, s) := y in (a, (w, dec_rstorage s))) sto)).

(* ---- decidable equalities used to compare model and observation *)
Global Instance info_eq_dec : EqDecision info. Proof. solve_decision. Defined.
Global Instance slot_eq_dec : EqDecision slot. Proof. solve_decision. Defined.
Global Instance tacc_eq_dec : EqDecision tacc. Proof. solve_decision. Defined.
Global Instance irevert_eq_dec : EqDecision irevert. Proof. solve_decision. Defined.
Global Instance arevert_eq_dec : EqDecision arevert. Proof. solve_decision. Defined.
Global Instance bacc_eq_dec : EqDecision bacc. Proof. solve_decision. Defined.
Global Instance bundle_eq_dec : EqDecision bundle. Proof. solve_decision. Defined.
Global Instance changeset_eq_dec : EqDecision changeset. Proof. solve_decision. Defined.
Global Instance plain_revert_eq_dec : EqDecision plain_revert. Proof. solve_decision. Defined.

Definition eqb {A} `{EqDecision A} (x y : A) : bool := bool_decide (x = y).

(* ---- the case part every property shares *)
Record base := mkBase {
  c_in_contract : bool;        (* history generated inside the TransOK contract *)
  c_retain : bool;             (* BundleRetention::Reverts *)
  c_p0 : plain_l;
  c_groups : list (list (list (Z * trans_l)));
  c_refs : list (list plain_l);   (* harness's reference plain state after every transaction *)
  c_panicked : bool;           (* the implementation panicked in the last recorded merge *)
  c_dup : bool }.              (* an observed changeset / revert list had duplicate keys *)

Definition groups_of (b : base) : list (list txout) := map (map dec_tx) (c_groups b).

(* model replay: merged transition state and bundle after every group; None = model panics *)
Fixpoint replay (retain : bool) (b : bundle) (gs : list (list txout))
  : list (tstate * option bundle) :=
  match gs with
  | [] => []
  | g :: r =>
      let ts := group_tstate g in
      match apply_transitions_and_create_reverts b ts retain with
      | Some b' => (ts, Some b') :: replay retain b' r
      | None => [(ts, None)]
      end
  end.
Definition model_bundles (b : base) : list (option bundle) :=
  map snd (replay (c_retain b) bundle_empty (groups_of b)).
(* the bundles of the groups that did not panic *)
Definition good_bundles (l : list (option bundle)) : list bundle := omap id l.

(* panic agreement: the model's replay ends in None iff the implementation panicked *)
Definition panic_agrees (b : base) : bool :=
  let mb := model_bundles b in
  eqb (c_panicked b) (existsb (fun x => match x with None => true | Some _ => false end) mb)
  && (length mb =? length (c_groups b))%nat.

(* ---- monitor: TransOK on every transition, and the plain meaning of every transaction equals
   the harness's reference state *)
Definition plain_sub (x y : plain) : bool :=
  forallb (fun am => forallb (fun kv => kv.2 =? stor_get y am.1 kv.1) (map_to_list am.2))
          (map_to_list (p_stor x)).
Definition plain_eqb (x y : plain) : bool :=
  eqb (p_acc x) (p_acc y) && plain_sub x y && plain_sub y x.
Definition plain_wfb (p : plain) : bool :=
  forallb (fun am => match p_acc p !! am.1 with
                     | Some _ => true
                     | None => forallb (fun kv => kv.2 =? 0) (map_to_list am.2) end)
          (map_to_list (p_stor p)).

(* boolean form of plain_nocode (part of HistOK) *)
Definition plain_nocodeb (p : plain) : bool :=
  forallb (fun ai => match i_code ai.2 with None => true | Some _ => false end) (map_to_list (p_acc p)).

Fixpoint monitor_txs (h : hstate) (txs : list txout) (refs : list plain_l) : option hstate :=
  match txs, refs with
  | [], [] => Some h
  | tx :: txs', r :: refs' =>
      if hist_ok h tx then
        let h' := hist_run h tx in
        if plain_eqb (h_plain h') (dec_plain r) then monitor_txs h' txs' refs' else None
      else None
  | _, _ => None
  end.
Fixpoint monitor_groups (h : hstate) (gs : list (list txout)) (refs : list (list plain_l))
  : option hstate :=
  match gs, refs with
  | [], [] => Some h
  | g :: gs', r :: refs' =>
      match monitor_txs h g r with
      | Some h' => monitor_groups h' gs' refs'
      | None => None
      end
  | _, _ => None
  end.
Definition monitor (b : base) : bool :=
  plain_wfb (dec_plain (c_p0 b)) && plain_nocodeb (dec_plain (c_p0 b))
  && match monitor_groups (h0 (dec_plain (c_p0 b))) (groups_of b) (c_refs b) with
     | Some _ => true | None => false end.

(* reference state after every group (a group without transactions leaves the state) *)
Fixpoint refs_thread (prev : plain) (refs : list (list plain_l)) : list plain :=
  match refs with
  | [] => []
  | r :: rs =>
      let p := match r with [] => prev | x :: _ => dec_plain (List.last r x) end in
      p :: refs_thread p rs
  end.
Definition ref_after_groups (b : base) : list plain := refs_thread (dec_plain (c_p0 b)) (c_refs b).
(* reference state after the first [n] groups *)
Definition ref_after (b : base) (n : nat) : plain :=
  match n with
  | O => dec_plain (c_p0 b)
  | S m => nth m (ref_after_groups b) (dec_plain (c_p0 b))
  end.

(* boolean form of contracts_cover: checked on the accounts of [p] *)
Definition contracts_coverb (cs : changeset) (p0 p : plain) : bool :=
  forallb (fun ai =>
             let h := i_hash ai.2 in
             (h =? KECCAK_EMPTY) || eqb (i_hash <$> acc_get p0 ai.1) (Some h)
             || match cs_contracts cs !! h with Some _ => true | None => false end)
          (map_to_list (p_acc p)).

(* the C16 oracle for one observed changeset *)
Definition changeset_ok (cs : changeset) (p0 p : plain) : bool :=
  plain_eqb (apply_changeset cs p0) p && contracts_coverb cs p0 p.

Definition verdict_of (in_contract mon oracle corr : bool) : Z :=
  if in_contract then
    (if negb mon then 2 else if negb oracle then 2 else if corr then 0 else 1)
  else (if corr then 0 else 1).

(* ---- readable renderings (debugging / replays) *)
Definition show_info (i : info) : info_l := (i_bal i, i_nonce i, i_hash i, i_code i).
Definition show_storage (s : storage) : list slot_l :=
  map (fun x => (x.1, s_orig x.2, s_pres x.2)) (map_to_list s).
Definition show_bacc (b : bacc) :=
  (show_info <$> b_info b, show_info <$> b_oinfo b, show_storage (b_storage b), b_status b).
Definition show_irevert (r : irevert) : Z * option info_l :=
  match r with DoNothing => (0, None) | DeleteIt => (1, None) | RevertTo i => (2, Some (show_info i)) end.
Definition show_arevert (r : arevert) :=
  (show_irevert (r_acc r), map_to_list (r_storage r), r_pstatus r, r_wipe r).
Definition show_bundle (b : bundle) :=
  (map (fun x => (x.1, show_bacc x.2)) (map_to_list (bs_state b)),
   map_to_list (bs_contracts b),
   map (fun g => map (fun x => (x.1, show_arevert x.2)) (map_to_list g)) (bs_reverts b)).
Definition show_changeset (c : changeset) :=
  (map (fun x => (x.1, show_info <$> x.2)) (map_to_list (cs_accounts c)),
   map (fun x => (x.1, x.2.1, map_to_list x.2.2)) (map_to_list (cs_storage c)),
   map_to_list (cs_contracts c)).
Definition show_plain (p : plain) :=
  (map (fun x => (x.1, show_info x.2)) (map_to_list (p_acc p)),
   map (fun x => (x.1, map_to_list x.2)) (map_to_list (p_stor p))).
Definition show_prevert (r : plain_revert) :=
  (map (fun x => (x.1, show_info <$> x.2)) (map_to_list (pr_accounts r)),
   map (fun x => (x.1, x.2.1, map_to_list x.2.2)) (map_to_list (pr_storage r))).
