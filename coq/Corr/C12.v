(* Correspondence for C12.  Two kinds of cases:
   - [CStack]: a history of method calls on the real revm_interpreter::Stack;
   - [CInterp]: a program of stack opcodes run by the real Interpreter::run.
   Large inputs are given by generators evaluated on both sides (prefill pattern, byte
   pattern) so that case files stay small. *)
From RevmV Require Export Base.Word Model.Stack Spec.StackSpec Corr.Common.
Local Open Scope Z_scope.

(* linear-time reversal (List.rev is quadratic) *)
Definition frev (l : list Z) : list Z := rev_append l [].

(* ---------- shared input generators (mirrored in harness/src/p_c12.rs) *)
(* prefill word i (bottom = 0): a + i*b, with a < 2^255 and b < 2^244 so that no reduction is
   needed for i < 1024 (Z.modulo on 256-bit numbers costs milliseconds under vm_compute) *)
Fixpoint prefill_from (n : nat) (cur b : Z) : list Z :=
  match n with O => [] | S n' => cur :: prefill_from n' (cur + b) b end.
Definition prefill (n a b : Z) : list Z := prefill_from (Z.to_nat n) a b.
(* byte i of a patterned slice: ((a + i*b) mod 65521) mod 256 *)
(* computed by the recurrence x' = x + b - (65521 if x + b >= 65521), a, b < 65521 *)
Fixpoint pat_from (n : nat) (x b : Z) : list Z :=
  match n with
  | O => []
  | S n' => Z.land x 255 :: pat_from n' (let y := x + b in if y <? 65521 then y else y - 65521) b
  end.
Definition pat_bytes (len a b : Z) : list Z := pat_from (Z.to_nat len) a b.

Inductive cop :=
| CPush (v : Z) | CPop | CPeek (n : Z) | CSet (n v : Z) | CDup (n : Z) | CSwap (n : Z)
| CExchange (n m : Z) | CSlice (bs : list Z) | CSlicePat (len a b : Z) | CB256 (bs : list Z)
| CPopUnsafe | CTopWrite (v : Z) | CPopTopWrite (v : Z).

Definition op_of (c : cop) : stack_op :=
  match c with
  | CPush v => OPush v | CPop => OPop | CPeek n => OPeek n | CSet n v => OSet n v
  | CDup n => ODup n | CSwap n => OSwap n | CExchange n m => OExchange n m
  | CSlice bs => OPushSlice bs | CSlicePat len a b => OPushSlice (pat_bytes len a b)
  | CB256 bs => OPushB256 bs | CPopUnsafe => OPopUnsafe | CTopWrite v => OTopWrite v
  | CPopTopWrite v => OPopTopWrite v
  end.
(* from-top positions whose content is observed after the operation *)
Definition probes_of (c : cop) : list Z :=
  match c with
  | CPeek n | CSet n _ | CDup n | CSwap n => [n]
  | CExchange n m => [n; n + m]
  | _ => []
  end.

(* checksum of a whole stack (bottom first): Horner with a small odd multiplier (cheap under vm_compute), wrapping at 2^256
   (Z.land instead of a division) *)
Definition CK_M : Z := pow256 - 1.
Definition CK_R : Z := 1000003.
Definition checksum (d : list Z) : Z :=
  fold_left (fun acc w => Z.land (CK_R * acc + w + 1) CK_M) d 0.
Definition DUMP_MAX : Z := 12.

(* Parsing a 256-bit literal costs coqc about a millisecond, evaluating on it microseconds:
   observed words are therefore transmitted as a 64-bit digest computed on both sides.
   fold64 xors the four limbs (every single-bit difference is visible). *)
Definition M64 : Z := pow64 - 1.
Definition fold64 (w : Z) : Z :=
  Z.lxor (Z.lxor (Z.land w M64) (Z.land (Z.shiftr w 64) M64))
         (Z.lxor (Z.land (Z.shiftr w 128) M64) (Z.land (Z.shiftr w 192) M64)).
Definition dig (ws : list Z) : Z :=
  fold_left (fun acc w => Z.land (CK_R * acc + fold64 w) M64) ws 7.

(* observation after a method call: (kind, len, digest of [returned word; top 4 words top
   first; words at the probe positions (0 when absent)]).  kind: 0 ok, error code, 255 panic *)
Definition obs := (Z * Z * Z)%type.
Definition obs_eqb (a b : obs) : bool :=
  let '(a1, a2, a3) := a in let '(b1, b2, b3) := b in (a1 =? b1) && (a2 =? b2) && (a3 =? b3).

Definition kind_of (o : outcome) : Z := match o with Ok _ => 0 | Err e => e | Panic => 255 end.
Definition ret_of (o : outcome) : Z := match o with Ok v => v | _ => 0 end.

(* --- model side (vector, top last) *)
Definition m_probe (d : stack) (pos : Z) : Z :=
  if (0 <=? pos) && (pos <? slen d) then znth (slen d - 1 - pos) d else 0.
Definition m_obs (d : stack) (r : outcome) (c : cop) : obs :=
  (kind_of r, slen d, dig (ret_of r :: firstn 4 (frev d) ++ map (m_probe d) (probes_of c))).
Fixpoint m_trace (d : stack) (h : list cop) : list obs * stack :=
  match h with
  | [] => ([], d)
  | c :: h' =>
    let '(d', r) := stack_step d (op_of c) in
    match r with
    | Panic => ([m_obs d' r c], d')       (* the harness stops at a panic *)
    | _ => let '(t, df) := m_trace d' h' in (m_obs d' r c :: t, df)
    end
  end.

(* --- specification side (abstract LIFO, top first) *)
Definition a_probe (l : lifo) (pos : Z) : Z :=
  match lookup l pos with Some v => v | None => 0 end.
Definition a_obs (l : lifo) (r : outcome) (c : cop) : obs :=
  (kind_of r, Z.of_nat (length l), dig (ret_of r :: firstn 4 l ++ map (a_probe l) (probes_of c))).
(* returns (accepted?, final abstract stack, stopped at an undefined point?) *)
Fixpoint a_check (l : lifo) (h : list cop) (t : list obs) : bool * lifo * bool :=
  match h, t with
  | [], [] => (true, l, false)
  | c :: h', o :: t' =>
    let '(l', r) := a_step l (op_of c) in
    match r with
    | Panic => (true, l, true)             (* precondition violated: the property says nothing *)
    | _ => if obs_eqb (a_obs l' r c) o then a_check l' h' t' else (false, l, false)
    end
  | _, _ => (false, l, false)
  end.

Definition final_ok (d : list Z) (fsum : Z) (fdump : list Z) : bool :=
  (checksum d =? fsum) && (if slen d <=? DUMP_MAX then zlist_eqb d fdump else true).

(* ---------- interpreter programs *)
(* observation after each step: (instruction_result, gas remaining, pc, len, digest of top 4) *)
Definition iobs := (Z * Z * Z * Z * Z)%type.
Definition iobs_eqb (a b : iobs) : bool :=
  let '(a1, a2, a3, a4, a5) := a in let '(b1, b2, b3, b4, b5) := b in
  (a1 =? b1) && (a2 =? b2) && (a3 =? b3) && (a4 =? b4) && (a5 =? b5).
Definition i_obs (s : istate) : iobs :=
  (i_res s, i_gas s, i_pc s, slen (i_stack s), dig (firstn 4 (frev (i_stack s)))).

(* specification side: meaning of the stack opcodes as abstract LIFO operations.
   decode = (operation, gas cost, immediate bytes consumed on success, consumed on stack error) *)
Inductive dec := DStop | DOp (o : stack_op) (cost imm_ok imm_err : Z) | DRes (r : Z) | DUnknown.
Definition decode (eof shanghai : bool) (code : list Z) (pc : Z) : dec :=
  let op := code_at code pc in
  let imm := code_at code (pc + 1) in
  if op =? 0 then DStop
  else if op =? 80 then DOp OPop 2 0 0
  else if op =? 95 then if shanghai then DOp (OPush 0) 2 0 0 else DRes NotActivated
  else if (96 <=? op) && (op <=? 127) then
    DOp (OPushSlice (code_slice code (pc + 1) (Z.to_nat (op - 95)))) 3 (op - 95) 0
  else if (128 <=? op) && (op <=? 143) then DOp (ODup (op - 127)) 3 0 0
  else if (144 <=? op) && (op <=? 159) then DOp (OSwap (op - 143)) 3 0 0
  else if op =? 230 then if eof then DOp (ODup (imm + 1)) 3 1 1 else DRes EOFOpcodeDisabledInLegacy
  else if op =? 231 then if eof then DOp (OSwap (imm + 1)) 3 1 1 else DRes EOFOpcodeDisabledInLegacy
  else if op =? 232 then
    if eof then DOp (OExchange (imm / 16 + 1) (imm mod 16 + 1)) 3 1 1 else DRes EOFOpcodeDisabledInLegacy
  else DUnknown.

Fixpoint i_check (eof shanghai : bool) (code : list Z) (gas pc : Z) (l : lifo) (t : list iobs)
  : bool * lifo :=
  match t with
  | [] => (false, l)   (* a run always ends with a non-Continue observation *)
  | o :: t' =>
    let '(ores, ogas, opc, olen, otop) := o in
    let same := (olen =? Z.of_nat (length l)) && (otop =? dig (firstn 4 l)) in
    let last := match t' with [] => true | _ => false end in
    match decode eof shanghai code pc with
    | DStop => ((ores =? Stop) && (ogas =? gas) && (opc =? pc + 1) && same && last, l)
    | DRes r => ((ores =? r) && (ogas =? gas) && (opc =? pc + 1) && same && last, l)
    | DUnknown => (false, l)
    | DOp op cost iok ierr =>
      if gas <? cost then ((ores =? OutOfGas) && (ogas =? gas) && (opc =? pc + 1) && same && last, l)
      else
        let '(l', r) := a_step l op in
        match r with
        | Ok _ =>
          if (ores =? Continue) && (ogas =? gas - cost) && (opc =? pc + 1 + iok) &&
             (olen =? Z.of_nat (length l')) && (otop =? dig (firstn 4 l'))
          then i_check eof shanghai code (gas - cost) (pc + 1 + iok) l' t' else (false, l)
        | Err e => ((ores =? e) && (ogas =? gas - cost) && (opc =? pc + 1 + ierr) && same && last, l)
        | Panic => (false, l)  (* opcodes never violate the preconditions *)
        end
    end
  end.

(* ---------- cases and verdict *)
Inductive case :=
| CStack (pre_n pre_a pre_b : Z) (extra : list Z) (ops : list cop) (t : list obs)
         (fsum : Z) (fdump : list Z)
| CInterp (eof shanghai : bool) (gas : Z) (pre_n pre_a pre_b : Z) (code : list Z) (t : list iobs)
          (fsum : Z) (fdump : list Z).

Definition verdict (c : case) : Z :=
  match c with
  | CStack n a b extra ops t fsum fdump =>
    let d0 := prefill n a b ++ extra in
    let '(mt, md) := m_trace d0 ops in
    let model_ok := list_eqb obs_eqb mt t && final_ok md fsum fdump in
    let '(ok, lf, undefined) := a_check (frev d0) ops t in
    let spec_ok := ok && (undefined || final_ok (frev lf) fsum fdump) in
    if model_ok then (if spec_ok then 0 else 2) else (if spec_ok then 1 else 2)
  | CInterp eof sh gas n a b code t fsum fdump =>
    let d0 := prefill n a b in
    let mt := irun (S (length code)) eof sh code (mkI gas 0 d0 Continue) in
    let md := match rev_append mt [] with s :: _ => i_stack s | [] => d0 end in
    let model_ok := list_eqb iobs_eqb (map i_obs mt) t && final_ok md fsum fdump in
    let '(ok, lf) := i_check eof sh code gas 0 (frev d0) t in
    let spec_ok := ok && final_ok (frev lf) fsum fdump in
    if model_ok then (if spec_ok then 0 else 2) else (if spec_ok then 1 else 2)
  end.

Definition failures (l : list case) := Common.failures verdict l.
