(* Correspondence for C02. A step = (SpecId, cfg, block, typed transaction, sender account as it
   is in the database, observed outcome of the real Evm::transact). Observed outcome is
   (code, a, b): 0 = Ok, 1..25 = InvalidTransaction variant (declaration order; payload of
   LackOfFundForMaxFee / NonceTooHigh / NonceTooLow / TooManyBlobs in a, b), 101/102 =
   InvalidHeader, 200 = panic, 201 = other error. *)
From RevmV Require Export Base.Word Model.Envelope Spec.ValidSpec Model.TypedTx Corr.Common.
Local Open Scope Z_scope.

Definition obs := (Z * Z * Z)%type.
Definition obs_eqb (a b : obs) : bool :=
  let '(a1, a2, a3) := a in let '(b1, b2, b3) := b in (a1 =? b1) && (a2 =? b2) && (a3 =? b3).

Definition err_code (e : invalid_tx) : obs :=
  match e with
  | PriorityFeeGreaterThanMaxFee => (1,0,0) | GasPriceLessThanBasefee => (2,0,0)
  | CallerGasLimitMoreThanBlock => (3,0,0) | CallGasCostMoreThanGasLimit => (4,0,0)
  | GasFloorMoreThanGasLimit => (5,0,0) | RejectCallerWithCode => (6,0,0)
  | LackOfFundForMaxFee f b => (7,f,b) | OverflowPaymentInTransaction => (8,0,0)
  | NonceOverflowInTransaction => (9,0,0) | NonceTooHigh t s => (10,t,s) | NonceTooLow t s => (11,t,s)
  | CreateInitCodeSizeLimit => (12,0,0) | InvalidChainId => (13,0,0) | AccessListNotSupported => (14,0,0)
  | MaxFeePerBlobGasNotSupported => (15,0,0) | BlobVersionedHashesNotSupported => (16,0,0)
  | BlobGasPriceGreaterThanMax => (17,0,0) | EmptyBlobs => (18,0,0) | BlobCreateTransaction => (19,0,0)
  | TooManyBlobs h => (20,h,0) | BlobVersionNotSupported => (21,0,0) | EofCrateShouldHaveToAddress => (22,0,0)
  | AuthorizationListNotSupported => (23,0,0) | AuthorizationListInvalidFields => (24,0,0)
  | EmptyAuthorizationList => (25,0,0)
  end.
Definition outcome_code (o : outcome) : obs :=
  match o with
  | VOk => (0,0,0)
  | VHeader PrevrandaoNotSet => (101,0,0) | VHeader ExcessBlobGasNotSet => (102,0,0)
  | VTx e => err_code e
  | VPanic => (200,0,0)
  end.

Record step := mkStep {
  st_spec : Z; st_cfg : cfg_env; st_block : block_env; st_tx : Spec.typed_tx; st_sender : sender;
  st_obs : obs }.

Inductive case :=
| Typed (s : step)
| Raw (spec : Z) (e : env) (a : sender) (o : obs)
| Hist (l : list (step * bool * bool)).   (* step, same result as a fresh instance, database ok *)

Definition model_step (s : step) : obs :=
  outcome_code (preverify (st_spec s) (mkEnv (st_cfg s) (st_block s) (to_tx_env (st_tx s))) (st_sender s)).

(* specification oracle: the implementation rejected  <->  Spec.valid does not hold; a panic or a
   non-validation error is never acceptable *)
Definition oracle_step (s : step) : bool :=
  let '(code, _, _) := st_obs s in
  let v := Spec.valid_b (ctx_of (st_spec s) (st_cfg s) (st_block s) (st_sender s)) (st_tx s) in
  if (code =? 200) || (code =? 201) then false
  else Bool.eqb (code =? 0) v.

(* 1559-style transactions before LONDON are outside the domain (note 6.4): validate_tx has no
   rule for a priority fee before LONDON *)
Definition in_domain (spec : Z) (t : Spec.typed_tx) : bool :=
  match t with Spec.Eip1559 _ _ _ _ _ => LONDON <=? spec | _ => true end.

Definition verdict_step (s : step) : Z :=
  let agree := obs_eqb (model_step s) (st_obs s) in
  let ok := if in_domain (st_spec s) (st_tx s) then oracle_step s else true in
  if ok then (if agree then 0 else 1) else 2.

Definition verdict (c : case) : Z :=
  match c with
  | Typed s => verdict_step s
  | Raw spec e a o =>
      let '(code, _, _) := o in
      if (code =? 200) || (code =? 201) then 2
      else if obs_eqb (outcome_code (preverify spec e a)) o then 0 else 1
  | Hist l =>
      fold_right (fun '(s, same, dbok) acc =>
                    Z.max acc (if same && dbok then verdict_step s else 2)) 0 l
  end.

Definition failures (l : list case) := Common.failures verdict l.
