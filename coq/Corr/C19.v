(* Correspondence for C19. A case: database D, bundle B (accounts + contracts) produced by a real
   history, the merged database D' the harness built by applying to_plain_state(B, No) by hand,
   then the same further history run on State(D, prestate B) and State(D'), with every database
   call, cache snapshot and answer recorded on both sides, the pairwise read-backs, the pairs of
   execution results and the two end states as plain maps. *)
From RevmV Require Export Model.Preload Corr.C15.
Local Open Scope Z_scope.

Definition wacc := (Z * (info * list (Z * Z)))%type.
Record case := mkCase {
  c_D : db; c_B : list (Z * bacc); c_Bc : list (Z * Z); c_D' : db; c_clear : bool;
  c_stepsA : list step; c_stepsB : list step; c_rbs : list rb; c_execs : list (list Z * list Z);
  c_worldA : list wacc; c_worldB : list wacc }.

(* ---- the bundle is well-formed (boolean form of Proofs.PreloadProofs.BundleAccOK): monitor *)
Definition is_gone (s : status) : bool :=
  match s with LoadedNotExisting | Destroyed | DestroyedAgain => true | _ => false end.
Definition ds_of_b (d : option dbacc) (k : Z) : Z :=
  match d with Some d => match sget k (d_storage d) with Some v => v | None => 0 end | None => 0 end.
Definition d_keys (d : option dbacc) : list Z :=
  match d with Some d => map fst (d_storage d) | None => [] end.
Definition bundle_acc_okb (d : option dbacc) (b : bacc) : bool :=
  match b_info b with
  | None => is_gone (b_status b)
  | Some i =>
    negb (is_gone (b_status b)) && negb (i_code_hash i =? 0)
    && (if status_eqb (b_status b) Loaded then negb (info_is_empty i) else true)
    && (if status_eqb (b_status b) Changed then negb (has_no_code_and_nonce i) else true)
    && (if status_eqb (b_status b) LoadedEmptyEIP161 then info_is_empty i else true)
    && (if is_storage_known (b_status b) && negb (was_destroyed (b_status b))
        then forallb (fun k => match sget k (present_map (b_storage b)) with Some _ => true | None => ds_of_b d k =? 0 end) (d_keys d)
        else true)
    && (if has_no_code_and_nonce i
        then forallb (fun s => s_present s =? 0) (b_storage b)
             && (was_destroyed (b_status b) || forallb (fun k => ds_of_b d k =? 0) (d_keys d))
        else true)
  end.
Definition bundle_okb (D : db) (B : list (Z * bacc)) (Bc : list (Z * Z)) : bool :=
  forallb (fun ab => bundle_acc_okb (aget (fst ab) (db_accounts D)) (snd ab)) B
  && match sget KECCAK_EMPTY Bc with Some c => c =? db_code D KECCAK_EMPTY | None => true end.

(* ---- the merged database the implementation ran on is the modelled one *)
Definition dbacc_equiv (x y : option dbacc) : bool :=
  match x, y with
  | None, None => true
  | Some x, Some y =>
    info_eqb (d_info x) (d_info y)
    && forallb (fun k => ds_of_b (Some x) k =? ds_of_b (Some y) k) (map fst (d_storage x) ++ map fst (d_storage y))
  | _, _ => false
  end.
Definition merged_matches (D : db) (B : list (Z * bacc)) (Bc : list (Z * Z)) (D' : db) : bool :=
  let M := apply_bundle_db D B Bc in
  forallb (fun a => dbacc_equiv (aget a (db_accounts M)) (aget a (db_accounts D')))
          (map fst (db_accounts D) ++ map fst B ++ map fst (db_accounts D'))
  && forallb (fun h => db_code M h =? db_code D' h) (map fst (db_contracts D) ++ map fst Bc ++ map fst (db_contracts D')).

(* ---- pairwise agreement (the property's own clauses) *)
Definition rb_pair_ok (x : rb) : bool :=
  match x with
  | RbBasic _ _ s c _ => oinfo_eqb s c
  | RbVal _ s c _ => s =? c
  end.
Definition wacc_eqb (x y : wacc) : bool :=
  (fst x =? fst y) && info_eqb (fst (snd x)) (fst (snd y))
  && list_eqb (fun p q => (fst p =? fst q) && (snd p =? snd q)) (snd (snd x)) (snd (snd y)).

Definition verdict (c : case) : Z :=
  let mA := model_ok (state_with_bundle (c_D c) (c_clear c) (c_B c) (c_Bc c)) (c_stepsA c) in
  let mB := model_ok (state_new (c_D' c) (c_clear c)) (c_stepsB c) in
  let mm := merged_matches (c_D c) (c_B c) (c_Bc c) (c_D' c) in
  let agree := forallb rb_pair_ok (c_rbs c)
               && forallb (fun p => zlist_eqb (fst p) (snd p)) (c_execs c)
               && list_eqb wacc_eqb (c_worldA c) (c_worldB c) in
  if negb agree then 2
  else if negb (bundle_okb (c_D c) (c_B c) (c_Bc c)) then 2   (* a real history produced an ill-formed bundle *)
  else if mA && mB && mm then 0 else 1.

Definition failures (l : list case) := Common.failures verdict l.
