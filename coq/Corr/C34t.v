(* Correspondence for C34, second stream: whole transactions on the real Evm. A recording
   inspector logs every access made by the opcodes and the gas the step charged; the oracle is
   the accessed-set specification: initial sets from the EIP rule list (Spec/TxWarmSpec.v),
   snapshots at frame open, restore at a failing close (Spec/AccessTrace.v, proved equal to
   Spec/AccessSpec.v spec_run in Proofs/AccessTraceProofs.v). There is no model side in this
   stream: the verdict is the specification judging the implementation's charges. *)
From RevmV Require Export Corr.Common Base.Word Model.Host Spec.GateSpec Spec.AccessSpec
  Spec.TxWarmSpec Spec.AccessTrace.
Local Open Scope Z_scope.

Record case := mkCase {
  c_tx : txw;
  c_trace : list tev;
  c_panicked : bool      (* the implementation panicked while running the transaction *)
}.

Definition verdict (c : case) : Z :=
  let tx := c_tx c in
  if negb (enabled (tw_spec tx) BERLIN) then 0 else        (* no cold / warm before EIP-2929 *)
  if c_panicked c then 1 else
  if negb (balanced 0 (c_trace c)) then 1 else             (* not a trace: recorder protocol broken *)
  let '(_, ans) := trace_run (deleg_of tx) (tx_initial_sets tx, []) (c_trace c) in
  if events_ok (c_trace c) ans then 0 else 2.

Definition failures (l : list case) := Common.failures verdict l.

(* position of the first event whose charge the specification rejects (for replays) *)
Fixpoint first_bad (i : Z) (tr : list tev) (ans : list (list bool)) : Z :=
  match tr, ans with
  | e :: r, a :: ar => if event_ok e a then first_bad (i + 1) r ar else i
  | _, _ => -1
  end.
Definition first_rejected (c : case) : Z :=
  let tx := c_tx c in
  first_bad 0 (c_trace c) (snd (trace_run (deleg_of tx) (tx_initial_sets tx, []) (c_trace c))).
