(* Correspondence for C04.  A case is a byte string together with what the implementation was
   observed to do: the lengths of the analysed value, the set of probed program counters that
   JumpTable::is_valid / Contract::is_valid_jump accepted (every pc in 0 .. len+40 plus a list
   of large ones), and the outcome of real JUMP / JUMPI executions. *)
From RevmV Require Export Base.Word Model.Jump Spec.JumpSpec Corr.Common.
Local Open Scope Z_scope.

(* one executed JUMP (0x56) / JUMPI (0x57):
   res: 0 = Continue, 1 = InvalidJump, 2 = anything else (other result, panic);
   newpc = program counter afterwards when res = 0, else 0 *)
Record exec := mkExec { e_op : Z; e_pc : Z; e_target : Z; e_cond : Z; e_res : Z; e_newpc : Z }.

Record case := mkCase {
  c_code : list Z;
  c_eager : bool;             (* analysed by to_analysed before Contract::new (else lazily) *)
  c_orig_len : Z;             (* observed LegacyAnalyzedBytecode::original_len *)
  c_padded_len : Z;           (* observed bytecode().len() *)
  c_jt_len : Z;               (* observed jump_table().0.len() *)
  c_extra : list Z;           (* probed pcs beyond 0 .. len+40 *)
  c_valid_jt : list Z;        (* probed pcs accepted by JumpTable::is_valid *)
  c_valid_contract : list Z;  (* probed pcs accepted by Contract::is_valid_jump *)
  c_execs : list exec }.

Fixpoint zrange (start : Z) (n : nat) : list Z :=
  match n with O => [] | S k => start :: zrange (start + 1) k end.

Definition probes (c : case) : list Z :=
  zrange 0 (length (c_code c) + 40) ++ c_extra c.

(* ---- model ---- *)
Definition model_bc (c : case) : bytecode :=
  contract_new (if c_eager c then to_analysed (LegacyRaw (c_code c)) else LegacyRaw (c_code c)).

Definition res_code (r : jump_result) : Z * Z :=
  match r with JContinue p => (0, p) | JInvalidJump => (1, 0) end.

Definition model_exec (bc : bytecode) (e : exec) : Z * Z :=
  if e_op e =? OP_JUMP then res_code (op_jump bc (e_pc e) (e_target e))
  else res_code (op_jumpi bc (e_pc e) (e_target e) (e_cond e)).

Definition exec_eqb (bc : bytecode) (e : exec) : bool :=
  let '(r, p) := model_exec bc e in (r =? e_res e) && (p =? e_newpc e).

Definition model_ok (c : case) : bool :=
  let bc := model_bc c in
  match bc with
  | LegacyAnalyzed a =>
    (la_original_len a =? c_orig_len c) && (zlen (la_bytecode a) =? c_padded_len c) &&
    (zlen (la_jump_table a) =? c_jt_len c) &&
    zlist_eqb (filter (jt_is_valid (la_jump_table a)) (probes c)) (c_valid_jt c) &&
    zlist_eqb (filter (is_valid_jump bc) (probes c)) (c_valid_contract c) &&
    forallb (exec_eqb bc) (c_execs c)
  | _ => false
  end.

(* ---- specification oracle: Spec/JumpSpec.v only (valid_dests), no model function ---- *)
Fixpoint true_indices (i : Z) (l : list bool) : list Z :=
  match l with
  | [] => []
  | b :: r => if b then i :: true_indices (i + 1) r else true_indices (i + 1) r
  end.

Definition spec_valid (vd : list bool) (t : Z) : bool :=
  if (0 <=? t) && (t <? Z.of_nat (length vd)) then nth (Z.to_nat t) vd false else false.

Definition spec_exec_ok (vd : list bool) (e : exec) : bool :=
  let jump := if spec_valid vd (e_target e) then (e_res e =? 0) && (e_newpc e =? e_target e)
              else (e_res e =? 1) in
  if e_op e =? 0x56 then jump
  else if e_cond e =? 0 then (e_res e =? 0) && (e_newpc e =? e_pc e + 1)
  else jump.

Definition spec_ok (c : case) : bool :=
  let vd := valid_dests (c_code c) in
  let expected := true_indices 0 vd ++ filter (spec_valid vd) (c_extra c) in
  zlist_eqb expected (c_valid_jt c) && zlist_eqb expected (c_valid_contract c) &&
  forallb (spec_exec_ok vd) (c_execs c).

Definition verdict (c : case) : Z :=
  if model_ok c then (if spec_ok c then 0 else 2)
  else (if spec_ok c then 1 else 2).

Definition failures (l : list case) := Common.failures verdict l.
