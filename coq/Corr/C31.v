(* Correspondence for C31. A case = one real Evm reused for a sequence of calls and spec changes,
   next to a freshly built Evm per call over a clone of the database of the moment. Observed per
   step: both outcomes, both databases (digests computed by the harness over the canonically
   sorted contents), and the public fields of the reused instance after the call. *)
From RevmV Require Export Base.Word Model.Instance Corr.Common.
Local Open Scope Z_scope.

(* public fields of the reused instance after a step *)
Record iobs := mkIobs {
  io_state_len : Z; io_transient_len : Z; io_logs_len : Z; io_depth : Z;
  io_journal_ok : bool;        (* journal == [[]] *)
  io_err_ok : bool;            (* context.evm.error is Ok(()) *)
  io_warm : list Z;            (* warm_preloaded_addresses, sorted *)
  io_spec : Z;                 (* journaled_state.spec *)
  io_precompiles : list Z      (* context.evm.precompiles addresses, sorted *)
}.

Record sobs := mkStep {
  s_kind : Z;                  (* 0 transact, 1 transact_commit, 2 preverify_transaction, 3 transact_preverified, 4 modify_spec_id *)
  s_spec : Z;                  (* handler spec in force for the call (kind 4: the new spec) *)
  s_stage : Z;                 (* how far validation got: 0 validate_env failed, 1 initial_tx_gas failed,
                                  2 tx_against_state failed, 3 passed (for transact_preverified only 1 or 3) *)
  s_out_reused : list Z; s_out_fresh : list Z;     (* outcome: kind, gas used, refunded, digest of logs/output, digest of the returned state *)
  s_db_reused : Z; s_db_fresh : Z;                 (* database contents after the step *)
  s_inst : iobs
}.

Record case := mkCase {
  c_spec0 : Z;
  c_canon : list (Z * Z);                (* spec -> SpecId of the generic Spec type *)
  c_pcs : list (Z * list Z);             (* spec -> Precompiles::new(PrecompileSpecId::from_spec_id(spec)) addresses, sorted *)
  c_steps : list sobs
}.

(* ------------------------------------------------------------------ specification oracle *)

Definition clean_obs (o : iobs) : bool :=
  (io_state_len o =? 0) && (io_transient_len o =? 0) && (io_logs_len o =? 0) && (io_depth o =? 0)
  && io_journal_ok o && io_err_ok o && match io_warm o with [] => true | _ => false end.

(* reuse = fresh on every step, and nothing is left in the instance between transactions *)
Definition step_oracle (s : sobs) : bool :=
  zlist_eqb (s_out_reused s) (s_out_fresh s) && (s_db_reused s =? s_db_fresh s) && clean_obs (s_inst s).

(* ------------------------------------------------------------------ model, instantiated *)

Definition table_fun (t : list (Z * Z)) (x : Z) : Z :=
  match find (fun p => fst p =? x) t with Some p => snd p | None => x end.
Definition table_list (t : list (Z * list Z)) (x : Z) : list Z :=
  match find (fun p => fst p =? x) t with Some p => snd p | None => [] end.

(* the parameters of Model/Instance.v: the transaction is reduced to "where does validation stop";
   the frame leaves rubbish behind (state, transient storage, logs, depth, journal, warm set,
   sometimes an error in the slot) which the model must clean up exactly as the code does *)
Definition m_junk (js : jstate) : jstate :=
  mkJ [(1, 1)] [(1, 1, 1)] [1] 3 [[1]; [2]] (j_spec js) (j_warm js ++ [99]).
Definition m_exec (opt : bool) (s : Z) (tx : Z) (gas : Z * Z) (js : jstate) (d : unit)
           (pcs : list Z) (l1 : option Z) : exec_out unit Z Z :=
  mkOut (if Z.even s then inr 0 else inl 5) (m_junk js) tt (if Z.even (s / 2) then None else Some 7).

Definition m_call (c : case) (i : instance unit Z Z) (kind : Z) (stage : Z) :=
  call (table_fun (c_canon c)) (fun _ => true) (fun _ => true)
       (fun _ _ (tx : Z) => if tx =? 0 then Some 1 else None)              (* validate_env *)
       (fun _ (tx : Z) => if tx =? 1 then inl 2 else inr (21000, 0))       (* initial_tx_gas *)
       (fun _ => false) (fun _ d => (d, inr 0))
       (fun _ _ (tx : Z) _ d st _ => ((st ++ [(2, 2)], d), if tx =? 2 then Some 3 else None))  (* loads the caller, then checks *)
       (fun _ => 0xC0) (fun _ d js => ((js, d), None))
       (fun _ s => table_list (c_pcs c) s)
       m_exec (fun _ _ _ d out => (d, out)) (fun d _ => d)
       i (match kind with 0 => Transact | 1 => TransactCommit | 2 => Preverify | _ => TransactPreverified end)
       stage.

Definition model_obs (i : instance unit Z Z) : iobs :=
  let js := i_js i in
  mkIobs (Z.of_nat (length (j_state js))) (Z.of_nat (length (j_transient js))) (Z.of_nat (length (j_logs js)))
         (j_depth js) (match j_journal js with [[]] => true | _ => false end)
         (match i_err i with None => true | Some _ => false end)
         (j_warm js) (j_spec js) (i_precompiles i).

Definition iobs_eqb (a b : iobs) : bool :=
  (io_state_len a =? io_state_len b) && (io_transient_len a =? io_transient_len b)
  && (io_logs_len a =? io_logs_len b) && (io_depth a =? io_depth b)
  && Bool.eqb (io_journal_ok a) (io_journal_ok b) && Bool.eqb (io_err_ok a) (io_err_ok b)
  && zlist_eqb (io_warm a) (io_warm b) && (io_spec a =? io_spec b)
  && zlist_eqb (io_precompiles a) (io_precompiles b).

Fixpoint model_steps (c : case) (i : instance unit Z Z) (l : list sobs) : bool :=
  match l with
  | [] => true
  | s :: t =>
    if s_kind s =? 4 then
      let i' := modify_spec_id i (s_spec s) in
      iobs_eqb (model_obs i') (s_inst s) && model_steps c i' t
    else
      let '(_, i') := m_call c i (s_kind s) (s_stage s) in
      iobs_eqb (model_obs i') (s_inst s) && model_steps c i' t
  end.

Definition verdict (c : case) : Z :=
  if forallb (fun s => (s_kind s =? 4) || step_oracle s) (c_steps c)
  then (if model_steps c (fresh (c_spec0 c) false tt) (c_steps c) then 0 else 1)
  else 2.

Definition failures (l : list case) := Common.failures verdict l.
