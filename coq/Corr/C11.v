(* Correspondence for C11: histories of SharedMemory operations (incl. nested contexts), the
   real interpreter::resize_memory with a real Gas, and the return-data window through the
   real Interpreter::insert_call_outcome. *)
From RevmV Require Export Base.Word Model.Memory Model.MemoryOps Spec.MemorySpec Corr.Common.
Local Open Scope Z_scope.

Inductive cop :=
| KOp (o : mem_op)
| KResizeMem (gas new_size : Z).

(* observation: (flag, context length, digest, gas) — flag 0 ok, 1 panicked, 2 resize_memory
   returned false; gas = remaining gas after KResizeMem, else 0 *)
Definition obs := (Z * Z * Z * Z)%type.
Definition obs_eqb (a b : obs) : bool :=
  let '(a1, a2, a3, a4) := a in let '(b1, b2, b3, b4) := b in
  (a1 =? b1) && (a2 =? b2) && (a3 =? b3) && (a4 =? b4).

Definition M64 : Z := pow64 - 1.
Definition dig (bs : list Z) (acc : Z) : Z :=
  fold_left (fun acc b => Z.land (1000003 * acc + b + 1) M64) bs acc.
(* primary offset of an operation (window probed when the memory is large) *)
Definition focus (c : cop) : Z :=
  match c with
  | KOp (MSet off _) | KOp (MSetByte off _) | KOp (MSetWord off _) | KOp (MSetU256 off _) => off
  | KOp (MSetData moff _ _ _) => moff
  | KOp (MCopy dst _ _) => dst
  | KOp (MOutcome off _ _) => off
  | _ => 0
  end.
Definition FULL : Z := 2048.
Definition window (f : list Z) (p : Z) : list Z :=
  let p := Z.max 0 (Z.min p (zlen f - 64)) in zfirstn 64 (zskipn p f).
(* digest of a context memory [f]: everything when short, else three 64-byte windows *)
Definition mem_digest (f : list Z) (p : Z) : Z :=
  if zlen f <=? FULL then dig f 7
  else dig (window f p) (dig (window f (zlen f - 64)) (dig (window f 0) 7)).

(* --- model side *)
Definition m_step (m : smem) (c : cop) : smem * Z * Z :=
  match c with
  | KOp o => let '(m', p) := mem_step m o in (m', if p then 1 else 0, 0)
  | KResizeMem gas n =>
    match resize_memory m gas n with
    | None => (m, 1, 0)
    | Some (m', g', true) => (m', 0, g')
    | Some (m', g', false) => (m', 2, g')
    end
  end.
Fixpoint m_trace (m : smem) (h : list cop) : list obs :=
  match h with
  | [] => []
  | c :: h' =>
    let '(m', flag, g) := m_step m c in
    (flag, mlen m', mem_digest (ctx m') (focus c), g) :: (if flag =? 1 then [] else m_trace m' h')
  end.

(* --- specification side: every frame owns a separate, zero-initialised byte list (top
   first); nothing below the top frame is reachable, so "a child starts empty" and "the
   parent is unchanged after the child returns" hold by construction *)
Definition aframes := list (list Z).
Definition a_splice (f : list Z) (off : Z) (v : list Z) : option (list Z) :=
  if (0 <=? off) && (off + zlen v <=? zlen f)
  then Some (zfirstn off f ++ v ++ zskipn (off + zlen v) f) else None.
Definition a_top (fs : aframes) : list Z := match fs with f :: _ => f | [] => [] end.
Definition a_set_top (fs : aframes) (f : list Z) : aframes := match fs with _ :: r => f :: r | [] => [f] end.
Definition pad_to (v : list Z) (n : Z) : list Z := v ++ zeros (n - zlen v).

(* None = outside the contract (the implementation panics): nothing is claimed *)
Definition a_step (fs : aframes) (c : cop) : option (aframes * Z * Z) :=
  let f := a_top fs in
  let splice off v :=
      match v with
      | [] => Some (fs, 0, 0)
      | _ => match a_splice f off v with Some f' => Some (a_set_top fs f', 0, 0) | None => None end
      end in
  match c with
  | KOp MNew => Some ([] :: fs, 0, 0)
  | KOp MFree => Some (match fs with _ :: (_ :: _) as r => r | _ => fs end, 0, 0)
  | KOp (MResize n) => if n <? 0 then None else Some (a_set_top fs (zfirstn n f ++ zeros (n - zlen f)), 0, 0)
  | KOp (MSet off v) => splice off v
  | KOp (MSetByte off b) => splice off [b]
  | KOp (MSetWord off w) => splice off w
  | KOp (MSetU256 off v) =>
      splice off (map (fun i => (v / 256 ^ (31 - Z.of_nat i)) mod 256) (seq 0 32))
  | KOp (MSetData moff doff len data) =>
      if (len <? 0) || (doff <? 0) then None
      else match a_splice f moff (pad_to (zfirstn len (zskipn doff data)) len) with
           | Some f' => Some (a_set_top fs f', 0, 0) | None => None end
  | KOp (MCopy dst src len) =>
      if (0 <=? src) && (0 <=? len) && (src + len <=? zlen f) then
        match a_splice f dst (zfirstn len (zskipn src f)) with
        | Some f' => Some (a_set_top fs f', 0, 0) | None => None end
      else None
  | KOp (MOutcome off len ret) => splice off (zfirstn (Z.min len (zlen ret)) ret)
  | KResizeMem gas n =>
      if (n <=? zlen f) || (pow64 <=? n + 31) then None
      else
        let w := words_spec n in
        let cost := mem_spec w - mem_spec (words_spec (zlen f)) in
        if pow64 <=? mem_spec w then None   (* beyond the range of the formula claim *)
        else if cost <=? gas then Some (a_set_top fs (f ++ zeros (w * 32 - zlen f)), 0, gas - cost)
        else Some (fs, 2, gas)
  end.

Fixpoint a_check (fs : aframes) (h : list cop) (t : list obs) : bool :=
  match h, t with
  | [], [] => true
  | c :: h', o :: t' =>
    match a_step fs c with
    | None => true
    | Some (fs', flag, g) =>
      obs_eqb (flag, zlen (a_top fs'), mem_digest (a_top fs') (focus c), g) o && a_check fs' h' t'
    end
  | _, _ => false
  end.

(* ================================================================ second stream (driver c11p)
   Real programs on a real Evm: every instruction that touches memory is observed through an
   Inspector (step / step_end), nested frames through call / initialize_interp / call_end.
   The events of one transaction, in execution order:
     TOp probe gas_before op obs   one instruction of the current frame;
          obs = [len before; digest before (-1 unless probe); gas after; instruction_result;
                 len after; digest after (-1 for MSIZE); value pushed (MLOAD, MSIZE); digest of
                 the LOG data]
     TEnter code obs               the CALL in flight got an interpreter frame running [code];
                                   obs = [digest of its input; length of its input]
     TDirect class out obs         the CALL in flight was answered without a frame (precompile,
                                   account without code): observed result and output; obs = [0]
     TExit endflag obs             the current frame ended; endflag 1 = it halted on an
                                   instruction that is not observed (out of gas on a PUSH);
                                   obs = [instruction_result; digest of the output; its length; 0] *)
Inductive tev :=
| TOp (probe : bool) (gas_before : Z) (o : pop) (obs : list Z)
| TEnter (code : list Z) (obs : list Z)
| TDirect (class : Z) (out : list Z) (obs : list Z)
| TExit (endflag : Z) (obs : list Z).
Definition ev_obs (e : tev) : list Z :=
  match e with TOp _ _ _ o | TEnter _ o | TDirect _ _ o | TExit _ o => o end.

Definition pfocus (o : pop) : Z :=
  match o with
  | PMload off | PMstore off _ | PMstore8 off _ | PKeccak off _ | PLog _ off _ | PReturn off _ | PRevert off _ => off
  | PMcopy d _ _ => d
  | PCalldatacopy m _ _ | PCodecopy m _ _ | PReturndatacopy m _ _ => m
  | PCall _ _ _ oo _ => oo
  | PMsize | PStop => 0
  end.
Definition is_msize (o : pop) : bool := match o with PMsize => true | _ => false end.
Definition is_log (o : pop) : bool := match o with PLog _ _ _ => true | _ => false end.
Definition call_window (o : pop) : Z * Z := match o with PCall _ _ _ oo ol => (oo, ol) | _ => (0, 0) end.

(* --- model side: SharedMemory with checkpoints, one [fenv] per live frame *)
Record pframe := mkPF { pf_env : fenv; pf_win : Z * Z }.
Record pstate := mkPS { ps_mem : smem; ps_frames : list pframe;
                        ps_pend : option (list Z);          (* input of the CALL in flight *)
                        ps_fin : option (Z * list Z) }.     (* result of the finished top frame *)
Definition set_retbuf (f : pframe) (r : list Z) : pframe :=
  mkPF (mkEnv (e_input (pf_env f)) (e_code (pf_env f)) r) (pf_win f).

Definition m_event (s : pstate) (ev : tev) : option (pstate * list Z) :=
  match ev with
  | TOp probe gb o _ =>
    match ps_frames s, ps_pend s, ps_fin s with
    | f :: rest, None, None =>
      let m := ps_mem s in
      let r := exec (pf_env f) m gb o in
      let m' := o_mem r in
      let pred := [mlen m; (if probe then mem_digest (ctx m) (pfocus o) else -1); o_gas r; o_res r; mlen m';
                   (if is_msize o then -1 else mem_digest (ctx m') (pfocus o)); o_val r;
                   (if is_log o && (o_res r =? 0) then dig (o_data r) 7 else 0)] in
      let s' := if o_res r =? R_Continue then mkPS m' (f :: rest) None None
                else if o_res r =? R_CallOrCreate then mkPS m' (mkPF (pf_env f) (call_window o) :: rest) (Some (o_data r)) None
                else mkPS m' (f :: rest) None (Some (o_res r, o_data r)) in
      Some (s', pred)
    | _, _, _ => None
    end
  | TEnter code _ =>
    match ps_pend s with
    | Some input => Some (mkPS (child_enter (ps_mem s)) (mkPF (mkEnv input code []) (0, 0) :: ps_frames s) None None,
                          [dig input 7; zlen input])
    | None => None
    end
  | TDirect class out _ =>
    match ps_pend s, ps_frames s with
    | Some _, f :: rest =>
      let '(m', p) := call_outcome_mem (ps_mem s) (fst (pf_win f)) (snd (pf_win f)) class out in
      Some (mkPS m' (set_retbuf f out :: rest) None None, [if p then 1 else 0])
    | _, _ => None
    end
  | TExit endflag obs =>
    match ps_frames s, ps_pend s with
    | _ :: rest, None =>
      let fin := if endflag =? 1
                 then (match ps_fin s with
                       | None => let c := nth 0 obs 0 in if is_ok c || is_revert c then None else Some (c, [])
                       | Some _ => None end)
                 else ps_fin s in
      match fin with
      | None => None
      | Some (c, out) =>
        match rest with
        | [] => Some (mkPS (free_context (ps_mem s)) [] None None, [c; dig out 7; zlen out; 0])
        | p :: rest' =>
          let '(m', pn) := child_exit (ps_mem s) (fst (pf_win p)) (snd (pf_win p)) c out in
          Some (mkPS m' (set_retbuf p out :: rest') None None, [c; dig out 7; zlen out; if pn then 1 else 0])
        end
      end
    | _, _ => None
    end
  end.

(* index of the first event the model does not reproduce; -1 = all reproduced *)
Fixpoint m_run (s : pstate) (evs : list tev) (i : Z) : Z :=
  match evs with
  | [] => -1
  | ev :: r =>
    match m_event s ev with
    | None => i
    | Some (s', pred) => if zlist_eqb pred (ev_obs ev) then m_run s' r (i + 1) else i
    end
  end.
(* run_the_loop: SharedMemory::new(); new_context() for the first frame *)
Definition m_init (calldata code : list Z) : pstate :=
  mkPS (new_context mem_new) [mkPF (mkEnv calldata code []) (0, 0)] None None.

(* --- specification side (the property's clauses, unbounded integers, no shared buffer):
   every frame owns its byte list; an instruction that touches [off, off+len) with len > 0
   makes the memory max(old, 32 * ceil((off+len)/32)) bytes long by appending zeros and pays
   static + C_mem(new words) - C_mem(old words); it succeeds iff that is at most the gas it has
   (and, for RETURNDATACOPY, the source range lies inside the return data); a failing instruction
   ends the frame and may at most have grown the memory by zeros it paid for.  A child frame starts empty; its result touches the parent only
   in [out_off, out_off + min(out_len, |ret|)). *)
Record aframe := mkAF { af_mem : list Z; af_input : list Z; af_code : list Z; af_ret : list Z;
                        af_win : Z * Z; af_pend : option (list Z); af_fin : option (Z * list Z) }.
Definition a_sub (f : list Z) (off len : Z) : list Z := zfirstn len (zskipn (Z.min off (zlen f)) f).
Definition a_be32 (v : Z) : list Z := map (fun i => (v / 256 ^ (31 - Z.of_nat i)) mod 256) (seq 0 32).
Definition a_word (bs : list Z) : Z := fold_left (fun a b => 256 * a + b) bs 0.
Definition a_ranges (o : pop) : list (Z * Z) :=
  match o with
  | PMload off | PMstore off _ => [(off, 32)]
  | PMstore8 off _ => [(off, 1)]
  | PMsize | PStop => []
  | PMcopy d s l => [(d, l); (s, l)]
  | PCalldatacopy m _ l | PCodecopy m _ l | PReturndatacopy m _ l => [(m, l)]
  | PKeccak off l | PLog _ off l | PReturn off l | PRevert off l => [(off, l)]
  | PCall _ io il oo ol => [(io, il); (oo, ol)]
  end.
Definition a_need (o : pop) : Z :=
  fold_left (fun a r => if snd r =? 0 then a else Z.max a (fst r + snd r)) (a_ranges o) 0.
(* static gas of the instruction (Yellow Paper appendix G / EIP-5656 / EIP-2929 warm access) *)
Definition a_static (o : pop) : Z :=
  match o with
  | PMload _ | PMstore _ _ | PMstore8 _ _ => 3
  | PMsize => 2
  | PMcopy _ _ l | PCalldatacopy _ _ l | PCodecopy _ _ l | PReturndatacopy _ _ l => 3 + 3 * words_spec l
  | PKeccak _ l => 30 + 6 * words_spec l
  | PLog n _ l => 375 + 375 * n + 8 * l
  | PReturn _ _ | PRevert _ _ | PStop => 0
  | PCall _ _ _ _ _ => 100
  end.
(* the source range of RETURNDATACOPY must lie inside the return data (EIP-211) *)
Definition a_src_ok (fr : aframe) (o : pop) : bool :=
  match o with PReturndatacopy _ d l => d + l <=? zlen (af_ret fr) | _ => true end.
(* contents after the instruction, [f] already grown *)
Definition a_apply (fr : aframe) (f : list Z) (o : pop) : option (list Z) :=
  let copy_in m d l data := if l =? 0 then Some f else a_splice f m (pad_to (a_sub data d l) l) in
  match o with
  | PMstore off v => a_splice f off (a_be32 v)
  | PMstore8 off v => a_splice f off [v mod 256]
  | PMcopy d s l => if l =? 0 then Some f else a_splice f d (a_sub f s l)
  | PCalldatacopy m d l => copy_in m d l (af_input fr)
  | PCodecopy m d l => copy_in m d l (af_code fr)
  | PReturndatacopy m d l => copy_in m d l (af_ret fr)
  | _ => Some f
  end.
Definition a_window (f : list Z) (win : Z * Z) (class : Z) (ret : list Z) : option (list Z) :=
  let v := zfirstn (Z.min (snd win) (zlen ret)) ret in
  if ((0 <=? class) && (class <=? 4)) || ((16 <=? class) && (class <=? 21))
  then match v with [] => Some f | _ => a_splice f (fst win) v end
  else Some f.
Definition a_set_ret (p : aframe) (f : list Z) (ret : list Z) : aframe :=
  mkAF f (af_input p) (af_code p) ret (0, 0) None None.

Definition a_event (fs : list aframe) (ev : tev) : option (list aframe) :=
  match ev with
  | TOp probe gb o [lb; db; ga; res; la; da; val; aux] =>
    match fs with
    | fr :: rest =>
      match af_pend fr, af_fin fr with
      | None, None =>
        let f := af_mem fr in
        let need := a_need o in
        let new_len := Z.max lb (32 * words_spec need) in
        let cost := a_static o + mem_spec (new_len / 32) - mem_spec (lb / 32) in
        let afford := (cost <=? gb) && a_src_ok fr o in
        let dg x := mem_digest x (pfocus o) in
        (* size and contents seen before the instruction are the frame's own *)
        if negb ((lb =? zlen f) && (if db =? -1 then negb probe else db =? dg f) && (la mod 32 =? 0) && (lb <=? la) && (0 <=? ga) && (ga <=? gb))
        then None
        else if (res =? 0) || (res =? 1) || (res =? 2) || (res =? 16) || (res =? 32) then
          (* succeeded: must have been affordable; exact size, exact charge, contents *)
          if negb afford then None else
          match a_apply fr (f ++ zeros (new_len - zlen f)) o with
          | None => None
          | Some f' =>
            let fwd := match o with PCall garg _ _ _ _ => let r := gb - cost in Z.min garg (r - r / 64) | _ => 0 end in
            let okc := (la =? new_len) && (gb - ga =? cost + fwd) && (if is_msize o then da =? -1 else da =? dg f') in
            let okv := match o with
                       | PMload off => (val =? a_word (a_sub f' off 32)) && (res =? 0)
                       | PMsize => (val =? la) && (res =? 0)
                       | PLog _ off l => (aux =? dig (a_sub f' off l) 7) && (res =? 0)
                       | PReturn _ _ => res =? 2 | PRevert _ _ => res =? 16 | PStop => res =? 1
                       | PCall _ _ _ _ _ => res =? 32
                       | _ => res =? 0
                       end in
            if negb (okc && okv) then None else
            match o with
            | PReturn off l | PRevert off l =>
                Some (mkAF f' (af_input fr) (af_code fr) (af_ret fr) (0, 0) None (Some (res, a_sub f' off l)) :: rest)
            | PStop => Some (mkAF f' (af_input fr) (af_code fr) (af_ret fr) (0, 0) None (Some (res, [])) :: rest)
            | PCall _ io il oo ol =>
                Some (mkAF f' (af_input fr) (af_code fr) (af_ret fr) (oo, ol) (Some (a_sub f' io il)) None :: rest)
            | _ => Some (mkAF f' (af_input fr) (af_code fr) (af_ret fr) (0, 0) None None :: rest)
            end
          end
        else
          (* failed: only allowed when it could not be afforded; the frame is dead, but even so its
             memory may only have grown by zeros, within what the instruction asked for, and paid for
             (CALL grows for its input range before it fails on the output range or the access cost) *)
          if afford then None
          else if negb ((la <=? new_len) && (mem_spec (la / 32) - mem_spec (lb / 32) <=? gb - ga)) then None
          else if negb (if is_msize o then da =? -1 else da =? dg (f ++ zeros (la - lb))) then None
          else Some (mkAF (f ++ zeros (la - lb)) (af_input fr) (af_code fr) (af_ret fr) (0, 0) None (Some (res, [])) :: rest)
      | _, _ => None
      end
    | [] => None
    end
  | TOp _ _ _ _ => None
  | TEnter code [di; li] =>
    match fs with
    | fr :: rest =>
      match af_pend fr with
      | Some input =>
        if (di =? dig input 7) && (li =? zlen input)
        then Some (mkAF [] input code [] (0, 0) None None :: fr :: rest)   (* the child starts empty *)
        else None
      | None => None
      end
    | [] => None
    end
  | TEnter _ _ => None
  | TDirect class out _ =>
    match fs with
    | fr :: rest =>
      match af_pend fr, a_window (af_mem fr) (af_win fr) class out with
      | Some _, Some f' => Some (a_set_ret fr f' out :: rest)
      | _, _ => None
      end
    | [] => None
    end
  | TExit endflag [class; dout; lout; _] =>
    match fs with
    | fr :: rest =>
      let fin := if endflag =? 1
                 then (if ((0 <=? class) && (class <=? 4)) || ((16 <=? class) && (class <=? 21)) then None else Some (class, []))
                 else af_fin fr in
      match fin, af_pend fr with
      | Some (c, out), None =>
        if negb ((c =? class) && (dout =? dig out 7) && (lout =? zlen out)) then None else
        match rest with
        | [] => Some []
        | p :: rest' =>
          match a_window (af_mem p) (af_win p) c out with
          | Some f' => Some (a_set_ret p f' out :: rest')
          | None => None
          end
        end
      | _, _ => None
      end
    | [] => None
    end
  | TExit _ _ => None
  end.
Fixpoint a_run (fs : list aframe) (evs : list tev) : bool :=
  match evs with
  | [] => true
  | ev :: r => match a_event fs ev with Some fs' => a_run fs' r | None => false end
  end.

Inductive case :=
| mkCase (c_ops : list cop) (c_obs : list obs)
| PCase (calldata code : list Z) (evs : list tev).

Definition verdict (c : case) : Z :=
  match c with
  | mkCase ops obs =>
    let model_ok := list_eqb obs_eqb (m_trace mem_new ops) obs in
    let spec_ok := a_check [[]] ops obs in
    if model_ok then (if spec_ok then 0 else 2) else (if spec_ok then 1 else 2)
  | PCase calldata code evs =>
    let model_ok := m_run (m_init calldata code) evs 0 =? -1 in
    let spec_ok := a_run [mkAF [] calldata code [] (0, 0) None None] evs in
    if model_ok then (if spec_ok then 0 else 2) else (if spec_ok then 1 else 2)
  end.

Definition failures (l : list case) := Common.failures verdict l.
