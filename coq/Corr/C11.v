(* Correspondence for C11: histories of SharedMemory operations (incl. nested contexts), the
   real interpreter::resize_memory with a real Gas, and the return-data window through the
   real Interpreter::insert_call_outcome. *)
From RevmV Require Export Base.Word Model.Memory Spec.MemorySpec Corr.Common.
Local Open Scope Z_scope.

Inductive cop :=
| KOp (o : mem_op)
| KResizeMem (gas new_size : Z).

(* observation: (flag, context length, digest, gas) — flag 0 ok, 1 panicked, 2 resize_memory
   returned false; gas = remaining gas after KResizeMem, else 0 *)
Definition obs := (Z * Z * Z * Z)%type.
Definition obs_eqb (a b : obs) : bool :=
  let '(a1, a2, a3, a4) := a in let '(b1, b2, b3, b4) := b in
  (a1 =? b1) && (a2 =? b2) && (a3 =? b3) && (a4 =? b4).

Definition M64 : Z := pow64 - 1.
Definition dig (bs : list Z) (acc : Z) : Z :=
  fold_left (fun acc b => Z.land (1000003 * acc + b + 1) M64) bs acc.
(* primary offset of an operation (window probed when the memory is large) *)
Definition focus (c : cop) : Z :=
  match c with
  | KOp (MSet off _) | KOp (MSetByte off _) | KOp (MSetWord off _) | KOp (MSetU256 off _) => off
  | KOp (MSetData moff _ _ _) => moff
  | KOp (MCopy dst _ _) => dst
  | KOp (MOutcome off _ _) => off
  | _ => 0
  end.
Definition FULL : Z := 2048.
Definition window (f : list Z) (p : Z) : list Z :=
  let p := Z.max 0 (Z.min p (zlen f - 64)) in zfirstn 64 (zskipn p f).
(* digest of a context memory [f]: everything when short, else three 64-byte windows *)
Definition mem_digest (f : list Z) (p : Z) : Z :=
  if zlen f <=? FULL then dig f 7
  else dig (window f p) (dig (window f (zlen f - 64)) (dig (window f 0) 7)).

(* --- model side *)
Definition m_step (m : smem) (c : cop) : smem * Z * Z :=
  match c with
  | KOp o => let '(m', p) := mem_step m o in (m', if p then 1 else 0, 0)
  | KResizeMem gas n =>
    match resize_memory m gas n with
    | None => (m, 1, 0)
    | Some (m', g', true) => (m', 0, g')
    | Some (m', g', false) => (m', 2, g')
    end
  end.
Fixpoint m_trace (m : smem) (h : list cop) : list obs :=
  match h with
  | [] => []
  | c :: h' =>
    let '(m', flag, g) := m_step m c in
    (flag, mlen m', mem_digest (ctx m') (focus c), g) :: (if flag =? 1 then [] else m_trace m' h')
  end.

(* --- specification side: every frame owns a separate, zero-initialised byte list (top
   first); nothing below the top frame is reachable, so "a child starts empty" and "the
   parent is unchanged after the child returns" hold by construction *)
Definition aframes := list (list Z).
Definition a_splice (f : list Z) (off : Z) (v : list Z) : option (list Z) :=
  if (0 <=? off) && (off + zlen v <=? zlen f)
  then Some (zfirstn off f ++ v ++ zskipn (off + zlen v) f) else None.
Definition a_top (fs : aframes) : list Z := match fs with f :: _ => f | [] => [] end.
Definition a_set_top (fs : aframes) (f : list Z) : aframes := match fs with _ :: r => f :: r | [] => [f] end.
Definition pad_to (v : list Z) (n : Z) : list Z := v ++ zeros (n - zlen v).

(* None = outside the contract (the implementation panics): nothing is claimed *)
Definition a_step (fs : aframes) (c : cop) : option (aframes * Z * Z) :=
  let f := a_top fs in
  let splice off v :=
      match v with
      | [] => Some (fs, 0, 0)
      | _ => match a_splice f off v with Some f' => Some (a_set_top fs f', 0, 0) | None => None end
      end in
  match c with
  | KOp MNew => Some ([] :: fs, 0, 0)
  | KOp MFree => Some (match fs with _ :: (_ :: _) as r => r | _ => fs end, 0, 0)
  | KOp (MResize n) => if n <? 0 then None else Some (a_set_top fs (zfirstn n f ++ zeros (n - zlen f)), 0, 0)
  | KOp (MSet off v) => splice off v
  | KOp (MSetByte off b) => splice off [b]
  | KOp (MSetWord off w) => splice off w
  | KOp (MSetU256 off v) =>
      splice off (map (fun i => (v / 256 ^ (31 - Z.of_nat i)) mod 256) (seq 0 32))
  | KOp (MSetData moff doff len data) =>
      if (len <? 0) || (doff <? 0) then None
      else match a_splice f moff (pad_to (zfirstn len (zskipn doff data)) len) with
           | Some f' => Some (a_set_top fs f', 0, 0) | None => None end
  | KOp (MCopy dst src len) =>
      if (0 <=? src) && (0 <=? len) && (src + len <=? zlen f) then
        match a_splice f dst (zfirstn len (zskipn src f)) with
        | Some f' => Some (a_set_top fs f', 0, 0) | None => None end
      else None
  | KOp (MOutcome off len ret) => splice off (zfirstn (Z.min len (zlen ret)) ret)
  | KResizeMem gas n =>
      if (n <=? zlen f) || (pow64 <=? n + 31) then None
      else
        let w := words_spec n in
        let cost := mem_spec w - mem_spec (words_spec (zlen f)) in
        if pow64 <=? mem_spec w then None   (* beyond the range of the formula claim *)
        else if cost <=? gas then Some (a_set_top fs (f ++ zeros (w * 32 - zlen f)), 0, gas - cost)
        else Some (fs, 2, gas)
  end.

Fixpoint a_check (fs : aframes) (h : list cop) (t : list obs) : bool :=
  match h, t with
  | [], [] => true
  | c :: h', o :: t' =>
    match a_step fs c with
    | None => true
    | Some (fs', flag, g) =>
      obs_eqb (flag, zlen (a_top fs'), mem_digest (a_top fs') (focus c), g) o && a_check fs' h' t'
    end
  | _, _ => false
  end.

Record case := mkCase { c_ops : list cop; c_obs : list obs }.

Definition verdict (c : case) : Z :=
  let model_ok := list_eqb obs_eqb (m_trace mem_new (c_ops c)) (c_obs c) in
  let spec_ok := a_check [[]] (c_ops c) (c_obs c) in
  if model_ok then (if spec_ok then 0 else 2) else (if spec_ok then 1 else 2).

Definition failures (l : list case) := Common.failures verdict l.
