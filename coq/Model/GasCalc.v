(* Model of crates/interpreter/src/gas/calc.rs (+ num_words of interpreter/shared_memory.rs),
   function by function, same order of tests.  u64 `checked_*` = [checked64] (option),
   `saturating_*` = [sat64]; plain `+`, `*`, `+=` on u64/usize that are not guarded in Rust are
   overflow points (panic in debug builds, wrap in release builds): the `*_chk` functions return
   [None] exactly there and the `*_wrap` functions give the release behaviour.
   Constants come from Gen.GasConst (reflected from the compiled code), fork tests go through
   Gen.Specs.is_enabled_in (the executed SpecId::enabled matrix). *)
From RevmV Require Import Base.Word.
From RevmV Require Gen.GasConst.
From RevmV Require Import Gen.Specs.
Local Open Scope Z_scope.

Module G := GasConst.
Definition enabled (s o : spec) : bool := Specs.is_enabled_in s o.

(* ---- SStoreResult and its predicates (interpreter/src/host.rs) ---- *)
Record sstore_result := mkSStore { original_value : Z; present_value : Z; new_value : Z }.
Definition is_new_eq_present (v : sstore_result) := new_value v =? present_value v.
Definition is_original_eq_present (v : sstore_result) := original_value v =? present_value v.
Definition is_original_eq_new (v : sstore_result) := original_value v =? new_value v.
Definition is_original_zero (v : sstore_result) := original_value v =? 0.
Definition is_present_zero (v : sstore_result) := present_value v =? 0.
Definition is_new_zero (v : sstore_result) := new_value v =? 0.

(* pub const fn num_words(len: u64) -> u64 { len.saturating_add(31) / 32 } *)
Definition num_words (len : Z) : Z := sat64 (len + 31) / 32.

(* pub const fn cost_per_word(len, multiple) -> Option<u64> { multiple.checked_mul(num_words(len)) } *)
Definition cost_per_word (len multiple : Z) : option Z := checked64 (multiple * num_words len).

(* a.checked_add(b) on u64 *)
Definition checked_add64 (a b : Z) : option Z := checked64 (a + b).
Definition obind {A B} (o : option A) (f : A -> option B) : option B :=
  match o with Some x => f x | None => None end.

Definition warm_cold_cost (is_cold : bool) : Z :=
  if is_cold then G.COLD_ACCOUNT_ACCESS_COST else G.WARM_STORAGE_READ_COST.

(* Eip7702CodeLoad<()>: state_load.is_cold and is_delegate_account_cold : Option<bool> *)
Definition warm_cold_cost_with_delegation (is_cold : bool) (delegate_cold : option bool) : Z :=
  let gas := warm_cold_cost is_cold in
  match delegate_cold with
  | Some c => gas + warm_cold_cost c
  | None => gas
  end.

Definition sload_cost (s : spec) (is_cold : bool) : Z :=
  if enabled s BERLIN then (if is_cold then G.COLD_SLOAD_COST else G.WARM_STORAGE_READ_COST)
  else if enabled s ISTANBUL then G.INSTANBUL_SLOAD_GAS
  else if enabled s TANGERINE then 200
  else 50.

(* SSTORE refund (i64) *)
Definition sstore_refund (s : spec) (v : sstore_result) : Z :=
  if enabled s ISTANBUL then
    let sstore_clears_schedule :=
      if enabled s LONDON then G.SSTORE_RESET - G.COLD_SLOAD_COST + G.ACCESS_LIST_STORAGE_KEY
      else G.REFUND_SSTORE_CLEARS in
    if is_new_eq_present v then 0
    else if is_original_eq_present v && is_new_zero v then sstore_clears_schedule
    else
      let refund0 := 0 in
      let refund1 :=
        if negb (is_original_zero v) then
          if is_present_zero v then refund0 - sstore_clears_schedule
          else if is_new_zero v then refund0 + sstore_clears_schedule
          else refund0
        else refund0 in
      if is_original_eq_new v then
        let '(gas_sstore_reset, gas_sload) :=
          if enabled s BERLIN then (G.SSTORE_RESET - G.COLD_SLOAD_COST, G.WARM_STORAGE_READ_COST)
          else (G.SSTORE_RESET, sload_cost s false) in
        if is_original_zero v then refund1 + (G.SSTORE_SET - gas_sload)
        else refund1 + (gas_sstore_reset - gas_sload)
      else refund1
  else
    if negb (is_present_zero v) && is_new_zero v then G.REFUND_SSTORE_CLEARS else 0.

Definition istanbul_sstore_cost (sload_gas sstore_reset_gas : Z) (v : sstore_result) : Z :=
  if is_new_eq_present v then sload_gas
  else if is_original_eq_present v && is_original_zero v then G.SSTORE_SET
  else if is_original_eq_present v then sstore_reset_gas
  else sload_gas.

Definition frontier_sstore_cost (v : sstore_result) : Z :=
  if is_present_zero v && negb (is_new_zero v) then G.SSTORE_SET else G.SSTORE_RESET.

Definition sstore_cost (s : spec) (v : sstore_result) (gas : Z) (is_cold : bool) : option Z :=
  if enabled s ISTANBUL && (gas <=? G.CALL_STIPEND) then None
  else if enabled s BERLIN then
    let gas_cost := istanbul_sstore_cost G.WARM_STORAGE_READ_COST G.WARM_SSTORE_RESET v in
    Some (if is_cold then gas_cost + G.COLD_SLOAD_COST else gas_cost)
  else if enabled s ISTANBUL then
    Some (istanbul_sstore_cost G.INSTANBUL_SLOAD_GAS G.SSTORE_RESET v)
  else Some (frontier_sstore_cost v).

(* CREATE.checked_add(tri!(cost_per_word(len, KECCAK256WORD))) *)
Definition create2_cost (len : Z) : option Z :=
  obind (cost_per_word len G.KECCAK256WORD) (fun w => checked_add64 G.CREATE w).

(* log2floor over the four 64-bit limbs, most significant first *)
Definition limb (v : Z) (i : Z) : Z := (v / 2 ^ (64 * i)) mod pow64.
(* u64::leading_zeros for a non-zero limb *)
Definition leading_zeros64 (x : Z) : Z := 63 - Z.log2 x.
Fixpoint log2floor_loop (k : nat) (v l : Z) : Z :=
  match k with
  | O => l
  | S k' =>
    let i := Z.of_nat k' in
    if limb v i =? 0 then log2floor_loop k' v (l - 64)
    else let l' := l - leading_zeros64 (limb v i) in
         if l' =? 0 then l' else l' - 1
  end.
Definition log2floor (v : Z) : Z := log2floor_loop 4 v 256.

Definition checked256 (x : Z) : option Z := if is_u256 x then Some x else None.
Definition exp_cost (s : spec) (power : Z) : option Z :=
  if power =? 0 then Some G.EXP
  else
    let gas_byte := if enabled s SPURIOUS_DRAGON then 50 else 10 in
    obind (checked256 (gas_byte * (log2floor power / 8 + 1))) (fun m =>
    obind (checked256 (G.EXP + m)) (fun gas => checked64 gas)).

Definition verylowcopy_cost (len : Z) : option Z :=
  obind (cost_per_word len G.COPY) (fun w => checked_add64 G.VERYLOW w).

Definition extcodecopy_cost (s : spec) (len : Z) (is_cold : bool) : option Z :=
  let base_gas := if enabled s BERLIN then warm_cold_cost is_cold
                  else if enabled s TANGERINE then 700 else 20 in
  obind (cost_per_word len G.COPY) (fun w => checked_add64 base_gas w).

(* tri!(LOG.checked_add(tri!(LOGDATA.checked_mul(len)))).checked_add(LOGTOPIC * n as u64) *)
Definition log_cost (n len : Z) : option Z :=
  obind (checked64 (G.LOGDATA * len)) (fun d =>
  obind (checked_add64 G.LOG d) (fun x => checked_add64 x (G.LOGTOPIC * n))).

Definition keccak256_cost (len : Z) : option Z :=
  obind (cost_per_word len G.KECCAK256WORD) (fun w => checked_add64 G.KECCAK256 w).

(* None = panic!("initcode cost overflow") *)
Definition initcode_cost (len : Z) : option Z := cost_per_word len G.INITCODE_WORD_COST.

(* SelfDestructResult { had_value, target_exists, .. } inside StateLoad { is_cold } *)
Definition selfdestruct_cost (s : spec) (had_value target_exists is_cold : bool) : Z :=
  let should_charge_topup :=
    if enabled s SPURIOUS_DRAGON then had_value && negb target_exists else negb target_exists in
  let selfdestruct_gas_topup := if enabled s TANGERINE && should_charge_topup then 25000 else 0 in
  let selfdestruct_gas := if enabled s TANGERINE then 5000 else 0 in
  let gas := selfdestruct_gas + selfdestruct_gas_topup in
  if enabled s BERLIN && is_cold then gas + G.COLD_ACCOUNT_ACCESS_COST else gas.

(* AccountLoad { load: Eip7702CodeLoad { state_load.is_cold, is_delegate_account_cold }, is_empty } *)
Definition call_cost (s : spec) (transfers_value is_cold : bool) (delegate_cold : option bool)
                     (is_empty : bool) : Z :=
  let gas0 := if enabled s BERLIN then warm_cold_cost_with_delegation is_cold delegate_cold
              else if enabled s TANGERINE then 700 else 40 in
  let gas1 := if transfers_value then gas0 + G.CALLVALUE else gas0 in
  if is_empty then
    if enabled s SPURIOUS_DRAGON then (if transfers_value then gas1 + G.NEWACCOUNT else gas1)
    else gas1 + G.NEWACCOUNT
  else gas1.

(* memory_gas: 128-bit square / 512 clamped to u64::MAX, MEMORY.saturating_mul(w).saturating_add(q) *)
Definition memory_gas (num_words : Z) : Z :=
  let quadratic := (num_words * num_words) / 512 in
  let quadratic := if quadratic >? pow64 - 1 then pow64 - 1 else quadratic in
  sat64 (sat64 (G.MEMORY * num_words) + quadratic).
Definition memory_gas_for_len (len : Z) : Z := memory_gas (num_words len).

(* ---- transaction-level sums: unguarded u64/usize arithmetic ---- *)
Fixpoint count_zero (input : list Z) : Z :=
  match input with
  | [] => 0
  | b :: r => (if b =? 0 then 1 else 0) + count_zero r
  end.
Definition len {A} (l : list A) : Z := Z.of_nat (length l).

(* zero_data_len + non_zero_data_len * multiplier *)
Definition get_tokens_in_calldata_chk (input : list Z) (is_istanbul : bool) : option Z :=
  let zero_data_len := count_zero input in
  let non_zero_data_len := len input - zero_data_len in
  let m := if is_istanbul then G.NON_ZERO_BYTE_MULTIPLIER_ISTANBUL else G.NON_ZERO_BYTE_MULTIPLIER in
  obind (checked64 (non_zero_data_len * m)) (fun x => checked64 (zero_data_len + x)).
Definition get_tokens_in_calldata_wrap (input : list Z) (is_istanbul : bool) : Z :=
  let zero_data_len := count_zero input in
  let non_zero_data_len := len input - zero_data_len in
  let m := if is_istanbul then G.NON_ZERO_BYTE_MULTIPLIER_ISTANBUL else G.NON_ZERO_BYTE_MULTIPLIER in
  wrap64 (zero_data_len + wrap64 (non_zero_data_len * m)).

(* tokens * TOTAL_COST_FLOOR_PER_TOKEN + 21_000 *)
Definition calc_tx_floor_cost_chk (tokens : Z) : option Z :=
  obind (checked64 (tokens * G.TOTAL_COST_FLOOR_PER_TOKEN)) (fun x => checked64 (x + 21000)).
Definition calc_tx_floor_cost_wrap (tokens : Z) : Z :=
  wrap64 (wrap64 (tokens * G.TOTAL_COST_FLOOR_PER_TOKEN) + 21000).

(* usize sum of item.storage_keys.len() (Iterator::sum: overflow point at every addition) *)
Fixpoint sum_keys_chk (access_list : list Z) : option Z :=
  match access_list with
  | [] => Some 0
  | k :: r => obind (sum_keys_chk r) (fun x => checked64 (k + x))
  end.

(* access_list: one entry per AccessListItem = its storage_keys.len().
   Result (initial_gas, floor_gas); None = an unguarded u64/usize operation overflows. *)
Definition calculate_initial_tx_gas_chk (s : spec) (input : list Z) (is_create : bool)
    (access_list : list Z) (authorization_list_num : Z) : option (Z * Z) :=
  obind (get_tokens_in_calldata_chk input (enabled s ISTANBUL)) (fun tokens =>
  obind (checked64 (tokens * G.STANDARD_TOKEN_COST)) (fun t =>
  obind (checked64 (0 + t)) (fun g0 =>
  obind (if enabled s BERLIN then
           obind (sum_keys_chk access_list) (fun accessed_slots =>
           obind (checked64 (len access_list * G.ACCESS_LIST_ADDRESS)) (fun a =>
           obind (checked64 (g0 + a)) (fun g =>
           obind (checked64 (accessed_slots * G.ACCESS_LIST_STORAGE_KEY)) (fun k =>
           checked64 (g + k)))))
         else Some g0) (fun g1 =>
  obind (checked64 (g1 + (if is_create then (if enabled s HOMESTEAD then 53000 else 21000) else 21000)))
        (fun g2 =>
  obind (if enabled s SHANGHAI && is_create then
           obind (initcode_cost (len input)) (fun ic => checked64 (g2 + ic))
         else Some g2) (fun g3 =>
  if enabled s PRAGUE then
    obind (checked64 (authorization_list_num * G.PER_EMPTY_ACCOUNT_COST)) (fun a =>
    obind (checked64 (g3 + a)) (fun g4 =>
    obind (calc_tx_floor_cost_chk tokens) (fun fl => Some (g4, fl))))
  else Some (g3, 0))))))).
