(* Lower bound of the gas charged by one continuing instruction, read off the reflected table
   Gen/StepTable.v (every SpecId x opcode byte executed once per stack profile through the
   instruction table of the compiled code).
   A cell = (class, gas spent, stack length afterwards); class 0 = Continue, 1 = CallOrCreate:
   the frame goes on after this instruction (CallOrCreate: after the sub-call returned). *)
From RevmV Require Import Base.Word Gen.OpInfo Gen.StepTable Model.ControlFlow.
Local Open Scope Z_scope.

Definition cell := (Z * Z * Z)%type.
Definition cell_class (c : cell) : Z := fst (fst c).
Definition cell_spent (c : cell) : Z := snd (fst c).
Definition cell_len (c : cell) : Z := snd c.
Definition continuing (c : cell) : bool := (cell_class c =? 0) || (cell_class c =? 1).

Definition N_PROFILES : Z := 4.
(* stack length before the instruction in each profile *)
Definition profile_len (p op : Z) : Z :=
  if p =? 0 then 20 else if p =? 1 then 20
  else if p =? 2 then Z.max (op_inputs op - 1) 0
  else 1024.

Fixpoint find_row (rows : list (Z * Z * list cell)) (spec p : Z) : option (list cell) :=
  match rows with
  | [] => None
  | (s, q, cells) :: r => if (s =? spec) && (q =? p) then Some cells else find_row r spec p
  end.
Definition table_row (spec p : Z) : option (list cell) := find_row step_rows spec p.
Definition table_cell (spec p op : Z) : option cell :=
  match table_row spec p with
  | Some cells => if (0 <=? op) && (op <? 256) then nth_error cells (Z.to_nat op) else None
  | None => None
  end.

(* the property's clauses on one executed instruction: no panic, a continuing instruction charged
   gas, the stack stays within its limit *)
Definition cell_spec_ok (c : cell) : bool :=
  negb (cell_class c =? 9) && (if continuing c then 1 <=? cell_spent c else true) &&
  (0 <=? cell_len c) && (cell_len c <=? 1024).

(* the reflected (inputs, outputs) describe what the instruction did to the stack *)
Definition cell_io_ok (p op : Z) (c : cell) : bool :=
  let lb := profile_len p op in
  let i := op_inputs op in let o := op_outputs op in
  let cl := cell_class c in
  (if cl =? 0 then (i <=? lb) && (cell_len c =? lb - i + o)
   else if cl =? 1 then (i <=? lb) && (cell_len c =? lb - i)
   else if cl =? 4 then lb <? i
   else if cl =? 5 then 1024 <? lb - i + o
   else true) &&
  (if lb <? i then negb (cl <=? 3) else true) &&
  (if 1024 <? lb - i + o then negb (cl =? 0) else true) &&
  (if op_defined op then true else cl =? 7).
Fixpoint cells_io_ok (p op : Z) (cs : list cell) : bool :=
  match cs with
  | [] => true
  | c :: r => cell_io_ok p op c && cells_io_ok p (op + 1) r
  end.

(* an opcode the control-flow model treats as ending the run never continues *)
Definition cell_term_ok (op : Z) (c : cell) : bool :=
  match cf_class_of op with CTerm => negb (continuing c) | _ => true end.
Definition cell_check (p op : Z) (c : cell) : bool :=
  cell_spec_ok c && cell_io_ok p op c && cell_term_ok op c.
Fixpoint cells_check (p op : Z) (cs : list cell) : bool :=
  match cs with
  | [] => true
  | c :: r => cell_check p op c && cells_check p (op + 1) r
  end.
Definition row_check (r : Z * Z * list cell) : bool :=
  let '(s, p, cells) := r in
  (Z.of_nat (length cells) =? 256) && (0 <=? p) && (p <? N_PROFILES) && cells_check p 0 cells.

Definition opt_min (a : option Z) (b : Z) : option Z :=
  match a with None => Some b | Some x => Some (Z.min x b) end.
(* minimum gas spent over the profiles in which the instruction continues *)
Definition charge_lb (spec op : Z) : option Z :=
  fold_left (fun acc p =>
    match table_cell spec p op with
    | Some c => if continuing c then opt_min acc (cell_spent c) else acc
    | None => acc
    end) [0; 1; 2; 3] None.

Definition table_specs : list Z := nodup Z.eq_dec (map (fun r => fst (fst r)) step_rows).
