(* Executable model of revm's bundle algebra
     crates/revm/src/db/states/{plain_account,transition_account,transition_state,
                                bundle_account,bundle_state,reverts,changes,account_status}.rs
   mirrored function by function.  Addresses, slot keys, values, code hashes and code
   identifiers are [Z]; Rust [HashMap]s are std++ [gmap Z _] (iteration order of a HashMap is
   unspecified and every loop of the code is order-independent per key, so each loop is a
   [merge]/[omap] here); `unreachable!` cells are [None].  The size counters
   (state_size / reverts_size) are not modelled. *)
From stdpp Require Import gmap.
From Coq Require Import ZArith.
Local Open Scope Z_scope.

(* ------------------------------------------------------------------ shared vocabulary *)
Inductive status :=
| LoadedNotExisting | Loaded | LoadedEmptyEIP161 | InMemoryChange | Changed
| Destroyed | DestroyedChanged | DestroyedAgain.
Global Instance status_eq_dec : EqDecision status.
Proof. solve_decision. Defined.

Definition status_eqb (a b : status) : bool :=
  match a, b with
  | LoadedNotExisting, LoadedNotExisting | Loaded, Loaded | LoadedEmptyEIP161, LoadedEmptyEIP161
  | InMemoryChange, InMemoryChange | Changed, Changed | Destroyed, Destroyed
  | DestroyedChanged, DestroyedChanged | DestroyedAgain, DestroyedAgain => true
  | _, _ => false
  end.

(* account_status.rs *)
Definition was_destroyed (s : status) : bool :=
  match s with Destroyed | DestroyedChanged | DestroyedAgain => true | _ => false end.
Definition is_storage_known (s : status) : bool :=
  match s with
  | LoadedNotExisting | InMemoryChange | Destroyed | DestroyedChanged | DestroyedAgain => true
  | _ => false
  end.
(* AccountStatus::transition (used by extend_state) *)
Definition status_transition (this other : status) : status :=
  match was_destroyed this, was_destroyed other with
  | true, false => DestroyedChanged
  | false, false => match this with InMemoryChange => InMemoryChange | _ => other end
  | _, _ => other
  end.

Definition KECCAK_EMPTY : Z :=
  0xc5d2460186f7233c927e7db2dcc703c0e500b653ca82273b7bfad8045d85a470.

(* AccountInfo; [i_code] is an identifier of the byte code (the model never looks inside) *)
Record info := mkInfo { i_bal : Z; i_nonce : Z; i_hash : Z; i_code : option Z }.
(* impl PartialEq for AccountInfo: balance, nonce, code_hash only *)
Definition info_eqb (a b : info) : bool :=
  (i_bal a =? i_bal b) && (i_nonce a =? i_nonce b) && (i_hash a =? i_hash b).
Definition oinfo_eqb (a b : option info) : bool :=
  match a, b with
  | None, None => true
  | Some x, Some y => info_eqb x y
  | _, _ => false
  end.
(* AccountInfo::copy_without_code *)
Definition strip (i : info) : info := mkInfo (i_bal i) (i_nonce i) (i_hash i) None.
(* AccountInfo::default(): code = Some(Bytecode::default()); its identifier is a parameter
   of the printing convention: the harness prints it as [CODE_DEFAULT] *)
Definition CODE_DEFAULT : Z := KECCAK_EMPTY.
Definition info_default : info := mkInfo 0 0 KECCAK_EMPTY (Some CODE_DEFAULT).
Definition info_is_empty (i : info) : bool :=
  ((i_hash i =? KECCAK_EMPTY) || (i_hash i =? 0)) && (i_bal i =? 0) && (i_nonce i =? 0).
Definition has_no_code_and_nonce (i : info) : bool := (i_hash i =? KECCAK_EMPTY) && (i_nonce i =? 0).

(* plain_account.rs: StorageSlot *)
Record slot := mkSlot { s_orig : Z; s_pres : Z }.
Definition slot_new (v : Z) : slot := mkSlot v v.
Definition is_changed (s : slot) : bool := negb (s_orig s =? s_pres s).
Notation storage := (gmap Z slot) (only parsing).

(* ------------------------------------------------------------------ transition_account.rs *)
Record tacc := mkTA {
  t_info : option info; t_status : status;
  t_pinfo : option info; t_pstatus : status;
  t_storage : storage; t_wiped : bool }.

(* TransitionAccount::update *)
Definition ta_update_slot (mine other : option slot) : option slot :=
  match mine, other with
  | _, None => mine
  | None, Some s => Some s
  | Some v, Some s => if s_orig v =? s_pres s then None else Some (mkSlot (s_orig v) (s_pres s))
  end.
Definition ta_update (this other : tacc) : tacc :=
  match t_status other with
  | Destroyed | DestroyedAgain =>
      mkTA (t_info other) (t_status other) (t_pinfo this) (t_pstatus this) (t_storage other) true
  | _ =>
      mkTA (t_info other) (t_status other) (t_pinfo this) (t_pstatus this)
           (merge ta_update_slot (t_storage this) (t_storage other)) (t_wiped this)
  end.

(* TransitionAccount::has_new_contract : (hash, code) *)
Definition has_new_contract (t : tacc) : option (Z * Z) :=
  if negb (bool_decide (i_hash <$> t_info t = i_hash <$> t_pinfo t)) then
    match t_info t with
    | Some i => match i_code i with Some c => Some (i_hash i, c) | None => None end
    | None => None
    end
  else None.

(* transition_state.rs: TransitionState::add_transitions *)
Definition tstate := gmap Z tacc.
Definition add_transition (m : tstate) (at_ : Z * tacc) : tstate :=
  match m !! at_.1 with
  | Some e => <[at_.1 := ta_update e at_.2]> m
  | None => <[at_.1 := at_.2]> m
  end.
Definition add_transitions (m : tstate) (l : list (Z * tacc)) : tstate :=
  fold_left add_transition l m.

(* ------------------------------------------------------------------ reverts.rs *)
Inductive rslot := RSome (v : Z) | RDestroyed.
Global Instance rslot_eq_dec : EqDecision rslot.
Proof. solve_decision. Defined.
Definition to_previous_value (r : rslot) : Z := match r with RSome v => v | RDestroyed => 0 end.
Inductive irevert := DoNothing | DeleteIt | RevertTo (i : info).
Record arevert := mkAR {
  r_acc : irevert; r_storage : gmap Z rslot; r_pstatus : status; r_wipe : bool }.

Definition map_is_empty {A} (m : gmap Z A) : bool :=
  match map_to_list m with [] => true | _ => false end.

(* AccountRevert::is_empty *)
Definition ar_is_empty (r : arevert) : bool :=
  match r_acc r with DoNothing => map_is_empty (r_storage r) && negb (r_wipe r) | _ => false end.

(* AccountRevert::new_selfdestructed_again *)
Definition sd_again_slot (p u : option slot) : option rslot :=
  match p, u with
  | Some s, _ => Some (RSome (s_pres s))
  | None, Some _ => Some RDestroyed
  | None, None => None
  end.
Definition new_selfdestructed_again (st : status) (a : irevert) (previous updated : storage)
  : arevert :=
  mkAR a (merge sd_again_slot previous updated) st false.
(* AccountRevert::new_selfdestructed *)
Definition new_selfdestructed (st : status) (a : irevert) (sto : storage) : arevert :=
  mkAR a ((fun s => RSome (s_pres s)) <$> sto) st true.

(* ------------------------------------------------------------------ bundle_account.rs *)
Record bacc := mkBA {
  b_info : option info; b_oinfo : option info; b_storage : storage; b_status : status }.

(* AccountRevert::new_selfdestructed_from_bundle (the caller always overwrites the storage
   that this function drains) *)
Definition new_selfdestructed_from_bundle (a : irevert) (b : bacc) (updated : storage)
  : option arevert :=
  match b_status b with
  | InMemoryChange | Changed | LoadedEmptyEIP161 | Loaded =>
      let r := new_selfdestructed_again (b_status b) a (b_storage b) updated in
      Some (mkAR (r_acc r) (r_storage r) (r_pstatus r) true)
  | _ => None
  end.

(* the two closures of update_and_create_revert *)
Definition extend_slot (mine upd : option slot) : option slot :=
  match upd with
  | None => mine
  | Some u => Some (match mine with Some m => mkSlot (s_orig m) (s_pres u) | None => u end)
  end.
Definition extend_storage (this upd : storage) : storage := merge extend_slot this upd.
Definition previous_storage_from_update (upd : storage) : gmap Z rslot :=
  omap (fun s => if is_changed s then Some (RSome (s_orig s)) else None) upd.

Definition filter_empty (r : option arevert) : option arevert :=
  match r with Some x => if ar_is_empty x then None else Some x | None => None end.

(* BundleAccount::update_and_create_revert; outer [None] = `unreachable!` panic *)
Definition update_and_create_revert (b : bacc) (t : tacc) : option (bacc * option arevert) :=
  let updated_info := t_info t in
  let updated_storage := t_storage t in
  let info_revert :=
    if negb (oinfo_eqb (b_info b) updated_info)
    then RevertTo (default info_default (b_info b)) else DoNothing in
  let fin (x : bacc * option arevert) := Some (x.1, filter_empty x.2) in
  match t_status t with
  | Changed =>
      let previous_storage := previous_storage_from_update updated_storage in
      match (match b_status b with
             | Changed | Loaded => Some (extend_storage (b_storage b) updated_storage)
             | LoadedEmptyEIP161 => Some (b_storage b)
             | _ => None end) with
      | Some sto =>
          fin (mkBA updated_info (b_oinfo b) sto Changed,
               Some (mkAR info_revert previous_storage (b_status b) false))
      | None => None
      end
  | InMemoryChange =>
      let previous_storage := previous_storage_from_update updated_storage in
      match (match b_status b with
             | Loaded | InMemoryChange =>
                 Some (extend_storage (b_storage b) updated_storage, info_revert)
             | LoadedEmptyEIP161 => Some (updated_storage, info_revert)
             | LoadedNotExisting => Some (updated_storage, DeleteIt)
             | _ => None end) with
      | Some (sto, ir) =>
          fin (mkBA updated_info (b_oinfo b) sto InMemoryChange,
               Some (mkAR ir previous_storage (b_status b) false))
      | None => None
      end
  | Loaded | LoadedNotExisting | LoadedEmptyEIP161 => Some (b, None)
  | Destroyed =>
      let this_storage := b_storage b in   (* drained in every arm *)
      match b_status b with
      | InMemoryChange | Changed | Loaded | LoadedEmptyEIP161 =>
          fin (mkBA None (b_oinfo b) ∅ Destroyed,
               Some (new_selfdestructed (b_status b) info_revert this_storage))
      | LoadedNotExisting => Some (mkBA (b_info b) (b_oinfo b) ∅ (b_status b), None)
      | _ => None
      end
  | DestroyedChanged =>
      match new_selfdestructed_from_bundle info_revert b updated_storage with
      | Some revert_state =>
          fin (mkBA updated_info (b_oinfo b) updated_storage DestroyedChanged, Some revert_state)
      | None =>
          match (match b_status b with
                 | Destroyed | LoadedNotExisting =>
                     Some (b_storage b,
                           mkAR DeleteIt (previous_storage_from_update updated_storage)
                                (b_status b) false)
                 | DestroyedChanged =>
                     if t_wiped t then
                       Some (∅, mkAR info_revert
                                     (merge sd_again_slot (b_storage b) updated_storage)
                                     DestroyedChanged false)
                     else
                       Some (b_storage b,
                             mkAR info_revert (previous_storage_from_update updated_storage)
                                  DestroyedChanged false)
                 | DestroyedAgain =>
                     Some (b_storage b,
                           new_selfdestructed_again DestroyedAgain DeleteIt ∅ updated_storage)
                 | _ => None end) with
          | Some (sto, r) =>
              fin (mkBA updated_info (b_oinfo b) (extend_storage sto updated_storage)
                        DestroyedChanged, Some r)
          | None => None
          end
      end
  | DestroyedAgain =>
      match new_selfdestructed_from_bundle info_revert b ∅ with
      | Some revert_state => fin (mkBA None (b_oinfo b) ∅ DestroyedAgain, Some revert_state)
      | None =>
          match b_status b with
          | Destroyed | DestroyedAgain | LoadedNotExisting =>
              Some (mkBA None (b_oinfo b) ∅ DestroyedAgain, None)
          | DestroyedChanged =>
              fin (mkBA None (b_oinfo b) ∅ DestroyedAgain,
                   Some (new_selfdestructed_again DestroyedChanged
                           (RevertTo (default info_default (b_info b))) (b_storage b) ∅))
          | _ => None
          end
      end
  end.

(* BundleAccount::revert : (account, "can be removed") *)
Definition revert_slot (mine : option slot) (r : option rslot) : option slot :=
  match r with
  | None => mine
  | Some (RSome v) => Some (match mine with Some m => mkSlot (s_orig m) v | None => slot_new v end)
  | Some RDestroyed => None
  end.
Definition ba_revert (b : bacc) (r : arevert) : bacc * bool :=
  let st := r_pstatus r in
  match r_acc r with
  | DeleteIt =>
      match b_oinfo b with
      | None => (mkBA None (b_oinfo b) ∅ st, true)
      | Some _ => (mkBA None (b_oinfo b) ((fun s => mkSlot (s_orig s) 0) <$> b_storage b) st, false)
      end
  | DoNothing =>
      (mkBA (b_info b) (b_oinfo b) (merge revert_slot (b_storage b) (r_storage r)) st, false)
  | RevertTo i =>
      (mkBA (Some i) (b_oinfo b) (merge revert_slot (b_storage b) (r_storage r)) st, false)
  end.

(* TransitionAccount::{present_bundle_account, original_bundle_account, create_revert} *)
Definition present_bundle_account (t : tacc) : bacc :=
  mkBA (t_info t) (t_pinfo t) (t_storage t) (t_status t).
Definition original_bundle_account (t : tacc) : bacc :=
  mkBA (t_pinfo t) (t_pinfo t) ∅ (t_pstatus t).

(* ------------------------------------------------------------------ bundle_state.rs *)
Record bundle := mkB {
  bs_state : gmap Z bacc; bs_contracts : gmap Z Z; bs_reverts : list (gmap Z arevert) }.
Definition bundle_empty : bundle := mkB ∅ ∅ [].

(* the body of the loop of apply_transitions_and_create_reverts for one address:
   new state entry and revert; outer None = panic *)
Definition acct_apply (ob : option bacc) (t : tacc) : option (option bacc * option arevert) :=
  match ob with
  | Some b =>
      match update_and_create_revert b t with
      | Some (b', r) => Some (Some b', r)
      | None => None
      end
  | None =>
      match update_and_create_revert (original_bundle_account t) t with
      | Some (_, Some r) => Some (Some (present_bundle_account t), Some r)
      | Some (_, None) => Some (None, None)
      | None => None
      end
  end.

Definition apply_merge (ob : option bacc) (ot : option tacc)
  : option (option (option bacc * option arevert)) :=
  match ot with
  | None => match ob with Some b => Some (Some (Some b, None)) | None => None end
  | Some t => Some (acct_apply ob t)
  end.

Definition add_contract (c : gmap Z Z) (t : tacc) : gmap Z Z :=
  match has_new_contract t with Some (h, code) => <[h := code]> c | None => c end.

(* BundleState::apply_transitions_and_create_reverts; [retain] = BundleRetention::Reverts *)
Definition apply_transitions_and_create_reverts (b : bundle) (ts : tstate) (retain : bool)
  : option bundle :=
  let res := merge apply_merge (bs_state b) ts in
  if bool_decide (map_Forall (fun _ r => is_Some r) res) then
    let state' := omap (fun r => match r with Some (Some ba, _) => Some ba | _ => None end) res in
    let revs := omap (fun r => match r with Some (_, Some ar) => Some ar | _ => None end) res in
    let contracts' := map_fold (fun _ t c => add_contract c t) (bs_contracts b) ts in
    Some (mkB state' contracts' (bs_reverts b ++ [if retain then revs else ∅]))
  else None.

(* StateChangeset with the vectors read as maps (they are unique by key) *)
Record changeset := mkCS {
  cs_accounts : gmap Z (option info);
  cs_storage : gmap Z (bool * gmap Z Z);
  cs_contracts : gmap Z Z }.

Definition cs_account_of (known : bool) (a : bacc) : option (option info) :=
  if negb known || negb (oinfo_eqb (b_info a) (b_oinfo a)) then Some (strip <$> b_info a) else None.
Definition cs_slot_of (known wd : bool) (s : slot) : option Z :=
  if negb known || (wd && negb (s_pres s =? 0)) || (negb wd && is_changed s)
  then Some (s_pres s) else None.
Definition cs_storage_of (known : bool) (a : bacc) : option (bool * gmap Z Z) :=
  let wd := was_destroyed (b_status a) in
  let sl := omap (cs_slot_of known wd) (b_storage a) in
  if negb (map_is_empty sl) || wd then Some (wd, sl) else None.

(* BundleState::to_plain_state; [known] = OriginalValuesKnown::Yes *)
Definition to_plain_state (b : bundle) (known : bool) : changeset :=
  mkCS (omap (cs_account_of known) (bs_state b))
       (omap (cs_storage_of known) (bs_state b))
       (filter (fun kv => kv.1 ≠ KECCAK_EMPTY) (bs_contracts b)).

(* PlainStateReverts, one entry per group *)
Record plain_revert := mkPR {
  pr_accounts : gmap Z (option info);
  pr_storage : gmap Z (bool * gmap Z rslot) }.
Definition pr_account_of (r : arevert) : option (option info) :=
  match r_acc r with RevertTo i => Some (Some i) | DeleteIt => Some None | DoNothing => None end.
Definition pr_storage_of (r : arevert) : option (bool * gmap Z rslot) :=
  if r_wipe r || negb (map_is_empty (r_storage r)) then Some (r_wipe r, r_storage r) else None.
(* Reverts::to_plain_state_reverts *)
Definition to_plain_state_reverts (rs : list (gmap Z arevert)) : list plain_revert :=
  map (fun g => mkPR (omap pr_account_of g) (omap pr_storage_of g)) rs.

(* BundleState::extend_state *)
Definition extend_state_acct (this other : option bacc) : option bacc :=
  match other with
  | None => this
  | Some o =>
      match this with
      | None => Some o
      | Some t =>
          Some (mkBA (b_info o) (b_oinfo t)
                     (if was_destroyed (b_status o) then b_storage o
                      else extend_storage (b_storage t) (b_storage o))
                     (status_transition (b_status t) (b_status o)))
      end
  end.
Definition extend_state (this other : gmap Z bacc) : gmap Z bacc :=
  merge extend_state_acct this other.

(* the first loop of BundleState::extend, one group of [other]'s reverts at a time *)
Definition extend_revert_acct (r : option arevert) (this : option bacc) : option arevert :=
  match r with
  | None => None
  | Some r =>
      if r_wipe r then
        match this with
        | Some ta =>
            Some (mkAR (r_acc r)
                       (merge (fun (rs : option rslot) (s : option slot) =>
                                 match rs with
                                 | Some x => Some x
                                 | None => match s with Some s => Some (RSome (s_pres s)) | None => None end
                                 end) (r_storage r) (b_storage ta))
                       (r_pstatus r)
                       (if was_destroyed (b_status ta) then false else true))
        | None => Some r
        end
      else Some r
  end.
Definition extend_drain_acct (this : option bacc) (r : option arevert) : option bacc :=
  match this, r with
  | Some ta, Some r => if r_wipe r then Some (mkBA (b_info ta) (b_oinfo ta) ∅ (b_status ta)) else Some ta
  | _, _ => this
  end.
Definition extend_group (acc : gmap Z bacc * list (gmap Z arevert)) (g : gmap Z arevert)
  : gmap Z bacc * list (gmap Z arevert) :=
  (merge extend_drain_acct acc.1 g, acc.2 ++ [merge extend_revert_acct g acc.1]).

(* BundleState::extend *)
Definition extend (this other : bundle) : bundle :=
  let '(st, revs) := fold_left extend_group (bs_reverts other) (bs_state this, []) in
  mkB (extend_state st (bs_state other))
      (bs_contracts other ∪ bs_contracts this)
      (bs_reverts this ++ revs).

(* BundleState::take_n_reverts / take_all_reverts : (detached, bundle left) *)
Definition take_all_reverts (b : bundle) : list (gmap Z arevert) * bundle :=
  (bs_reverts b, mkB (bs_state b) (bs_contracts b) []).
Definition take_n_reverts (b : bundle) (n : nat) : list (gmap Z arevert) * bundle :=
  if Nat.ltb (length (bs_reverts b)) n then take_all_reverts b
  else (firstn n (bs_reverts b), mkB (bs_state b) (bs_contracts b) (skipn n (bs_reverts b))).

(* BundleState::revert_latest *)
Definition revert_acct (ob : option bacc) (orv : option arevert) : option bacc :=
  match orv with
  | None => ob
  | Some r =>
      let '(b', remove) := ba_revert (default (mkBA None None ∅ LoadedNotExisting) ob) r in
      if remove then None else Some b'
  end.
Definition revert_latest (b : bundle) : option bundle :=
  match rev (bs_reverts b) with
  | [] => None
  | g :: rest => Some (mkB (merge revert_acct (bs_state b) g) (bs_contracts b) (rev rest))
  end.
(* BundleState::revert *)
Fixpoint revert (b : bundle) (n : nat) : bundle :=
  match n with
  | O => b
  | S n' => match revert_latest b with Some b' => revert b' n' | None => b end
  end.

(* BundleState::prepend_state: self := other extended by self's state and contracts
   (the reverts that survive are [other]'s) *)
Definition prepend_state (this other : bundle) : bundle :=
  mkB (extend_state (bs_state other) (bs_state this))
      (bs_contracts this ∪ bs_contracts other)
      (bs_reverts other).
