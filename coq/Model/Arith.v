(* Model of crates/interpreter/src/instructions/{arithmetic.rs, i256.rs, bitwise.rs},
   gas/calc.rs (log2floor, exp_cost) and the pop_top!/gas!/check!-shaped instruction bodies.
   One Gallina function per Rust function, same order of checks.  Words are Z in [0, 2^256).

   The primitives of the `ruint` library (wrapping_add/sub/mul/neg, /, %, add_mod, mul_mod,
   <<, >>, bit, byte, &, |, ^, !, arithmetic_shr's pieces, leading_zeros, checked_add/mul,
   u64::try_from) are written by their documented meaning with explicit [mod 2^256]; they are
   modelled, not verified.  [wrapping_pow] and [add_mod] are mirrored as the algorithms they are. *)
From RevmV Require Import Base.Word Model.Gas.
Local Open Scope Z_scope.

Definition U256_MAX : Z := pow256 - 1.

(* ---- ruint primitives (documented meaning) ---- *)
Definition wrapping_add (a b : Z) : Z := (a + b) mod pow256.
Definition wrapping_sub (a b : Z) : Z := (a - b) mod pow256.
Definition wrapping_mul (a b : Z) : Z := (a * b) mod pow256.
Definition wrapping_neg (a : Z) : Z := (- a) mod pow256.
(* `/` and `%` panic on a zero divisor; every call site below is guarded *)
Definition udiv (a b : Z) : Z := a / b.
Definition urem (a b : Z) : Z := a mod b.
(* reduce_mod: zero if the modulus is zero; self %= modulus only when self >= modulus *)
Definition reduce_mod (a m : Z) : Z := if m =? 0 then 0 else if m <=? a then a mod m else a.
(* add_mod, mirrored: reduce both, overflowing_add, one conditional (wrapping) subtraction
     let (mut result, overflow) = lhs.overflowing_add(rhs);
     if overflow || result >= modulus { result -= modulus }                               *)
Definition add_mod (a b m : Z) : Z :=
  let lhs := reduce_mod a m in
  let rhs := reduce_mod b m in
  let result := (lhs + rhs) mod pow256 in
  let overflow := pow256 <=? lhs + rhs in
  if overflow || (m <=? result) then (result - m) mod pow256 else result.
(* mul_mod (512-bit product, then division): documented meaning, "zero if the modulus is zero" *)
Definition mul_mod (a b m : Z) : Z := if m =? 0 then 0 else (a * b) mod m.
(* bit(i): false when i >= BITS *)
Definition bit (a i : Z) : bool := if i <? 256 then Z.testbit a i else false.
(* byte(i): i-th least significant byte *)
Definition le_byte (a i : Z) : Z := (a / 2 ^ (8 * i)) mod 256.
(* << and >> by usize (wrapping_shl / wrapping_shr): zero when the amount is >= BITS *)
Definition shl_usize (a n : Z) : Z := if n <? 256 then (Z.shiftl a n) mod pow256 else 0.
Definition shr_usize (a n : Z) : Z := if n <? 256 then Z.shiftr a n else 0.
Definition bitand (a b : Z) : Z := Z.land a b.
Definition bitor (a b : Z) : Z := Z.lor a b.
Definition bitxor (a b : Z) : Z := Z.lxor a b.
Definition bitnot (a : Z) : Z := Z.lxor a U256_MAX.
Definition bool_word (b : bool) : Z := if b then 1 else 0.

(* wrapping_pow: exponentiation by squaring, at most 256 iterations for a 256-bit exponent
     while exp != 0 { if exp.bit(0) { result = result.wrapping_mul(base) }
                      base = base.wrapping_mul(base); exp >>= 1 }                       *)
Fixpoint pow_loop (fuel : nat) (base e result : Z) : Z :=
  match fuel with
  | O => result
  | S f =>
    if e =? 0 then result
    else pow_loop f (wrapping_mul base base) (Z.shiftr e 1)
                  (if Z.testbit e 0 then wrapping_mul result base else result)
  end.
Definition wrapping_pow (base e : Z) : Z := pow_loop 256 base e 1.

(* arithmetic_shr(rhs): sign = bit(255); r = self >> rhs; if sign { r |= MAX << (256 -sat rhs) } *)
Definition arithmetic_shr (a n : Z) : Z :=
  let sign := bit a 255 in
  let r := shr_usize a n in
  if sign then bitor r (shl_usize U256_MAX (Z.max 0 (256 - n))) else r.

(* ---- macros.rs ---- *)
(* as_u64_saturated!: limb 0 when limbs 1..3 are zero, else u64::MAX;
   as_usize_saturated!: usize::try_from(u64) cannot fail on a 64-bit target *)
Definition as_u64_saturated (v : Z) : Z := if v / pow64 =? 0 then v mod pow64 else pow64 - 1.
Definition as_usize_saturated (v : Z) : Z := as_u64_saturated v.

(* ---- i256.rs ---- *)
Inductive Sign := Minus | Zero | Plus.
Definition sign_ord (s : Sign) : Z := match s with Minus => -1 | Zero => 0 | Plus => 1 end.
Definition sign_eqb (a b : Sign) : bool := sign_ord a =? sign_ord b.

Definition MIN_NEGATIVE_VALUE : Z := pow255.
Definition MAX_POSITIVE_VALUE : Z := pow255 - 1.

Definition i256_sign (v : Z) : Sign :=
  if bit v 255 then Minus else if v =? 0 then Zero else Plus.
Definition two_compl (v : Z) : Z := wrapping_neg v.
(* returns (sign, possibly negated value) *)
Definition i256_sign_compl (v : Z) : Sign * Z :=
  let s := i256_sign v in
  if sign_eqb s Minus then (s, two_compl v) else (s, v).
(* limbs[3] &= 0x7FFF_FFFF_FFFF_FFFF : clear bit 255 *)
Definition u256_remove_sign (v : Z) : Z := Z.land v (pow255 - 1).

Definition i256_cmp (a b : Z) : comparison :=
  let sa := i256_sign a in
  let sb := i256_sign b in
  match sign_ord sa ?= sign_ord sb with
  | Eq => a ?= b
  | o => o
  end.

Definition i256_div (first second : Z) : Z :=
  let '(second_sign, second) := i256_sign_compl second in
  if sign_eqb second_sign Zero then 0 else
  let '(first_sign, first) := i256_sign_compl first in
  if (first =? MIN_NEGATIVE_VALUE) && (second =? 1) then two_compl MIN_NEGATIVE_VALUE else
  let d := udiv first second in
  let d := u256_remove_sign d in
  if (sign_eqb first_sign Minus && negb (sign_eqb second_sign Minus))
     || (sign_eqb second_sign Minus && negb (sign_eqb first_sign Minus))
  then two_compl d else d.

Definition i256_mod (first second : Z) : Z :=
  let '(first_sign, first) := i256_sign_compl first in
  if sign_eqb first_sign Zero then 0 else
  let '(second_sign, second) := i256_sign_compl second in
  if sign_eqb second_sign Zero then 0 else
  let r := urem first second in
  let r := u256_remove_sign r in
  if sign_eqb first_sign Minus then two_compl r else r.

(* ---- arithmetic.rs / bitwise.rs : the value computed from the popped operands.
   Argument order = pop order (op1 = former top of stack). ---- *)
Definition op_add (op1 op2 : Z) : Z := wrapping_add op1 op2.
Definition op_mul (op1 op2 : Z) : Z := wrapping_mul op1 op2.
Definition op_sub (op1 op2 : Z) : Z := wrapping_sub op1 op2.
(* if !op2.is_zero() { op2 := op1.wrapping_div(op2) }  -- otherwise op2 (= 0) stays *)
Definition op_div (op1 op2 : Z) : Z := if negb (op2 =? 0) then udiv op1 op2 else op2.
Definition op_sdiv (op1 op2 : Z) : Z := i256_div op1 op2.
Definition op_rem (op1 op2 : Z) : Z := if negb (op2 =? 0) then urem op1 op2 else op2.
Definition op_smod (op1 op2 : Z) : Z := i256_mod op1 op2.
Definition op_addmod (op1 op2 op3 : Z) : Z := add_mod op1 op2 op3.
Definition op_mulmod (op1 op2 op3 : Z) : Z := mul_mod op1 op2 op3.
Definition op_exp (op1 op2 : Z) : Z := wrapping_pow op1 op2.
Definition op_signextend (ext x : Z) : Z :=
  if ext <? 31 then
    let ext := ext mod pow64 in                 (* ext.as_limbs()[0] *)
    let bit_index := (8 * ext + 7) mod pow64 in (* u64 arithmetic, cannot overflow: ext < 31 *)
    let b := bit x bit_index in
    let mask := wrapping_sub (shl_usize 1 bit_index) 1 in
    if b then bitor x (bitnot mask) else bitand x mask
  else x.

Definition op_lt (op1 op2 : Z) : Z := bool_word (op1 <? op2).
Definition op_gt (op1 op2 : Z) : Z := bool_word (op1 >? op2).
Definition op_slt (op1 op2 : Z) : Z :=
  bool_word (match i256_cmp op1 op2 with Lt => true | _ => false end).
Definition op_sgt (op1 op2 : Z) : Z :=
  bool_word (match i256_cmp op1 op2 with Gt => true | _ => false end).
Definition op_eq (op1 op2 : Z) : Z := bool_word (op1 =? op2).
Definition op_iszero (op1 : Z) : Z := bool_word (op1 =? 0).
Definition op_and (op1 op2 : Z) : Z := bitand op1 op2.
Definition op_or (op1 op2 : Z) : Z := bitor op1 op2.
Definition op_xor (op1 op2 : Z) : Z := bitxor op1 op2.
Definition op_not (op1 : Z) : Z := bitnot op1.
Definition op_byte (op1 op2 : Z) : Z :=
  let o1 := as_usize_saturated op1 in
  if o1 <? 32 then le_byte op2 (31 - o1) else 0.
Definition op_shl (op1 op2 : Z) : Z :=
  let shift := as_usize_saturated op1 in
  if shift <? 256 then shl_usize op2 shift else 0.
Definition op_shr (op1 op2 : Z) : Z :=
  let shift := as_usize_saturated op1 in
  if shift <? 256 then shr_usize op2 shift else 0.
Definition op_sar (op1 op2 : Z) : Z :=
  let shift := as_usize_saturated op1 in
  if shift <? 256 then arithmetic_shr op2 shift
  else if bit op2 255 then U256_MAX else 0.

(* ---- gas/calc.rs ---- *)
(* u64::leading_zeros of a non-zero limb: 64 - bit length *)
Definition leading_zeros64 (x : Z) : Z := if x =? 0 then 64 else 63 - Z.log2 x.
Definition limb (v i : Z) : Z := (v / 2 ^ (64 * i)) mod pow64.

(* the loop over limbs 3,2,1,0, unrolled by structural recursion on the remaining count *)
Fixpoint log2floor_loop (n : nat) (value l : Z) : Z :=
  match n with
  | O => l
  | S i =>
    let x := limb value (Z.of_nat i) in
    if x =? 0 then log2floor_loop i value (l - 64)
    else let l := l - leading_zeros64 x in
         if l =? 0 then l else l - 1
  end.
Definition log2floor (value : Z) : Z := log2floor_loop 4 value 256.

Definition checked_add256 (a b : Z) : option Z := if a + b <? pow256 then Some (a + b) else None.
Definition checked_mul256 (a b : Z) : option Z := if a * b <? pow256 then Some (a * b) else None.

(* SpecId ordinals (non-optimism build) *)
Definition SPURIOUS_DRAGON : Z := 5.
Definition CONSTANTINOPLE : Z := 7.
Definition is_enabled_in (spec other : Z) : bool := other <=? spec.

Definition EXP : Z := 10.
Definition VERYLOW : Z := 3.
Definition LOW : Z := 5.
Definition MID : Z := 8.

Definition exp_cost (spec power : Z) : option Z :=
  if power =? 0 then Some EXP
  else
    let gas_byte := if is_enabled_in spec SPURIOUS_DRAGON then 50 else 10 in
    match checked_mul256 gas_byte (log2floor power / 8 + 1) with
    | None => None
    | Some m =>
      match checked_add256 EXP m with
      | None => None
      | Some g => if g <? pow64 then Some g else None   (* u64::try_from(gas).ok() *)
      end
    end.

(* ---- the instruction bodies: check! / gas! / pop_top! / write through the top reference.
   The stack is a list with the top at the head.  ---- *)
Inductive iresult := Continue | StackUnderflow | OutOfGas | NotActivated | OpcodeNotFound.

Record istate := mkI { i_res : iresult; i_stack : list Z; i_gas : gas }.

(* gas!(interp, c); body *)
Definition with_gas (c : Z) (st : list Z) (g : gas) (k : gas -> istate) : istate :=
  let '(g', ok) := record_cost g c in
  if ok then k g' else mkI OutOfGas st g.

(* pop_top!(x1): top stays in place and is overwritten *)
Definition unop (c : Z) (f : Z -> Z) (st : list Z) (g : gas) : istate :=
  with_gas c st g (fun g' =>
    match st with
    | a :: r => mkI Continue (f a :: r) g'
    | _ => mkI StackUnderflow st g'
    end).
(* pop_top!(x1, x2): one pop, the new top is overwritten *)
Definition binop (c : Z) (f : Z -> Z -> Z) (st : list Z) (g : gas) : istate :=
  with_gas c st g (fun g' =>
    match st with
    | a :: b :: r => mkI Continue (f a b :: r) g'
    | _ => mkI StackUnderflow st g'
    end).
(* pop_top!(x1, x2, x3): two pops, the new top is overwritten *)
Definition ternop (c : Z) (f : Z -> Z -> Z -> Z) (st : list Z) (g : gas) : istate :=
  with_gas c st g (fun g' =>
    match st with
    | a :: b :: m :: r => mkI Continue (f a b m :: r) g'
    | _ => mkI StackUnderflow st g'
    end).
(* check!(interp, CONSTANTINOPLE) first *)
Definition shiftop (spec : Z) (f : Z -> Z -> Z) (st : list Z) (g : gas) : istate :=
  if negb (is_enabled_in spec CONSTANTINOPLE) then mkI NotActivated st g
  else binop VERYLOW f st g.
(* exp: pop_top! first, then gas_or_fail!; on OutOfGas the pop has already happened *)
Definition expop (spec : Z) (st : list Z) (g : gas) : istate :=
  match st with
  | a :: b :: r =>
    match exp_cost spec b with
    | Some c =>
      let '(g', ok) := record_cost g c in
      if ok then mkI Continue (op_exp a b :: r) g' else mkI OutOfGas (b :: r) g
    | None => mkI OutOfGas (b :: r) g
    end
  | _ => mkI StackUnderflow st g
  end.

(* number of stack inputs of the opcodes of this property (opcode.rs: stack_io) *)
Definition inputs (op : Z) : Z :=
  if (op =? 0x15) || (op =? 0x19) then 1
  else if (op =? 0x08) || (op =? 0x09) then 3 else 2.
Definition is_c03_opcode (op : Z) : bool :=
  ((0x01 <=? op) && (op <=? 0x0B)) || ((0x10 <=? op) && (op <=? 0x1D)).

(* instruction table rows 0x01..0x0B, 0x10..0x1D *)
Definition step (spec op : Z) (st : list Z) (g : gas) : istate :=
  match op with
  | 0x01 => binop VERYLOW op_add st g
  | 0x02 => binop LOW op_mul st g
  | 0x03 => binop VERYLOW op_sub st g
  | 0x04 => binop LOW op_div st g
  | 0x05 => binop LOW op_sdiv st g
  | 0x06 => binop LOW op_rem st g
  | 0x07 => binop LOW op_smod st g
  | 0x08 => ternop MID op_addmod st g
  | 0x09 => ternop MID op_mulmod st g
  | 0x0A => expop spec st g
  | 0x0B => binop LOW op_signextend st g
  | 0x10 => binop VERYLOW op_lt st g
  | 0x11 => binop VERYLOW op_gt st g
  | 0x12 => binop VERYLOW op_slt st g
  | 0x13 => binop VERYLOW op_sgt st g
  | 0x14 => binop VERYLOW op_eq st g
  | 0x15 => unop VERYLOW op_iszero st g
  | 0x16 => binop VERYLOW op_and st g
  | 0x17 => binop VERYLOW op_or st g
  | 0x18 => binop VERYLOW op_xor st g
  | 0x19 => unop VERYLOW op_not st g
  | 0x1A => binop VERYLOW op_byte st g
  | 0x1B => shiftop spec op_shl st g
  | 0x1C => shiftop spec op_shr st g
  | 0x1D => shiftop spec op_sar st g
  | _ => mkI OpcodeNotFound st g
  end.

(* the value an opcode computes from its operands, as a function of the operand list *)
Definition op_value (op : Z) (args : list Z) : option Z :=
  match op, args with
  | 0x01, [a; b] => Some (op_add a b)
  | 0x02, [a; b] => Some (op_mul a b)
  | 0x03, [a; b] => Some (op_sub a b)
  | 0x04, [a; b] => Some (op_div a b)
  | 0x05, [a; b] => Some (op_sdiv a b)
  | 0x06, [a; b] => Some (op_rem a b)
  | 0x07, [a; b] => Some (op_smod a b)
  | 0x08, [a; b; m] => Some (op_addmod a b m)
  | 0x09, [a; b; m] => Some (op_mulmod a b m)
  | 0x0A, [a; b] => Some (op_exp a b)
  | 0x0B, [a; b] => Some (op_signextend a b)
  | 0x10, [a; b] => Some (op_lt a b)
  | 0x11, [a; b] => Some (op_gt a b)
  | 0x12, [a; b] => Some (op_slt a b)
  | 0x13, [a; b] => Some (op_sgt a b)
  | 0x14, [a; b] => Some (op_eq a b)
  | 0x15, [a] => Some (op_iszero a)
  | 0x16, [a; b] => Some (op_and a b)
  | 0x17, [a; b] => Some (op_or a b)
  | 0x18, [a; b] => Some (op_xor a b)
  | 0x19, [a] => Some (op_not a)
  | 0x1A, [a; b] => Some (op_byte a b)
  | 0x1B, [a; b] => Some (op_shl a b)
  | 0x1C, [a; b] => Some (op_shr a b)
  | 0x1D, [a; b] => Some (op_sar a b)
  | _, _ => None
  end.
