(* Model for C28: the places where an attached inspector touches execution.

   Part A — crates/revm/src/inspector/handler_register.rs inspector_instruction (and the LOG
   wrapper around it), Interpreter::step / run of crates/interpreter/src/interpreter.rs, over
   an abstract machine state: [ip] (instruction pointer), [res] (instruction_result, 0 =
   Continue) and everything else of interpreter + EvmContext in [rest : S].  A callback gets
   &mut Interpreter and &mut EvmContext: it is an arbitrary function machine * X -> machine * X
   (X = the inspector's own state); "only observes" is the predicate [observing].

   Part B — the outcome rewriting of GasInspector::call_end / create_end (gas.spend_all() when
   result.is_error(); TracerEip3155 delegates to it) against the gas bookkeeping of
   Interpreter::insert_call_outcome / insert_create_outcome and handler last_frame_return,
   using the reflected classification Gen/ResultClass.v and Model/Gas.v. *)
From RevmV Require Import Base.Word Model.Gas Gen.ResultClass.
Local Open Scope Z_scope.

(* ================= Part A ================= *)
Section Instruction.
  Variable S : Type.   (* stack, memory, gas, contract, journal, db, env, ... *)
  Variable X : Type.   (* the inspector *)

  Record machine := mkM { ip : Z; res : Z; rest : S }.
  Definition set_ip (m : machine) (p : Z) : machine := mkM p (res m) (rest m).

  Definition instruction := machine -> machine.       (* fn(&mut Interpreter, &mut Host) *)
  Definition hook := machine -> X -> machine * X.     (* Inspector::step / step_end / log / initialize_interp *)
  Definition observing (h : hook) : Prop := forall m x, fst (h m x) = m.

  (* fn inspector_instruction(prev, interpreter, host) *)
  Definition inspector_instruction (step_h step_end_h : hook) (prev : instruction)
             (m : machine) (x : X) : machine * X :=
    let m1 := set_ip m (ip m - 1) in                (* instruction_pointer.sub(1) *)
    let '(m2, x2) := step_h m1 x in                 (* inspector.step *)
    if res m2 =? 0 then                             (* instruction_result == Continue *)
      let m3 := set_ip m2 (ip m2 + 1) in            (* instruction_pointer.add(1) *)
      let m4 := prev m3 in                          (* prev(interpreter, host) *)
      step_end_h m4 x2                              (* inspector.step_end *)
    else (m2, x2).

  (* the LOG0..4 wrapper installed around the already wrapped instruction;
     [logs_len] reads host.evm.journaled_state.logs.len() *)
  Definition log_wrapper (logs_len : machine -> Z) (log_h : hook)
             (prev' : machine -> X -> machine * X) (m : machine) (x : X) : machine * X :=
    let n := logs_len m in
    let '(m1, x1) := prev' m x in
    if logs_len m1 =? n + 1 then log_h m1 x1 else (m1, x1).

  (* the SELFDESTRUCT wrapper: Inspector::selfdestruct gets three values, no state *)
  Definition sd_wrapper_state (notify : machine -> machine -> X -> X)
             (prev' : machine -> X -> machine * X) (m : machine) (x : X) : machine * X :=
    let '(m1, x1) := prev' m x in (m1, notify m m1 x1).

  (* Interpreter::step + run: fetch the opcode at ip, advance ip, dispatch; loop while the
     result is Continue.  [fetch] reads the bytecode. *)
  Variable fetch : machine -> Z.

  Fixpoint run (fuel : nat) (table : Z -> instruction) (m : machine) : machine :=
    match fuel with
    | O => m
    | Datatypes.S n =>
        if res m =? 0 then
          let opc := fetch m in
          run n table (table opc (set_ip m (ip m + 1)))
        else m
    end.

  Fixpoint run_inspected (fuel : nat) (table : Z -> machine -> X -> machine * X)
           (m : machine) (x : X) : machine * X :=
    match fuel with
    | O => (m, x)
    | Datatypes.S n =>
        if res m =? 0 then
          let opc := fetch m in
          let '(m', x') := table opc (set_ip m (ip m + 1)) x in
          run_inspected n table m' x'
        else (m, x)
    end.
End Instruction.

(* ================= Part C ================= *)
(* the frame handlers replaced by inspector_handle_register: execution.call / create /
   eofcreate and insert_*_outcome / last_frame_return, over abstract context, inputs, outcome
   and frame types *)
Section Frames.
  Variables (Ctx Inputs Outcome Frame X : Type).

  Inductive frame_or_result := FoFrame (f : Frame) | FoResult (o : Outcome).
  (* Inspector::call / create / eofcreate: &mut EvmContext, &mut inputs -> Option<outcome> *)
  Definition open_hook := Ctx -> Inputs -> X -> Ctx * Inputs * X * option Outcome.
  Definition observing_open (h : open_hook) : Prop :=
    forall c i x, exists x', h c i x = (c, i, x', None).
  (* Inspector::initialize_interp *)
  Definition init_hook := Frame -> Ctx -> X -> Frame * Ctx * X.
  Definition observing_init (h : init_hook) : Prop :=
    forall f c x, exists x', h f c x = (f, c, x').
  (* Inspector::*_end: &mut EvmContext, &inputs, outcome -> outcome *)
  Definition end_hook := Ctx -> Inputs -> Outcome -> X -> Ctx * Outcome * X.

  Definition handler := Ctx -> Inputs -> Ctx * frame_or_result.

  Definition wrapped_open (h : open_hook) (init : init_hook) (prev : handler)
             (c : Ctx) (i : Inputs) (x : X) : Ctx * frame_or_result * X :=
    let '(c1, i1, x1, o) := h c i x in
    match o with
    | Some out => (c1, FoResult out, x1)
    | None =>
        let '(c2, r) := prev c1 i1 in
        match r with
        | FoFrame f => let '(f', c3, x3) := init f c2 x1 in (c3, FoFrame f', x3)
        | FoResult out => (c2, FoResult out, x1)
        end
    end.

  (* insert_*_outcome: [prev_insert ctx frame outcome] *)
  Definition wrapped_insert {R : Type} (e : end_hook) (prev_insert : Ctx -> Outcome -> R)
             (c : Ctx) (i : Inputs) (o : Outcome) (x : X) : R * X :=
    let '(c1, o1, x1) := e c i o x in (prev_insert c1 o1, x1).
End Frames.

(* ================= Part B ================= *)
Fixpoint lookup (t : list (Z * bool * bool * bool * Z)) (d : Z) : option (bool * bool * bool * Z) :=
  match t with
  | [] => None
  | (d', a, b, c, k) :: r => if d =? d' then Some (a, b, c, k) else lookup r d
  end.
(* InstructionResult::is_ok / is_revert / is_error by discriminant (false outside the enum) *)
Definition is_ok (d : Z) : bool := match lookup result_table d with Some (a, _, _, _) => a | None => false end.
Definition is_revert (d : Z) : bool := match lookup result_table d with Some (_, b, _, _) => b | None => false end.
Definition is_error (d : Z) : bool := match lookup result_table d with Some (_, _, c, _) => c | None => false end.
Definition soh_class (d : Z) : Z := match lookup result_table d with Some (_, _, _, k) => k | None => 4 end.
Definition FATAL : Z := 0x65.

(* what of an outcome matters for gas: the result and its Gas (output, memory range and
   created address are handed through by every observing inspector) *)
Definition outcome := (Z * gas)%type.

(* GasInspector::call_end / create_end *)
Definition gas_inspector_end (o : outcome) : outcome :=
  let '(r, g) := o in if is_error r then (r, spend_all g) else (r, g).
(* NoOpInspector: the trait default *)
Definition noop_end (o : outcome) : outcome := o.

Definition obind {A B} (x : option A) (f : A -> option B) : option B :=
  match x with Some a => f a | None => None end.

(* Interpreter::insert_call_outcome and insert_create_outcome, gas of the calling frame.
   None = panic (FatalExternalError, or u64/i64 overflow in a debug build). *)
Definition insert_outcome_gas (parent : gas) (o : outcome) : option gas :=
  let '(r, og) := o in
  if is_ok r then obind (erase_cost parent (remaining og)) (fun g => record_refund g (refunded og))
  else if is_revert r then erase_cost parent (remaining og)
  else if r =? FATAL then None
  else Some parent.

(* handler::mainnet::last_frame_return *)
Definition last_frame_return_gas (tx_gas_limit : Z) (o : outcome) : option gas :=
  let '(r, og) := o in
  let g := gas_new_spent tx_gas_limit in
  if is_ok r then obind (erase_cost g (remaining og)) (fun g' => record_refund g' (refunded og))
  else if is_revert r then erase_cost g (remaining og)
  else Some g.
