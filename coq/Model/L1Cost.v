(* Model of crates/revm/src/optimism/l1block.rs: L1BlockInfo::try_fetch (decoding of the L1Block
   contract's storage slots), data_gas, calculate_tx_l1_cost (bedrock / ecotone / fjord).
   The FastLZ compressed-length estimate is NOT modelled: [e_est] is the value of
   tx_estimated_size_fjord(input) = max(flz_len * 836500 - 42585600 (saturating), 10^8), read off
   the implementation through a probe L1BlockInfo; the byte counts are computed by the harness. *)
From RevmV Require Import Base.Word Model.OpFees.
Local Open Scope Z_scope.

(* storage of 0x4200..0015: slots 1, 5, 6, 3, 7, 8 *)
Record l1slots := mkSlots {
  s_basefee : Z; s_overhead : Z; s_scalar : Z; s_scalars : Z; s_blobfee : Z; s_opscalars : Z }.

(* U256::from_be_slice(&word.to_be_bytes::<32>()[off .. off + n]) *)
Definition be_slice (w off n : Z) : Z := (w / 256 ^ (32 - off - n)) mod 256 ^ n.

Record l1info := mkInfo {
  i_base_fee : Z; i_overhead : option Z; i_base_scalar : Z; i_blob_fee : option Z;
  i_blob_scalar : option Z; i_op_scalar : option Z; i_op_const : option Z; i_empty_scalars : bool }.

Definition try_fetch (sp : Z) (s : l1slots) : l1info :=
  if negb (enabled sp ECOTONE) then
    mkInfo (s_basefee s) (Some (s_overhead s)) (s_scalar s) None None None None false
  else
    let base_scalar := be_slice (s_scalars s) 16 4 in
    let blob_scalar := be_slice (s_scalars s) 20 4 in
    (* l1_blob_base_fee.is_zero() && scalars[16..24] == [0; 8] *)
    let empty := (s_blobfee s =? 0) && (be_slice (s_scalars s) 16 8 =? 0) in
    let overhead := if empty then Some (s_overhead s) else None in
    if enabled sp ISTHMUS then
      mkInfo (s_basefee s) overhead base_scalar (Some (s_blobfee s)) (Some blob_scalar)
             (Some (be_slice (s_opscalars s) 20 4)) (Some (be_slice (s_opscalars s) 24 8)) empty
    else
      mkInfo (s_basefee s) overhead base_scalar (Some (s_blobfee s)) (Some blob_scalar) None None empty.

(* what the cost functions look at in the enveloped transaction *)
Record envsum := mkEnv {
  e_skip : bool;     (* input.is_empty() || input[0] == 0x7F *)
  e_zeros : Z; e_nonzeros : Z;
  e_est : Z          (* tx_estimated_size_fjord(input) *) }.

Definition opt0z (o : option Z) : Z := match o with Some x => x | None => 0 end.

(* data_gas(&self, input, spec_id) *)
Definition data_gas (sp : Z) (e : envsum) : Z :=
  if enabled sp FJORD then sat_mul (e_est e) 16 / 1000000
  else
    let g := e_zeros e * 4 + e_nonzeros e * 16 in
    if negb (enabled sp REGOLITH) then w_add g (w_mul 16 68) else g.

(* calculate_l1_fee_scaled_ecotone *)
Definition l1_fee_scaled (i : l1info) : Z :=
  sat_add (sat_mul (sat_mul (i_base_fee i) 16) (i_base_scalar i))
          (sat_mul (opt0z (i_blob_fee i)) (opt0z (i_blob_scalar i))).

Definition l1_cost_bedrock (sp : Z) (i : l1info) (e : envsum) : Z :=
  sat_mul (sat_mul (sat_add (data_gas sp e) (opt0z (i_overhead i))) (i_base_fee i)) (i_base_scalar i)
  / 1000000.

Definition l1_cost_ecotone (sp : Z) (i : l1info) (e : envsum) : Z :=
  if i_empty_scalars i then l1_cost_bedrock sp i e
  else sat_mul (l1_fee_scaled i) (data_gas sp e) / (1000000 * 16).

Definition l1_cost_fjord (i : l1info) (e : envsum) : Z :=
  sat_mul (e_est e) (l1_fee_scaled i) / 1000000000000.

(* calculate_tx_l1_cost on a fresh L1BlockInfo (tx_l1_cost = None) *)
Definition l1_cost (sp : Z) (i : l1info) (e : envsum) : Z :=
  if e_skip e then 0
  else if enabled sp FJORD then l1_cost_fjord i e
  else if enabled sp ECOTONE then l1_cost_ecotone sp i e
  else l1_cost_bedrock sp i e.
