(* C10, model part: frames as trees of host operations.  A frame runs a list of operations with a
   static flag; state-changing operations are refused when the flag is set (the frame fails); a
   nested call runs its body with the inherited flag [parent || kind in {STATICCALL, EXTSTATICCALL}];
   a failed callee is rolled back and the caller continues.  Mirrors
   instructions/host.rs + contract.rs (require_non_staticcall!, the value check of call/extcall,
   `is_static` of the produced CallInputs) and make_call_frame / call_return (checkpoint, revert).
   Executable; the theorems are in Proofs/StaticProofs.v. *)
From Coq Require Import ZArith List Bool.
Import ListNotations.
Local Open Scope Z_scope.

Inductive call_kind := KCall | KCallCode | KDelegateCall | KStaticCall
                     | KExtCall | KExtDelegateCall | KExtStaticCall.
Definition forces_static (k : call_kind) : bool :=
  match k with KStaticCall | KExtStaticCall => true | _ => false end.
(* value check of `call` / `extcall`; CALLCODE may carry a value in static mode (self transfer) *)
Definition value_checked (k : call_kind) : bool :=
  match k with KCall | KExtCall => true | _ => false end.
(* the storage context the callee runs in *)
Definition callee_context (k : call_kind) (self to : Z) : Z :=
  match k with KCallCode | KDelegateCall | KExtDelegateCall => self | _ => to end.
Definition child_static (parent : bool) (k : call_kind) : bool := parent || forces_static k.

Inductive op : Type :=
| Sstore (key v : Z)
| Tstore (key v : Z)
| Log (ntopics : Z)
| Selfdestruct (beneficiary : Z)
| Create (value : Z) (init : code)
| Call (k : call_kind) (to value : Z) (body : code)
| Access (a : Z)                     (* BALANCE / EXTCODE* / SLOAD ...: only warms *)
| Pure                               (* anything that does not reach the host *)
with code : Type :=
| Done
| Seq (o : op) (rest : code).

Scheme op_mut := Induction for op Sort Prop
  with code_mut := Induction for code Sort Prop.

(* the world state; association lists, newest binding first *)
Record world := mkW {
  w_storage : list (Z * Z * Z);      (* (account, key, value) *)
  w_transient : list (Z * Z * Z);
  w_logs : list (Z * Z);             (* (account, number of topics) *)
  w_balance : list (Z * Z);
  w_nonce : list (Z * Z);
  w_destructed : list Z;
  w_created : list Z;
  w_warm : list Z                    (* access status: NOT part of the state compared by C10 *)
}.

Definition view (w : world) :=
  (w_storage w, w_transient w, w_logs w, w_balance w, w_nonce w, w_destructed w, w_created w).

Fixpoint lookup2 (l : list (Z * Z)) (a : Z) : Z :=
  match l with [] => 0 | (x, v) :: r => if x =? a then v else lookup2 r a end.

Definition warm (w : world) (a : Z) : world :=
  mkW (w_storage w) (w_transient w) (w_logs w) (w_balance w) (w_nonce w) (w_destructed w) (w_created w) (a :: w_warm w).
Definition set_storage (w : world) (a k v : Z) : world :=
  mkW ((a, k, v) :: w_storage w) (w_transient w) (w_logs w) (w_balance w) (w_nonce w) (w_destructed w) (w_created w) (w_warm w).
Definition set_transient (w : world) (a k v : Z) : world :=
  mkW (w_storage w) ((a, k, v) :: w_transient w) (w_logs w) (w_balance w) (w_nonce w) (w_destructed w) (w_created w) (w_warm w).
Definition add_log (w : world) (a n : Z) : world :=
  mkW (w_storage w) (w_transient w) ((a, n) :: w_logs w) (w_balance w) (w_nonce w) (w_destructed w) (w_created w) (w_warm w).
Definition set_balance (w : world) (a v : Z) : world :=
  mkW (w_storage w) (w_transient w) (w_logs w) ((a, v) :: w_balance w) (w_nonce w) (w_destructed w) (w_created w) (w_warm w).
Definition bump_nonce (w : world) (a : Z) : world :=
  mkW (w_storage w) (w_transient w) (w_logs w) (w_balance w) ((a, lookup2 (w_nonce w) a + 1) :: w_nonce w) (w_destructed w) (w_created w) (w_warm w).
Definition mark_destructed (w : world) (a : Z) : world :=
  mkW (w_storage w) (w_transient w) (w_logs w) (w_balance w) (w_nonce w) (a :: w_destructed w) (w_created w) (w_warm w).
Definition mark_created (w : world) (a : Z) : world :=
  mkW (w_storage w) (w_transient w) (w_logs w) (w_balance w) (w_nonce w) (w_destructed w) (a :: w_created w) (w_warm w).

(* move [v] from [a] to [b]; None when the balance is insufficient *)
Definition transfer (w : world) (a b v : Z) : option world :=
  if v =? 0 then Some w
  else if lookup2 (w_balance w) a <? v then None
  else let w1 := set_balance w a (lookup2 (w_balance w) a - v) in
       Some (set_balance w1 b (lookup2 (w_balance w1) b + v)).

(* address of a created contract: abstract, any function of creator and nonce *)
Definition new_address (creator nonce : Z) : Z := 1000003 * creator + nonce + 7.

(* [exec_op st self o w]: None = the frame fails (everything it did is rolled back by its caller);
   Some w' = the operation completed *)
Fixpoint exec_op (st : bool) (self : Z) (o : op) (w : world) {struct o} : option world :=
  match o with
  | Sstore k v => if st then None else Some (set_storage w self k v)
  | Tstore k v => if st then None else Some (set_transient w self k v)
  | Log n => if st then None else Some (add_log w self n)
  | Selfdestruct b =>
      if st then None
      else let bal := lookup2 (w_balance w) self in
           let w1 := set_balance w self 0 in
           Some (mark_destructed (set_balance w1 b (lookup2 (w_balance w1) b + bal)) self)
  | Create value init =>
      if st then None
      else
        let w0 := bump_nonce w self in
        let a := new_address self (lookup2 (w_nonce w) self) in
        (* the created frame is never static; a failed creation is rolled back to [w0] *)
        match transfer (mark_created (warm w0 a) a) self a value with
        | None => Some w0
        | Some w1 => match exec_code false a init w1 with
                     | Some w2 => Some w2
                     | None => Some w0
                     end
        end
  | Call k to value body =>
      if st && value_checked k && negb (value =? 0) then None
      else
        let w0 := warm w to in                                   (* loaded before the checkpoint *)
        let moved := if value_checked k then transfer w0 self to value else Some w0 in
        match moved with
        | None => Some w0                                        (* OutOfFunds: callee not run *)
        | Some w1 =>
            match exec_code (child_static st k) (callee_context k self to) body w1 with
            | Some w2 => Some w2
            | None => Some w0                                    (* callee failed: checkpoint_revert *)
            end
        end
  | Access a => Some (warm w a)
  | Pure => Some w
  end
with exec_code (st : bool) (self : Z) (c : code) (w : world) {struct c} : option world :=
  match c with
  | Done => Some w
  | Seq o r => match exec_op st self o w with
               | Some w' => exec_code st self r w'
               | None => None
               end
  end.

Definition is_mutating (o : op) : bool :=
  match o with
  | Sstore _ _ | Tstore _ _ | Log _ | Selfdestruct _ | Create _ _ => true
  | Call k _ v _ => value_checked k && negb (v =? 0)
  | _ => false
  end.
